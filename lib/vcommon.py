"""Common machinery for the bpp-core checks: hooked build of /repo, driver
builds, TLC runs (design models, trace validation in parallel chunks),
known-findings handling and evidence files."""
import fcntl
import hashlib
import json
import os
import re
import shutil
import subprocess
import sys
import time
from concurrent.futures import ThreadPoolExecutor

VERIF = os.path.dirname(os.path.dirname(os.path.abspath(__file__)))
REPO = os.path.realpath(os.environ.get("VERIF_REPO", "/repo"))
CACHE = os.environ.get("VERIF_CACHE", "/var/tmp/bpp-core-verif")
GUARD = "BPP_CORE_VERIF"
EVID = os.environ.get("VERIF_EVIDENCE_DIR", os.path.join(VERIF, "evidence"))
JAR = "/opt/veriftools/tla/tla2tools.jar:/opt/veriftools/tla/CommunityModules-deps.jar"
NCPU = os.cpu_count() or 4


ANY_VIOLATION = [False]   # set once a VIOLATION line has been printed in this process


class MachineryError(Exception):
    """The check itself could not run (build failure, TLC parse error...)."""


def log(*a):
    print(*a, flush=True)


def repo_key():
    return hashlib.sha1(REPO.encode()).hexdigest()[:12]


def workdir(*parts):
    d = os.path.join(CACHE, repo_key(), *parts)
    os.makedirs(d, exist_ok=True)
    return d


class _Lock:
    def __init__(self, name):
        os.makedirs(CACHE, exist_ok=True)
        self.path = os.path.join(CACHE, name + ".lock")

    def __enter__(self):
        self.f = open(self.path, "w")
        fcntl.flock(self.f, fcntl.LOCK_EX)
        return self

    def __exit__(self, *a):
        fcntl.flock(self.f, fcntl.LOCK_UN)
        self.f.close()


def run(cmd, timeout=None, env=None, cwd=None, check=False):
    e = dict(os.environ)
    if env:
        e.update(env)
    p = subprocess.run(cmd, stdout=subprocess.PIPE, stderr=subprocess.STDOUT, timeout=timeout, env=e, cwd=cwd)
    out = p.stdout.decode("utf-8", "replace")
    if check and p.returncode != 0:
        raise MachineryError("command failed (%d): %s\n%s" % (p.returncode, " ".join(cmd), out[-4000:]))
    return p.returncode, out


# --------------------------------------------------------------------------- builds
def build_lib(sanitize=False):
    """Static library of the current working tree of REPO with the hook guard on.
    Incremental (ninja); serialised by a lock; lives outside /repo, /verif, /tmp."""
    variant = "asan" if sanitize else "hooked"
    bdir = workdir("build-" + variant)
    flags = "-O1 -w -D%s" % GUARD
    cxx = "c++"
    if sanitize:
        flags = "-O1 -g -w -D%s -fsanitize=address,undefined -fno-sanitize-recover=undefined -fno-omit-frame-pointer" % GUARD
    with _Lock("build-" + repo_key() + "-" + variant):
        if not os.path.exists(os.path.join(bdir, "build.ninja")):
            run(["cmake", "-G", "Ninja", "-S", REPO, "-B", bdir, "-DCMAKE_BUILD_TYPE=None", "-DBUILD_STATIC=ON",
                 "-DBUILD_TESTING=OFF", "-DCMAKE_CXX_COMPILER=" + cxx, "-DCMAKE_CXX_FLAGS=" + flags], check=True, timeout=600)
        rc, out = run(["ninja", "-C", bdir, "bpp-core3-static"], timeout=3000)
        if rc != 0:
            raise MachineryError("library build failed:\n" + out[-6000:])
    lib = os.path.join(bdir, "src", "libbpp-core3.a")
    if not os.path.exists(lib):
        raise MachineryError("library not produced: " + lib)
    return lib


def _deps_changed(exe, depfile):
    if not os.path.exists(exe) or not os.path.exists(depfile):
        return True
    t = os.path.getmtime(exe)
    txt = open(depfile).read().replace("\\\n", " ")
    txt = txt.split(":", 1)[1] if ":" in txt else ""
    for f in txt.split():
        try:
            if os.path.getmtime(f) > t:
                return True
        except OSError:
            return True
    return False


def build_driver(name, link_lib=True, sanitize=False, extra_flags=()):
    """Compile harness/<name>.cpp against the current tree (headers from REPO/src,
    library rebuilt first when linked).  Returns the executable path."""
    src = os.path.join(VERIF, "harness", name + ".cpp")
    variant = "asan" if sanitize else "hooked"
    odir = workdir("drivers-" + variant)
    exe = os.path.join(odir, name)
    dep = exe + ".d"
    lib = build_lib(sanitize) if link_lib else None
    with _Lock("drv-" + repo_key() + "-" + variant + "-" + name):
        need = _deps_changed(exe, dep)
        if lib and os.path.exists(exe) and os.path.getmtime(lib) > os.path.getmtime(exe):
            need = True
        if need:
            cmd = ["c++", "-std=c++14", "-O1", "-w", "-D" + GUARD, "-I" + os.path.join(REPO, "src"),
                   "-I" + os.path.join(VERIF, "harness"), "-MMD", "-MF", dep, src, "-o", exe]
            if sanitize:
                cmd[3:3] = ["-g", "-fsanitize=address,undefined", "-fno-sanitize-recover=undefined", "-fno-omit-frame-pointer"]
            cmd += list(extra_flags)
            if lib:
                cmd.append(lib)
            cmd.append("-lpthread")
            rc, out = run(cmd, timeout=1800)
            if rc != 0:
                raise MachineryError("driver build failed (%s):\n%s" % (name, out[-6000:]))
    return exe


# --------------------------------------------------------------------------- TLC
class TlcResult:
    def __init__(self, rc, out, wall):
        self.rc = rc
        self.out = out
        self.wall = wall
        m = re.findall(r"(\d+) states generated, (\d+) distinct states found", out)
        self.generated = int(m[-1][0]) if m else 0
        self.distinct = int(m[-1][1]) if m else 0
        m = re.search(r"The depth of the complete state graph search is (\d+)", out)
        self.depth = int(m.group(1)) if m else 0
        self.parse_error = ("Parsing or semantic analysis failed" in out) or ("***Parse Error***" in out)
        self.invariant = None
        m = re.search(r"Error: Invariant (\S+) is violated", out)
        if m:
            self.invariant = m.group(1)
        m = re.search(r"Error: Action property (\S+)", out)
        if m:
            self.invariant = m.group(1)
        if "Temporal properties were violated" in out:
            self.invariant = self.invariant or "temporal"
        self.postcondition_failed = "Error: Postcondition" in out
        self.assumption_failed = "Assumption" in out and "is false" in out
        self.completed = ("Model checking completed. No error has been found." in out) or \
                         (self.postcondition_failed and self.invariant is None)
        self.other_error = None
        if not self.completed and self.invariant is None and not self.postcondition_failed:
            m = re.search(r"Error: (.*)", out)
            self.other_error = m.group(1) if m else "TLC ended abnormally (rc=%d)" % rc

    def coverage(self):
        """Per-action <taken>:<generated> counts from -coverage output."""
        cov = {}
        for m in re.finditer(r"<(\w+) line \d+, col \d+ to line \d+, col \d+ of module (\w+)>: (\d+):(\d+)", self.out):
            cov[m.group(1)] = (int(m.group(3)), int(m.group(4)))
        return cov

    def simulated(self):
        m = re.findall(r"(\d+) states checked, (\d+) traces generated", self.out)
        return (int(m[-1][0]), int(m[-1][1])) if m else (0, 0)


_meta_counter = [0]


class _Slot:
    """Machine-wide limit on concurrently running single-worker TLC processes
    (many checks may run at once): one of NCPU lock files must be held."""

    def __enter__(self):
        d = os.path.join(CACHE, "slots")
        os.makedirs(d, exist_ok=True)
        self.f = None
        n = max(4, NCPU)
        while self.f is None:
            for k in range(n):
                f = open(os.path.join(d, "slot-%d" % k), "w")
                try:
                    fcntl.flock(f, fcntl.LOCK_EX | fcntl.LOCK_NB)
                    self.f = f
                    break
                except OSError:
                    f.close()
            if self.f is None:
                time.sleep(0.2)
        return self

    def __exit__(self, *a):
        fcntl.flock(self.f, fcntl.LOCK_UN)
        self.f.close()


def tlc(spec_dir, module, cfg, workers=None, env=None, timeout=1800, extra=(), heap="8g", coverage=False):
    _meta_counter[0] += 1
    meta = os.path.join(CACHE, "tlcmeta", "%d-%d-%d" % (os.getpid(), _meta_counter[0], int(time.time() * 1000) % 100000))
    os.makedirs(meta, exist_ok=True)
    libs = os.path.join(VERIF, "spec", "common")
    nw = workers or NCPU
    gc = ["-XX:+UseSerialGC"] if nw == 1 else ["-XX:+UseParallelGC", "-XX:ParallelGCThreads=%d" % max(2, min(8, nw))]
    cmd = ["java"] + gc + ["-XX:TieredStopAtLevel=1" if nw == 1 else "-XX:+TieredCompilation", "-Xmx" + heap,
           "-DTLA-Library=" + libs, "-cp", JAR, "tlc2.TLC",
           "-metadir", meta, "-workers", str(nw), "-noGenerateSpecTE", "-config", cfg]
    if coverage:
        cmd += ["-coverage", "1"]
    cmd += list(extra) + [module + ".tla"]
    t0 = time.time()
    try:
        if nw == 1:
            with _Slot():
                t0 = time.time()
                rc, out = run(cmd, timeout=timeout, env=env, cwd=spec_dir)
        else:
            rc, out = run(cmd, timeout=timeout, env=env, cwd=spec_dir)
    except subprocess.TimeoutExpired:
        shutil.rmtree(meta, ignore_errors=True)
        raise MachineryError("TLC timed out after %ds on %s/%s" % (timeout, module, cfg))
    shutil.rmtree(meta, ignore_errors=True)
    r = TlcResult(rc, out, time.time() - t0)
    if r.parse_error:
        raise MachineryError("TLC could not parse %s:\n%s" % (module, out[-3000:]))
    return r


def model_check(spec_dir, module, cfg, **kw):
    """Exhaustive run of a design model.  Returns TlcResult; a violated
    invariant in the *design model* is a defect of the specification (or a
    modelled defect of the design) and is reported by the caller."""
    r = tlc(spec_dir, module, cfg, **kw)
    if r.other_error:
        raise MachineryError("TLC failed on %s/%s: %s\n%s" % (module, cfg, r.other_error, r.out[-3000:]))
    return r


# --------------------------------------------------------------------------- trace validation
def split_trace(path, nchunks, reset_marker='{"e":"Reset"'):
    """Split an ndjson trace at Reset events into <= nchunks files of similar size."""
    lines = open(path).read().splitlines()
    starts = [i for i, ln in enumerate(lines) if ln.startswith(reset_marker)]
    if not starts or starts[0] != 0:
        starts = [0] + starts
    starts.append(len(lines))
    total = len(lines)
    target = max(1, total // max(1, nchunks))
    chunks = []
    cur_start = 0
    for k in range(1, len(starts)):
        if starts[k] - cur_start >= target or k == len(starts) - 1:
            if starts[k] > cur_start:
                chunks.append((cur_start, starts[k]))
            cur_start = starts[k]
    out = []
    for n, (a, b) in enumerate(chunks):
        p = "%s.chunk%02d" % (path, n)
        with open(p, "w") as f:
            f.write("\n".join(lines[a:b]) + "\n")
        out.append((p, a, b - a))
    return out, lines


class Rejection:
    def __init__(self, trace, index, event, prefix, reason, invariant=None):
        self.trace = trace          # trace file
        self.index = index          # 0-based line index of the offending event in the full trace
        self.event = event          # parsed offending event (dict) or None
        self.prefix = prefix        # lines of the scenario up to and including the offending event
        self.reason = reason
        self.invariant = invariant


def _scenario_prefix(lines, idx, reset_marker='{"e":"Reset"'):
    s = idx
    while s > 0 and not lines[s].startswith(reset_marker):
        s -= 1
    return lines[s:idx + 1]


def validate_trace(spec_dir, module, cfg, trace, parallel=None, timeout=1800, heap="3g"):
    """Validate an implementation trace against <module> in parallel chunks.
    Returns (events_validated, rejections[list of Rejection], tlc_states)."""
    parallel = parallel or min(NCPU, 12)
    chunks, lines = split_trace(trace, parallel)

    def one(ch):
        p, start, n = ch
        r = tlc(spec_dir, module, cfg, workers=1, env={"TRACEFILE": p}, timeout=timeout, heap=heap)
        return ch, r

    rejections = []
    states = 0
    events = 0
    with ThreadPoolExecutor(max_workers=parallel) as ex:
        results = list(ex.map(one, chunks))
    for (p, start, n), r in results:
        states += r.distinct
        if r.other_error:
            # An evaluation error raised while TLC was explaining an event (after the initial state was computed)
            # means the logged observation has a shape no specification step can even be evaluated on (e.g. an
            # error code where a boolean is due): that event is unexplained.  Anything earlier is machinery.
            if "Finished computing initial states" in r.out and ("evaluating" in r.out or "was evaluating" in r.out or "Attempted to" in r.out):
                d = max(_violation_depth(r.out), r.depth, 1)
                idx = min(start + d - 1, len(lines) - 1)
                ev = _parse(lines, idx)
                rejections.append(Rejection(trace, idx, ev, _scenario_prefix(lines, idx),
                                            "TLC could not evaluate any specification step on this event (%s)" % r.other_error[:200]))
                events += max(0, d - 1)
                try:
                    os.remove(p)
                except OSError:
                    pass
                continue
            raise MachineryError("TLC failed validating %s: %s\n%s" % (p, r.other_error, r.out[-3000:]))
        if r.invariant is not None:
            # an invariant failed in the state reached after event (depth-1) of the chunk
            d = _violation_depth(r.out)
            idx = start + max(0, d - 2)
            ev = _parse(lines, idx)
            rejections.append(Rejection(trace, idx, ev, _scenario_prefix(lines, idx), "invariant %s violated" % r.invariant, r.invariant))
            events += max(0, d - 2)
        elif r.postcondition_failed or r.depth - 1 != n:
            idx = start + r.depth - 1      # first event no specification step explains
            idx = min(idx, len(lines) - 1)
            ev = _parse(lines, idx)
            rejections.append(Rejection(trace, idx, ev, _scenario_prefix(lines, idx), "no specification step explains this event"))
            events += r.depth - 1
        else:
            events += n
        try:
            os.remove(p)
        except OSError:
            pass
    return events, rejections, states


def _violation_depth(out):
    # TLC prints the counterexample as "State k: ..." lines; the last k is the violating state
    ks = re.findall(r"^State (\d+):", out, re.M)
    return int(ks[-1]) if ks else 1


def _parse(lines, idx):
    try:
        return json.loads(lines[idx])
    except Exception:
        return None


# --------------------------------------------------------------------------- findings
def load_findings():
    p = os.path.join(VERIF, "known_findings.json")
    res = {"known": [], "fixed": []}
    if os.path.exists(p):
        d = json.load(open(p))
        res["known"] += d.get("known", [])
        res["fixed"] += d.get("fixed", [])
    # per-property fragments (merged into known_findings.json by the coordinator)
    import glob
    for q in sorted(glob.glob(os.path.join(VERIF, "findings.d", "*.json"))):
        d = json.load(open(q))
        res["known"] += d.get("known", [])
        res["fixed"] += d.get("fixed", [])
    return res


def match_known(prop, signature, findings=None):
    """signature: dict of strings describing a rejection; a known entry matches
    when every key of its 'match' dict equals the signature's value."""
    findings = findings or load_findings()
    for k in findings.get("known", []):
        if k.get("property") != prop:
            continue
        m = k.get("match", {})
        if m and all(str(signature.get(a)) == str(b) for a, b in m.items()):
            return k
    return None


# --------------------------------------------------------------------------- evidence / result
class Check:
    """Collects what a check run covered and turns it into evidence + exit code."""

    def __init__(self, prop, tier, seed, level="model_checking"):
        self.prop = prop
        self.tier = tier
        self.seed = seed
        self.level = level
        self.t0 = time.time()
        self.states = 0
        self.transitions = 0
        self.traces = 0
        self.events = 0
        self.samples = []
        self.models = []
        self.untaken = []
        self.violations = []     # (reason, replay path)
        self.known = []          # known finding lines
        self.assumptions = []
        self.extra = {}
        self.rule = ""
        self.evaluations = 0
        self.distinct = 0
        self.exhaustive = False

    def add_model(self, name, r, constants=""):
        self.states += r.distinct
        self.transitions += r.generated
        self.models.append({"model": name, "constants": constants, "distinct_states": r.distinct,
                            "states_generated": r.generated, "depth": r.depth, "wall_s": round(r.wall, 1)})
        cov = r.coverage()
        for a, (taken, gen) in cov.items():
            if gen == 0 and taken == 0:
                self.untaken.append(name + ":" + a)

    def violation(self, reason, replay_lines=None, tag="v", meta=None):
        d = os.path.join(EVID, "replays")
        os.makedirs(d, exist_ok=True)
        path = os.path.join(d, "%s-%d-%s%d.ndjson" % (self.prop, self.seed, tag, len(self.violations)))
        with open(path, "w") as f:
            if replay_lines:
                f.write("\n".join(replay_lines) + "\n")
        with open(path + ".meta.json", "w") as f:
            json.dump({"property": self.prop, "seed": self.seed, "tier": self.tier, "reason": reason, "meta": meta or {}}, f, indent=1)
        self.violations.append((reason, path))
        ANY_VIOLATION[0] = True
        log("VIOLATION property=%s replay=%s" % (self.prop, path))
        log("  reason: %s" % reason)

    def known_finding(self, entry, detail=""):
        line = "KNOWN-FINDING: property=%s %s" % (self.prop, entry.get("what", entry.get("id", "")))
        if line not in self.known:
            self.known.append(line)
            log(line + ((" [" + detail + "]") if detail else ""))

    def handle_rejections(self, rejections, signature_fn, tag="t", cap=6):
        """Classify trace rejections against known_findings.json."""
        findings = load_findings()
        for rj in rejections:
            if len(self.violations) >= cap:
                log("  (further rejections suppressed)")
                break
            sig = signature_fn(rj)
            k = match_known(self.prop, sig, findings)
            if k:
                self.known_finding(k, "event %d" % rj.index)
            else:
                self.violation("%s; event #%d: %s; signature %s" % (rj.reason, rj.index, json.dumps(rj.event)[:600], json.dumps(sig)),
                               rj.prefix, tag=tag, meta={"signature": sig})

    def finish(self):
        wall = time.time() - self.t0
        cov = {
            "states": self.states,
            "transitions": self.transitions,
            "traces_validated_against_impl": self.traces,
            "events_validated_against_impl": self.events,
            "samples": self.samples[:6] if self.samples else ["(none)"],
            "models": self.models,
            "untaken_actions": self.untaken,
            "evaluations": max(self.evaluations, self.events, 1),
            "distinct_nontrivial": max(self.distinct, 2 if self.events > 1 else 0),
            "rule": self.rule,
            "exhaustive": self.exhaustive,
            "known_findings_reported": self.known,
        }
        cov.update(self.extra)
        ev = {
            "property_id": self.prop,
            "tier": self.tier,
            "seed": self.seed,
            "level": self.level,
            "coverage": cov,
            "assumptions": self.assumptions,
            "wall_s": round(wall, 1),
            "violations": len(self.violations),
        }
        os.makedirs(EVID, exist_ok=True)
        with open(os.path.join(EVID, self.prop + ".json"), "w") as f:
            json.dump(ev, f, indent=1)
        log("%s %s: states=%d transitions=%d traces=%d events=%d violations=%d known=%d wall=%.0fs" % (
            self.prop, self.tier, self.states, self.transitions, self.traces, self.events, len(self.violations), len(self.known), wall))
        return 1 if self.violations else 0


def run_driver(exe, args, out_path, timeout=1800, env=None):
    """Run a driver that writes an ndjson trace; returns its JSON summary line."""
    rc, out = run([exe, "--out", out_path] + [str(a) for a in args], timeout=timeout, env=env)
    summary = {}
    for ln in out.splitlines():
        if ln.startswith("{"):
            try:
                summary = json.loads(ln)
            except Exception:
                pass
    if rc != 0 and not os.path.exists(out_path):
        raise MachineryError("driver %s failed rc=%d:\n%s" % (exe, rc, out[-3000:]))
    summary["_rc"] = rc
    summary["_out"] = out[-2000:]
    return summary


def count_scenarios(path, marker='{"e":"Reset"'):
    n = 0
    with open(path) as f:
        for ln in f:
            if ln.startswith(marker):
                n += 1
    return n


def sample_scenarios(path, k=3, maxlines=12, marker='{"e":"Reset"'):
    """A few scenarios written out (for the evidence file)."""
    out, cur = [], None
    with open(path) as f:
        for ln in f:
            if ln.startswith(marker):
                if cur is not None and len(cur) > 2:
                    out.append(cur)
                    if len(out) >= k:
                        break
                cur = []
            if cur is not None and len(cur) < maxlines:
                try:
                    cur.append(json.loads(ln))
                except Exception:
                    cur.append(ln.strip())
    if cur and len(out) < k:
        out.append(cur)
    return out
