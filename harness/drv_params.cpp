// Conformance driver for C01 (constrained parameters, interval algebra, AutoParameter)
// and C02 (parameter lists / owning objects).  Runs real histories on the library built
// from $VERIF_REPO and logs one ndjson event per public call (also on the throw path)
// with the full projected state; spec/Params/ParamsTrace.tla is the judge.
//
// Encoding E1: every real is drawn from a per-scenario sorted pool p0 < p1 < ...; only
// integer codes are logged: 4k = pool point k, 4k+1 / 4k-1 = one constraint precision step
// (1e-12) above / below it, 4k+2 = half way to the next point, -2 / 4(K-1)+2 = half a unit
// below / above the pool, +-1000000 = the infinite bounds.  Values read back from the
// library are mapped to codes by exact equality; anything else becomes -999999.
//
//   drv_params --out F --mode alg   --k K --n N     interval algebra: exhaustive on a K-point grid + N random pools
//   drv_params --out F --mode cross --k K           C01 exhaustive: intervals x values x requests on a K-point grid
//   drv_params --out F --mode param --n N           C01 histories on single parameters and list/owner routes
//   drv_params --out F --mode prec  --n N           C01 histories with parameter precision on integer pools
//   drv_params --out F --mode list  --n N           C02 histories on lists and owning objects
//   drv_params --out F --mode bulk  --nmax M        C02 bulk updates: offending entry at every position (exhaustive)
#include "tracer.h"
#include "param_audit.h"

#include <Bpp/App/ApplicationTools.h>
#include <Bpp/Exceptions.h>
#include <Bpp/Numeric/AbstractParametrizable.h>
#include <Bpp/Numeric/AutoParameter.h>
#include <Bpp/Numeric/Constraints.h>
#include <Bpp/Numeric/Parameter.h>
#include <Bpp/Numeric/ParameterList.h>

#include <algorithm>
#include <cmath>
#include <limits>
#include <map>
#include <memory>
#include <set>

using namespace vt;
using bpp::AutoParameter;
using bpp::ConstraintInterface;
using bpp::IntervalConstraint;
using bpp::Parameter;
using bpp::ParameterList;

static const long NINF = -1000000, PINF = 1000000, UNKNOWN = -999999;
static const double STEP = 1e-12; // NumConstants::TINY(), the default precision of a constraint (a scenario may use another one)

// ---------------------------------------------------------------- E1 codec
struct Codec
{
  std::vector<double> pool;
  std::vector<std::string> text; // exact decimal spelling of each pool point
  double step = STEP;            // the precision every constraint of the scenario is built with: codes 4k+-1 are exactly
                                 // pool[k] +- step, the double the library computes as bound +- its own precision
  long K() const { return static_cast<long>(pool.size()); }
  long lowest() const { return -2; }
  long highest() const { return 4 * (K() - 1) + 2; }
  double dec(long c) const
  {
    if (c == NINF) return -std::numeric_limits<double>::infinity();
    if (c == PINF) return std::numeric_limits<double>::infinity();
    long k = c >= 0 ? c / 4 : -((-c + 3) / 4);
    long r = c - 4 * k;
    switch (r)
    {
    case 0: return pool[static_cast<size_t>(k)];
    case 1: return pool[static_cast<size_t>(k)] + step;
    case 3: return pool[static_cast<size_t>(k + 1)] - step;
    default:
      if (k < 0) return pool[0] - 0.5;
      if (k >= K() - 1) return pool[static_cast<size_t>(K() - 1)] + 0.5;
      return (pool[static_cast<size_t>(k)] + pool[static_cast<size_t>(k + 1)]) / 2;
    }
  }
  long enc(double x) const
  {
    if (x == -std::numeric_limits<double>::infinity()) return NINF;
    if (x == std::numeric_limits<double>::infinity()) return PINF;
    for (long c = lowest() + 1; c <= highest() - 1; ++c)
      if (dec(c) == x) return c;
    if (dec(lowest()) == x) return lowest();
    if (dec(highest()) == x) return highest();
    return UNKNOWN;
  }
};

struct Iv // an interval in codes
{
  long lo, hi;
  int il, iu;
};

static Arr ivArr(const Iv& i) { return Arr().add(i.lo).add(i.hi).add(i.il).add(i.iu); }

// ---------------------------------------------------------------- the owning object
class Owner : public bpp::AbstractParametrizable
{
public:
  std::vector<std::vector<std::string>> fired;
  Owner() : AbstractParametrizable(""), fired() {}
  Owner* clone() const override { return new Owner(*this); }
  void fireParameterChanged(const ParameterList& pl) override { fired.push_back(pl.getParameterNames()); }
  ParameterList& plist() { return getParameters_(); }
  void xAdd(Parameter* p) { addParameter_(p); }
  void xAddAll(const ParameterList& pl) { addParameters_(pl); }
  void xShare(const std::shared_ptr<Parameter>& p) { shareParameter_(p); }
  void xShareAll(const ParameterList& pl) { shareParameters_(pl); }
  void xInclude(const ParameterList& pl) { includeParameters_(pl); }
  void xDelIdx(size_t i) { deleteParameter_(i); }
  void xDelName(std::string n) { deleteParameter_(n); }
  void xDelNames(const std::vector<std::string>& ns) { deleteParameters_(ns); }
  void xReset() { resetParameters_(); }
};

// ---------------------------------------------------------------- scenario world
struct World
{
  Codec cd;
  Rng& rng;
  long scenarios = 0;
  std::map<const Parameter*, int> ids;           // object identity
  std::vector<std::shared_ptr<Parameter>> keep;  // every object ever seen stays alive: addresses are never reused
  std::map<int, std::shared_ptr<Parameter>> byId;
  std::vector<int> held;                         // handles the driver still uses (logged)
  std::map<int, std::unique_ptr<ParameterList>> lists;
  std::map<int, std::unique_ptr<Owner>> owners;
  int nextId = 1, nextList = 1;

  explicit World(Rng& r) : cd(), rng(r), ids(), keep(), byId(), held(), lists(), owners() {}

  // ------------------------------------------------------------ pools
  // G: granularity of the pool in units of 1e-9 (1 for the default constraint precision; 100 x precision otherwise, so
  // that "one precision step from a bound" stays far from the next point and from the mid-points)
  void makePool(long k, bool integer, long long G = 1)
  {
    cd.pool.clear();
    cd.text.clear();
    if (integer)
    {
      long base = rng.range(-3, 0);
      for (long i = 0; i < k; ++i)
      {
        cd.pool.push_back(static_cast<double>(base + i));
        cd.text.push_back(std::to_string(base + i));
      }
      return;
    }
    // values are multiples of 1e-9 (|x| <= 1e3) so that each has an exact short decimal spelling; most are multiples of
    // 1e-6, now and then two points are only 1e-9 apart (the narrowest interval of the quantifier; still >> 1e-12)
    std::set<long long> nano;
    if (rng.chance(7, 10))
    {
      nano.insert(0);
      if (rng.coin()) nano.insert(1000000000LL);
    }
    while (static_cast<long>(nano.size()) < k)
    {
      long long m;
      if (G > 1)
      {
        long long R = 1000000000000LL / G;
        switch (rng.below(3))
        {
        case 0: m = static_cast<long long>(rng.range(-static_cast<long>(R), static_cast<long>(R))) * G; break;
        case 1: m = static_cast<long long>(rng.range(-40, 40)) * G; break;
        default:
          if (nano.empty()) continue;
          {
            auto it = nano.begin();
            std::advance(it, static_cast<long>(rng.below(nano.size())));
            m = *it + (rng.coin() ? G : -G);
            if (m > 1000000000000LL || m < -1000000000000LL) continue;
          }
          break;
        }
        nano.insert(m);
        continue;
      }
      switch (rng.below(5))
      {
      case 0: m = static_cast<long long>(rng.range(-1000000000L, 1000000000L)) * 1000; break; // |x| <= 1e3
      case 1: m = static_cast<long long>(rng.range(-5000000, 5000000)) * 1000; break;
      case 2: m = static_cast<long long>(rng.range(-20, 20)) * 250000000LL; break;
      case 3: m = static_cast<long long>(rng.range(-3000, 3000)) * 1000; break;              // close to zero
      default:
        if (nano.empty()) continue;
        {
          auto it = nano.begin();
          std::advance(it, static_cast<long>(rng.below(nano.size())));
          m = *it + (rng.coin() ? 1 : -1);                                                    // 1e-9 next to a point
          if (m > 1000000000000LL || m < -1000000000000LL) continue;
        }
        break;
      }
      nano.insert(m);
    }
    for (long long m : nano)
    {
      char b[64];
      long long a = m < 0 ? -m : m;
      snprintf(b, sizeof b, "%s%lld.%09lld", m < 0 ? "-" : "", a / 1000000000LL, a % 1000000000LL);
      cd.text.push_back(b);
      cd.pool.push_back(strtod(b, nullptr));
    }
  }

  // stepKind: 0 default constraint precision 1e-12, 1: 1e-6, 2: 1e-3 (coarser pools), 3: 0.25 on an integer pool
  void reset(const char* mode, long k, bool integer = false, int stepKind = 0)
  {
    lists.clear();
    owners.clear();
    held.clear();
    byId.clear();
    keep.clear();
    ids.clear();
    nextId = 1;
    nextList = 1;
    cd.step = stepKind == 1 ? 1e-6 : stepKind == 2 ? 1e-3 : stepKind == 3 ? 0.25 : STEP;
    makePool(k, integer || stepKind == 3, stepKind == 1 ? 100000LL : stepKind == 2 ? 100000000LL : 1);
    tracer().emit(Obj().kv("e", "Reset").kv("mode", mode).kv("K", cd.K()).kv("step", stepKind == 1 ? "1e-6" : stepKind == 2 ? "1e-3" : stepKind == 3 ? "0.25" : "1e-12"));
    ++scenarios;
  }

  // ------------------------------------------------------------ identity and projection
  int idOf(const std::shared_ptr<Parameter>& p)
  {
    auto it = ids.find(p.get());
    if (it != ids.end()) return it->second;
    int id = nextId++;
    ids[p.get()] = id;
    keep.push_back(p);
    byId[id] = p;
    return id;
  }
  static long nameIdx(const std::string& n) { return n.size() > 1 && n[0] == 'n' ? atol(n.c_str() + 1) : -1; }
  static std::string nm(long i) { return "n" + std::to_string(i); }
  Arr conArr(const Parameter& p) const
  {
    std::shared_ptr<const ConstraintInterface> c = p.getConstraint();
    if (!c) return Arr();
    const IntervalConstraint* ic = dynamic_cast<const IntervalConstraint*>(c.get());
    if (!ic) return Arr().add("?");
    return Arr().add(cd.enc(ic->getLowerBound())).add(cd.enc(ic->getUpperBound())).add(ic->strictLowerBound() ? 0 : 1).add(ic->strictUpperBound() ? 0 : 1);
  }
  Arr projParam(int id, const Parameter& p) const
  {
    double pr = p.getPrecision();
    long prc = (pr == 0 || pr == 1 || pr == 2) ? static_cast<long>(pr) : -1;
    return Arr().add(id).add(nameIdx(p.getName())).add(cd.enc(p.getValue())).add(conArr(p)).add(prc).add(dynamic_cast<const AutoParameter*>(&p) ? 1 : 0);
  }
  const ParameterList& plc(int L) const
  {
    auto it = lists.find(L);
    if (it != lists.end()) return *it->second;
    return owners.at(L)->getParameters();
  }
  bool isOwner(int L) const { return owners.count(L) != 0; }
  bool alive(int L) const { return lists.count(L) || owners.count(L); }
  std::vector<int> listIds() const
  {
    std::vector<int> v;
    for (const auto& kv : lists) v.push_back(kv.first);
    for (const auto& kv : owners) v.push_back(kv.first);
    std::sort(v.begin(), v.end());
    return v;
  }
  Obj state()
  {
    std::map<int, const Parameter*> seen;
    Arr L;
    for (int lid : listIds())
    {
      const ParameterList& pl = plc(lid);
      Arr e;
      for (size_t i = 0; i < pl.size(); ++i)
      {
        int id = idOf(pl.getParameter(i));
        seen[id] = pl.getParameter(i).get();
        e.add(id);
      }
      L.add(Arr().add(lid).add(e));
    }
    for (int h : held) seen[h] = byId[h].get();
    Arr P;
    for (const auto& kv : seen) P.add(projParam(kv.first, *kv.second));
    return Obj().kv("P", P).kv("L", L);
  }
  void emit(Obj& e)
  {
    e.kv("s", state());
    tracer().emit(e);
  }

  // ------------------------------------------------------------ intervals
  std::shared_ptr<IntervalConstraint> mkCon(const Iv& i)
  {
    double lo = cd.dec(i.lo), hi = cd.dec(i.hi);
    if (cd.step != STEP)
    {
      // a constraint with its own precision: the step inside an open bound is that precision
      if (i.lo != NINF && i.hi == PINF && i.iu == 0 && rng.coin()) return std::make_shared<IntervalConstraint>(true, lo, i.il != 0, cd.step);
      if (i.lo == NINF && i.hi != PINF && i.il == 0 && rng.coin()) return std::make_shared<IntervalConstraint>(false, hi, i.iu != 0, cd.step);
      return std::make_shared<IntervalConstraint>(lo, hi, i.il != 0, i.iu != 0, cd.step);
    }
    // the half-infinite constructor and the library's shared constants are used where they denote the same interval
    if (i.lo != NINF && i.hi == PINF && i.iu == 0 && rng.coin())
    {
      if (lo == 0 && rng.coin()) return i.il ? Parameter::R_PLUS : Parameter::R_PLUS_STAR;
      return std::make_shared<IntervalConstraint>(true, lo, i.il != 0);
    }
    if (i.lo == NINF && i.hi != PINF && i.il == 0 && rng.coin())
    {
      if (hi == 0 && rng.coin()) return i.iu ? Parameter::R_MINUS : Parameter::R_MINUS_STAR;
      return std::make_shared<IntervalConstraint>(false, hi, i.iu != 0);
    }
    if (lo == 0 && hi == 1 && i.il == i.iu && rng.coin()) return i.il ? Parameter::PROP_CONSTRAINT_IN : Parameter::PROP_CONSTRAINT_EX;
    if (i.lo == NINF && i.hi == PINF && i.il == 1 && i.iu == 1 && rng.coin()) return std::make_shared<IntervalConstraint>();
    return std::make_shared<IntervalConstraint>(lo, hi, i.il != 0, i.iu != 0);
  }
  long poolCode() { return 4 * static_cast<long>(rng.below(static_cast<size_t>(cd.K()))); }
  long anyCode() { return rng.range(cd.lowest(), cd.highest()); }
  // all shapes: finite / infinite bounds, open / closed, equal bounds, now and then reversed (empty)
  Iv randIv()
  {
    Iv i;
    i.lo = rng.chance(1, 4) ? NINF : poolCode();
    i.hi = rng.chance(1, 4) ? PINF : poolCode();
    if (i.lo != NINF && i.hi != PINF)
    {
      if (rng.chance(1, 6)) i.hi = i.lo;
      else if (i.lo > i.hi && !rng.chance(1, 8)) std::swap(i.lo, i.hi);
    }
    i.il = rng.coin();
    i.iu = rng.coin();
    return i;
  }
  bool accepts(const Iv& i, long x) const { return (i.il ? x >= i.lo : x > i.lo) && (i.iu ? x <= i.hi : x < i.hi); }
  // an interval that accepts code v
  Iv ivAround(long v)
  {
    for (int t = 0; t < 50; ++t)
    {
      Iv i = randIv();
      if (accepts(i, v)) return i;
    }
    return Iv{NINF, PINF, 1, 1};
  }
  // a value code at / next to / outside the bounds of i
  long codeNear(const Iv& i)
  {
    std::vector<long> c;
    for (long b : {i.lo, i.hi})
      if (b != NINF && b != PINF)
        for (long d = -2; d <= 2; ++d)
          if (b + d >= cd.lowest() && b + d <= cd.highest()) c.push_back(b + d);
    if (c.empty() || rng.chance(1, 4)) return anyCode();
    return c[rng.below(c.size())];
  }
  bool ivOf(const Parameter& p, Iv& out) const
  {
    std::shared_ptr<const ConstraintInterface> c = p.getConstraint();
    const IntervalConstraint* ic = c ? dynamic_cast<const IntervalConstraint*>(c.get()) : nullptr;
    if (!ic) return false;
    out = Iv{cd.enc(ic->getLowerBound()), cd.enc(ic->getUpperBound()), ic->strictLowerBound() ? 0 : 1, ic->strictUpperBound() ? 0 : 1};
    return true;
  }
  long valueFor(const Parameter& p)
  {
    Iv i;
    if (ivOf(p, i)) return codeNear(i);
    return anyCode();
  }

  // ------------------------------------------------------------ single-parameter calls
  void hold(int id)
  {
    held.push_back(id);
    if (held.size() > 5) held.erase(held.begin());
  }
  int pickHeld() { return held.empty() ? 0 : held[rng.below(held.size())]; }

  // returns the id of the new object (0 when the constructor raised)
  int doConstruct(long n, long v, bool hasCon, const Iv& iv, long pr, bool au)
  {
    std::shared_ptr<ConstraintInterface> c;
    if (hasCon) c = mkCon(iv);
    std::shared_ptr<Parameter> p;
    std::string r = outcome<bpp::Exception>([&]() {
      if (au) p.reset(new AutoParameter(nm(n), cd.dec(v), c));
      else if (pr == 0 && rng.coin()) p.reset(new Parameter(nm(n), cd.dec(v), c));
      else p.reset(new Parameter(nm(n), cd.dec(v), c, static_cast<double>(pr)));
    });
    int id = 0;
    if (p)
    {
      id = idOf(p);
      hold(id);
    }
    Obj e;
    e.kv("e", "Construct").kv("p", id).kv("n", n).kv("v", v).kv("c", hasCon ? ivArr(iv) : Arr()).kv("pr", pr).kv("au", au ? 1 : 0).kv("r", r);
    emit(e);
    return id;
  }
  void doCopy(int src)
  {
    std::shared_ptr<Parameter> s = byId[src], q;
    bool srcAuto = dynamic_cast<AutoParameter*>(s.get()) != nullptr;
    int au = 0;
    std::string r = outcome<bpp::Exception>([&]() {
      switch (rng.below(3))
      {
      case 0: q.reset(s->clone()); au = srcAuto; break;                 // virtual copy
      case 1: q.reset(new Parameter(*s)); au = 0; break;               // copy (slices an auto parameter)
      default: q.reset(new AutoParameter(*s)); au = 1; break;          // conversion / copy to the auto-correcting kind
      }
    });
    int id = idOf(q);
    hold(id);
    Obj e;
    e.kv("e", "Copy").kv("p", src).kv("q", id).kv("au", au).kv("r", r);
    emit(e);
  }
  void doAssign(int src, int dst)
  {
    std::shared_ptr<Parameter> s = byId[src], d = byId[dst];
    std::string r = outcome<bpp::Exception>([&]() {
      AutoParameter* da = dynamic_cast<AutoParameter*>(d.get());
      AutoParameter* sa = dynamic_cast<AutoParameter*>(s.get());
      if (da && sa && rng.coin()) *da = *sa;
      else *d = *s;
    });
    Obj e;
    e.kv("e", "Assign").kv("p", src).kv("q", dst).kv("r", r);
    emit(e);
  }
  void doSetValue(int id, long v)
  {
    std::shared_ptr<Parameter> p = byId[id];
    std::string r = outcome<bpp::Exception>([&]() { p->setValue(cd.dec(v)); });
    Obj e;
    e.kv("e", "SetValue").kv("p", id).kv("v", v).kv("r", r);
    emit(e);
  }
  void doSetConstraint(int id, const Iv& iv)
  {
    std::shared_ptr<Parameter> p = byId[id];
    std::shared_ptr<ConstraintInterface> c = mkCon(iv);
    std::string r = outcome<bpp::Exception>([&]() { p->setConstraint(c); });
    Obj e;
    e.kv("e", "SetConstraint").kv("p", id).kv("c", ivArr(iv)).kv("r", r);
    emit(e);
  }
  void doRemoveConstraint(int id)
  {
    std::shared_ptr<Parameter> p = byId[id];
    std::string r = outcome<bpp::Exception>([&]() {
      if (rng.coin()) p->removeConstraint();
      else p->setConstraint(nullptr);
    });
    Obj e;
    e.kv("e", "RemoveConstraint").kv("p", id).kv("r", r);
    emit(e);
  }
  void doSetPrecision(int id, long pr)
  {
    std::shared_ptr<Parameter> p = byId[id];
    std::string r = outcome<bpp::Exception>([&]() { p->setPrecision(static_cast<double>(pr)); });
    Obj e;
    e.kv("e", "SetPrecision").kv("p", id).kv("pr", pr).kv("r", r);
    emit(e);
  }

  // ------------------------------------------------------------ list calls
  ParameterList& pl(int L) { return isOwner(L) ? owners[L]->plist() : *lists[L]; }
  Obj lev(const char* name, int L)
  {
    Obj e;
    e.kv("e", name).kv("L", L);
    return e;
  }
  void finish(Obj& e, int L, const std::string& r)
  {
    e.kv("r", r);
    if (isOwner(L))
    {
      Owner& o = *owners[L];
      Arr f;
      for (const auto& names : o.fired)
      {
        Arr a;
        for (const auto& s : names) a.add(nameIdx(s));
        f.add(a);
      }
      e.kv("own", 1).kv("fired", f);
      o.fired.clear();
    }
    emit(e);
  }
  int doLNew(bool owner)
  {
    int L = nextList++;
    if (owner) owners[L].reset(new Owner());
    else lists[L].reset(new ParameterList());
    Obj e = lev("LNew", L);
    finish(e, L, "ok");
    return L;
  }
  void doLDrop(int L)
  {
    {
      Guard g;
      lists.erase(L);
      owners.erase(L);
    }
    Obj e = lev("LDrop", L);
    e.kv("r", "ok");
    emit(e);
  }
  void doLReset(int L)
  {
    std::string r = outcome<bpp::Exception>([&]() {
      if (isOwner(L)) owners[L]->xReset();
      else lists[L]->reset();
    });
    Obj e = lev("LReset", L);
    finish(e, L, r);
  }
  int doLCopy(int L, int R) // R = 0: copy construction into a new list
  {
    bool assign = R != 0;
    if (!assign) R = nextList++;
    std::string r = outcome<bpp::Exception>([&]() {
      if (assign) *lists[R] = plc(L);
      else if (rng.coin()) lists[R].reset(new ParameterList(plc(L)));
      else lists[R].reset(plc(L).clone());
    });
    Obj e = lev(assign ? "LAssign" : "LCopy", L);
    e.kv("R", R);
    finish(e, L, r);
    return R;
  }
  void doLAdd(int L, int pid)
  {
    std::shared_ptr<Parameter> p = byId[pid];
    bool ptr = isOwner(L) || rng.coin();
    std::string r = outcome<bpp::Exception>([&]() {
      if (ptr)
      {
        Parameter* raw = p->clone();
        try
        {
          if (isOwner(L)) owners[L]->xAdd(raw);
          else lists[L]->addParameter(raw);
        }
        catch (...)
        {
          delete raw;
          throw;
        }
      }
      else lists[L]->addParameter(*p);
    });
    Obj e = lev("LAdd", L);
    e.kv("p", pid).kv("how", ptr ? "ptr" : "clone");
    finish(e, L, r);
  }
  void doLShare(int L, const std::shared_ptr<Parameter>& o)
  {
    int oid = idOf(o);
    std::string r = outcome<bpp::Exception>([&]() {
      if (isOwner(L)) owners[L]->xShare(o);
      else lists[L]->shareParameter(o);
    });
    Obj e = lev("LShare", L);
    e.kv("o", oid);
    finish(e, L, r);
  }
  void doLSeq(int L, int M, int mode) // 0 include, 1 share, 2 add
  {
    const ParameterList& src = plc(M);
    std::string r = outcome<bpp::Exception>([&]() {
      if (isOwner(L))
      {
        if (mode == 0) owners[L]->xInclude(src);
        else if (mode == 1) owners[L]->xShareAll(src);
        else owners[L]->xAddAll(src);
      }
      else
      {
        if (mode == 0) lists[L]->includeParameters(src);
        else if (mode == 1) lists[L]->shareParameters(src);
        else lists[L]->addParameters(src);
      }
    });
    Obj e = lev(mode == 0 ? "LInclude" : mode == 1 ? "LShareAll" : "LAddAll", L);
    e.kv("M", M);
    finish(e, L, r);
  }
  void doLSetValue(int L, long n, long v)
  {
    std::string r = outcome<bpp::Exception>([&]() {
      if (isOwner(L)) owners[L]->setParameterValue(nm(n), cd.dec(v));
      else lists[L]->setParameterValue(nm(n), cd.dec(v));
    });
    Obj e = lev("LSetValue", L);
    e.kv("n", n).kv("v", v);
    finish(e, L, r);
  }
  void doLSetConstraint(int L, long n, bool hasCon, const Iv& iv)
  {
    std::shared_ptr<ConstraintInterface> c;
    if (hasCon) c = mkCon(iv);
    std::string r = outcome<bpp::Exception>([&]() {
      if (isOwner(L))
      {
        if (hasCon) owners[L]->setConstraint(nm(n), c);
        else owners[L]->removeConstraint(nm(n));
      }
      else if (hasCon) lists[L]->parameter(nm(n)).setConstraint(c);
      else lists[L]->parameter(nm(n)).removeConstraint();
    });
    Obj e = lev("LSetConstraint", L);
    e.kv("n", n).kv("c", hasCon ? ivArr(iv) : Arr());
    finish(e, L, r);
  }
  void doLBulk(int L, int M, int kind) // 0 set, 1 all, 2 match, 3 test
  {
    const ParameterList& src = plc(M);
    bool flag = false;
    std::vector<size_t> pos;
    std::string r = outcome<bpp::Exception>([&]() {
      if (isOwner(L))
      {
        Owner& o = *owners[L];
        if (kind == 0) o.setParametersValues(src);
        else if (kind == 1) o.setAllParametersValues(src);
        else if (kind == 2) flag = o.matchParametersValues(src);
        else flag = o.getParameters().testParametersValues(src);
      }
      else
      {
        ParameterList& t = *lists[L];
        if (kind == 0) t.setParametersValues(src);
        else if (kind == 1) t.setAllParametersValues(src);
        else if (kind == 2) flag = t.matchParametersValues(src, &pos);
        else flag = t.testParametersValues(src);
      }
    });
    Obj e = lev(kind == 0 ? "LSetValues" : kind == 1 ? "LSetAllValues" : kind == 2 ? "LMatchValues" : "LTest", L);
    e.kv("M", M);
    Arr ret;
    if (kind >= 2) ret.add(flag ? 1 : 0);
    if (kind == 2)
    {
      Arr p;
      for (size_t x : pos) p.add(x);
      ret.add(p);
    }
    e.kv("ret", ret);
    finish(e, L, r);
  }
  void doLWhole(int L, int M, int kind) // 0 setParameters, 1 setAllParameters, 2 matchParameters
  {
    const ParameterList& src = plc(M);
    std::string r = outcome<bpp::Exception>([&]() {
      ParameterList& t = pl(L);
      if (kind == 0) t.setParameters(src);
      else if (kind == 1) t.setAllParameters(src);
      else t.matchParameters(src);
    });
    Obj e = lev(kind == 0 ? "LSetParams" : kind == 1 ? "LSetAllParams" : "LMatchParams", L);
    e.kv("M", M);
    finish(e, L, r);
  }
  void doLDelName(int L, long n)
  {
    std::string r = outcome<bpp::Exception>([&]() {
      if (isOwner(L)) owners[L]->xDelName(nm(n));
      else lists[L]->deleteParameter(nm(n));
    });
    Obj e = lev("LDelName", L);
    e.kv("n", n);
    finish(e, L, r);
  }
  void doLDelNames(int L, const std::vector<long>& ns, bool must)
  {
    std::vector<std::string> names;
    for (long n : ns) names.push_back(nm(n));
    if (isOwner(L)) must = true;
    std::string r = outcome<bpp::Exception>([&]() {
      if (isOwner(L)) owners[L]->xDelNames(names);
      else if (must && rng.coin()) lists[L]->deleteParameters(names);
      else lists[L]->deleteParameters(names, must);
    });
    Obj e = lev("LDelNames", L);
    e.kv("ns", arrOf(ns)).kv("must", must ? 1 : 0);
    finish(e, L, r);
  }
  void doLDelIdx(int L, long i)
  {
    std::string r = outcome<bpp::Exception>([&]() {
      if (isOwner(L)) owners[L]->xDelIdx(static_cast<size_t>(i));
      else lists[L]->deleteParameter(static_cast<size_t>(i));
    });
    Obj e = lev("LDelIdx", L);
    e.kv("i", i);
    finish(e, L, r);
  }
  void doLDelIdxs(int L, const std::vector<long>& is)
  {
    std::vector<size_t> v(is.begin(), is.end());
    std::string r = outcome<bpp::Exception>([&]() { pl(L).deleteParameters(v); });
    Obj e = lev("LDelIdxs", L);
    e.kv("is", arrOf(is));
    finish(e, L, r);
  }
  // kind: 0 createSubList(names) 1 shareSubList(names) 2 createSubList(indices) 3 shareSubList(indices) 4 getCommonParametersWith(M)
  void doLSub(int L, int kind, const std::vector<long>& args, int M = 0)
  {
    int R = nextList++;
    std::vector<std::string> names;
    std::vector<size_t> idx;
    if (kind < 2) for (long n : args) names.push_back(nm(n));
    else for (long i : args) idx.push_back(static_cast<size_t>(i));
    std::unique_ptr<ParameterList> res;
    std::string r = outcome<bpp::Exception>([&]() {
      const ParameterList& s = plc(L);
      switch (kind)
      {
      case 0:
        if (names.size() == 1 && rng.coin()) res.reset(new ParameterList(s.createSubList(names[0])));
        else res.reset(new ParameterList(s.createSubList(names)));
        break;
      case 1: res.reset(new ParameterList(s.shareSubList(names))); break;
      case 2:
        if (idx.size() == 1 && rng.coin()) res.reset(new ParameterList(s.createSubList(idx[0])));
        else res.reset(new ParameterList(s.createSubList(idx)));
        break;
      case 3: res.reset(new ParameterList(s.shareSubList(idx))); break;
      default: res.reset(new ParameterList(s.getCommonParametersWith(plc(M)))); break;
      }
    });
    // the result is constructed in place (copy elision): a copy would clone the entries of a shared sub-list
    if (res) lists[R] = std::move(res);
    Obj e = lev(kind == 0 ? "LSubNames" : kind == 1 ? "LShareSubNames" : kind == 2 ? "LSubIdxs" : kind == 3 ? "LShareSubIdxs" : "LCommon", L);
    e.kv("R", R);
    if (kind < 2) e.kv("ns", arrOf(args));
    else if (kind < 4) e.kv("is", arrOf(args));
    else e.kv("M", M);
    finish(e, L, r);
  }
  void doLSetParameter(int L, long i, int pid)
  {
    std::shared_ptr<Parameter> p = byId[pid];
    std::string r = outcome<bpp::Exception>([&]() { pl(L).setParameter(static_cast<size_t>(i), *p); });
    Obj e = lev("LSetParameter", L);
    e.kv("i", i).kv("p", pid);
    finish(e, L, r);
  }
  void doLQuery(int L, long n)
  {
    Arr ret;
    const ParameterList& s = plc(L);
    bool has = isOwner(L) && rng.coin() ? owners[L]->hasParameter(nm(n)) : s.hasParameter(nm(n));
    std::string r = outcome<bpp::Exception>([&]() {
      size_t w = s.whichParameterHasName(nm(n));
      double v = (isOwner(L) && rng.coin()) ? owners[L]->getParameterValue(nm(n)) : s.getParameterValue(nm(n));
      const std::shared_ptr<Parameter>& sp = s.getParameter(nm(n));
      const Parameter& ref = s.parameter(nm(n));
      int oid = idOf(sp);
      bool same = &ref == sp.get() && &s[w] == sp.get() && v == ref.getValue();
      ret.add(has ? 1 : 0).add(w).add(same ? oid : -1).add(cd.enc(v));
    });
    if (r != "ok") ret = Arr().add(has ? 1 : 0);
    Obj e = lev("LQuery", L);
    e.kv("n", n).kv("ret", ret);
    finish(e, L, r);
  }
  bool inAnyList(int id)
  {
    const Parameter* o = byId[id].get();
    for (int lid : listIds())
    {
      const ParameterList& l = plc(lid);
      for (size_t i = 0; i < l.size(); ++i)
        if (l.getParameter(i).get() == o) return true;
    }
    return false;
  }
  bool dupNames(int L) const
  {
    std::vector<std::string> n = plc(L).getParameterNames();
    std::set<std::string> s(n.begin(), n.end());
    return s.size() != n.size();
  }
};

// ---------------------------------------------------------------- mode alg
static Arr accArr(const Codec& cd, const ConstraintInterface& c)
{
  Arr a;
  for (long x = cd.lowest(); x <= cd.highest(); ++x)
    if (c.isCorrect(cd.dec(x))) a.add(x);
  return a;
}
static Arr encIv(const Codec& cd, const IntervalConstraint& c)
{
  return Arr().add(cd.enc(c.getLowerBound())).add(cd.enc(c.getUpperBound())).add(c.strictLowerBound() ? 0 : 1).add(c.strictUpperBound() ? 0 : 1);
}
static void alg1(World& w, const Iv& i, bool full)
{
  const Codec& cd = w.cd;
  std::shared_ptr<IntervalConstraint> c = w.mkCon(i);
  Obj e;
  e.kv("e", "Alg1").kv("K", cd.K()).kv("I", ivArr(i));
  Guard g;
  e.kv("acc", accArr(cd, *c)).kv("emp", c->isEmpty() ? 1 : 0);
  Arr lim, inc;
  for (long x = cd.lowest(); x <= cd.highest(); ++x)
  {
    if (!full && !w.rng.chance(1, 3)) continue;
    lim.add(Arr().add(x).add(cd.enc(c->getLimit(cd.dec(x)))).add(cd.enc(c->getAcceptedLimit(cd.dec(x)))));
  }
  for (long a = cd.lowest(); a <= cd.highest(); ++a)
    for (long b = a; b <= cd.highest(); ++b)
    {
      if (!full && !w.rng.chance(1, 12)) continue;
      inc.add(Arr().add(a).add(b).add(c->includes(cd.dec(a), cd.dec(b)) ? 1 : 0));
    }
  // interval < value, > value, <= value, >= value
  Arr cmp;
  for (long x = cd.lowest(); x <= cd.highest(); ++x)
  {
    if (!full && !w.rng.chance(1, 3)) continue;
    double v = cd.dec(x);
    cmp.add(Arr().add(x).add((*c < v) ? 1 : 0).add((*c > v) ? 1 : 0).add((*c <= v) ? 1 : 0).add((*c >= v) ? 1 : 0));
  }
  e.kv("lim", lim).kv("inc", inc).kv("cmp", cmp);
  tracer().emit(e);
}
static void alg2(World& w, const Iv& i, const Iv& j)
{
  const Codec& cd = w.cd;
  std::shared_ptr<IntervalConstraint> a0 = w.mkCon(i), b0 = w.mkCon(j);
  // never hand the library's shared constants to the in-place operator
  IntervalConstraint a(*a0), b(*b0);
  Obj e;
  e.kv("e", "Alg2").kv("K", cd.K()).kv("I", ivArr(i)).kv("J", ivArr(j));
  Guard g;
  std::unique_ptr<ConstraintInterface> r(a & b);
  e.kv("andacc", accArr(cd, *r)).kv("andemp", r->isEmpty() ? 1 : 0);
  e.kv("after", Arr().add(encIv(cd, a)).add(encIv(cd, b)));
  // comparisons between intervals: equality (bounds and flags), difference, inclusion in both directions
  e.kv("eq", (a == b) ? 1 : 0).kv("ne", (a != b) ? 1 : 0).kv("le", Arr().add((a <= b) ? 1 : 0).add((b <= a) ? 1 : 0));
  IntervalConstraint a2(a);
  a2 &= b;
  e.kv("iandacc", accArr(cd, a2)).kv("iandemp", a2.isEmpty() ? 1 : 0).kv("jafter", encIv(cd, b));
  tracer().emit(e);
}
static std::string trimZeros(std::string s)
{
  if (s.find('.') == std::string::npos) return s;
  while (!s.empty() && s.back() == '0') s.pop_back();
  if (!s.empty() && s.back() == '.') s.pop_back();
  return s;
}
static void desc(World& w, const Iv& i)
{
  const Codec& cd = w.cd;
  auto num = [&](long c) {
    std::string t = cd.text[static_cast<size_t>(c / 4)];
    return w.rng.coin() ? trimZeros(t) : t;
  };
  std::string lb = i.il ? "[" : "]", rb = i.iu ? "]" : "[";
  std::string txt = lb + (i.lo == NINF ? std::string("-inf") : num(i.lo)) + ";" + (i.hi == PINF ? std::string(w.rng.coin() ? "inf" : "+inf") : num(i.hi)) + rb;
  IntervalConstraint c(0.25, 0.5, w.rng.coin(), w.rng.coin());
  std::unique_ptr<IntervalConstraint> viaCtor;
  bool ctor = w.rng.coin();
  std::string r = outcome<bpp::Exception>([&]() {
    if (ctor) viaCtor.reset(new IntervalConstraint(txt));
    else c.readDescription(txt);
  });
  const IntervalConstraint& res = (ctor && viaCtor) ? *viaCtor : c;
  Obj e;
  e.kv("e", "Desc").kv("txt", txt).kv("lb", lb).kv("lo", i.lo).kv("hi", i.hi).kv("rb", rb).kv("r", r).kv("got", encIv(cd, res));
  tracer().emit(e);
}
static std::vector<Iv> gridIntervals(long K)
{
  std::vector<long> lo{NINF}, hi{PINF};
  for (long k = 0; k < K; ++k)
  {
    lo.push_back(4 * k);
    hi.push_back(4 * k);
  }
  std::vector<Iv> v;
  for (long a : lo)
    for (long b : hi)
      for (int il = 0; il < 2; ++il)
        for (int iu = 0; iu < 2; ++iu) v.push_back(Iv{a, b, il, iu});
  return v;
}
static void modeAlg(World& w, long K, long n)
{
  if (K > 0)
  {
    // exhaustive: every interval and every pair of intervals on a K-point grid, every code as a value
    std::vector<Iv> all = gridIntervals(K);
    long cnt = 0;
    auto chunk = [&]() {
      if (cnt++ % 150 == 0)
      {
        w.reset("alg", K);
        // a fixed grid that contains 0 and 1 (the library's shared constants are exercised)
        std::vector<double> g{0.0, 1.0, 2.5, -1.75, 7.0, -300.125};
        std::vector<double> p(g.begin(), g.begin() + K);
        std::sort(p.begin(), p.end());
        w.cd.pool = p;
        w.cd.text.clear();
        for (double x : p)
        {
          char b[64];
          snprintf(b, sizeof b, "%.6f", x);
          w.cd.text.push_back(b);
        }
      }
    };
    for (const Iv& i : all)
    {
      chunk();
      alg1(w, i, true);
      desc(w, i);
    }
    for (const Iv& i : all)
      for (const Iv& j : all)
      {
        chunk();
        alg2(w, i, j);
      }
  }
  for (long s = 0; s < n; ++s)
  {
    w.reset("alg", w.rng.range(3, 8), false, static_cast<int>(w.rng.below(4) == 0 ? 0 : w.rng.below(3)));
    long m = w.rng.range(4, 10);
    for (long t = 0; t < m; ++t)
    {
      Iv i = w.randIv(), j = w.randIv();
      switch (w.rng.below(3))
      {
      case 0: alg1(w, i, false); break;
      case 1: alg2(w, i, j); break;
      default: desc(w, i); break;
      }
    }
  }
}

// ---------------------------------------------------------------- mode param / prec
static void modeParam(World& w, long n, bool precMode)
{
  Rng& rng = w.rng;
  for (long s = 0; s < n; ++s)
  {
    // constraints with a precision of their own in 45 % of the plain scenarios (the step inside an open bound is theirs)
    int stepKind = 0;
    if (!precMode)
    {
      size_t q = rng.below(100);
      stepKind = q < 55 ? 0 : q < 70 ? 1 : q < 85 ? 2 : 3;
    }
    w.reset(precMode ? "prec" : "param", rng.range(precMode ? 4 : 5, precMode ? 6 : 8), precMode, stepKind);
    long len = rng.range(8, 30);
    int listA = 0, listB = 0;
    for (long t = 0; t < len; ++t)
    {
      int p = w.pickHeld();
      size_t r = rng.below(100);
      if (p == 0 || r < 18)
      {
        // construction: value at / next to / outside the bounds of the constraint
        bool hasCon = rng.chance(4, 5);
        Iv iv = w.randIv();
        long v = hasCon ? w.codeNear(iv) : w.anyCode();
        if (hasCon && rng.chance(1, 5) && w.cd.enc(0.0) != UNKNOWN) v = w.cd.enc(0.0); // the constructor's placeholder value
        bool au = !precMode && rng.chance(1, 3);
        long pr = precMode && !au ? rng.range(0, 2) : 0;
        w.doConstruct(rng.range(0, 3), v, hasCon, iv, pr, au);
      }
      else if (r < 48) w.doSetValue(p, w.valueFor(*w.byId[p]));
      else if (r < 62)
      {
        Iv iv = rng.chance(2, 3) ? w.ivAround(w.cd.enc(w.byId[p]->getValue())) : w.randIv();
        if (rng.chance(1, 4))
        {
          // a bound exactly at the current value, open or closed
          long cur = w.cd.enc(w.byId[p]->getValue());
          if (cur % 4 == 0 && cur >= 0)
          {
            if (rng.coin()) iv.lo = cur, iv.hi = std::max(iv.hi, cur);
            else iv.hi = cur, iv.lo = std::min(iv.lo, cur);
          }
        }
        w.doSetConstraint(p, iv);
      }
      else if (r < 67) w.doRemoveConstraint(p);
      else if (r < 76) w.doCopy(p);
      else if (r < 84)
      {
        // operator= also copies the name: assigning into an object that a list shares would rename a list entry
        // behind the list's back (outside the quantifier), so such targets only receive equally named sources
        int q = w.pickHeld();
        if (!w.inAnyList(q) || w.byId[q]->getName() == w.byId[p]->getName()) w.doAssign(p, q);
        else w.doSetValue(q, w.valueFor(*w.byId[q]));
      }
      else if (precMode)
      {
        if (dynamic_cast<AutoParameter*>(w.byId[p].get()) == nullptr) w.doSetPrecision(p, rng.range(0, 2));
        else w.doSetValue(p, w.valueFor(*w.byId[p]));
      }
      else
      {
        // list-level and owner-level routes to the same writes
        if (listA == 0)
        {
          listA = w.doLNew(rng.coin());
          continue;
        }
        if (listB == 0 && rng.coin())
        {
          listB = w.doLNew(false);
          continue;
        }
        int L = listB && rng.coin() ? listB : listA;
        const ParameterList& cur = w.plc(L);
        size_t k = rng.below(6);
        if (cur.size() == 0 || k == 0)
        {
          if (w.byId[p]->getPrecision() == 0) w.doLAdd(L, p);
        }
        else
        {
          size_t i = rng.below(cur.size());
          long nmI = World::nameIdx(cur[i].getName());
          if (rng.chance(1, 8)) nmI = rng.range(0, 4);
          if (k == 1 || k == 2) w.doLSetValue(L, nmI, w.valueFor(cur[i]));
          else if (k == 3)
          {
            bool has = rng.chance(3, 4);
            w.doLSetConstraint(L, nmI, has, rng.coin() ? w.ivAround(w.cd.enc(cur[i].getValue())) : w.randIv());
          }
          else if (k == 4 && listB && listA) w.doLBulk(L, L == listA ? listB : listA, static_cast<int>(rng.below(3)));
          else w.doLShare(L, w.byId[p]);
        }
      }
    }
  }
}

// ---------------------------------------------------------------- mode list
static std::vector<long> pickSeq(Rng& rng, long universe, long len, bool repeatFree)
{
  std::vector<long> v;
  for (long i = 0; i < len; ++i)
  {
    for (int t = 0; t < 20; ++t)
    {
      long x = rng.range(0, universe - 1);
      if (!repeatFree || std::find(v.begin(), v.end(), x) == v.end())
      {
        v.push_back(x);
        break;
      }
    }
  }
  return v;
}
static void modeList(World& w, long n)
{
  Rng& rng = w.rng;
  for (long s = 0; s < n; ++s)
  {
    w.reset("list", 5);
    long nNames = rng.range(2, 6); // a small name universe makes collisions and overlaps frequent
    auto newParam = [&](long name) {
      bool hasCon = rng.chance(3, 5);
      long v = w.anyCode();
      Iv iv = w.ivAround(v);
      if (rng.chance(1, 12)) iv = w.randIv(); // now and then a construction that is refused
      return w.doConstruct(name, v, hasCon, iv, 0, rng.chance(1, 5));
    };
    // two or three lists with overlapping names to start from
    std::vector<int> L;
    long nl = rng.range(2, 3);
    for (long i = 0; i < nl; ++i)
    {
      int id = w.doLNew(i == 0 && rng.chance(1, 3));
      L.push_back(id);
      long sz = rng.range(0, 4);
      std::vector<long> names = pickSeq(rng, nNames, sz, true);
      for (long nmI : names)
      {
        int p = newParam(nmI);
        if (p) w.doLAdd(id, p);
      }
    }
    long len = rng.range(6, 22);
    for (long t = 0; t < len; ++t)
    {
      std::vector<int> ids = w.listIds();
      if (ids.empty())
      {
        w.doLNew(false);
        continue;
      }
      int A = ids[rng.below(ids.size())];
      if (w.dupNames(A))
      {
        // outside the statement: leave the state at once
        const ParameterList& a = w.plc(A);
        std::vector<std::string> nn = a.getParameterNames();
        long victim = 0;
        for (size_t i = 0; i < nn.size(); ++i)
          for (size_t j = i + 1; j < nn.size(); ++j)
            if (nn[i] == nn[j]) victim = static_cast<long>(rng.coin() ? i : j);
        if (rng.chance(2, 3)) w.doLDelIdx(A, victim);
        else if (rng.coin() || w.isOwner(A)) w.doLReset(A);
        else w.doLDrop(A);
        continue;
      }
      std::vector<int> clean;
      for (int x : ids)
        if (x != A && !w.dupNames(x)) clean.push_back(x);
      int B = clean.empty() ? 0 : clean[rng.below(clean.size())];
      const ParameterList& a = w.plc(A);
      long szA = static_cast<long>(a.size());
      size_t r = rng.below(100);
      if (r < 8)
      {
        int p = newParam(rng.range(0, nNames - 1));
        if (p && szA < 8) w.doLAdd(A, p);
      }
      else if (r < 14 && B)
      {
        const ParameterList& b = w.plc(B);
        if (b.size() > 0) w.doLShare(A, b.getParameter(rng.below(b.size())));
        else if (w.pickHeld()) w.doLShare(A, w.byId[w.pickHeld()]);
      }
      else if (r < 24 && B && !w.isOwner(B) && szA + static_cast<long>(w.plc(B).size()) <= 8) w.doLSeq(A, B, static_cast<int>(rng.below(3)));
      else if (r < 32 && szA > 0)
      {
        size_t i = rng.below(a.size());
        long nmI = rng.chance(1, 8) ? rng.range(0, nNames) : World::nameIdx(a[i].getName());
        w.doLSetValue(A, nmI, w.valueFor(a[i]));
      }
      else if (r < 36 && szA > 0)
      {
        size_t i = rng.below(a.size());
        w.doLSetConstraint(A, World::nameIdx(a[i].getName()), rng.chance(3, 4), rng.coin() ? w.ivAround(w.cd.enc(a[i].getValue())) : w.randIv());
      }
      else if (r < 58 && B) w.doLBulk(A, B, static_cast<int>(rng.below(4)));
      else if (r < 64 && B) w.doLWhole(A, B, static_cast<int>(rng.below(3)));
      else if (r < 68) w.doLDelName(A, rng.range(0, nNames - 1));
      else if (r < 72) w.doLDelNames(A, pickSeq(rng, nNames, rng.range(0, 3), !rng.chance(1, 6)), rng.coin());
      else if (r < 75) w.doLDelIdx(A, rng.range(0, szA));
      else if (r < 79) w.doLDelIdxs(A, pickSeq(rng, szA + (rng.chance(1, 5) ? 1 : 0), rng.range(0, std::min(szA, 3L)), true));
      else if (r < 90 && ids.size() < 5)
      {
        size_t k = rng.below(5);
        if (k == 0)
        {
          // names present, in any order; now and then one that is absent
          std::vector<long> present;
          for (size_t i = 0; i < a.size(); ++i) present.push_back(World::nameIdx(a[i].getName()));
          std::vector<long> ns;
          long m = rng.range(0, std::min(szA, 3L));
          for (long i = 0; i < m; ++i)
          {
            long x = present[rng.below(present.size())];
            if (std::find(ns.begin(), ns.end(), x) == ns.end()) ns.push_back(x);
          }
          if (rng.chance(1, 6)) ns.push_back(nNames + 1);
          w.doLSub(A, static_cast<int>(rng.below(2)), ns);
        }
        else if (k == 1) w.doLSub(A, 2 + static_cast<int>(rng.below(2)), pickSeq(rng, szA + (rng.chance(1, 4) ? 2 : 0), rng.range(0, std::min(szA, 3L)), true));
        else if (k == 2 && B) w.doLSub(A, 4, {}, B);
        else if (k == 3) w.doLCopy(A, 0);
        else if (B && !w.isOwner(B)) w.doLCopy(A, B);
      }
      else if (r < 93 && szA > 0 && w.pickHeld() && w.byId[w.pickHeld()]->getPrecision() == 0)
        w.doLSetParameter(A, rng.range(0, szA), w.pickHeld());
      else if (r < 97) w.doLQuery(A, rng.range(0, nNames));
      else if (r < 98 && !w.isOwner(A) && ids.size() > 1) w.doLDrop(A);
      else if (r < 99) w.doLReset(A);
      else if (w.pickHeld())
      {
        // mutate a handle that may be shared into a list
        int p = w.pickHeld();
        w.doSetValue(p, w.valueFor(*w.byId[p]));
      }
    }
  }
}

// ---------------------------------------------------------------- mode bulk (exhaustive small scope)
// target: n parameters n0..n(n-1), each constrained to [p1 ; p3] and holding p2.  source: every non-empty subset of the
// names (+ optionally a foreign name), in both orders, every assignment of {same, different accepted, rejected} values,
// every bulk operation, through a list and through an owning object.
static void modeBulk(World& w, long nmax)
{
  const long SAME = 8, DIFF = 6, BAD = 14;
  for (long n = 1; n <= nmax; ++n)
    for (long mask = 1; mask < (1L << n); ++mask)
      for (int foreign = 0; foreign < 2; ++foreign)
        for (int rev = 0; rev < 2; ++rev)
        {
          std::vector<long> names;
          for (long i = 0; i < n; ++i)
            if (mask & (1L << i)) names.push_back(i);
          if (foreign) names.insert(names.begin() + static_cast<long>(names.size() / 2), 9);
          if (rev) std::reverse(names.begin(), names.end());
          if (rev && names.size() < 2) continue;
          long m = static_cast<long>(names.size());
          long combos = 1;
          for (long i = 0; i < m; ++i) combos *= 3;
          for (long cmb = 0; cmb < combos; ++cmb)
            for (int kind = 0; kind < 4; ++kind)
              for (int own = 0; own < 2; ++own)
              {
                if (own && kind == 3) continue;
                w.reset("bulk", 5);
                int T = w.doLNew(own != 0);
                for (long i = 0; i < n; ++i)
                {
                  int p = w.doConstruct(i, SAME, true, Iv{4, 12, 1, 1}, 0, false);
                  w.doLAdd(T, p);
                }
                int S = w.doLNew(false);
                long c = cmb;
                for (long i = 0; i < m; ++i)
                {
                  long v = c % 3 == 0 ? SAME : c % 3 == 1 ? DIFF : BAD;
                  c /= 3;
                  int p = w.doConstruct(names[static_cast<size_t>(i)], v, false, Iv{0, 0, 0, 0}, 0, false);
                  w.doLAdd(S, p);
                }
                w.held.clear();
                w.doLBulk(T, S, kind);
              }
        }
}

// ---------------------------------------------------------------- mode cross (exhaustive small scope)
// every interval on a K-point grid x every code as initial value, for a plain and an auto-correcting parameter; then
// every code as a request to both setters and every interval of the grid as a new constraint: all order types of
// {bounds, value} through the real constructor / setValue / setConstraint, raise paths included.
static void modeCross(World& w, long K)
{
  std::vector<Iv> all = gridIntervals(K);
  for (const Iv& iv : all)
    for (long v = -2; v <= 4 * (K - 1) + 2; ++v)
    {
      // the constraint's own precision: default, 1e-3 and 0.25 in turn (the grid's gaps are >= 0.75)
      static long turn = 0;
      w.reset("cross", K, false, turn % 3 == 0 ? 0 : turn % 3 == 1 ? 2 : 3);
      ++turn;
      std::vector<double> g{0.0, 1.0, 2.5, -1.75};
      std::vector<double> p(g.begin(), g.begin() + K);
      std::sort(p.begin(), p.end());
      w.cd.pool = p;
      int a = w.doConstruct(0, v, true, iv, 0, false);
      int b = w.doConstruct(1, v, true, iv, 0, true);
      for (long u = w.cd.lowest(); u <= w.cd.highest(); ++u)
      {
        if (a) w.doSetValue(a, u);
        if (b) w.doSetValue(b, u);
      }
      if (a)
        for (const Iv& j : all) w.doSetConstraint(a, j);
    }
}

int main(int argc, char** argv)
{
  vt::installParamAudit(); // C01: audit of every Parameter of the process when VERIF_PARAM_AUDIT=<file> is set
  std::string out = argStr(argc, argv, "--out", "");
  std::string mode = argStr(argc, argv, "--mode", "param");
  long n = argInt(argc, argv, "--n", 100);
  long k = argInt(argc, argv, "--k", 0);
  long nmax = argInt(argc, argv, "--nmax", 2);
  if (out.empty() || !tracer().open(out))
  {
    fprintf(stderr, "drv_params: cannot open --out\n");
    return 2;
  }
  installCrashHandlers();
  bpp::ApplicationTools::message = nullptr; // auto-correcting parameters report every correction there
  Rng rng(envSeed() * 2654435761ULL + std::hash<std::string>()(mode));
  World w(rng);
  if (mode == "alg") modeAlg(w, k, n);
  else if (mode == "param") modeParam(w, n, false);
  else if (mode == "prec") modeParam(w, n, true);
  else if (mode == "list") modeList(w, n);
  else if (mode == "bulk") modeBulk(w, nmax);
  else if (mode == "cross") modeCross(w, k);
  else
  {
    fprintf(stderr, "drv_params: unknown mode\n");
    return 2;
  }
  tracer().close();
  printf("{\"scenarios\":%ld,\"events\":%ld}\n", w.scenarios, tracer().count());
  return 0;
}
