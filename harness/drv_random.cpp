// Conformance driver for C18: ContingencyTableGenerator::rcont2 (with hook h2),
// ContingencyTableTest, RandomTools (sampling, picks, multinomial, raw draws).
// Linked against the hooked static library built from $VERIF_REPO.
//
//   drv_random --out F --mode tables-exh  [--mintot t] --maxtot T --mindim a --maxdim b --seeds S
//        every ordered pair of margin vectors (zeros included) with a..b rows/columns and
//        total t..T, one scenario per pair, one table per seed (run seed + S-1 derived)
//   drv_random --out F --mode tables-rand --n N --maxtot T
//        random histories: several generators (2..5 rows/columns, totals <= T), refused
//        constructions, copies, interleaved draws, ContingencyTableTest with permutations
//   drv_random --out F --mode sampling-exh --seeds S
//        getSample for source sizes 0..12 x sample sizes 0..14 x {plain, weighted} x
//        {with, without replacement}, pickOne variants; each run partly repeated under the same seed
//   drv_random --out F --mode sampling-rand --n N
//        random runs mixing every call kind; runs re-played (fully / a prefix) under the same seed
//   drv_random --out F --mode laws --seeds S
//        argument conventions: pairs of draws under one seed differing in one argument (power-of-two
//        factor / shift), for the RandomTools samplers and the randC() of the distribution classes;
//        inverse-cdf picks with the rank of the uniform read under the same seed; randC() domain and
//        qProb(pProb(x)) round trip
//   drv_random --out F --mode hmm --n N
//        hidden-state path sampling: histories of setTransitionProbabilities / parameter updates / getters /
//        sample(n) on Full and AutoCorrelation transition matrices with 1..4 states (zero entries included);
//        the uniforms are read by re-seeding, the current weights from a twin object
//   drv_random --out F --mode dist --n N
//        histories of distribution objects: build, draw, change a parameter through the parameter interface,
//        restrict, clone / assign, draw from either side; each draw is compared with a reference object built
//        afresh from the current parameters and restriction
//
// The driver only produces and encodes observations; nothing is judged here.
#include "tracer.h"

#include <Bpp/Exceptions.h>
#include <Bpp/Numeric/Random/ContingencyTableGenerator.h>
#include <Bpp/Numeric/Random/RandomTools.h>
#include <Bpp/Numeric/Stat/ContingencyTableTest.h>
#include <Bpp/Numeric/Hmm/AutoCorrelationTransitionMatrix.h>
#include <Bpp/Numeric/Hmm/FullHmmTransitionMatrix.h>
#include <Bpp/Numeric/Prob/BetaDiscreteDistribution.h>
#include <Bpp/Numeric/Prob/ExponentialDiscreteDistribution.h>
#include <Bpp/Numeric/Prob/GammaDiscreteDistribution.h>
#include <Bpp/Numeric/Prob/GaussianDiscreteDistribution.h>
#include <Bpp/Numeric/Prob/TruncatedExponentialDiscreteDistribution.h>
#include <Bpp/Numeric/Prob/UniformDiscreteDistribution.h>
#include <Bpp/Numeric/Constraints.h>

#include <cmath>
#include <memory>

using namespace vt;

namespace bpp
{
extern void (* verifRcont2CellHook)(const size_t* cell);
}

// ---------------------------------------------------------------- encoders
// size_t as the signed value it wraps to (a "negative" size_t is what the model calls negative);
// anything outside +-1e9 cannot be a quantity of a table with total <= 200: sentinel.
static long long enc(size_t v)
{
  long long s = static_cast<long long>(v);
  if (s > 1000000000LL || s < -1000000000LL) return -999999999LL;
  return s;
}

static Arr bits(double x)
{
  uint64_t u;
  memcpy(&u, &x, sizeof u);
  return Arr().add(static_cast<long long>(u >> 42)).add(static_cast<long long>((u >> 21) & 0x1fffff)).add(static_cast<long long>(u & 0x1fffff));
}

// "ok" | "raise:Class" | "raise:std:Class" | "raise:other"  ->  st / bpp / cls
static Obj& putOutcome(Obj& o, const std::string& r)
{
  if (r == "ok") return o.kv("st", "ok").kv("bpp", false);
  std::string cls = r.substr(6);
  bool isBpp = cls.compare(0, 4, "std:") != 0 && cls != "other";
  size_t lt = cls.find('<');
  if (lt != std::string::npos) cls = cls.substr(0, lt);
  return o.kv("st", "raise").kv("bpp", isBpp).kv("cls", cls);
}

static std::vector<uint64_t> derivedSeeds(uint64_t run, long n)
{
  std::vector<uint64_t> v;
  v.push_back(run & 0x7fffffffULL);
  Rng r(run * 0x9E3779B1ULL + 12345);
  while (static_cast<long>(v.size()) < n) v.push_back(r.next() & 0x7fffffffULL);
  return v;
}

template<class T> static Arr arrI(const std::vector<T>& v)
{
  Arr a;
  for (const auto& x : v) a.add(static_cast<long long>(x));
  return a;
}
static Arr arrS(const std::vector<size_t>& v)
{
  Arr a;
  for (size_t x : v) a.add(enc(x));
  return a;
}
static Arr matJ(const std::vector<std::vector<size_t>>& t)
{
  Arr a;
  for (const auto& r : t) a.add(arrS(r));
  return a;
}
static std::vector<std::vector<size_t>> matOf(const bpp::RowMatrix<size_t>& m)
{
  std::vector<std::vector<size_t>> t(m.getNumberOfRows(), std::vector<size_t>(m.getNumberOfColumns()));
  for (size_t i = 0; i < m.getNumberOfRows(); ++i)
    for (size_t j = 0; j < m.getNumberOfColumns(); ++j)
      t[i][j] = m(i, j);
  return t;
}

static void reset() { tracer().emit(Obj().kv("e", "Reset")); }
static void setSeed(uint64_t s)
{
  bpp::RandomTools::setSeed(static_cast<std::mt19937::result_type>(s));
  tracer().emit(Obj().kv("e", "SetSeed").kv("seed", static_cast<long long>(s)));
}

// ---------------------------------------------------------------- tables
static int g_cur = -1; // generator whose rcont2() is running (-1: the one inside ContingencyTableTest)

static void onCell(const size_t* c)
{
  if (c[0] == 0 && c[1] == 0) tracer().emit(Obj().kv("e", "Begin").kv("g", g_cur));
  Arr v;
  for (int i = 0; i < 10; ++i) v.add(enc(c[i]));
  tracer().emit(Obj().kv("e", "Cell").kv("v", v));
}

struct Gens
{
  std::map<int, std::unique_ptr<bpp::ContingencyTableGenerator>> g;

  bool make(int id, const std::vector<size_t>& rows, const std::vector<size_t>& cols)
  {
    std::unique_ptr<bpp::ContingencyTableGenerator> p;
    std::string r = outcome<bpp::Exception>([&]() { p.reset(new bpp::ContingencyTableGenerator(rows, cols)); });
    bool isBpp = r.compare(0, 6, "raise:") == 0 && r.compare(6, 4, "std:") != 0 && r != "raise:other";
    tracer().emit(Obj().kv("e", "NewGen").kv("g", id).kv("rows", arrS(rows)).kv("cols", arrS(cols)).kv("r", r).kv("bpp", isBpp));
    if (r != "ok" || rows.size() < 2 || cols.size() < 2) return false;
    g[id] = std::move(p);
    return true;
  }
  void copy(int id, int id2)
  {
    g[id2].reset(new bpp::ContingencyTableGenerator(*g.at(id)));
    tracer().emit(Obj().kv("e", "CopyGen").kv("g", id).kv("g2", id2));
  }
  std::vector<std::vector<size_t>> draw(int id)
  {
    std::vector<std::vector<size_t>> t;
    g_cur = id;
    std::string r = outcome<bpp::Exception>([&]() { t = matOf(g.at(id)->rcont2()); });
    g_cur = -1;
    tracer().emit(Obj().kv("e", "Table").kv("g", id).kv("t", matJ(t)).kv("r", r));
    return t;
  }
};

static void pvalueTest(const std::vector<std::vector<size_t>>& t, unsigned np)
{
  tracer().emit(Obj().kv("e", "TestBegin").kv("t", matJ(t)).kv("np", static_cast<long long>(np)));
  double p = 0;
  g_cur = -1;
  std::string r = outcome<bpp::Exception>([&]() {
    bpp::ContingencyTableTest test(t, np, false);
    p = test.getPValue();
  });
  Obj e;
  e.kv("e", "TestEnd").kv("r", r);
  if (r == "ok") e.kv("ge0", p >= 0.).kv("le1", p <= 1.);
  tracer().emit(e);
}

// all vectors of n non-negative entries summing to t
static void compositions(size_t n, size_t t, std::vector<size_t>& cur, std::vector<std::vector<size_t>>& out)
{
  if (cur.size() + 1 == n)
  {
    cur.push_back(t);
    out.push_back(cur);
    cur.pop_back();
    return;
  }
  for (size_t x = 0; x <= t; ++x)
  {
    cur.push_back(x);
    compositions(n, t - x, cur, out);
    cur.pop_back();
  }
}

static long tablesExh(long mintot, long maxtot, long mindim, long maxdim, const std::vector<uint64_t>& seeds)
{
  long sc = 0;
  for (long t = mintot; t <= maxtot; ++t)
  {
    std::vector<std::vector<size_t>> ms;
    for (long n = mindim; n <= maxdim; ++n)
    {
      std::vector<size_t> cur;
      compositions(static_cast<size_t>(n), static_cast<size_t>(t), cur, ms);
    }
    for (const auto& rows : ms)
      for (const auto& cols : ms)
      {
        reset();
        ++sc;
        Gens G;
        if (!G.make(0, rows, cols)) continue;
        for (uint64_t s : seeds)
        {
          setSeed(s);
          G.draw(0);
        }
      }
  }
  return sc;
}

static std::vector<size_t> randomMargin(Rng& rng, size_t n, size_t tot)
{
  // tot balls into n boxes; some boxes are closed (zero margins) with probability 1/4 each
  std::vector<size_t> v(n, 0);
  std::vector<size_t> open;
  for (size_t i = 0; i < n; ++i)
    if (!rng.chance(1, 4)) open.push_back(i);
  if (open.empty()) open.push_back(rng.below(n));
  bool skew = rng.chance(1, 3);
  for (size_t k = 0; k < tot; ++k)
  {
    size_t b = skew && rng.chance(2, 3) ? open[0] : open[rng.below(open.size())];
    ++v[b];
  }
  return v;
}

static long tablesRand(Rng& rng, long n, long maxtot, const std::vector<uint64_t>& seeds)
{
  long sc = 0;
  for (long it = 0; it < n; ++it)
  {
    reset();
    ++sc;
    Gens G;
    setSeed(seeds[rng.below(seeds.size())]);
    std::vector<int> live;
    int nextId = 0;
    int ngen = 1 + static_cast<int>(rng.below(3));
    std::vector<std::vector<size_t>> lastTable;
    for (int k = 0; k < ngen; ++k)
    {
      size_t nr = 2 + rng.below(4), nc = 2 + rng.below(4);
      size_t tot = rng.chance(1, 2) ? rng.below(21) : rng.below(static_cast<size_t>(maxtot) + 1);
      std::vector<size_t> rows = randomMargin(rng, nr, tot), cols = randomMargin(rng, nc, tot);
      if (rng.chance(1, 6))
      { // inconsistent totals: must be refused
        std::vector<size_t> bad = cols;
        bad[rng.below(nc)] += 1 + rng.below(3);
        G.make(nextId++, rows, bad);
      }
      if (rng.chance(1, 12))
      { // fewer than two rows: outside the statement, either outcome, never used
        G.make(nextId++, std::vector<size_t>(1, tot), cols);
      }
      int id = nextId++;
      if (G.make(id, rows, cols)) live.push_back(id);
    }
    long ops = 3 + static_cast<long>(rng.below(5));
    for (long o = 0; o < ops && !live.empty(); ++o)
    {
      size_t what = rng.below(10);
      int id = live[rng.below(live.size())];
      if (what < 6) lastTable = G.draw(id);
      else if (what == 6)
      {
        int id2 = nextId++;
        G.copy(id, id2);
        live.push_back(id2);
      }
      else if (what == 7) setSeed(seeds[rng.below(seeds.size())]);
      else
      {
        // independence test on the last table drawn (zero margins => refusal path) or on a
        // small positive table; 0 permutations = chi-square approximation
        std::vector<std::vector<size_t>> t = lastTable;
        if (t.empty() || rng.chance(1, 3))
        {
          size_t nr = 2 + rng.below(3), nc = 2 + rng.below(3);
          t.assign(nr, std::vector<size_t>(nc, 0));
          for (auto& r : t)
            for (auto& x : r) x = rng.chance(1, 5) ? 0 : 1 + rng.below(9);
        }
        size_t tot = 0;
        for (auto& r : t)
          for (auto& x : r) tot += (x > 1000000 ? 0 : x);
        unsigned np = rng.chance(1, 3) ? 0 : static_cast<unsigned>(1 + rng.below(tot > 60 ? 2 : 4));
        pvalueTest(t, np);
      }
    }
  }
  return sc;
}

// ---------------------------------------------------------------- sampling
struct Call
{
  std::string op;
  std::vector<int> src, w, cum, par;
  std::vector<size_t> rows, cols;
  std::vector<std::vector<size_t>> t;
  bool weighted = false, repl = false, cst = false;
  long k = 0, n = 0, entry = 0, p = 0, np = 0;
  std::string kind;
};

static std::vector<double> dbl(const std::vector<int>& v)
{
  std::vector<double> d;
  for (int x : v) d.push_back(static_cast<double>(x));
  return d;
}

static void exec(const Call& c)
{
  Obj cj, rj;
  cj.kv("op", c.op);
  std::string r;
  if (c.op == "getSample")
  {
    cj.kv("src", arrI(c.src)).kv("k", c.k).kv("repl", c.repl);
    if (c.weighted) cj.kv("w", arrI(c.w));
    std::vector<int> vout(static_cast<size_t>(c.k), -7);
    std::vector<double> wd = dbl(c.w);
    r = outcome<bpp::Exception>([&]() {
      if (c.weighted) bpp::RandomTools::getSample(c.src, wd, vout, c.repl);
      else bpp::RandomTools::getSample(c.src, vout, c.repl);
    });
    putOutcome(rj, r);
    if (r == "ok") rj.kv("out", arrI(vout));
  }
  else if (c.op == "pickOne")
  {
    cj.kv("src", arrI(c.src)).kv("repl", c.repl).kv("cst", c.cst);
    if (c.weighted) cj.kv("w", arrI(c.w));
    std::vector<int> v = c.src;
    std::vector<double> wd = dbl(c.w);
    int out = -7;
    r = outcome<bpp::Exception>([&]() {
      const std::vector<int>& cv = v;
      const std::vector<double>& cw = wd;
      if (c.weighted) out = c.cst ? bpp::RandomTools::pickOne(cv, cw) : bpp::RandomTools::pickOne(v, wd, c.repl);
      else out = c.cst ? bpp::RandomTools::pickOne(cv) : bpp::RandomTools::pickOne(v, c.repl);
    });
    putOutcome(rj, r);
    if (r == "ok")
    {
      rj.kv("out", out).kv("rest", arrI(v));
      if (c.weighted)
      {
        Arr wr;
        for (double x : wd) wr.add(static_cast<long long>(x));
        rj.kv("wrest", wr);
      }
    }
  }
  else if (c.op == "cumSum")
  {
    cj.kv("cum", arrI(c.cum));
    std::vector<double> cd;
    for (int x : c.cum) cd.push_back(static_cast<double>(x) / static_cast<double>(c.cum.back()));
    size_t out = 0;
    r = outcome<bpp::Exception>([&]() { out = bpp::RandomTools::pickFromCumSum(cd); });
    putOutcome(rj, r);
    if (r == "ok") rj.kv("out", enc(out));
  }
  else if (c.op == "multinom")
  {
    cj.kv("n", c.n).kv("w", arrI(c.w));
    std::vector<size_t> out;
    std::vector<double> wd = dbl(c.w);
    r = outcome<bpp::Exception>([&]() { out = bpp::RandomTools::randMultinomial(static_cast<size_t>(c.n), wd); });
    putOutcome(rj, r);
    if (r == "ok") rj.kv("out", arrS(out));
  }
  else if (c.op == "randInt")
  {
    cj.kv("entry", c.entry);
    size_t out = 0;
    r = outcome<bpp::Exception>([&]() { out = bpp::RandomTools::giveIntRandomNumberBetweenZeroAndEntry<size_t>(static_cast<size_t>(c.entry)); });
    putOutcome(rj, r);
    if (r == "ok") rj.kv("out", enc(out));
  }
  else if (c.op == "flip")
  {
    cj.kv("p", c.p);
    bool out = false;
    double pr = c.p == 0 ? 0. : c.p == 1 ? 1. : 0.5;
    r = outcome<bpp::Exception>([&]() { out = bpp::RandomTools::flipCoin(pr); });
    putOutcome(rj, r);
    if (r == "ok") rj.kv("out", out);
  }
  else if (c.op == "real")
  {
    cj.kv("kind", c.kind).kv("par", arrI(c.par));
    double x = 0, a = c.par.size() > 0 ? c.par[0] / 10. : 0, b = c.par.size() > 1 ? c.par[1] / 10. : 0;
    bool hasLo = true, hasHi = false;
    double hi = 0;
    r = outcome<bpp::Exception>([&]() {
      if (c.kind == "uniform") { x = bpp::RandomTools::giveRandomNumberBetweenZeroAndEntry(a); hasHi = true; hi = a; }
      else if (c.kind == "gauss") { x = bpp::RandomTools::randGaussian(a, b); hasLo = false; }
      else if (c.kind == "gamma1") x = bpp::RandomTools::randGamma(a);
      else if (c.kind == "gamma2") x = bpp::RandomTools::randGamma(a, b);
      else if (c.kind == "beta") { x = bpp::RandomTools::randBeta(a, b); hasHi = true; hi = 1.; }
      else if (c.kind == "exp") x = bpp::RandomTools::randExponential(a);
    });
    putOutcome(rj, r);
    if (r == "ok") rj.kv("fin", static_cast<bool>(std::isfinite(x))).kv("geLo", !hasLo || x >= 0.).kv("leHi", !hasHi || x <= hi).kv("bits", bits(x));
  }
  else if (c.op == "table")
  {
    cj.kv("rows", arrS(c.rows)).kv("cols", arrS(c.cols));
    std::vector<std::vector<size_t>> t;
    r = outcome<bpp::Exception>([&]() {
      bpp::ContingencyTableGenerator g(c.rows, c.cols);
      t = matOf(g.rcont2());
    });
    putOutcome(rj, r);
    if (r == "ok") rj.kv("out", matJ(t));
  }
  else if (c.op == "pvalue")
  {
    cj.kv("t", matJ(c.t)).kv("np", c.np);
    double p = 0;
    r = outcome<bpp::Exception>([&]() {
      bpp::ContingencyTableTest test(c.t, static_cast<unsigned>(c.np), false);
      p = test.getPValue();
    });
    putOutcome(rj, r);
    if (r == "ok") rj.kv("ge0", p >= 0.).kv("le1", p <= 1.).kv("bits", bits(p));
  }
  tracer().emit(Obj().kv("e", "Call").kv("c", cj).kv("r", rj));
}

static std::vector<int> weightsFor(Rng& rng, size_t n)
{
  std::vector<int> w(n, 0);
  if (n == 0) return w;
  for (auto& x : w) x = rng.chance(1, 3) ? 0 : 1 + static_cast<int>(rng.below(3));
  bool pos = false;
  for (int x : w) pos = pos || x > 0;
  if (!pos) w[rng.below(n)] = 1 + static_cast<int>(rng.below(3));
  return w;
}

static std::vector<int> sourceOf(Rng& rng, size_t n, bool distinct)
{
  std::vector<int> s(n);
  for (size_t i = 0; i < n; ++i) s[i] = distinct ? 10 + static_cast<int>(i) : 10 + static_cast<int>(rng.below(n / 2 + 1));
  // no particular order
  for (size_t i = n; i > 1; --i) std::swap(s[i - 1], s[rng.below(i)]);
  return s;
}

static long samplingExh(Rng& rng, const std::vector<uint64_t>& seeds)
{
  long sc = 0;
  for (size_t si = 0; si < seeds.size(); ++si)
    for (size_t n = 0; n <= 12; ++n)
    {
      reset();
      ++sc;
      std::vector<Call> calls;
      std::vector<int> srcD = sourceOf(rng, n, true), srcU = sourceOf(rng, n, si % 2 == 0), w = weightsFor(rng, n);
      for (long k = 0; k <= 14; ++k)
        for (int v = 0; v < 4; ++v)
        {
          Call c;
          c.op = "getSample";
          c.k = k;
          c.repl = (v & 1) != 0;
          c.weighted = (v & 2) != 0;
          c.src = c.weighted ? srcD : srcU;
          if (c.weighted) c.w = w;
          calls.push_back(c);
        }
      for (int v = 0; v < 8; ++v)
      {
        Call c;
        c.op = "pickOne";
        c.repl = (v & 1) != 0;
        c.weighted = (v & 2) != 0;
        c.cst = (v & 4) != 0;
        if (c.cst) c.repl = true;
        c.src = c.weighted ? srcD : srcU;
        if (c.weighted) c.w = w;
        calls.push_back(c);
      }
      // calls in a seed-dependent order, then the first third again under the same seed
      for (size_t i = calls.size(); i > 1; --i) std::swap(calls[i - 1], calls[rng.below(i)]);
      setSeed(seeds[si]);
      for (const auto& c : calls) exec(c);
      setSeed(seeds[si]);
      for (size_t i = 0; i < calls.size() / 3; ++i) exec(calls[i]);
    }
  return sc;
}

static Call randomCall(Rng& rng)
{
  Call c;
  size_t what = rng.below(16);
  size_t n = rng.below(13);
  if (what < 4)
  {
    c.op = "getSample";
    c.k = static_cast<long>(rng.below(15));
    c.repl = rng.coin();
    c.weighted = rng.coin();
    c.src = sourceOf(rng, n, c.weighted || rng.coin());
    if (c.weighted) c.w = weightsFor(rng, n);
  }
  else if (what < 7)
  {
    c.op = "pickOne";
    c.repl = rng.coin();
    c.weighted = rng.coin();
    c.cst = rng.chance(1, 4);
    if (c.cst) c.repl = true;
    c.src = sourceOf(rng, n, c.weighted || rng.coin());
    if (c.weighted) c.w = weightsFor(rng, n);
  }
  else if (what == 7)
  {
    c.op = "cumSum";
    std::vector<int> w = weightsFor(rng, 1 + rng.below(12));
    int acc = 0;
    for (int x : w) c.cum.push_back(acc += x);
  }
  else if (what == 8)
  {
    c.op = "multinom";
    c.n = static_cast<long>(rng.below(15));
    c.w = weightsFor(rng, 1 + rng.below(12));
  }
  else if (what == 9)
  {
    c.op = "randInt";
    c.entry = rng.chance(1, 5) ? 0 : static_cast<long>(1 + rng.below(20));
  }
  else if (what == 10)
  {
    c.op = "flip";
    c.p = static_cast<long>(rng.below(3));
  }
  else if (what < 14)
  {
    c.op = "real";
    static const int grid[] = {1, 5, 10, 20, 50, 100, 200}; // tenths: 0.1 .. 20
    auto g = [&]() { return grid[rng.below(7)]; };
    static const char* kinds[] = {"uniform", "gauss", "gamma1", "gamma2", "beta", "exp"};
    c.kind = kinds[rng.below(6)];
    c.par.push_back(g());
    if (c.kind == "gauss" || c.kind == "gamma2" || c.kind == "beta") c.par.push_back(g());
  }
  else if (what == 14)
  {
    c.op = "table";
    size_t nr = 2 + rng.below(4), nc = 2 + rng.below(4), tot = rng.below(41);
    c.rows = randomMargin(rng, nr, tot);
    c.cols = randomMargin(rng, nc, tot);
  }
  else
  {
    c.op = "pvalue";
    size_t nr = 2 + rng.below(2), nc = 2 + rng.below(3);
    c.t.assign(nr, std::vector<size_t>(nc, 0));
    for (auto& r : c.t)
      for (auto& x : r) x = 1 + rng.below(9);
    c.np = static_cast<long>(rng.below(4));
  }
  return c;
}

static long samplingRand(Rng& rng, long n, const std::vector<uint64_t>& seeds)
{
  long sc = 0;
  for (long it = 0; it < n; ++it)
  {
    reset();
    ++sc;
    std::vector<std::pair<uint64_t, std::vector<Call>>> past;
    long nruns = 2 + static_cast<long>(rng.below(3));
    for (long k = 0; k < nruns; ++k)
    {
      std::vector<Call> calls;
      uint64_t sd = seeds[rng.below(seeds.size())];
      if (!past.empty() && rng.coin())
      { // replay an earlier run under its seed: all of it, or a prefix followed by other calls
        const auto& pr = past[rng.below(past.size())];
        sd = pr.first;
        size_t keep = rng.coin() ? pr.second.size() : rng.below(pr.second.size() + 1);
        calls.assign(pr.second.begin(), pr.second.begin() + static_cast<long>(keep));
      }
      size_t len = 4 + rng.below(7);
      while (calls.size() < len) calls.push_back(randomCall(rng));
      setSeed(sd);
      for (const auto& c : calls) exec(c);
      past.push_back(std::make_pair(sd, calls));
    }
  }
  return sc;
}


// ---------------------------------------------------------------- argument conventions ("laws")
static void quietSeed(uint64_t s) { bpp::RandomTools::setSeed(static_cast<std::mt19937::result_type>(s)); }

// one draw of sampler s under seed sd; par as documented in spec/Random/ScaleLaw.tla (Decl)
static double drawOf(const std::string& s, const std::vector<double>& par, uint64_t sd, std::string& how)
{
  double x = 0;
  how = outcome<bpp::Exception>([&]() {
    if (s == "rt.exp") { quietSeed(sd); x = bpp::RandomTools::randExponential(par[0]); }
    else if (s == "rt.gauss") { quietSeed(sd); x = bpp::RandomTools::randGaussian(par[0], par[1]); }
    else if (s == "rt.gamma") { quietSeed(sd); x = bpp::RandomTools::randGamma(par[0], par[1]); }
    else if (s == "rt.unif") { quietSeed(sd); x = bpp::RandomTools::giveRandomNumberBetweenZeroAndEntry(par[0]); }
    else if (s == "dd.exp") { bpp::ExponentialDiscreteDistribution d(3, par[0]); quietSeed(sd); x = d.randC(); }
    else if (s == "dd.texp") { bpp::TruncatedExponentialDiscreteDistribution d(3, par[0], 64. / par[0]); quietSeed(sd); x = d.randC(); }
    else if (s == "dd.gauss") { bpp::GaussianDiscreteDistribution d(3, par[0], par[1]); quietSeed(sd); x = d.randC(); }
    else if (s == "dd.gamma") { bpp::GammaDiscreteDistribution d(3, par[0], par[1], 0.05, 0.05, true, par[2]); quietSeed(sd); x = d.randC(); }
    else if (s == "dd.unif") { bpp::UniformDiscreteDistribution d(3, par[0], par[0] + par[1]); quietSeed(sd); x = d.randC(); }
  });
  return x;
}

// 4 * b / a when that is 1/4, 1/2, 1, 2 or 4 (relative tolerance tol), else 0
static int ratioCode(double a, double b, double tol)
{
  static const int cs[] = {1, 2, 4, 8, 16};
  if (!(a == a) || !(b == b) || a == 0.) return 0;
  for (int c : cs)
    if (std::fabs(4. * b - c * a) <= tol * std::fabs(c * a)) return c;
  return 0;
}

struct SamplerDef
{
  const char* name;
  std::vector<int> kinds; // 0 shape, 1 scale-like (mean/rate/sd/scale), 2 variance, 3 location
};

static long laws(Rng& rng, const std::vector<uint64_t>& seeds)
{
  long sc = 0;
  const std::vector<SamplerDef> defs = {
    {"rt.exp", {1}}, {"rt.gauss", {3, 2}}, {"rt.gamma", {0, 1}}, {"rt.unif", {1}}, {"dd.exp", {1}},
    {"dd.texp", {1}}, {"dd.gauss", {3, 1}}, {"dd.gamma", {0, 1, 3}}, {"dd.unif", {3, 1}}};
  static const double bases[] = {0.25, 0.5, 1., 1.5, 3., 5.};
  static const double shapes[] = {0.5, 1., 2.5, 7.};
  static const int f4s[] = {1, 2, 8, 16};
  for (uint64_t sd : seeds)
  {
    for (const auto& def : defs)
    {
      reset();
      ++sc;
      std::string s = def.name, how;
      auto basePar = [&](bool withLoc) {
        std::vector<double> par;
        for (int k : def.kinds)
          par.push_back(k == 0 ? shapes[rng.below(4)] : k == 3 ? (withLoc ? (s == "dd.gamma" ? 0.5 * static_cast<double>(rng.below(3)) : -1. + 0.5 * static_cast<double>(rng.below(5))) : 0.) : bases[rng.below(6)]);
        return par;
      };
      auto emitPair = [&](int arg, const char* key, double val4, double a, double b, double tol, const std::string& h1, const std::string& h2) {
        Obj e;
        e.kv("e", "Pair").kv("s", s).kv("arg", arg).kv(key, static_cast<long long>(val4)).kv("seed", static_cast<long long>(sd));
        e.kv("code", (h1 == "ok" && h2 == "ok") ? ratioCode(a, b, tol) : -1);
        tracer().emit(e);
      };
      for (size_t i = 0; i < def.kinds.size(); ++i)
      {
        int k = def.kinds[i];
        if (k == 1 || k == 2)
          for (int rep = 0; rep < 3; ++rep)
            for (int f4 : f4s)
            {
              if (k == 2 && f4 != 1 && f4 != 16) continue;
              std::vector<double> p1 = basePar(false), p2;
              p2 = p1;
              p2[i] = p1[i] * f4 / 4.;
              std::string h1, h2;
              double x1 = drawOf(s, p1, sd, h1), x2 = drawOf(s, p2, sd, h2);
              if (h1 == "ok" && h2 == "ok" && x1 == 0. && x2 == 0.) continue; // no information
              emitPair(static_cast<int>(i) + 1, "f", f4, x1, x2, 1e-12, h1, h2);
            }
        else if (k == 3)
          for (int rep = 0; rep < 4; ++rep)
          {
            static const double ds[] = {0.25, 2., 0.5, 1.};
            std::vector<double> p1 = basePar(true), p2;
            p2 = p1;
            double d = ds[rep];
            if (s != "dd.gamma" && rng.coin()) d = -d;
            p2[i] = p1[i] + d;
            std::string h1, h2;
            double x1 = drawOf(s, p1, sd, h1), x2 = drawOf(s, p2, sd, h2);
            Obj e;
            e.kv("e", "Pair").kv("s", s).kv("arg", static_cast<int>(i) + 1).kv("d", static_cast<long long>(d * 4)).kv("seed", static_cast<long long>(sd));
            double tol = 1e-9 * std::max(1., std::max(std::fabs(x1), std::fabs(x2)) / std::fabs(d));
            e.kv("code", (h1 == "ok" && h2 == "ok") ? ratioCode(d, x2 - x1, tol) : -1);
            tracer().emit(e);
          }
      }
      { // identical arguments
        std::vector<double> p1 = basePar(true);
        std::string h1, h2;
        double x1 = drawOf(s, p1, sd, h1), x2 = drawOf(s, p1, sd, h2);
        if (!(h1 == "ok" && h2 == "ok" && x1 == 0. && x2 == 0.)) emitPair(0, "f", 4, x1, x2, 0., h1, h2);
      }
    }
    // draws of restricted distributions: the accepted draw against the raw stream of the unrestricted twin
    reset();
    ++sc;
    for (int rep = 0; rep < 30; ++rep)
    {
      static const char* cls[] = {"dd.exp", "dd.texp", "dd.gauss", "dd.gamma", "dd.unif", "dd.beta"};
      static const double grid[] = {0.1, 0.25, 0.5, 1., 2., 5., 20.};
      std::string s = cls[rep % 6];
      double a = grid[rng.below(7)], b = grid[rng.below(7)], sh = shapes[rng.below(4)];
      double qlo = 0.1 * static_cast<double>(2 + rng.below(4)), qhi = qlo + 0.1 * static_cast<double>(1 + rng.below(3)); // 20%..50% + 10%..30%
      uint64_t sd2 = sd + static_cast<uint64_t>(rep) * 15485863ULL;
      std::unique_ptr<bpp::DiscreteDistributionInterface> d, tw;
      double lo = 0, hi = 0, x = 0;
      std::vector<double> raw;
      std::string how = outcome<bpp::Exception>([&]() {
        auto mk = [&]() -> bpp::DiscreteDistributionInterface* {
          if (s == "dd.exp") return new bpp::ExponentialDiscreteDistribution(3, a);
          if (s == "dd.texp") return new bpp::TruncatedExponentialDiscreteDistribution(3, a, 8. / a);
          if (s == "dd.gauss") return new bpp::GaussianDiscreteDistribution(3, a - 1., b);
          if (s == "dd.gamma") return new bpp::GammaDiscreteDistribution(3, sh, b, 0.05, 0.05, true, a);
          if (s == "dd.unif") return new bpp::UniformDiscreteDistribution(3, a - 1., a - 1. + b);
          return new bpp::BetaDiscreteDistribution(3, sh, std::min(a, 5.));
        };
        d.reset(mk());
        tw.reset(mk());
        lo = tw->qProb(qlo);
        hi = s == "dd.texp" ? 8. / a : tw->qProb(qhi); // the truncation point has to stay inside
        bpp::IntervalConstraint ic(lo, hi, true, true);
        d->restrictToConstraint(ic);
      });
      if (how != "ok" || !(lo < hi)) continue; // restriction refused / degenerate interval: nothing to observe
      how = outcome<bpp::Exception>([&]() {
        quietSeed(sd2);
        for (int k = 0; k < 48; ++k) raw.push_back(tw->randC());
        quietSeed(sd2);
        x = d->randC();
      });
      if (how != "ok")
      {
        tracer().emit(Obj().kv("e", "Restricted").kv("s", s).kv("inDom", Arr().add(true)).kv("idx", 0).kv("dom", false).kv("raised", how));
        continue;
      }
      Arr in;
      long idx = 0;
      bool any = false;
      for (size_t k = 0; k < raw.size(); ++k)
      {
        bool inside = raw[k] >= lo && raw[k] <= hi;
        in.add(inside);
        any = any || inside;
        if (idx == 0 && raw[k] == x) idx = static_cast<long>(k) + 1;
      }
      if (!any) continue; // the replayed window holds no acceptable draw
      tracer().emit(Obj().kv("e", "Restricted").kv("s", s).kv("inDom", in).kv("idx", idx).kv("dom", x >= lo && x <= hi).kv("seed", static_cast<long long>(sd2)));
    }
    // picks by inverse cdf
    reset();
    ++sc;
    for (int rep = 0; rep < 40; ++rep)
    {
      uint64_t sd2 = sd + static_cast<uint64_t>(rep) * 7919ULL;
      std::vector<int> w = weightsFor(rng, 1 + rng.below(12)), cum;
      int acc = 0;
      for (int x : w) cum.push_back(acc += x);
      long double tot = acc;
      size_t what = rng.below(3);
      size_t n = what == 1 ? rng.below(15) : 1;
      std::vector<double> us;
      quietSeed(sd2);
      for (size_t i = 0; i < n; ++i) us.push_back(bpp::RandomTools::giveRandomNumberBetweenZeroAndEntry(1.0));
      Arr rs, ties, outs;
      for (double u : us)
      {
        long r = 0;
        bool tie = false;
        for (int c : cum)
        {
          if (static_cast<long double>(c) < static_cast<long double>(u) * tot) ++r;
          if (static_cast<long double>(c) == static_cast<long double>(u) * tot) tie = true;
        }
        rs.add(r);
        ties.add(tie);
      }
      std::string r, op;
      quietSeed(sd2);
      if (what == 0)
      {
        op = "cumSum";
        std::vector<double> cd;
        for (int c : cum) cd.push_back(static_cast<double>(c) / static_cast<double>(acc));
        size_t o = 0;
        r = outcome<bpp::Exception>([&]() { o = bpp::RandomTools::pickFromCumSum(cd); });
        outs.add(enc(o));
      }
      else if (what == 1)
      {
        op = "multinom";
        std::vector<size_t> o;
        std::vector<double> wd = dbl(w);
        r = outcome<bpp::Exception>([&]() { o = bpp::RandomTools::randMultinomial(n, wd); });
        for (size_t x : o) outs.add(enc(x));
      }
      else
      {
        op = "pickW";
        std::vector<int> src;
        for (size_t i = 0; i < w.size(); ++i) src.push_back(10 + static_cast<int>(i));
        std::vector<double> wd = dbl(w);
        int o = -1;
        const std::vector<int>& cs = src;
        const std::vector<double>& cw = wd;
        r = outcome<bpp::Exception>([&]() { o = bpp::RandomTools::pickOne(cs, cw); });
        outs.add(o - 10);
      }
      Obj e;
      e.kv("e", "Inv").kv("op", op).kv("cum", arrI(cum)).kv("r", rs).kv("tie", ties).kv("seed", static_cast<long long>(sd2));
      if (r == "ok") e.kv("out", outs);
      else e.kv("out", Arr().add(-1)).kv("raised", r);
      tracer().emit(e);
    }
    // randC(): domain and qProb(pProb(x)) round trip
    reset();
    ++sc;
    for (int rep = 0; rep < 36; ++rep)
    {
      static const char* cls[] = {"dd.exp", "dd.texp", "dd.gauss", "dd.gamma", "dd.unif", "dd.beta"};
      std::string s = cls[rep % 6], how;
      double a = bases[rng.below(6)], b = bases[rng.below(6)], sh = shapes[rng.below(4)], x = 0, q = 0, p = 0;
      bool dom = false;
      quietSeed(sd + static_cast<uint64_t>(rep) * 104729ULL);
      how = outcome<bpp::Exception>([&]() {
        if (s == "dd.exp") { bpp::ExponentialDiscreteDistribution d(3, a); x = d.randC(); dom = x >= 0.; p = d.pProb(x); q = d.qProb(p); }
        else if (s == "dd.texp") { bpp::TruncatedExponentialDiscreteDistribution d(3, a, 4. * b); x = d.randC(); dom = x >= 0. && x <= 4. * b; p = d.pProb(x); q = d.qProb(p); }
        else if (s == "dd.gauss") { bpp::GaussianDiscreteDistribution d(3, a - 1., b); x = d.randC(); dom = std::isfinite(x); p = d.pProb(x); q = d.qProb(p); }
        else if (s == "dd.gamma") { bpp::GammaDiscreteDistribution d(3, sh, b, 0.05, 0.05, true, a); x = d.randC(); dom = x >= a; p = d.pProb(x); q = d.qProb(p); }
        else if (s == "dd.unif") { bpp::UniformDiscreteDistribution d(3, a - 1., a - 1. + b); x = d.randC(); dom = x >= a - 1. && x <= a - 1. + b; p = d.pProb(x); q = d.qProb(p); }
        else { bpp::BetaDiscreteDistribution d(3, sh, a); x = d.randC(); dom = x >= 0. && x <= 1.; p = d.pProb(x); q = d.qProb(p); }
      });
      bool skip = !(p > 1e-5 && p < 1. - 1e-5);
      bool rt = std::fabs(q - x) <= 1e-3 * std::max(1., std::fabs(x));
      tracer().emit(Obj().kv("e", "RandC").kv("s", s).kv("dom", how == "ok" && dom).kv("rt", how == "ok" && rt).kv("skip", how == "ok" && skip).kv("seed", static_cast<long long>(sd)));
    }
  }
  return sc;
}

// ---------------------------------------------------------------- hidden-state path sampling
struct HState : public virtual bpp::Clonable
{
  HState* clone() const override { return new HState(*this); }
};
class HAlpha : public bpp::HmmStateAlphabet, public bpp::AbstractParametrizable
{
  HState st_;
  size_t n_;

public:
  explicit HAlpha(size_t n) : bpp::AbstractParametrizable(""), st_(), n_(n) {}
  HAlpha* clone() const override { return new HAlpha(*this); }
  const bpp::Clonable& getState(size_t) const override { return st_; }
  size_t getNumberOfStates() const override { return n_; }
  bool worksWith(const bpp::HmmStateAlphabet& a) const override { return a.getNumberOfStates() == n_; }
};

// rank interval of u in the cumulated weights w: number of thresholds <= u -+ 1e-12
static void rankOf(double u, const std::vector<double>& w, long& lo, long& hi)
{
  long double c = 0;
  lo = hi = 0;
  for (double x : w)
  {
    c += x;
    if (c <= static_cast<long double>(u) - 1e-12L) ++lo;
    if (c <= static_cast<long double>(u) + 1e-12L) ++hi;
  }
  long n = static_cast<long>(w.size());
  if (lo <= n - 1 && hi > n - 1) hi = n - 1;
}

struct HmmObj
{
  std::shared_ptr<bpp::AbstractHmmTransitionMatrix> obj, twin;
  bpp::Parametrizable* par(bool t) { return dynamic_cast<bpp::Parametrizable*>(t ? twin.get() : obj.get()); }
};

static std::shared_ptr<bpp::AbstractHmmTransitionMatrix> freshTm(const std::string& kind, std::shared_ptr<HAlpha> al)
{
  if (kind == "full") return std::shared_ptr<bpp::AbstractHmmTransitionMatrix>(new bpp::FullHmmTransitionMatrix(al, ""));
  return std::shared_ptr<bpp::AbstractHmmTransitionMatrix>(new bpp::AutoCorrelationTransitionMatrix(al, ""));
}

static long hmmPaths(Rng& rng, long n, const std::vector<uint64_t>& seeds)
{
  long sc = 0;
  for (long it = 0; it < n; ++it)
  {
    reset();
    ++sc;
    std::string kind = rng.coin() ? "full" : "auto";
    size_t ns = 1 + rng.below(4);
    auto al = std::make_shared<HAlpha>(ns);
    HmmObj slot[2];
    // a refused setTransitionProbabilities may leave rows half taken over (simplexes and parameter list no longer
    // agree): such an object is not used as the source of a copy until a later setTransitionProbabilities succeeds
    bool tainted[2] = {false, false};
    bool copied = false;
    auto create = [&](int o) {
      slot[o].obj = freshTm(kind, al);
      slot[o].twin = freshTm(kind, al);
      tracer().emit(Obj().kv("e", "New").kv("o", o).kv("k", kind).kv("ns", ns));
    };
    uint64_t pool[3] = {seeds[rng.below(seeds.size())], seeds[rng.below(seeds.size())], seeds[rng.below(seeds.size())]};

    auto mutate = [&](int o, bool forceSetP) {
      HmmObj& h = slot[o];
      std::string r, r2, whatS;
      if (kind == "full" && (forceSetP || rng.chance(2, 3) || ns == 1))
      {
        whatS = "setP";
        bpp::RowMatrix<double> m(ns, ns);
        for (size_t i = 0; i < ns; ++i)
        {
          // eighths; an entry is "almost zero" (1e-9) with probability 1/3.  A true zero has no simplex coordinates:
          // the call is then refused (possibly half-way, see tainted) - generated only before the first copy
          std::vector<int> e(ns, 0);
          int left = 8;
          for (size_t j = 0; j + 1 < ns; ++j)
          {
            int x = rng.chance(1, 3) ? 0 : static_cast<int>(rng.below(static_cast<size_t>(left) + 1));
            e[j] = x;
            left -= x;
          }
          e[ns - 1] = left;
          bool trueZero = !copied && rng.chance(1, 4);
          size_t big = 0;
          for (size_t j = 0; j < ns; ++j)
            if (e[j] > e[big]) big = j;
          double taken = 0;
          for (size_t j = 0; j < ns; ++j)
          {
            m(i, j) = e[j] / 8.;
            if (e[j] == 0 && !trueZero)
            {
              m(i, j) = 1e-9;
              taken += 1e-9;
            }
          }
          m(i, big) -= taken;
        }
        auto* f = dynamic_cast<bpp::FullHmmTransitionMatrix*>(h.obj.get());
        auto* f2 = dynamic_cast<bpp::FullHmmTransitionMatrix*>(h.twin.get());
        r = outcome<bpp::Exception>([&]() { f->setTransitionProbabilities(m); });
        r2 = outcome<bpp::Exception>([&]() { f2->setTransitionProbabilities(m); });
        tainted[o] = r != "ok";
      }
      else
      {
        whatS = "param";
        std::vector<std::string> names = h.par(false)->getParameters().getParameterNames();
        if (names.empty()) return;
        std::string nm = names[rng.below(names.size())];
        double v = (1 + static_cast<double>(rng.below(15))) / 16.;
        r = outcome<bpp::Exception>([&]() { h.par(false)->setParameterValue(nm, v); });
        r2 = outcome<bpp::Exception>([&]() { h.par(true)->setParameterValue(nm, v); });
      }
      tracer().emit(Obj().kv("e", "Mut").kv("o", o).kv("what", whatS).kv("r", r).kv("twin", r2));
    };
    auto get = [&](int o, bool eq) {
      HmmObj& h = slot[o];
      bool same = true;
      std::string r = outcome<bpp::Exception>([&]() {
        if (eq)
        {
          const std::vector<double>& a = h.obj->getEquilibriumFrequencies();
          const std::vector<double>& b = h.twin->getEquilibriumFrequencies();
          for (size_t i = 0; i < ns; ++i) same = same && std::fabs(a[i] - b[i]) <= 1e-12;
        }
        else
        {
          const bpp::Matrix<double>& a = h.obj->getPij();
          const bpp::Matrix<double>& b = h.twin->getPij();
          for (size_t i = 0; i < ns; ++i)
            for (size_t j = 0; j < ns; ++j) same = same && std::fabs(a(i, j) - b(i, j)) <= 1e-12;
        }
      });
      tracer().emit(Obj().kv("e", "Get").kv("o", o).kv("which", eq ? "eq" : "pij").kv("same", r == "ok" && same));
    };
    auto sample = [&](int o, size_t len) {
      HmmObj& h = slot[o];
      uint64_t sd = pool[rng.below(3)];
      std::vector<double> us;
      quietSeed(sd);
      for (size_t i = 0; i < len; ++i) us.push_back(bpp::RandomTools::giveRandomNumberBetweenZeroAndEntry(1.0));
      std::vector<size_t> path;
      quietSeed(sd);
      std::string r = outcome<bpp::Exception>([&]() { path = h.obj->sample(len); });
      // the current weights, from the twin
      std::vector<double> eq = h.twin->getEquilibriumFrequencies();
      const bpp::Matrix<double>& P = h.twin->getPij();
      Arr lo, hi, wpos, out;
      for (size_t t = 0; t < path.size() && t < len; ++t)
      {
        std::vector<double> w;
        if (t == 0) w = eq;
        else if (path[t - 1] < ns) w = P.row(path[t - 1]);
        long a = -1, b = -1;
        if (!w.empty()) rankOf(us[t], w, a, b);
        lo.add(a);
        hi.add(b);
        wpos.add(path[t] < w.size() && w[path[t]] > 1e-12);
        out.add(enc(path[t]));
      }
      Obj e;
      e.kv("e", "Sample").kv("o", o).kv("n", len).kv("seed", static_cast<long long>(sd)).kv("out", out).kv("lo", lo).kv("hi", hi).kv("wpos", wpos);
      if (r != "ok") e.kv("raised", r);
      tracer().emit(e);
    };
    // dst becomes a copy of src (copy construction when dst is empty, else assignment); the twin of dst is a
    // freshly built object given the parameter values of src
    auto copyTo = [&](int src, int dst) {
      if (tainted[src]) return;
      tainted[dst] = false;
      copied = true;
      bool assign = static_cast<bool>(slot[dst].obj);
      std::string r = outcome<bpp::Exception>([&]() {
        if (kind == "full")
        {
          auto* a = dynamic_cast<bpp::FullHmmTransitionMatrix*>(slot[src].obj.get());
          if (assign) *dynamic_cast<bpp::FullHmmTransitionMatrix*>(slot[dst].obj.get()) = *a;
          else slot[dst].obj.reset(new bpp::FullHmmTransitionMatrix(*a));
        }
        else
        {
          auto* a = dynamic_cast<bpp::AutoCorrelationTransitionMatrix*>(slot[src].obj.get());
          if (assign) *dynamic_cast<bpp::AutoCorrelationTransitionMatrix*>(slot[dst].obj.get()) = *a;
          else slot[dst].obj.reset(new bpp::AutoCorrelationTransitionMatrix(*a));
        }
        slot[dst].twin = freshTm(kind, al);
        slot[dst].par(true)->matchParametersValues(slot[src].par(false)->getParameters());
      });
      Obj e;
      e.kv("e", "CopyTo").kv("o", src).kv("o2", dst).kv("how", assign ? "assign" : "ctor");
      if (r != "ok") e.kv("raised", r);
      tracer().emit(e);
    };
    static const size_t lens[] = {1, 1, 1, 2, 3, 5};

    create(0);
    if (rng.chance(1, 3))
    { // the target was used, the source was used and then changed, target = source, target samples
      create(1);
      if (rng.coin()) get(1, rng.coin());
      else sample(1, lens[rng.below(6)]);
      if (rng.chance(2, 3))
      {
        if (rng.coin()) get(0, rng.coin());
        else sample(0, lens[rng.below(6)]);
      }
      mutate(0, rng.coin());
      copyTo(0, 1);
      sample(1, 5);
    }
    long ops = 4 + static_cast<long>(rng.below(8));
    for (long k = 0; k < ops; ++k)
    {
      size_t what = rng.below(12);
      if (k == 0 && rng.coin()) what = 11; // a sample as the very first call
      int o = (slot[1].obj && rng.coin()) ? 1 : 0;
      if (what < 3) mutate(o, false);
      else if (what < 5) get(o, what == 3);
      else if (what < 7) copyTo(o, 1 - o);
      else sample(o, lens[rng.below(6)]);
    }
  }
  return sc;
}

// ---------------------------------------------------------------- distribution histories
struct DistObj
{
  std::unique_ptr<bpp::DiscreteDistributionInterface> d;
  std::vector<double> par;             // current parameter values, in constructor order
  bool restricted = false;
  double lo = 0, hi = 0;               // the restriction asked for
};

static bpp::DiscreteDistributionInterface* buildDist(const std::string& cls, const std::vector<double>& p)
{
  if (cls == "exp") return new bpp::ExponentialDiscreteDistribution(3, p[0]);
  if (cls == "texp") return new bpp::TruncatedExponentialDiscreteDistribution(3, p[0], p[1]);
  if (cls == "gauss") return new bpp::GaussianDiscreteDistribution(3, p[0], p[1]);
  if (cls == "gamma") return new bpp::GammaDiscreteDistribution(3, p[0], p[1]);
  return new bpp::BetaDiscreteDistribution(3, p[0], p[1]);
}
static std::vector<std::string> parNames(const std::string& cls)
{
  if (cls == "exp") return {"lambda"};
  if (cls == "texp") return {"lambda", "tp"};
  if (cls == "gauss") return {"mu", "sigma"};
  return {"alpha", "beta"};
}

static long distHistories(Rng& rng, long n, const std::vector<uint64_t>& seeds)
{
  long sc = 0;
  static const char* classes[] = {"exp", "texp", "gauss", "gamma", "beta"};
  static const double vals[] = {0.25, 0.5, 1., 2., 4.};
  for (long it = 0; it < n; ++it)
  {
    reset();
    ++sc;
    std::string cls = classes[rng.below(5)];
    std::vector<std::string> names = parNames(cls);
    DistObj slot[2];
    auto pickPar = [&]() {
      std::vector<double> p;
      for (size_t i = 0; i < names.size(); ++i) p.push_back(vals[rng.below(5)]);
      if (cls == "texp") p[1] = 8. / p[0] * (rng.coin() ? 1. : 2.);
      if (cls == "gauss") p[0] = p[0] - 1.;
      return p;
    };
    auto reference = [&](const DistObj& o) {
      std::unique_ptr<bpp::DiscreteDistributionInterface> r(buildDist(cls, o.par));
      if (o.restricted)
      {
        bpp::IntervalConstraint ic(o.lo, o.hi, true, true);
        r->restrictToConstraint(ic);
      }
      return r;
    };
    auto create = [&](int o) {
      slot[o].par = pickPar();
      slot[o].restricted = false;
      std::string r = outcome<bpp::Exception>([&]() { slot[o].d.reset(buildDist(cls, slot[o].par)); });
      tracer().emit(Obj().kv("e", "New").kv("o", o).kv("cls", cls).kv("r", r));
    };
    auto draw = [&](int o) {
      DistObj& h = slot[o];
      uint64_t sd = seeds[rng.below(seeds.size())];
      bool sameC = true, sameD = true, domC = true, domD = true;
      std::string r = outcome<bpp::Exception>([&]() {
        std::unique_ptr<bpp::DiscreteDistributionInterface> ref = reference(h);
        std::vector<double> a, b, c, e;
        quietSeed(sd);
        for (int k = 0; k < 3; ++k) a.push_back(h.d->randC());
        for (int k = 0; k < 3; ++k) c.push_back(h.d->rand());
        quietSeed(sd);
        for (int k = 0; k < 3; ++k) b.push_back(ref->randC());
        for (int k = 0; k < 3; ++k) e.push_back(ref->rand());
        double lo = h.d->getLowerBound(), hi = h.d->getUpperBound();
        for (int k = 0; k < 3; ++k)
        {
          sameC = sameC && a[k] == b[k];
          sameD = sameD && c[k] == e[k];
          domC = domC && a[k] >= lo && a[k] <= hi;
          domD = domD && c[k] >= lo && c[k] <= hi;
        }
      });
      Obj ev;
      ev.kv("e", "Draw").kv("o", o).kv("seed", static_cast<long long>(sd)).kv("sameC", r == "ok" && sameC).kv("sameD", r == "ok" && sameD).kv("domC", r == "ok" && domC).kv("domD", r == "ok" && domD);
      if (r != "ok") ev.kv("raised", r);
      tracer().emit(ev);
    };
    auto setPar = [&](int o) {
      DistObj& h = slot[o];
      size_t i = rng.below(names.size());
      if (cls == "texp") i = 0; // tp is tied to the domain
      double v = vals[rng.below(5)];
      if (cls == "gauss" && i == 0) v = h.par[0] + (rng.coin() ? 0.25 : -0.25) * h.par[1];
      else if (h.restricted) v = h.par[i] * (rng.coin() ? 2. : 0.5); // keep some mass inside the restriction
      if (cls != "gauss" || i != 0)
        if (v < 0.125 || v > 8.) v = h.par[i];
      size_t how = rng.below(3);
      static const char* hows[] = {"setParameterValue", "matchParametersValues", "setParametersValues"};
      std::string r = outcome<bpp::Exception>([&]() {
        if (how == 0) h.d->setParameterValue(names[i], v);
        else
        {
          bpp::ParameterList pl;
          std::string full = h.d->getNamespace() + names[i];
          pl.addParameter(bpp::Parameter(full, v));
          if (how == 1) h.d->matchParametersValues(pl);
          else h.d->setParametersValues(pl);
        }
      });
      if (r == "ok") h.par[i] = v;
      tracer().emit(Obj().kv("e", "SetPar").kv("o", o).kv("how", hows[how]).kv("r", r));
    };
    auto restrict = [&](int o) {
      DistObj& h = slot[o];
      if (h.restricted) return; // one restriction per object
      double lo = 0, hi = 0;
      std::string r = outcome<bpp::Exception>([&]() {
        std::unique_ptr<bpp::DiscreteDistributionInterface> u(buildDist(cls, h.par));
        lo = u->qProb(0.1 * static_cast<double>(1 + rng.below(3)));
        hi = cls == "texp" ? h.par[1] : u->qProb(0.1 * static_cast<double>(7 + rng.below(3)));
        bpp::IntervalConstraint ic(lo, hi, true, true);
        h.d->restrictToConstraint(ic);
      });
      if (r == "ok")
      {
        h.restricted = true;
        h.lo = lo;
        h.hi = hi;
      }
      tracer().emit(Obj().kv("e", "Restrict").kv("o", o).kv("r", r));
    };
    auto copyTo = [&](int src, int dst) {
      bool assign = static_cast<bool>(slot[dst].d);
      std::string r = outcome<bpp::Exception>([&]() {
        if (!assign) slot[dst].d.reset(dynamic_cast<bpp::DiscreteDistributionInterface*>(slot[src].d->clone()));
        else if (cls == "exp") *dynamic_cast<bpp::ExponentialDiscreteDistribution*>(slot[dst].d.get()) = *dynamic_cast<bpp::ExponentialDiscreteDistribution*>(slot[src].d.get());
        else if (cls == "texp") *dynamic_cast<bpp::TruncatedExponentialDiscreteDistribution*>(slot[dst].d.get()) = *dynamic_cast<bpp::TruncatedExponentialDiscreteDistribution*>(slot[src].d.get());
        else if (cls == "gauss") *dynamic_cast<bpp::GaussianDiscreteDistribution*>(slot[dst].d.get()) = *dynamic_cast<bpp::GaussianDiscreteDistribution*>(slot[src].d.get());
        else if (cls == "gamma") *dynamic_cast<bpp::GammaDiscreteDistribution*>(slot[dst].d.get()) = *dynamic_cast<bpp::GammaDiscreteDistribution*>(slot[src].d.get());
        else *dynamic_cast<bpp::BetaDiscreteDistribution*>(slot[dst].d.get()) = *dynamic_cast<bpp::BetaDiscreteDistribution*>(slot[src].d.get());
      });
      slot[dst].par = slot[src].par;
      slot[dst].restricted = slot[src].restricted;
      slot[dst].lo = slot[src].lo;
      slot[dst].hi = slot[src].hi;
      Obj e;
      e.kv("e", "CopyTo").kv("o", src).kv("o2", dst).kv("how", assign ? "assign" : "clone");
      if (r != "ok") e.kv("raised", r);
      tracer().emit(e);
    };

    create(0);
    if (!slot[0].d) continue;
    long ops = 5 + static_cast<long>(rng.below(8));
    for (long k = 0; k < ops; ++k)
    {
      size_t what = rng.below(12);
      int o = (slot[1].d && rng.coin()) ? 1 : 0;
      if (what < 3) setPar(o);
      else if (what < 5) restrict(o);
      else if (what < 7) copyTo(o, 1 - o);
      else draw(o);
    }
    draw(0);
    if (slot[1].d) draw(1);
  }
  return sc;
}

int main(int argc, char** argv)
{
  std::string out = argStr(argc, argv, "--out", "");
  std::string mode = argStr(argc, argv, "--mode", "tables-exh");
  long n = argInt(argc, argv, "--n", 100);
  long maxtot = argInt(argc, argv, "--maxtot", 6);
  long mintot = argInt(argc, argv, "--mintot", 0);
  long mindim = argInt(argc, argv, "--mindim", 2);
  long maxdim = argInt(argc, argv, "--maxdim", 3);
  long nseeds = argInt(argc, argv, "--seeds", 16);
  if (out.empty() || !tracer().open(out))
  {
    fprintf(stderr, "drv_random: cannot open --out\n");
    return 2;
  }
  installCrashHandlers();
  uint64_t seed = envSeed();
  std::vector<uint64_t> seeds = derivedSeeds(seed, nseeds);
  Rng rng(seed * 1000003ULL + mode.size() * 7919ULL + 18);
  long sc = 0;
  if (mode == "tables-exh" || mode == "tables-rand") bpp::verifRcont2CellHook = onCell;
  if (mode == "tables-exh") sc = tablesExh(mintot, maxtot, mindim, maxdim, seeds);
  else if (mode == "tables-rand") sc = tablesRand(rng, n, maxtot, seeds);
  else if (mode == "sampling-exh") sc = samplingExh(rng, seeds);
  else if (mode == "sampling-rand") sc = samplingRand(rng, n, seeds);
  else if (mode == "laws") sc = laws(rng, seeds);
  else if (mode == "hmm") sc = hmmPaths(rng, n, seeds);
  else if (mode == "dist") sc = distHistories(rng, n, seeds);
  else
  {
    fprintf(stderr, "drv_random: unknown mode\n");
    return 2;
  }
  tracer().close();
  printf("{\"scenarios\":%ld,\"events\":%ld}\n", sc, tracer().count());
  return 0;
}
