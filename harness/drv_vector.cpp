// Conformance driver for C07: VectorTools (src/Bpp/Numeric/VectorTools.h/.cpp),
// NumTools::logsum, StatTools::computeFdr, for T = int and T = double.
//
// A scenario is a history of public calls on three vector registers a, b, c
// (several calls sort / extend / overwrite their arguments).  One ndjson event
// per call, written after it returns (also on the throw path) with the outcome,
// the returned value and the content of all registers.  Values are exact small
// integers (E2), dyadic numerators (E3: mean/center/cov/var/FDR) or order facts
// over a pool of doubles (E1: log-domain reductions).  The driver only encodes
// observations; the TLA+ specification VectorTrace judges them.
//
//   drv_vector --out F --mode exh1 --len L [--types int,double] [--kall 0|1]
//   drv_vector --out F --mode exh2 --len L [--types ..] [--slice i --of n] [--setlike 0|1] [--vals3 0|1]
//   drv_vector --out F --mode seq                    seq(from,to,by) over -6..6 x 1..4 and steps 5..1000 around multiples
//   drv_vector --out F --mode random --n N           random histories (length <= 64, -50..50, ties)
//   drv_vector --out F --mode log --n N              log-domain reductions (pool with -inf, +-1e300, +inf)
//   common: --skip Op1,Op2 (do not call these operations)
#include "tracer.h"

#include <Bpp/Exceptions.h>
#include <Bpp/Numeric/NumTools.h>
#include <Bpp/Numeric/Stat/StatTools.h>
#include <Bpp/Numeric/VectorTools.h>

#include <cmath>
#include <cstring>
#include <limits>
#include <set>

using namespace vt;

static const long long BAD = -2000000000LL; // "not an encodable value": never equal to anything the specification computes
static std::set<std::string> g_skip;
static long g_skipped = 0, g_unfit = 0, g_calls = 0; // outside the quantifier / not encodable in 32-bit exact integers

// ---------------------------------------------------------------- crash context
static char g_ctx[200] = "startup";
static void crashWithCtx(const char* what)
{
  Tracer& t = tracer();
  t.flush();
  char buf[320];
  int n = snprintf(buf, sizeof buf, "{\"e\":\"Crash\",\"what\":\"%s\",\"op\":\"%s\"}\n", what, g_ctx);
  if (t.fd() >= 0 && n > 0)
  {
    ssize_t w = write(t.fd(), buf, static_cast<size_t>(n));
    (void)w;
  }
  _exit(0);
}
static void onSig(int sig)
{
  crashWithCtx(sig == SIGSEGV ? "SIGSEGV" : sig == SIGABRT ? "SIGABRT" : sig == SIGFPE ? "SIGFPE" : sig == SIGBUS ? "SIGBUS" : "signal");
}
static void onTerm() { crashWithCtx("terminate"); }

struct Out
{
  std::string o, c;
};
template<class F> Out run(F f)
{
  Guard g;
  try
  {
    f();
    return Out{"ok", ""};
  }
  catch (bpp::Exception& e)
  {
    std::string n = demangle(typeid(e).name());
    size_t p = n.find('<');
    if (p != std::string::npos) n = n.substr(0, p);
    p = n.rfind("::");
    if (p != std::string::npos) n = n.substr(p + 2);
    return Out{"raise", n};
  }
  catch (std::exception&)
  {
    return Out{"fault", "std"};
  }
  catch (...)
  {
    return Out{"fault", "other"};
  }
}

static long long encd(double d)
{
  if (!(d == d) || d > 1e9 || d < -1e9 || d != std::floor(d)) return BAD;
  return static_cast<long long>(d);
}
// numerator of d at scale 2^bits, BAD when not exactly on the scale
static long long dyad(double d, int bits)
{
  double s = std::ldexp(d, bits);
  return encd(s);
}

template<class T> struct Runner
{
  typedef std::vector<T> V;
  std::string tname;
  std::map<std::string, V> regs;
  long scenarios = 0;

  explicit Runner(const std::string& tn) : tname(tn), regs() { clear(); }
  void clear()
  {
    regs.clear();
    regs["a"] = V();
    regs["b"] = V();
    regs["c"] = V();
  }
  static bool isDouble() { return std::is_floating_point<T>::value; }

  static Arr jv(const V& v)
  {
    Arr a;
    for (const auto& x : v) a.add(encd(static_cast<double>(x)));
    return a;
  }
  static Arr jp(const std::vector<size_t>& v)
  {
    Arr a;
    for (size_t x : v) a.add(x > 1000000000UL ? BAD : static_cast<long long>(x));
    return a;
  }
  static J ji(T x) { return J::num(encd(static_cast<double>(x))); }
  Obj state() const
  {
    Obj s;
    for (const auto& kv : regs) s.kv(kv.first, jv(kv.second));
    return s;
  }
  void reset()
  {
    clear();
    tracer().emit(Obj().kv("e", "Reset").kv("t", tname));
    ++scenarios;
  }
  void set(const std::string& g, const V& v)
  {
    regs[g] = v;
    tracer().emit(Obj().kv("e", "Set").kv("x", g).kv("v", jv(v)).kv("s", state()));
  }
  void ensure(const std::string& g, const V& v)
  {
    if (regs[g] != v) set(g, v);
  }
  void emit(const std::string& op, const std::string& xn, const std::string& yn, const std::string& zn, const std::vector<long>& k, const Out& oc, const J& r)
  {
    Obj e;
    e.kv("e", "Call").kv("op", op).kv("x", xn).kv("y", yn).kv("z", zn).kv("k", arrOf(k)).kv("o", oc.o).kv("c", oc.c);
    e.kv("r", oc.o == "ok" ? r : J::num(0)).kv("s", state());
    tracer().emit(e);
    ++g_calls;
  }

  // ---- magnitude guards (every intermediate of the exact definition stays < 2^30)
  static long double amax(const V& v)
  {
    long double m = 0;
    for (const auto& x : v) m = std::max(m, std::fabs(static_cast<long double>(x)));
    return m;
  }
  static bool prodFits(const V& v)
  {
    long double p = 1;
    for (const auto& x : v)
    {
      p *= std::fabs(static_cast<long double>(x));
      if (p > 1e9L) return false;
    }
    return true;
  }
  static bool has0(const V& v)
  {
    for (const auto& x : v)
      if (x == 0) return true;
    return false;
  }
  // real division is encodable only when exact
  static bool divides(T a, T b)
  {
    if (!isDouble()) return true;
    double q = static_cast<double>(a) / static_cast<double>(b);
    return q == std::floor(q);
  }
  static const size_t LMAX = 300;

  // mixed element / scalar types: the scalar has type C (double for an int vector, int for a double vector)
  template<class C> void mixed(const std::string& op, V& x, const C c, Out& oc, J& r)
  {
    using namespace bpp;
    if (op == "AddSQ") oc = run([&] { r = jv(x + c).j(); });
    else if (op == "SAddQ") oc = run([&] { r = jv(c + x).j(); });
    else if (op == "SubSQ") oc = run([&] { r = jv(x - c).j(); });
    else if (op == "SSubQ") oc = run([&] { r = jv(c - x).j(); });
    else if (op == "MulSQ") oc = run([&] { r = jv(x * c).j(); });
    else if (op == "SMulQ") oc = run([&] { r = jv(c * x).j(); });
    else if (op == "DivSQ") oc = run([&] { r = jv(x / c).j(); });
    else if (op == "SDivQ") oc = run([&] { r = jv(c / x).j(); });
    else if (op == "AddEqSQ") oc = run([&] { x += c; });
    else if (op == "SubEqSQ") oc = run([&] { x -= c; });
    else if (op == "MulEqSQ") oc = run([&] { x *= c; });
    else if (op == "DivEqSQ") oc = run([&] { x /= c; });
  }

  // Executes op; returns false when the call is outside the quantifier or not encodable (nothing logged).
  bool call(const std::string& op, const std::string& xn = "-", const std::string& yn = "-", const std::string& zn = "-", std::vector<long> k = std::vector<long>())
  {
    if (g_skip.count(op))
    {
      ++g_skipped;
      return false;
    }
    static V none;
    V& x = regs.count(xn) ? regs[xn] : none;
    V& y = regs.count(yn) ? regs[yn] : none;
    V& z = regs.count(zn) ? regs[zn] : none;
    none.clear();
    const long double ax = amax(x), ay = amax(y), az = amax(z);
    const long double n = static_cast<long double>(x.size());
    if (ax > 1e6L || ay > 1e6L || az > 1e6L || x.size() > LMAX || y.size() > LMAX || z.size() > LMAX)
    {
      ++g_unfit;
      return false;
    }
    const T s = k.empty() ? T(0) : static_cast<T>(k[0]);
    snprintf(g_ctx, sizeof g_ctx, "%s/%s n=%zu,%zu,%zu", op.c_str(), tname.c_str(), x.size(), y.size(), z.size());
    J r = J::num(0);
    Out oc;
    bool ok = true; // precondition / guard
    typedef bpp::VectorTools VT;
    using namespace bpp; // the element-wise operators on std::vector live in namespace bpp
#define SKIP_UNLESS(cond) if (!(cond)) { ++g_skipped; return false; }
#define FIT_UNLESS(cond) if (!(cond)) { ++g_unfit; return false; }
#define OP(name) else if (op == name)
    if (false) {}
    OP("Sum") { FIT_UNLESS(n * ax <= 1e9L); oc = run([&] { r = ji(VT::sum(x)); }); }
    OP("Prod") { FIT_UNLESS(prodFits(x)); oc = run([&] { r = ji(VT::prod(x)); }); }
    OP("CumSum") { FIT_UNLESS(n * ax <= 1e9L); oc = run([&] { r = jv(VT::cumSum(x)).j(); }); }
    OP("CumProd") { FIT_UNLESS(prodFits(x)); oc = run([&] { r = jv(VT::cumProd(x)).j(); }); }
    OP("Abs") { oc = run([&] { r = jv(VT::abs(x)).j(); }); }
    OP("Sqr") { FIT_UNLESS(ax * ax <= 1e9L); oc = run([&] { r = jv(VT::sqr(x)).j(); }); }
    OP("Min") { oc = run([&] { r = ji(VT::min(x)); }); }
    OP("Max") { oc = run([&] { r = ji(VT::max(x)); }); }
    OP("WhichMin") { oc = run([&] { r = J::num(static_cast<long long>(VT::whichMin(x))); }); }
    OP("WhichMax") { oc = run([&] { r = J::num(static_cast<long long>(VT::whichMax(x))); }); }
    OP("WhichMinAll") { oc = run([&] { r = jp(VT::whichMinAll(x)).j(); }); }
    OP("WhichMaxAll") { oc = run([&] { r = jp(VT::whichMaxAll(x)).j(); }); }
    OP("Range") { oc = run([&] { r = jv(VT::range(x)).j(); }); }
    OP("Order") { oc = run([&] { r = jp(VT::order(x)).j(); }); }
    OP("Unique") { oc = run([&] { r = jv(VT::unique(x)).j(); }); }
    OP("IsUnique") { oc = run([&] { r = J::boolean(VT::isUnique(x)); }); }
    OP("CountValues")
    {
      oc = run([&] {
        std::map<T, size_t> m = VT::countValues(x);
        Arr a;
        for (const auto& kv : m) a.add(Arr().add(encd(static_cast<double>(kv.first))).add(kv.second));
        r = a.j();
      });
    }
    OP("Median")
    {
      FIT_UNLESS(ax <= 1e8L);
      oc = run([&] {
        T m = VT::median(x);
        r = isDouble() ? J::num(encd(2.0 * static_cast<double>(m))) : ji(m);
      });
    }
    OP("Which") { oc = run([&] { r = J::num(static_cast<long long>(VT::which(x, s))); }); }
    OP("WhichAll") { oc = run([&] { r = jp(VT::whichAll(x, s)).j(); }); }
    OP("Contains") { oc = run([&] { r = J::boolean(VT::contains(x, s)); }); }
    OP("Rep")
    {
      SKIP_UNLESS(k[0] >= 0 && x.size() * static_cast<size_t>(k[0]) <= LMAX);
      oc = run([&] { r = jv(VT::rep(x, static_cast<size_t>(k[0]))).j(); });
    }
    OP("Seq")
    {
      SKIP_UNLESS(k[2] >= 1 && std::labs(k[0] - k[1]) / k[2] < static_cast<long>(LMAX));
      FIT_UNLESS(std::labs(k[0]) <= 1000000 && std::labs(k[1]) <= 1000000 && k[2] <= 100000);
      oc = run([&] { r = jv(VT::seq(static_cast<T>(k[0]), static_cast<T>(k[1]), static_cast<T>(k[2]))).j(); });
    }
    OP("Fill") { oc = run([&] { VT::fill(x, s); }); }
    OP("AndEq") { oc = run([&] { x &= s; }); }
    OP("AddS") { oc = run([&] { r = jv(x + s).j(); }); }
    OP("SAdd") { oc = run([&] { r = jv(s + x).j(); }); }
    OP("SubS") { oc = run([&] { r = jv(x - s).j(); }); }
    OP("SSub") { oc = run([&] { r = jv(s - x).j(); }); }
    OP("MulS") { FIT_UNLESS(ax * std::labs(k[0]) <= 1e9L); oc = run([&] { r = jv(x * s).j(); }); }
    OP("SMul") { FIT_UNLESS(ax * std::labs(k[0]) <= 1e9L); oc = run([&] { r = jv(s * x).j(); }); }
    OP("DivS")
    {
      SKIP_UNLESS(k[0] != 0);
      for (const auto& e : x) ok = ok && divides(e, s);
      FIT_UNLESS(ok);
      oc = run([&] { r = jv(x / s).j(); });
    }
    OP("SDiv")
    {
      SKIP_UNLESS(!has0(x));
      for (const auto& e : x) ok = ok && divides(s, e);
      FIT_UNLESS(ok);
      oc = run([&] { r = jv(s / x).j(); });
    }
    OP("AddEqS") { oc = run([&] { x += s; }); }
    OP("SubEqS") { oc = run([&] { x -= s; }); }
    OP("MulEqS") { FIT_UNLESS(ax * std::labs(k[0]) <= 1e6L); oc = run([&] { x *= s; }); }
    OP("DivEqS")
    {
      SKIP_UNLESS(k[0] != 0);
      for (const auto& e : x) ok = ok && divides(e, s);
      FIT_UNLESS(ok);
      oc = run([&] { x /= s; });
    }
    // the scalar is a reference to an element of the target vector itself (v -= v[i])
    OP("AddEqE") { SKIP_UNLESS(k[0] >= 0 && static_cast<size_t>(k[0]) < x.size()); oc = run([&] { x += x[static_cast<size_t>(k[0])]; }); }
    OP("SubEqE") { SKIP_UNLESS(k[0] >= 0 && static_cast<size_t>(k[0]) < x.size()); oc = run([&] { x -= x[static_cast<size_t>(k[0])]; }); }
    OP("MulEqE") { SKIP_UNLESS(k[0] >= 0 && static_cast<size_t>(k[0]) < x.size()); FIT_UNLESS(ax * ax <= 1e6L); oc = run([&] { x *= x[static_cast<size_t>(k[0])]; }); }
    OP("DivEqE")
    {
      SKIP_UNLESS(k[0] >= 0 && static_cast<size_t>(k[0]) < x.size() && x[static_cast<size_t>(k[0])] != 0);
      for (const auto& e : x) ok = ok && divides(e, x[static_cast<size_t>(k[0])]);
      FIT_UNLESS(ok);
      oc = run([&] { x /= x[static_cast<size_t>(k[0])]; });
    }
    OP("Add") { oc = run([&] { r = jv(x + y).j(); }); }
    OP("Sub") { oc = run([&] { r = jv(x - y).j(); }); }
    OP("Mul") { FIT_UNLESS(ax * ay <= 1e9L); oc = run([&] { r = jv(x * y).j(); }); }
    OP("Div")
    {
      SKIP_UNLESS(!has0(y));
      for (size_t i = 0; i < x.size() && i < y.size(); ++i) ok = ok && divides(x[i], y[i]);
      FIT_UNLESS(ok);
      oc = run([&] { r = jv(x / y).j(); });
    }
    OP("SumProd") { FIT_UNLESS(n * ax * ay <= 1e9L); oc = run([&] { r = ji(VT::sumProd(x, y)); }); }
    OP("Scalar") { FIT_UNLESS(n * ax * ay <= 1e9L); oc = run([&] { r = ji(VT::template scalar<T, T>(x, y)); }); }
    OP("Scalar3") { FIT_UNLESS(n * ax * ay * az <= 1e9L); oc = run([&] { r = ji(VT::template scalar<T, T>(x, y, z)); }); }
    OP("Kron") { SKIP_UNLESS(ax * ay <= 1e9L && x.size() * y.size() <= LMAX); oc = run([&] { r = jv(VT::kroneckerMult(x, y)).j(); }); }
    OP("Union") { oc = run([&] { r = jv(VT::vectorUnion(x, y)).j(); }); }
    OP("Inter") { oc = run([&] { r = jv(VT::vectorIntersection(x, y)).j(); }); }
    OP("SameC")
    {
      const V& cx = x;
      const V& cy = y;
      oc = run([&] { r = J::boolean(VT::haveSameElements(cx, cy)); });
    }
    OP("Same") { SKIP_UNLESS(xn != yn); oc = run([&] { r = J::boolean(VT::haveSameElements(x, y)); }); }
    OP("ContainsAll") { SKIP_UNLESS(xn != yn); oc = run([&] { r = J::boolean(VT::containsAll(x, y)); }); }
    OP("Extract")
    {
      std::vector<size_t> pos;
      for (const auto& e : y)
      {
        ok = ok && e >= 0 && static_cast<double>(e) < static_cast<double>(x.size()) && static_cast<double>(e) == std::floor(static_cast<double>(e));
        if (ok) pos.push_back(static_cast<size_t>(e));
      }
      SKIP_UNLESS(ok);
      oc = run([&] { r = jv(VT::extract(x, pos)).j(); });
    }
    OP("AddEq") { SKIP_UNLESS(xn != yn); oc = run([&] { x += y; }); }
    OP("SubEq") { SKIP_UNLESS(xn != yn); oc = run([&] { x -= y; }); }
    OP("MulEq") { SKIP_UNLESS(xn != yn && ax * ay <= 1e6L); oc = run([&] { x *= y; }); }
    OP("DivEq")
    {
      SKIP_UNLESS(xn != yn && !has0(y));
      for (size_t i = 0; i < x.size() && i < y.size(); ++i) ok = ok && divides(x[i], y[i]);
      FIT_UNLESS(ok);
      oc = run([&] { x /= y; });
    }
    OP("Append") { SKIP_UNLESS(xn != yn && x.size() + y.size() <= LMAX); oc = run([&] { VT::append(x, y); }); }
    OP("Prepend") { SKIP_UNLESS(xn != yn && x.size() + y.size() <= LMAX); oc = run([&] { VT::prepend(x, y); }); }
    OP("Extend") { SKIP_UNLESS(xn != yn && x.size() + y.size() <= LMAX); oc = run([&] { VT::extend(x, y); }); }
    OP("Diff")
    {
      SKIP_UNLESS(xn != yn && xn != zn && yn != zn && x.size() + z.size() <= LMAX);
      oc = run([&] { VT::diff(x, y, z); });
    }
    else if (op == "UnionAll" || op == "InterAll" || op == "Concat")
    {
      SKIP_UNLESS(k[0] >= 0 && k[0] <= 3 && x.size() + y.size() + z.size() <= LMAX);
      std::vector<V> L;
      if (k[0] >= 1) L.push_back(x);
      if (k[0] >= 2) L.push_back(y);
      if (k[0] >= 3) L.push_back(z);
      if (op == "UnionAll") oc = run([&] { r = jv(VT::vectorUnion(L)).j(); });
      else if (op == "InterAll") oc = run([&] { r = jv(VT::vectorIntersection(L)).j(); });
      else oc = run([&] { r = jv(VT::append(L)).j(); });
    }
    OP("Mean")
    {
      SKIP_UNLESS(x.size() >= 1 && x.size() <= 64 && (x.size() & (x.size() - 1)) == 0 && 64 * n * ax <= 1e9L);
      oc = run([&] { r = J::num(dyad(VT::template mean<T, double>(x), 6)); });
    }
    else if (op == "Center" || op == "CovB" || op == "VarB" || op == "CovO" || op == "CorO" || op == "CosO" || op == "NormWO" || op == "MiO" || op == "Fdr")
    {
      // double instantiation only (cov<int,double> does not compile: center returns vector<double>)
      SKIP_UNLESS(isDouble());
      std::vector<double> dx(x.begin(), x.end()), dy(y.begin(), y.end());
      bool p2 = x.size() >= 1 && (x.size() & (x.size() - 1)) == 0;
      if (op == "Center")
      {
        SKIP_UNLESS(p2 && x.size() <= 64 && 128 * n * ax <= 1e9L);
        oc = run([&] {
          std::vector<double> cv = VT::template center<double, double>(dx);
          Arr a;
          for (double e : cv) a.add(dyad(e, 6));
          r = a.j();
        });
      }
      else if (op == "VarB")
      {
        SKIP_UNLESS(p2 && x.size() <= 16 && 4096 * 4 * ax * ax <= 1e9L && n * n * n * 4 * ax * ax <= 1e9L);
        oc = run([&] { r = J::num(dyad(VT::template var<double, double>(dx, false), 12)); });
      }
      else if (op == "CovB")
      {
        SKIP_UNLESS(x.size() != y.size() || (p2 && x.size() <= 16 && 4096 * 4 * ax * ay <= 1e9L && n * n * n * 4 * ax * ay <= 1e9L));
        oc = run([&] { r = J::num(dyad(VT::template cov<double, double>(dx, dy, false), 12)); });
      }
      else if (op == "CovO") oc = run([&] { (void)VT::template cov<double, double>(dx, dy); });
      else if (op == "CorO") oc = run([&] { (void)VT::template cor<double, double>(dx, dy); });
      else if (op == "CosO") oc = run([&] { (void)VT::template cos<double, double>(dx, dy); });
      else if (op == "NormWO") oc = run([&] { (void)VT::template norm<double, double>(dx, dy); });
      else if (op == "MiO") oc = run([&] { (void)VT::template miDiscrete<double, double>(dx, dy); });
      else // Fdr: p-value k is x[k] * 2520 / 2^22 (exactly representable), results exact dyadics at scale 2^22
      {
        SKIP_UNLESS(x.size() <= 10);
        std::vector<double> p;
        for (double e : dx)
        {
          ok = ok && e >= 0 && e <= 1664 && e == std::floor(e);
          p.push_back(e * 2520.0 / 4194304.0);
        }
        SKIP_UNLESS(ok);
        oc = run([&] {
          std::vector<double> f = bpp::StatTools::computeFdr(p);
          Arr a;
          for (double e : f) a.add(dyad(e, 22));
          r = a.j();
        });
      }
    }
    else if (op == "MeanW" || op == "VarW" || op == "CovW")
    {
      // weighted mean / variance / covariance on the dyadic-exact cases, every flag combination.
      // k = (unbiased, normalize, pre) [MeanW: (normalize, pre)]; weights are the integers of the
      // weight register, divided by their sum first when pre = 1.
      SKIP_UNLESS(isDouble());
      const V& wr = (op == "CovW") ? z : y;
      const V& yr = (op == "CovW") ? y : x;
      const bool unb = op == "MeanW" ? false : k[0] != 0;
      const bool nz = (op == "MeanW" ? k[0] : k[1]) != 0;
      const bool pre = (op == "MeanW" ? k[1] : k[2]) != 0;
      const long eoff = k.back(); // exponent of the power-of-two offset added to the data (0: none)
      SKIP_UNLESS(eoff == 0 || (eoff >= 20 && eoff <= 40));
      const double coff = eoff == 0 ? 0.0 : std::ldexp(1.0, static_cast<int>(eoff));
      long double W = 0, W2 = 0, wmax = 0;
      for (const auto& e : wr)
      {
        ok = ok && e >= 0 && static_cast<double>(e) == std::floor(static_cast<double>(e));
        W += e;
        W2 += static_cast<long double>(e) * e;
        wmax = std::max(wmax, static_cast<long double>(e));
      }
      SKIP_UNLESS(ok && (W == 1 || W == 2 || W == 4 || W == 8) && (nz || pre) && (!unb || W * W - W2 > 0));
      FIT_UNLESS(4096.0L * n * (2 * W * ax + 1) * (2 * W * amax(yr) + 1) * wmax <= 1e9L);
      std::vector<double> dx(x.begin(), x.end()), dy(yr.begin(), yr.end()), dw;
      for (auto& e : dx) e += coff;
      for (auto& e : dy) e += coff;
      for (const auto& e : wr) dw.push_back(pre ? static_cast<double>(e) / static_cast<double>(W) : static_cast<double>(e));
      if (op == "MeanW")
        oc = run([&] {
          double m = VT::template mean<double, double>(dx, dw, nz);
          r = Arr().add(dyad(m - coff, 4)).add(m != m ? 1 : 0).j();
        });
      else if (op == "CovW")
        oc = run([&] {
          double cv = VT::template cov<double, double>(dx, dy, dw, unb, nz);
          r = Arr().add(dyad(cv, 12)).add(cv != cv ? 1 : 0).j();
        });
      else
        oc = run([&] {
          double va = VT::template var<double, double>(dx, dw, unb, nz);
          double cv = VT::template cov<double, double>(dx, dx, dw, unb, nz);
          double sd = VT::template sd<double, double>(dx, dw, unb, nz);
          r = Arr().add(dyad(va, 12)).add(va != va ? 1 : 0).add(va < 0 ? 1 : 0).add(std::memcmp(&va, &cv, sizeof va) == 0 ? 1 : 0).add(sd != sd ? 1 : 0).j();
        });
    }
    else if (op == "AddSQ" || op == "SAddQ" || op == "SubSQ" || op == "SSubQ" || op == "MulSQ" || op == "SMulQ" || op == "DivSQ" || op == "SDivQ" ||
             op == "AddEqSQ" || op == "SubEqSQ" || op == "MulEqSQ" || op == "DivEqSQ")
    {
      // scalar k[0] / 4: a double for the int vector, an int (k[0] a multiple of 4) for the double vector
      const long m = k[0];
      const bool dv = op == "DivSQ" || op == "DivEqSQ", sdv = op == "SDivQ";
      SKIP_UNLESS(!isDouble() || m % 4 == 0);
      SKIP_UNLESS((!dv || m != 0) && (!sdv || !has0(x)));
      FIT_UNLESS(4 * ax * (std::labs(m) + 4) <= 1e9L && std::labs(m) <= 1000000);
      if (isDouble())
      {
        for (const auto& e : x)
        {
          long le = static_cast<long>(e);
          if (dv) ok = ok && (4 * std::labs(le)) % std::labs(m) == 0;
          if (sdv) ok = ok && std::labs(m) % (4 * std::labs(le)) == 0;
        }
        FIT_UNLESS(ok);
        mixed<int>(op, x, static_cast<int>(m / 4), oc, r);
      }
      else mixed<double>(op, x, static_cast<double>(m) / 4.0, oc, r);
    }
    else if (op == "MeanX" || op == "CenterX" || op == "CovX" || op == "VarX" || op == "SdX" || op == "CorX")
    {
      // unweighted moments of data offset by c = 2^e (last entry of k; 0: no offset): the two-pass
      // definition is exact on such data when n is a power of two, and shift invariant
      SKIP_UNLESS(isDouble());
      const long eoff = k.back();
      SKIP_UNLESS(eoff == 0 || (eoff >= 20 && eoff <= 40));
      const bool unb = (op == "CovX" || op == "VarX" || op == "SdX") && k[0] != 0;
      const bool two = op == "CovX" || op == "CorX";
      SKIP_UNLESS(x.size() >= (op == "CorX" || unb ? 2u : 1u));
      const bool p2 = (x.size() & (x.size() - 1)) == 0;
      if (op == "MeanX" || op == "CenterX") { if (p2 && x.size() <= 64) FIT_UNLESS(128 * n * ax <= 1e9L); }
      else if (op != "CorX" && p2 && x.size() <= 16) FIT_UNLESS(4096.0L * 4 * (ax + 1) * ((two ? ay : ax) + 1) * n <= 1e9L);
      const double coff = eoff == 0 ? 0.0 : std::ldexp(1.0, static_cast<int>(eoff));
      std::vector<double> dx(x.begin(), x.end()), dy(y.begin(), y.end());
      for (auto& e : dx) e += coff;
      for (auto& e : dy) e += coff;
      if (op == "MeanX")
        oc = run([&] {
          double m = VT::template mean<double, double>(dx);
          r = Arr().add(dyad(m - coff, 6)).add(m != m ? 1 : 0).j();
        });
      else if (op == "CenterX")
        oc = run([&] {
          Arr a;
          for (double e : VT::template center<double, double>(dx)) a.add(dyad(e, 6));
          r = a.j();
        });
      else if (op == "CovX")
        oc = run([&] {
          double cv = VT::template cov<double, double>(dx, dy, unb);
          r = Arr().add(dyad(cv, 12)).add(cv != cv ? 1 : 0).j();
        });
      else if (op == "VarX")
        oc = run([&] {
          double va = VT::template var<double, double>(dx, unb);
          r = Arr().add(dyad(va, 12)).add(va != va ? 1 : 0).add(va < 0 ? 1 : 0).j();
        });
      else if (op == "SdX")
        oc = run([&] {
          double sd = VT::template sd<double, double>(dx, unb);
          r = Arr().add(dyad(sd, 6)).add(sd != sd ? 1 : 0).j();
        });
      else
        oc = run([&] {
          double co = VT::template cor<double, double>(dx, dy);
          r = Arr().add(co != co ? 1 : 0).add(std::fabs(co) <= 1.0 + 64 * std::numeric_limits<double>::epsilon() ? 1 : 0).j();
        });
    }
    if (oc.o.empty())
    {
      fprintf(stderr, "drv_vector: unknown op %s\n", op.c_str());
      exit(3);
    }
#undef OP
#undef SKIP_UNLESS
#undef FIT_UNLESS
    snprintf(g_ctx, sizeof g_ctx, "after %s", op.c_str());
    emit(op, xn, yn, zn, k, oc, r);
    return true;
  }

  // ---------------------------------------------------------------- exhaustive small scope
  static std::vector<V> allVectors(size_t maxLen, const std::vector<long>& vals)
  {
    std::vector<V> out;
    out.push_back(V());
    size_t from = 0;
    for (size_t len = 1; len <= maxLen; ++len)
    {
      size_t to = out.size();
      for (size_t i = from; i < to; ++i)
        for (long v : vals)
        {
          V w = out[i];
          w.push_back(static_cast<T>(v));
          out.push_back(w);
        }
      from = to;
    }
    return out;
  }

  void exh1(size_t maxLen, bool kall)
  {
    const std::vector<long> vals = {-1, 0, 1, 2};
    static const char* unary[] = {"Sum", "Prod", "CumSum", "CumProd", "Abs", "Sqr", "Min", "Max", "WhichMin", "WhichMax", "WhichMinAll",
                                  "WhichMaxAll", "Range", "Order", "Unique", "IsUnique", "CountValues", "Median", "Mean", "Center", "VarB", "Fdr"};
    static const char* scal[] = {"Which", "WhichAll", "Contains", "AddS", "SAdd", "SubS", "SSub", "MulS", "SMul", "DivS", "SDiv",
                                 "Fill", "AndEq", "AddEqS", "SubEqS", "MulEqS", "DivEqS"};
    for (const V& v : allVectors(maxLen, vals))
    {
      reset();
      set("a", v);
      for (const char* op : unary)
      {
        call(op, "a");
        ensure("a", v);
      }
      for (size_t i = 0; i < sizeof scal / sizeof *scal; ++i)
        for (long s : vals)
        {
          if (!kall && i >= 3 && (s == 0 || s == 1)) continue; // arithmetic with -1 and 2 only
          call(scal[i], "a", "-", "-", {s});
          ensure("a", v);
        }
      for (const char* op : {"AddSQ", "SAddQ", "SubSQ", "SSubQ", "MulSQ", "SMulQ", "DivSQ", "SDivQ", "AddEqSQ", "SubEqSQ", "MulEqSQ", "DivEqSQ"})
        for (long m : {-10L, -6L, -2L, 1L, 2L, 3L, 4L, 10L, -8L})
        {
          if (!kall && m != -10 && m != 2 && m != 4) continue; // quick tier: -2.5, 0.5 and 1
          call(op, "a", "-", "-", {m});
          ensure("a", v);
        }
      for (long eo : {0L, 30L, 40L})
      {
        call("MeanX", "a", "-", "-", {eo});
        call("CenterX", "a", "-", "-", {eo});
        for (long u = 0; u <= 1; ++u)
        {
          call("VarX", "a", "-", "-", {u, eo});
          call("SdX", "a", "-", "-", {u, eo});
        }
      }
      for (const char* op : {"AddEqE", "SubEqE", "MulEqE", "DivEqE"})
        for (long i = 0; i < static_cast<long>(v.size()); ++i)
        {
          call(op, "a", "-", "-", {i});
          ensure("a", v);
        }
      for (long nrep = 0; nrep <= 3; ++nrep) call("Rep", "a", "-", "-", {nrep});
    }
  }

  void exh2(size_t maxLen, long slice, long of, bool setlikeOnly, bool vals3)
  {
    const std::vector<long> vals = vals3 ? std::vector<long>{-1, 0, 2} : std::vector<long>{-1, 0, 1, 2};
    static const char* pure[] = {"Add", "Sub", "Mul", "Div", "Scalar", "Kron", "Extract", "CovB", "CovO", "CorO", "CosO", "NormWO", "MiO"};
    static const char* pureSet[] = {"SumProd", "Union", "Inter", "SameC"};
    static const char* mut[] = {"AddEq", "SubEq", "MulEq", "DivEq", "Append", "Prepend"};
    static const char* mutSet[] = {"Same", "ContainsAll", "Extend"};
    const T wts[] = {T(2), T(-1), T(1), T(0)};
    std::vector<V> all = allVectors(maxLen, vals);
    long idx = 0;
    for (const V& v : all)
      for (const V& w : all)
      {
        if (of > 1 && (idx++ % of) != slice) continue;
        reset();
        set("a", v);
        set("b", w);
        if (!setlikeOnly)
          for (const char* op : pure) call(op, "a", "b");
        for (const char* op : pureSet) call(op, "a", "b");
        if (!setlikeOnly)
        {
          for (long eo : {0L, 27L, 40L})
          {
            call("CovX", "a", "b", "-", {0, eo});
            call("CovX", "a", "b", "-", {1, eo});
            call("CorX", "a", "b", "-", {eo});
          }
          for (long u = 0; u <= 1; ++u)
            for (long nzf = 0; nzf <= 1; ++nzf)
              for (long pr = 0; pr <= 1; ++pr)
              {
                const long eo = ((u + nzf + pr) % 2) ? 33 : 0;
                if (u == 0) call("MeanW", "a", "b", "-", {nzf, pr, 33 - eo});
                call("VarW", "a", "b", "-", {u, nzf, pr, eo});
                call("CovW", "a", "a", "b", {u, nzf, pr, 33 - eo});
              }
        }
        if (!setlikeOnly)
          for (const char* op : mut)
          {
            call(op, "a", "b");
            ensure("a", v);
          }
        for (const char* op : mutSet)
        {
          call(op, "a", "b");
          ensure("a", v);
          ensure("b", w);
        }
        // three vectors: a prefix that must survive in c, then weights of a's length
        set("c", V(1, T(7)));
        call("Diff", "a", "b", "c");
        ensure("a", v);
        ensure("b", w);
        if (!setlikeOnly)
        {
          V wt;
          for (size_t i = 0; i < v.size(); ++i) wt.push_back(wts[i % 4]);
          set("c", wt);
          call("Scalar3", "a", "b", "c");
          for (long nn = 0; nn <= 3; ++nn)
          {
            call("UnionAll", "a", "b", "c", {nn});
            call("InterAll", "a", "b", "c", {nn});
            call("Concat", "a", "b", "c", {nn});
          }
          call("Scalar3", "a", "b", "b");
        }
      }
  }

  void seqs()
  {
    reset();
    for (long f = -6; f <= 6; ++f)
      for (long t = -6; t <= 6; ++t)
        for (long b = 1; b <= 4; ++b) call("Seq", "-", "-", "-", {f, t, b});
    // large steps: spans that are / are not multiples of the step, one short of it, inside and outside the 1% zone
    const long steps[] = {5, 7, 49, 50, 51, 64, 99, 100, 101, 128, 150, 199, 200, 250, 500, 999, 1000};
    const long froms[] = {0, -300, 17};
    for (long b : steps)
      for (long f : froms)
        for (long m : {0L, 1L, 2L, 5L, 63L})
          for (long e : {0L, 1L, b / 100, b / 100 + 1, b / 2, b - b / 100 - 1, b - b / 100, b - 2, b - 1})
            for (long d : {1L, -1L})
            {
              if (e < 0 || e >= b) continue;
              call("Seq", "-", "-", "-", {f, f + d * (m * b + e), b});
            }
  }

  // ---------------------------------------------------------------- random histories
  V randomVector(Rng& rng)
  {
    V v;
    size_t cls = rng.below(10);
    size_t len;
    long lo = -50, hi = 50;
    if (cls < 4) len = rng.below(65); // anything up to 64
    else if (cls < 6) { len = rng.below(9); lo = -3; hi = 3; } // products stay small
    else if (cls < 8) { len = size_t(1) << rng.below(5); } // 1,2,4,8,16: exact moments
    else if (cls < 9 && rng.coin()) { len = 1 + rng.below(6); lo = -4; hi = 4; } // data of the weighted moments
    else if (cls < 9) { len = rng.below(11); lo = 0; hi = 1664; } // p-value numerators
    else len = rng.below(4);
    std::vector<long> anchors;
    for (int i = 0; i < 4; ++i) anchors.push_back(rng.range(lo, hi));
    for (size_t i = 0; i < len; ++i) v.push_back(static_cast<T>(rng.chance(2, 5) ? anchors[rng.below(4)] : rng.range(lo, hi)));
    return v;
  }
  void random(Rng& rng, long nsc)
  {
    static const char* u1[] = {"Sum", "Prod", "CumSum", "CumProd", "Abs", "Sqr", "Min", "Max", "WhichMin", "WhichMax", "WhichMinAll", "WhichMaxAll",
                               "Range", "Order", "Unique", "IsUnique", "CountValues", "Median", "Mean", "Center", "VarB", "Fdr"};
    static const char* s1[] = {"Which", "WhichAll", "Contains", "AddS", "SAdd", "SubS", "SSub", "MulS", "SMul", "DivS", "SDiv", "Fill", "AndEq",
                               "AddEqS", "SubEqS", "MulEqS", "DivEqS"};
    static const char* b2[] = {"Add", "Sub", "Mul", "Div", "SumProd", "Scalar", "Kron", "Union", "Inter", "SameC", "Same", "ContainsAll", "Extract",
                               "AddEq", "SubEq", "MulEq", "DivEq", "Append", "Prepend", "Extend", "CovB", "CovO", "CorO", "CosO", "NormWO", "MiO"};
    static const char* t3[] = {"Scalar3", "Diff", "Diff", "UnionAll", "InterAll", "Concat"};
    static const char* rg[] = {"a", "b", "c"};
    for (long sc = 0; sc < nsc; ++sc)
    {
      reset();
      for (const char* g : rg)
        if (rng.chance(4, 5)) set(g, randomVector(rng));
      long len = rng.range(15, 40);
      for (long i = 0; i < len; ++i)
      {
        size_t pick = rng.below(100);
        size_t p0 = rng.below(3), p1 = (p0 + 1 + rng.below(2)) % 3, p2 = 3 - p0 - p1;
        std::string x = rg[p0], y = rg[p1], z = rg[p2];
        if (pick < 8)
        {
          // make two registers comparable: same length, a permutation, a subset, valid positions
          V v = regs[x];
          size_t how = rng.below(7);
          if (how == 0) { for (size_t j = v.size(); j > 1; --j) std::swap(v[j - 1], v[rng.below(j)]); }
          else if (how == 1) { for (auto& e : v) if (rng.chance(1, 4)) e = static_cast<T>(rng.range(-50, 50)); }
          else if (how == 2) { V w; for (const auto& e : v) if (rng.coin()) w.push_back(e); v = w; }
          else if (how == 3) { V w; size_t m = rng.below(8); for (size_t j = 0; j < m && !v.empty(); ++j) w.push_back(static_cast<T>(rng.below(v.size()))); v = w; }
          else if (how == 4) v = randomVector(rng);
          else
          {
            // integer weights for x: non-negative, summing to 1, 2, 4 or 8 (sometimes one entry too many)
            size_t m = v.size() + (rng.chance(1, 12) ? 1 : 0);
            long Wt = 1L << rng.below(4);
            V w(m, T(0));
            for (long q = 0; q < Wt && m > 0; ++q) w[rng.below(m)] += T(1);
            v = w;
          }
          set(y, v);
        }
        else if (pick < 14) set(x, randomVector(rng));
        else if (pick < 40)
        {
          if (rng.chance(1, 4))
          {
            static const long offs[] = {0, 20, 27, 30, 33, 36, 40};
            static const char* xo[] = {"MeanX", "CenterX", "VarX", "SdX", "CovX", "CorX"};
            std::string op = xo[rng.below(6)];
            long eo = offs[rng.below(7)];
            if (op == "MeanX" || op == "CenterX") call(op, x, "-", "-", {eo});
            else if (op == "VarX" || op == "SdX") call(op, x, "-", "-", {rng.range(0, 1), eo});
            else if (op == "CovX") call(op, x, y, "-", {rng.range(0, 1), eo});
            else call(op, x, y, "-", {eo});
          }
          else call(u1[rng.below(sizeof u1 / sizeof *u1)], x);
        }
        else if (pick < 55)
        {
          const V& v = regs[x];
          long s = (!v.empty() && rng.chance(2, 3)) ? static_cast<long>(v[rng.below(v.size())]) : rng.range(-5, 5);
          static const char* q1[] = {"AddSQ", "SAddQ", "SubSQ", "SSubQ", "MulSQ", "SMulQ", "DivSQ", "SDivQ", "AddEqSQ", "SubEqSQ", "MulEqSQ", "DivEqSQ"};
          if (rng.chance(1, 4))
          {
            long m = rng.coin() ? 4 * rng.range(-6, 6) : rng.range(-30, 30);
            call(q1[rng.below(12)], x, "-", "-", {m});
            continue;
          }
          static const char* e1[] = {"AddEqE", "SubEqE", "MulEqE", "DivEqE"};
          if (!v.empty() && rng.chance(1, 4)) call(e1[rng.below(4)], x, "-", "-", {static_cast<long>(rng.below(v.size()))});
          else call(s1[rng.below(sizeof s1 / sizeof *s1)], x, "-", "-", {s});
        }
        else if (pick < 58) call("Rep", x, "-", "-", {rng.range(0, 4)});
        else if (pick < 61)
        {
          if (rng.coin()) call("Seq", "-", "-", "-", {rng.range(-50, 50), rng.range(-50, 50), rng.range(1, 7)});
          else
          {
            long b = rng.chance(1, 3) ? rng.range(1, 1000) : (rng.coin() ? 100 * rng.range(1, 10) : rng.range(50, 130));
            long f = rng.range(-2000, 2000), m = rng.range(0, 64);
            long e = rng.chance(1, 3) ? 0 : (rng.coin() ? b - 1 - rng.range(0, b / 50) : rng.range(0, b - 1));
            call("Seq", "-", "-", "-", {f, f + (rng.coin() ? 1 : -1) * (m * b + e), b});
          }
        }
        else if (pick < 88)
        {
          std::string op = b2[rng.below(sizeof b2 / sizeof *b2)];
          if (rng.chance(1, 6))
          {
            // weighted moments: small data in x (and z), integer weights summing to 1, 2, 4 or 8 in y
            size_t m = 1 + rng.below(6);
            V dxv, dzv, w(m + (rng.chance(1, 12) ? 1 : 0), T(0));
            for (size_t j = 0; j < m; ++j) { dxv.push_back(static_cast<T>(rng.range(-4, 4))); dzv.push_back(static_cast<T>(rng.range(-4, 4))); }
            if (rng.chance(1, 12)) dzv.push_back(T(1));
            long Wt = 1L << rng.below(4);
            for (long q = 0; q < Wt; ++q) w[rng.below(w.size())] += T(1);
            set(x, dxv);
            set(y, w);
            if (rng.coin()) set(z, dzv);
            static const long offs[] = {0, 0, 20, 27, 30, 35, 40};
            call("MeanW", x, y, "-", {rng.range(0, 1), rng.range(0, 1), offs[rng.below(7)]});
            for (int rep2 = 0; rep2 < 2; ++rep2)
            {
              call("VarW", x, y, "-", {rng.range(0, 1), rng.range(0, 1), rng.range(0, 1), offs[rng.below(7)]});
              call("CovW", x, z, y, {rng.range(0, 1), rng.range(0, 1), rng.range(0, 1), offs[rng.below(7)]});
            }
            continue;
          }
          bool constArgs = op == "Add" || op == "Sub" || op == "Mul" || op == "SumProd" || op == "Scalar" || op == "Kron" || op == "Union" || op == "Inter" || op == "SameC";
          call(op, x, (constArgs && rng.chance(1, 8)) ? x : y);
        }
        else
        {
          std::string op = t3[rng.below(sizeof t3 / sizeof *t3)];
          if (op == "Scalar3" || op == "Diff") call(op, x, y, z);
          else call(op, x, y, z, {rng.range(0, 3)});
        }
      }
    }
  }
};

// ---------------------------------------------------------------- log domain (E1)
static void logEvent(const std::string& op, const std::vector<double>& pool, const std::vector<long>& vi, const std::vector<long>& wi)
{
  if (g_skip.count(op))
  {
    ++g_skipped;
    return;
  }
  typedef bpp::VectorTools VT;
  const double inf = std::numeric_limits<double>::infinity();
  std::vector<double> v, w;
  for (long i : vi) v.push_back(pool[static_cast<size_t>(i)]);
  for (long i : wi) w.push_back(static_cast<double>(i) / 4.0);
  snprintf(g_ctx, sizeof g_ctx, "%s n=%zu,%zu", op.c_str(), v.size(), w.size());
  double r = 0;
  Out oc;
  if (op == "LogSumExp") oc = run([&] { r = VT::logSumExp(v); });
  else if (op == "LogMeanExp") oc = run([&] { r = VT::logMeanExp(v); });
  else if (op == "SumExp") oc = run([&] { r = VT::sumExp(v); });
  else if (op == "LogSumExpW") oc = run([&] { r = VT::logSumExp(v, w); });
  else if (op == "SumExpW") oc = run([&] { r = VT::sumExp(v, w); });
  else if (op == "LogSum2") oc = run([&] { r = bpp::NumTools::logsum(v[0], v[1]); });
  // the facts: bounds from the library's own log / exp, compared as doubles
  double M = -inf;
  for (double e : v) if (e > M) M = e;
  double wm = 0, W = 0;
  if (w.size() == v.size())
    for (size_t i = 0; i < v.size(); ++i)
    {
      W += w[i];
      if (v[i] == M) wm += w[i];
    }
  const double n = static_cast<double>(v.size());
  double lo = M, hi = M;
  if (op == "LogSumExp") hi = M + std::log(v.size());
  else if (op == "LogSum2") hi = M + std::log(2.);
  else if (op == "LogMeanExp") { lo = M - std::log(v.size()); hi = (M + std::log(v.size())) - std::log(v.size()); }
  else if (op == "SumExp") { lo = std::exp(M); hi = n * std::exp(M); }
  else if (op == "LogSumExpW") { lo = M + std::log(wm); hi = M + std::log(W); }
  else if (op == "SumExpW") { lo = wm * std::exp(M); hi = W * std::exp(M); }
  auto indexOf = [&](double e) -> long {
    for (size_t i = 0; i < pool.size(); ++i)
      if (pool[i] == e) return static_cast<long>(i);
    return -1;
  };
  // multiplicity of the maximum: each tied entry adds a full 1 to the shifted sum, so
  // r >= max + log(k) (- log n for the mean); 4 ulps of slack for other summation orders / log1p forms
  long kmul = 0;
  for (double e : v) if (e == M) ++kmul;
  double lbk = M + std::log(static_cast<double>(kmul));
  if (op == "LogMeanExp") lbk = lbk - std::log(v.size());
  for (int i = 0; i < 4; ++i) lbk = std::nextafter(lbk, -inf);
  // a second entry within 30 of a moderate maximum must lift the result strictly above the lower bound
  bool near = false;
  if (v.size() >= 2 && std::fabs(M) <= 100.0)
  {
    bool skippedOne = false;
    for (double e : v)
    {
      if (e == M && !skippedOne) { skippedOne = true; continue; }
      if (e - M >= -30.0) near = true;
    }
  }
  // shift by an amount that is added exactly to every finite entry (TwoSum error term is zero)
  bool sha = false, sh = false;
  if ((op == "LogSumExp" || op == "LogMeanExp" || op == "LogSum2") && !v.empty() && std::isfinite(M) && oc.o == "ok")
  {
    static const double shifts[] = {8.0, -16.0, 0.5, 1024.0, -0.25};
    long hsum = 0;
    for (long i : vi) hsum += i;
    const double cs = shifts[(static_cast<size_t>(hsum) + v.size()) % 5];
    std::vector<double> vs;
    sha = true;
    for (double e : v)
    {
      if (std::isinf(e)) { vs.push_back(e); continue; }
      double sm = e + cs, bb = sm - e, err = (e - (sm - bb)) + (cs - bb);
      if (err != 0.0) sha = false;
      vs.push_back(sm);
    }
    if (sha)
    {
      double r2 = 0;
      Out o2;
      if (op == "LogSumExp") o2 = run([&] { r2 = VT::logSumExp(vs); });
      else if (op == "LogMeanExp") o2 = run([&] { r2 = VT::logMeanExp(vs); });
      else o2 = run([&] { r2 = bpp::NumTools::logsum(vs[0], vs[1]); });
      double scale = std::max(std::max(std::fabs(r), std::fabs(r2)), std::fabs(cs));
      sh = o2.o == "ok" && std::fabs(r2 - (r + cs)) <= 8.0 * std::numeric_limits<double>::epsilon() * scale;
    }
  }
  Obj f;
  bool okk = oc.o == "ok";
  f.kv("nan", okk && r != r).kv("fin", okk && std::isfinite(r)).kv("ri", okk ? indexOf(r) : -1L).kv("mi", v.empty() ? -1L : indexOf(M));
  f.kv("zero", okk && r == 0.0).kv("c1", okk && lo <= r).kv("c2", okk && r <= hi);
  f.kv("wm", static_cast<long long>(wm * 4)).kv("w", static_cast<long long>(W * 4)).kv("eo", std::isinf(std::exp(M)));
  f.kv("k", kmul).kv("c3", okk && lbk <= r).kv("near", near).kv("c4", okk && r > lo).kv("sha", sha).kv("sh", sh);
  Obj e;
  e.kv("e", "Log").kv("op", op).kv("v", arrOf(vi)).kv("w", arrOf(wi)).kv("P", pool.size()).kv("o", oc.o).kv("c", oc.c).kv("f", f);
  tracer().emit(e);
  ++g_calls;
  snprintf(g_ctx, sizeof g_ctx, "after %s", op.c_str());
}

static long logMode(Rng& rng, long nsc)
{
  const double inf = std::numeric_limits<double>::infinity();
  static const char* ops[] = {"LogSumExp", "LogMeanExp", "SumExp", "LogSumExpW", "SumExpW", "LogSum2"};
  long scenarios = 0;
  // exhaustive: every vector of length <= 3 over a 5-point pool (weights cycle)
  {
    std::vector<double> pool = {-inf, -1e300, 0.5, 1e300, inf};
    tracer().emit(Obj().kv("e", "Reset").kv("t", "log"));
    ++scenarios;
    std::vector<std::vector<long>> all(1);
    size_t from = 0;
    for (int len = 1; len <= 3; ++len)
    {
      size_t to = all.size();
      for (size_t i = from; i < to; ++i)
        for (long p = 0; p < 5; ++p)
        {
          std::vector<long> u = all[i];
          u.push_back(p);
          all.push_back(u);
        }
      from = to;
    }
    const long wcyc[] = {4, 0, 2, 8, 1};
    long q = 0;
    for (const auto& vi : all)
    {
      for (const char* op : ops)
      {
        std::string o = op;
        if (o == "LogSum2")
        {
          if (vi.size() == 2) logEvent(o, pool, vi, {});
          continue;
        }
        if (o == "LogSumExpW" || o == "SumExpW")
        {
          std::vector<long> wi;
          for (size_t i = 0; i < vi.size(); ++i) wi.push_back(wcyc[(q + static_cast<long>(i)) % 5]);
          ++q;
          logEvent(o, pool, vi, wi);
          std::vector<long> ones(vi.size(), 4);
          logEvent(o, pool, vi, ones);
          if (q % 7 == 0)
          {
            wi.push_back(4);
            logEvent(o, pool, vi, wi); // size mismatch
          }
        }
        else logEvent(o, pool, vi, {});
      }
    }
  }
  const double cand[] = {-1e300, -1e10, -746.0, -709.5, -37.25, -1.5, 0.0, 0.75, 3.0, 36.5, 709.5, 710.5, 1e10, 1e300};
  for (long sc = 0; sc < nsc; ++sc)
  {
    tracer().emit(Obj().kv("e", "Reset").kv("t", "log"));
    ++scenarios;
    std::set<double> fin;
    size_t np = 3 + rng.below(5);
    while (fin.size() < np) fin.insert(rng.chance(1, 2) ? cand[rng.below(sizeof cand / sizeof *cand)] : (rng.unit() * 100.0 - 50.0));
    std::vector<double> pool;
    pool.push_back(-inf);
    for (double e : fin) pool.push_back(e);
    pool.push_back(inf);
    long nev = rng.range(15, 30);
    for (long i = 0; i < nev; ++i)
    {
      std::string op = ops[rng.below(6)];
      size_t len = op == "LogSum2" ? 2 : (rng.chance(1, 6) ? rng.below(65) : rng.below(7));
      // mostly finite entries, sometimes log-zeros, rarely +inf
      std::vector<long> vi, wi;
      size_t mode = rng.below(10);
      for (size_t j = 0; j < len; ++j)
      {
        long p;
        if (mode == 0) p = 0;
        else if (mode == 1) p = rng.range(0, static_cast<long>(pool.size()) - 1);
        else p = rng.chance(1, 6) ? 0 : rng.range(1, static_cast<long>(pool.size()) - 2);
        vi.push_back(p);
      }
      if (op == "LogSumExpW" || op == "SumExpW")
      {
        size_t wl = rng.chance(1, 10) ? rng.below(len + 3) : len;
        const long wv[] = {0, 1, 2, 4, 4, 8, 12};
        for (size_t j = 0; j < wl; ++j) wi.push_back(wv[rng.below(7)]);
      }
      logEvent(op, pool, vi, wi);
    }
  }
  return scenarios;
}

int main(int argc, char** argv)
{
  std::string out = argStr(argc, argv, "--out", "");
  std::string mode = argStr(argc, argv, "--mode", "random");
  std::string types = argStr(argc, argv, "--types", "int,double");
  long n = argInt(argc, argv, "--n", 50);
  long len = argInt(argc, argv, "--len", 2);
  long kall = argInt(argc, argv, "--kall", 1);
  long slice = argInt(argc, argv, "--slice", 0), of = argInt(argc, argv, "--of", 1);
  long setlike = argInt(argc, argv, "--setlike", 0);
  long vals3 = argInt(argc, argv, "--vals3", 0);
  {
    std::stringstream ss(argStr(argc, argv, "--skip", ""));
    std::string t;
    while (std::getline(ss, t, ',')) if (!t.empty()) g_skip.insert(t);
  }
  if (out.empty() || !tracer().open(out))
  {
    fprintf(stderr, "drv_vector: cannot open --out\n");
    return 2;
  }
  installCrashHandlers();
  std::set_terminate(onTerm);
  signal(SIGSEGV, onSig);
  signal(SIGABRT, onSig);
  signal(SIGFPE, onSig);
  signal(SIGBUS, onSig);
  signal(SIGILL, onSig);
  uint64_t seed = envSeed();
  long sc = 0;
  bool ti = types.find("int") != std::string::npos, td = types.find("double") != std::string::npos;
  if (mode == "log")
  {
    Rng rng(seed * 7919ULL + 17);
    sc = logMode(rng, n);
  }
  else
  {
    Runner<int> ri("int");
    Runner<double> rd("double");
    Rng r1(seed * 1000003ULL + 1), r2(seed * 1000003ULL + 2);
    if (mode == "exh1") { if (ti) ri.exh1(static_cast<size_t>(len), kall != 0); if (td) rd.exh1(static_cast<size_t>(len), kall != 0); }
    else if (mode == "exh2") { if (ti) ri.exh2(static_cast<size_t>(len), slice, of, setlike != 0, vals3 != 0); if (td) rd.exh2(static_cast<size_t>(len), slice, of, setlike != 0, vals3 != 0); }
    else if (mode == "seq") { if (ti) ri.seqs(); if (td) rd.seqs(); }
    else if (mode == "random") { if (ti) ri.random(r1, n); if (td) rd.random(r2, n); }
    else
    {
      fprintf(stderr, "drv_vector: unknown mode\n");
      return 2;
    }
    sc = ri.scenarios + rd.scenarios;
  }
  tracer().emit(Obj().kv("e", "Reset").kv("t", "int")); // a complete trace ends with a Reset: truncation is visible
  tracer().close();
  printf("{\"scenarios\":%ld,\"events\":%ld,\"calls\":%ld,\"skipped\":%ld,\"unfit\":%ld,\"complete\":true}\n", sc, tracer().count(), g_calls, g_skipped, g_unfit);
  return 0;
}

// The three translation units of the library this driver needs are compiled into
// it (one TU, so the dependency file sees every source): no full library build,
// which keeps the sanitizer variant and the mutant self-tests fast.
#include <Bpp/Exceptions.cpp>
#include <Bpp/Numeric/Stat/StatTools.cpp>
