// Conformance driver for C17 (text round trips and grammars).  Runs the real
// code of $VERIF_REPO and logs one ndjson event per public call; the TLA+
// modules of spec/Text judge the events.  Strings are logged as arrays of
// character codes (ASCII, except the number mode which uses the classes of
// NumberGrammar.tla).
//
//   drv_text --out F --mode numbers --len L --rand N [--alt 1]
//   drv_text --out F --mode tok     --len3 L3 --len8 L8 --rand N
//   drv_text --out F --mode nested  --len L --rand N
//   drv_text --out F --mode keyval  --len L --rand N
//   drv_text --out F --mode glob    --plen LP --nlen LN
//   drv_text --out F --mode vars    --items K --nvars V --rand N
//   drv_text --out F --mode table   --dim D --rand N
//   drv_text --out F --mode dist    --rand N
#include "drv_text_gen.h"
#include "param_audit.h"

#include <Bpp/App/ApplicationTools.h>
#include <Bpp/Exceptions.h>
#include <Bpp/Io/BppODiscreteDistributionFormat.h>
#include <Bpp/Io/BppOParametrizableFormat.h>
#include <Bpp/Numeric/AbstractParameterAliasable.h>
#include <Bpp/Io/OutputStream.h>
#include <Bpp/Numeric/DataTable.h>
#include <Bpp/Numeric/Parameter.h>
#include <Bpp/Numeric/ParameterList.h>
#include <Bpp/Numeric/Prob/BetaDiscreteDistribution.h>
#include <Bpp/Numeric/Prob/ConstantDistribution.h>
#include <Bpp/Numeric/Prob/ExponentialDiscreteDistribution.h>
#include <Bpp/Numeric/Prob/GammaDiscreteDistribution.h>
#include <Bpp/Numeric/Prob/GaussianDiscreteDistribution.h>
#include <Bpp/Numeric/Prob/InvariantMixedDiscreteDistribution.h>
#include <Bpp/Numeric/Prob/MixtureOfDiscreteDistributions.h>
#include <Bpp/Numeric/Prob/SimpleDiscreteDistribution.h>
#include <Bpp/Numeric/Prob/TruncatedExponentialDiscreteDistribution.h>
#include <Bpp/Numeric/Prob/UniformDiscreteDistribution.h>
#include <Bpp/Text/KeyvalTools.h>
#include <Bpp/Text/NestedStringTokenizer.h>
#include <Bpp/Text/StringTokenizer.h>
#include <Bpp/Text/TextTools.h>
#include <Bpp/Utils/AttributesTools.h>

#include <algorithm>
#include <cmath>
#include <functional>
#include <memory>
#include <set>
#include <sstream>

using namespace vt;
using namespace tg;

static long g_events = 0, g_scen = 0, g_sinceReset = 1000000, g_skipped = 0;

static void emit(const Obj& o)
{
  tracer().emit(o);
  ++g_events;
  ++g_sinceReset;
}
static void reset(const char* what)
{
  tracer().emit(Obj().kv("e", "Reset").kv("what", what));
  g_sinceReset = 0;
  ++g_scen;
}
// stateless event streams are cut into chunks that TLC can validate in parallel
static void chunk(const char* what, long every = 400)
{
  if (g_sinceReset >= every) reset(what);
}

static Arr asc(const std::string& s)
{
  Arr a;
  for (unsigned char c : s) a.add(static_cast<int>(c));
  return a;
}
template<class C> static Arr ascList(const C& v)
{
  Arr a;
  for (const auto& s : v) a.add(asc(s));
  return a;
}
static Arr ascMap(const std::map<std::string, std::string>& m)
{
  Arr a;
  for (const auto& kv : m) a.add(Arr().add(asc(kv.first)).add(asc(kv.second)));
  return a;
}
static Arr ascPairs(const std::vector<std::pair<std::string, std::string>>& m)
{
  Arr a;
  for (const auto& kv : m) a.add(Arr().add(asc(kv.first)).add(asc(kv.second)));
  return a;
}

// outcome of a call: r = ok | raise (bpp::Exception) | raise_std | raise_other ; x = class
struct Res
{
  std::string r, x;
};
template<class F> static Res call(F f)
{
  std::string o = vt::outcome<bpp::Exception>(f);
  Res res;
  if (o == "ok") res.r = "ok";
  else if (o.compare(0, 10, "raise:std:") == 0)
  {
    res.r = "raise_std";
    res.x = o.substr(10);
  }
  else if (o == "raise:other") res.r = "raise_other";
  else
  {
    res.r = "raise";
    res.x = o.substr(6);
  }
  return res;
}
static Obj ev(const char* name, const Res& r) { return Obj().kv("e", name).kv("r", r.r).kv("x", r.x); }

// =============================================================== numbers
static void numberCalls(const std::string& s, char dec, char sci, const Codec& cd)
{
  namespace TT = bpp::TextTools;
  chunk("numbers");
  Arr code = cd.enc(s);
  bool b = false;
  Res r = call([&]() { b = TT::isDecimalNumber(s, dec, sci); });
  emit(ev("IsNum", r).kv("s", code).kv("v", b));
  double d = 0;
  r = call([&]() { d = TT::toDouble(s, dec, sci); });
  {
    double x = d * 1e6;
    bool inRange = std::fabs(x) < 2147483646.0;
    long long q = inRange ? std::llround(x) : 0;
    bool grid = inRange && std::fabs(x - static_cast<double>(q)) <= 1e-6;
    emit(ev("ToDouble", r).kv("s", code).kv("q", q).kv("g", grid));
  }
  r = call([&]() { b = TT::isDecimalInteger(s, sci); });
  emit(ev("IsInt", r).kv("s", code).kv("v", b));
  int v = 0;
  r = call([&]() { v = TT::toInt(s, sci); });
  emit(ev("ToInt", r).kv("s", code).kv("v", v));
}

static void modeNumbers(int argc, char** argv, Rng& rng)
{
  namespace TT = bpp::TextTools;
  size_t len = static_cast<size_t>(argInt(argc, argv, "--len", 4));
  long nrand = argInt(argc, argv, "--rand", 200);
  bool alt = argInt(argc, argv, "--alt", 0) != 0;
  std::vector<std::pair<char, char>> styles;
  styles.push_back({'.', 'e'});
  if (alt) styles.push_back({',', 'E'});
  for (size_t k = 0; k < styles.size(); ++k)
  {
    char dec = styles[k].first, sci = styles[k].second;
    Codec cd = numberCodec(dec, sci);
    std::string alpha = std::string("01-+x") + dec + sci;
    forAllStrings(alpha, k == 0 ? len : (len > 4 ? len - 1 : len), [&](const std::string& s) { numberCalls(s, dec, sci, cd); });
    std::string big = std::string("0123456789-+ x") + dec + sci;
    for (long i = 0; i < nrand; ++i)
    {
      std::string s = numberLike(rng, dec, sci);
      if (rng.chance(1, 3)) s = corrupt(rng, s, big, 1 + static_cast<int>(rng.below(2)));
      if (s.size() > 12) s.resize(12);
      numberCalls(s, dec, sci, cd);
    }
  }
  // extreme magnitudes in the default and in non-default (separator, exponent character) styles
  {
    static const char ds[] = {'.', ',', ',', '.'};
    static const char ss[] = {'e', 'E', 'e', 'd'};
    for (size_t k = 0; k < (alt ? 4u : 1u); ++k)
    {
      Codec cdk = numberCodec(ds[k], ss[k]);
      for (const auto& s : dictStyledNumbers(ds[k], ss[k]))
        if (s.size() <= 40) numberCalls(s, ds[k], ss[k], cdk);
    }
  }
  // long digit strings with small exponents (values far outside int / long long)
  {
    Codec cd0 = numberCodec('.', 'e');
    for (const auto& s : longDigitNumbers()) numberCalls(s, '.', 'e', cd0);
  }
  // formatting then parsing: ints
  Codec cd = numberCodec('.', 'e');
  std::vector<long> ints;
  for (long n = -120; n <= 120; ++n) ints.push_back(n);
  for (long p = 10; p <= 1000000; p *= 10)
    for (long dlt = -1; dlt <= 1; ++dlt)
    {
      ints.push_back(p + dlt);
      ints.push_back(-(p + dlt));
    }
  for (long i = 0; i < nrand * 4; ++i) ints.push_back(rng.range(-1000000, 1000000));
  for (long n : ints)
  {
    chunk("numbers");
    std::string s;
    int back = 0;
    Res r = call([&]() {
      s = TT::toString(static_cast<int>(n));
      back = TT::toInt(s);
    });
    emit(ev("IntRT", r).kv("n", n).kv("s", cd.enc(s)).kv("back", back));
  }
  // decimals with at most 15 significant digits: text -> double -> text (precision 15) -> double
  for (long i = 0; i < nrand * 4 + 300; ++i)
  {
    chunk("numbers");
    size_t nd = 1 + rng.below(15);
    std::string digits;
    for (size_t k = 0; k < nd; ++k) digits += static_cast<char>('0' + (k == 0 ? 1 + rng.below(9) : rng.below(10)));
    std::string d = rng.chance(1, 3) ? "-" : "";
    switch (rng.below(4))
    {
    case 0: // plain, decimal point somewhere inside or after
    {
      size_t pos = 1 + rng.below(nd);
      d += digits.substr(0, pos);
      if (pos < nd) d += "." + digits.substr(pos);
      break;
    }
    case 1: // 0.000ddd
      d += "0." + std::string(rng.below(6), '0') + digits;
      break;
    case 2: // ddd000
      d += digits + std::string(rng.below(6), '0');
      break;
    default: // scientific, magnitude within the normal range of a double
    {
      long e10 = rng.range(-290, 290);
      d += digits.substr(0, 1) + (nd > 1 ? "." + digits.substr(1) : "") + "e" + std::to_string(e10);
    }
    }
    std::string s2;
    double x = 0, back = 0;
    Res r = call([&]() {
      x = TT::toDouble(d);
      s2 = TT::toString(x, 15);
      back = TT::toDouble(s2);
    });
    emit(ev("DecRT", r).kv("d", cd.enc(d)).kv("s", cd.enc(s2)).kv("same", back == x));
  }
  // every finite double: 17 significant digits are enough to get it back
  for (long i = 0; i < nrand * 4 + 300; ++i)
  {
    chunk("numbers");
    uint64_t bits = rng.next();
    if (i % 7 == 0) bits &= 0x800fffffffffffffULL;          // subnormal
    if (i % 11 == 0) bits = (bits & 0x8000000000000000ULL) | 0x7fefffffffffffffULL - rng.below(4); // near the largest
    double x;
    memcpy(&x, &bits, sizeof x);
    if (!(x == x) || x - x != 0) continue; // nan, inf
    std::string s2;
    double back = 0;
    Res r = call([&]() {
      s2 = TT::toString(x, 17);
      back = TT::toDouble(s2);
    });
    emit(ev("Dbl17RT", r).kv("s", cd.enc(s2)).kv("same", back == x));
  }
  // formatting then parsing: dyadic doubles k / 2^b, |value| < 1000, b <= 6
  for (long i = 0; i < nrand * 4 + 200; ++i)
  {
    chunk("numbers");
    int b = static_cast<int>(i < 200 ? i % 7 : rng.below(7));
    long lim = 999L << b;
    long k = i < 200 ? (i / 7) - 14 : rng.range(-lim, lim);
    double d = static_cast<double>(k) / static_cast<double>(1L << b);
    static const int precs[] = {10, 12, 15, 17};
    int p = precs[rng.below(4)];
    std::string s;
    double back = 0;
    Res r = call([&]() {
      s = TT::toString(d, p);
      back = TT::toDouble(s);
    });
    double x = back * 1e6;
    bool exactGrid = std::fabs(x) < 2147483646.0 && x == std::floor(x);
    emit(ev("DblRT", r).kv("k", k).kv("b", b).kv("p", p).kv("s", cd.enc(s)).kv("q", exactGrid ? static_cast<long long>(x) : -2147483647LL).kv("same", back == d));
  }
}

// =============================================================== tokenisers
static void walk(bpp::StringTokenizer& st, Rng& rng, bool plain, bool full)
{
  // consume the tokens one by one, re-joining the rest at every position
  size_t guard = 0;
  bool removed = false;
  for (;;)
  {
    if (plain && (full || rng.chance(1, 2)))
    {
      std::string u;
      Res r = call([&]() { u = st.unparseRemainingTokens(); });
      emit(ev("TokUnparse", r).kv("v", asc(u)));
    }
    if (full || rng.chance(1, 4))
    {
      bool h = false;
      Res r = call([&]() { h = st.hasMoreToken(); });
      emit(ev("TokHasMore", r).kv("v", h));
    }
    if (rng.chance(1, 4))
    {
      size_t n = 0;
      Res r = call([&]() { n = st.numberOfRemainingTokens(); });
      emit(ev("TokRemaining", r).kv("v", n));
    }
    if (rng.chance(1, 4) && !st.getTokens().empty())
    {
      size_t i = rng.below(st.getTokens().size());
      std::string t;
      Res r = call([&]() { t = st.getToken(i); });
      emit(ev("TokGet", r).kv("i", i).kv("tok", asc(t)));
    }
    if (plain && !removed && rng.chance(1, 12))
    {
      Res r = call([&]() { st.removeEmptyTokens(); });
      emit(ev("TokRemoveEmpty", r).kv("toks", ascList(st.getTokens())));
      removed = true;
    }
    std::string t;
    Res r = call([&]() { t = st.nextToken(); });
    emit(ev("TokNext", r).kv("tok", asc(t)));
    if (r.r != "ok" || ++guard > 64) break;
  }
}

static void plainCase(const std::string& s, const std::string& d, bool solid, bool ae, Rng& rng, bool full)
{
  chunk("tok", 300);
  std::unique_ptr<bpp::StringTokenizer> st;
  Res r = call([&]() { st.reset(new bpp::StringTokenizer(s, d, solid, ae)); });
  Obj o = ev("TokNew", r).kv("s", asc(s)).kv("d", asc(d)).kv("solid", solid).kv("ae", ae);
  if (st) o.kv("toks", ascList(st->getTokens()));
  else o.kv("toks", Arr());
  emit(o);
  if (st) walk(*st, rng, true, full);
}

static void nestedCase(const std::string& s, const std::string& d, bool solid, Rng& rng)
{
  chunk("nested", 300);
  std::unique_ptr<bpp::NestedStringTokenizer> st;
  Res r = call([&]() { st.reset(new bpp::NestedStringTokenizer(s, "(", ")", d, solid)); });
  Obj o = ev("NestNew", r).kv("s", asc(s)).kv("d", asc(d)).kv("solid", solid);
  if (st) o.kv("toks", ascList(st->getTokens()));
  else o.kv("toks", Arr());
  emit(o);
  if (st && rng.chance(1, 3)) walk(*st, rng, false, false);
}

static void modeTok(int argc, char** argv, Rng& rng)
{
  size_t len3 = static_cast<size_t>(argInt(argc, argv, "--len3", 5));
  size_t len8 = static_cast<size_t>(argInt(argc, argv, "--len8", 3));
  long nrand = argInt(argc, argv, "--rand", 200);
  const bool emptyDelim = argInt(argc, argv, "--emptydelim", 1) != 0;
  std::vector<std::string> delims = {",", ",;", ";,"};
  if (emptyDelim) delims.push_back("");
  // (a) every string over {a , ;} x every option combination
  forAllStrings("a,;", len3, [&](const std::string& s) {
    for (const auto& d : delims)
      for (int o = 0; o < 4; ++o) plainCase(s, d, (o & 1) != 0, (o & 2) != 0, rng, s.size() <= 3);
  });
  // (b) every string over the 8-letter alphabet with the default blank delimiters and ","
  forAllStrings("ab,; ()=", len8, [&](const std::string& s) {
    for (int o = 0; o < 4; ++o)
    {
      plainCase(s, " \t\n\f\r", (o & 1) != 0, (o & 2) != 0, rng, false);
      plainCase(s, o < 2 ? ", " : "=", (o & 1) != 0, (o & 2) != 0, rng, false);
    }
  });
  // (c) longer seeded strings (length <= 24)
  for (long i = 0; i < nrand; ++i)
  {
    std::string s = randomString(rng, "ab,; ()=", 0, 24);
    static const char* ds[] = {",", ";", ",;", " ", " \t\n\f\r", "=", ", ", "ab", ""};
    std::string d = ds[rng.below(emptyDelim ? 9 : 8)];
    plainCase(s, d, rng.coin(), rng.coin(), rng, false);
  }
}

static void modeNested(int argc, char** argv, Rng& rng)
{
  size_t len = static_cast<size_t>(argInt(argc, argv, "--len", 5));
  long nrand = argInt(argc, argv, "--rand", 200);
  const bool emptyDelim = argInt(argc, argv, "--emptydelim", 1) != 0;
  forAllStrings("a,()", len, [&](const std::string& s) {
    nestedCase(s, ",", false, rng);
    nestedCase(s, ",", true, rng);
  });
  forAllStrings("a,;()", len > 1 ? len - 1 : len, [&](const std::string& s) {
    nestedCase(s, ",;", false, rng);
    nestedCase(s, ",;", true, rng);
    if (emptyDelim && s.size() <= 3) nestedCase(s, "", true, rng);
  });
  for (long i = 0; i < nrand; ++i)
  {
    // grammar-aware: balanced skeleton, sometimes corrupted
    std::string s;
    int depth = 0;
    size_t n = rng.below(25);
    for (size_t k = 0; k < n; ++k)
    {
      size_t c = rng.below(8);
      if (c == 0)
      {
        s += '(';
        ++depth;
      }
      else if (c == 1 && depth > 0)
      {
        s += ')';
        --depth;
      }
      else if (c < 4) s += ',';
      else if (c == 4) s += ' ';
      else if (c == 5) s += '=';
      else s += static_cast<char>('a' + rng.below(2));
    }
    while (depth-- > 0) s += ')';
    if (rng.chance(1, 4)) s = corrupt(rng, s, "a,() ", 1);
    if (s.size() > 24) s.resize(24);
    static const char* ds[] = {",", ", ", " \t\n\f\r", ",;"};
    nestedCase(s, ds[rng.below(4)], rng.chance(1, 4), rng);
  }
}

// =============================================================== key-value procedures
typedef std::vector<std::pair<std::string, std::string>> ArgList;
static std::string render(const std::string& name, const ArgList& args)
{
  std::string s = name + "(";
  for (size_t i = 0; i < args.size(); ++i)
  {
    if (i) s += ",";
    s += args[i].first + "=" + args[i].second;
  }
  return s + ")";
}
static std::string word(Rng& rng, size_t minLen = 1)
{
  static const std::string a = "abcxyz012._-";
  return randomString(rng, a, minLen, 3);
}
static ArgList randomArgs(Rng& rng, size_t maxN, bool nested)
{
  size_t n = rng.below(maxN + 1);
  ArgList a;
  std::set<std::string> used;
  while (a.size() < n)
  {
    std::string k = word(rng);
    if (!used.insert(k).second) continue;
    std::string v = word(rng);
    if (nested && rng.chance(1, 3)) v = render(word(rng), randomArgs(rng, 3, false));
    a.push_back({k, v});
  }
  return a;
}

static void kvParse(const std::string& desc)
{
  std::string name;
  std::map<std::string, std::string> args;
  Res r = call([&]() { bpp::KeyvalTools::parseProcedure(desc, name, args); });
  emit(ev("KvParse", r).kv("desc", asc(desc)).kv("name", asc(name)).kv("args", ascMap(args)));
}
static std::string kvChange(const std::string& desc, const ArgList& nw)
{
  std::map<std::string, std::string> m;
  for (const auto& kv : nw) m[kv.first] = kv.second;
  ArgList uniq(m.begin(), m.end());
  std::string out;
  Res r = call([&]() { out = bpp::KeyvalTools::changeKeyvals(desc, m); });
  emit(ev("KvChange", r).kv("desc", asc(desc)).kv("new", ascPairs(uniq)).kv("out", asc(out)));
  return r.r == "ok" ? out : desc;
}
static void kvMulti(const std::string& desc, bool nested)
{
  std::map<std::string, std::string> args;
  Res r = call([&]() { bpp::KeyvalTools::multipleKeyvals(desc, args, ",", nested); });
  emit(ev("KvMulti", r).kv("desc", asc(desc)).kv("nested", nested).kv("args", ascMap(args)));
}

static void modeKeyval(int argc, char** argv, Rng& rng)
{
  size_t len = static_cast<size_t>(argInt(argc, argv, "--len", 4));
  long nrand = argInt(argc, argv, "--rand", 200);
  // (a) every short string, as a description and as an argument list
  forAllStrings("ab,=() ", len, [&](const std::string& s) {
    chunk("keyval", 300);
    kvParse(s);
    if (s.size() + 1 <= len)
    {
      kvMulti(s, true);
      ArgList nw;
      nw.push_back({"a", "b"});
      kvChange(s, nw);
    }
  });
  // (b) rendered procedures: maps with 0..6 entries nested one level, then a chain of substitutions
  for (long i = 0; i < nrand; ++i)
  {
    reset("keyval-chain");
    std::string name = rng.chance(1, 8) ? "" : word(rng);
    ArgList args = randomArgs(rng, i < 28 ? static_cast<size_t>(i % 7) : 6, true);
    std::string desc = render(name, args);
    emit(Obj().kv("e", "KvMake").kv("name", asc(name)).kv("args", ascPairs(args)).kv("desc", asc(desc)));
    kvParse(desc);
    size_t steps = rng.below(4);
    for (size_t k = 0; k < steps; ++k)
    {
      ArgList nw;
      size_t m = rng.below(3);
      for (size_t j = 0; j < m; ++j)
      {
        std::string key = (!args.empty() && rng.chance(3, 4)) ? args[rng.below(args.size())].first : word(rng);
        std::string v = rng.chance(1, 4) ? render(word(rng), randomArgs(rng, 2, false)) : word(rng);
        nw.push_back({key, v});
      }
      desc = kvChange(desc, nw);
      kvParse(desc);
    }
    // the argument list alone
    std::string inner;
    for (size_t k = 0; k < args.size(); ++k) inner += (k ? "," : "") + args[k].first + "=" + args[k].second;
    kvMulti(inner, true);
    if (rng.chance(1, 3)) kvMulti(inner, false);
  }
}

// =============================================================== wildcards
static void modeGlob(int argc, char** argv, Rng& rng)
{
  size_t plen = static_cast<size_t>(argInt(argc, argv, "--plen", 5));
  size_t nlen = static_cast<size_t>(argInt(argc, argv, "--nlen", 5));
  (void)rng;
  std::vector<std::string> names;
  forAllStrings("ab", nlen, [&](const std::string& s) { names.push_back(s); });
  std::sort(names.begin(), names.end());
  std::map<std::string, std::string> pmap;
  bpp::ParameterList pl;
  for (const auto& n : names)
  {
    pmap[n] = "1";
    pl.addParameter(bpp::Parameter(n, 0.));
  }
  std::map<std::string, size_t> pos;
  for (size_t i = 0; i < names.size(); ++i) pos[names[i]] = i;
  auto positions = [&](const std::vector<std::string>& v) {
    Arr a;
    for (const auto& s : v)
    {
      auto it = pos.find(s);
      a.add(it == pos.end() ? -1L : static_cast<long>(it->second));
    }
    return a;
  };
  long since = 1000;
  forAllStrings("ab*", plen, [&](const std::string& p) {
    if (since >= 60)
    {
      reset("glob");
      emit(Obj().kv("e", "GlobNames").kv("names", ascList(names)));
      since = 0;
    }
    ++since;
    std::vector<std::string> out;
    Res r = call([&]() { out = bpp::ApplicationTools::matchingParameters(p, pmap); });
    emit(ev("Glob", r).kv("which", "map").kv("p", asc(p)).kv("v", positions(out)));
    std::vector<std::string> vec(names);
    r = call([&]() { out = bpp::ApplicationTools::matchingParameters(p, vec); });
    emit(ev("Glob", r).kv("which", "vec").kv("p", asc(p)).kv("v", positions(out)));
    r = call([&]() { out = pl.getMatchingParameterNames(p); });
    emit(ev("Glob", r).kv("which", "plist").kv("p", asc(p)).kv("v", positions(out)));
  });
}

// =============================================================== variable resolution
static void resolveCase(std::map<std::string, std::string> m, bool again)
{
  chunk("vars", 300);
  Arr before = ascMap(m);
  Res r = call([&]() { bpp::AttributesTools::resolveVariables(m); });
  emit(ev("VarResolve", r).kv("m", before).kv("res", ascMap(m)));
  if (again && r.r == "ok")
  {
    Arr b2 = ascMap(m);
    r = call([&]() { bpp::AttributesTools::resolveVariables(m); });
    emit(ev("VarResolve", r).kv("m", b2).kv("res", ascMap(m)));
  }
}

static void modeVars(int argc, char** argv, Rng& rng)
{
  size_t items = static_cast<size_t>(argInt(argc, argv, "--items", 2));
  size_t nvars = static_cast<size_t>(argInt(argc, argv, "--nvars", 2));
  long nrand = argInt(argc, argv, "--rand", 300);
  bpp::ApplicationTools::error = nullptr; // "undefined / cyclic" notices are not part of the observation
  static const char* atoms[] = {"x", "$(a)", "$(b)", "$(c)", "$(d)"};
  std::vector<std::string> values(1, "");
  {
    std::vector<std::string> level(1, "");
    for (size_t n = 1; n <= items; ++n)
    {
      std::vector<std::string> next;
      for (const auto& s : level)
        for (const char* a : atoms) next.push_back(s + a);
      values.insert(values.end(), next.begin(), next.end());
      level.swap(next);
    }
  }
  static const char* names[] = {"a", "b", "c"};
  // every map over the first nvars names with well-formed values of <= items atoms
  std::vector<size_t> idx(nvars, 0);
  for (;;)
  {
    std::map<std::string, std::string> m;
    for (size_t i = 0; i < nvars; ++i) m[names[i]] = values[idx[i]];
    resolveCase(m, rng.chance(1, 4));
    size_t k = 0;
    while (k < nvars && ++idx[k] == values.size()) idx[k++] = 0;
    if (k == nvars) break;
  }
  // every map over the three names with values of at most one atom: the smallest maps with a cycle that does
  // not go through the first variable (a=$(b), b=$(c), c=$(b))
  if (nvars < 3 || items > 1)
  {
    std::vector<std::string> v1(1, "");
    for (const char* a : atoms) v1.push_back(a);
    for (size_t i = 0; i < v1.size(); ++i)
      for (size_t j = 0; j < v1.size(); ++j)
        for (size_t k = 0; k < v1.size(); ++k)
        {
          std::map<std::string, std::string> m;
          m["a"] = v1[i];
          m["b"] = v1[j];
          m["c"] = v1[k];
          resolveCase(m, false);
        }
  }
  // seeded: three variables, longer values, undefined names, sometimes ill-formed
  for (long i = 0; i < nrand; ++i)
  {
    std::map<std::string, std::string> m;
    size_t nv = 1 + rng.below(4);
    static const char* nm[] = {"a", "b", "c", "ab"};
    for (size_t k = 0; k < nv; ++k)
    {
      std::string v;
      size_t n = rng.below(5);
      for (size_t j = 0; j < n; ++j)
      {
        size_t c = rng.below(8);
        if (c < 2) v += "xy"[c];
        else if (c < 6) v += std::string("$(") + nm[c - 2] + ")";
        else if (c == 6) v += "$(d)";
        else v += "x y";
      }
      if (rng.chance(1, 10)) v = corrupt(rng, v, "$()ax", 1);
      m[nm[k]] = v;
    }
    resolveCase(m, rng.chance(1, 3));
  }
}

// =============================================================== tables
static Obj tableProj(const bpp::DataTable& t)
{
  Arr cols, rows, cells;
  if (t.hasColumnNames())
    for (const auto& s : t.getColumnNames()) cols.add(asc(s));
  if (t.hasRowNames())
    for (const auto& s : t.getRowNames()) rows.add(asc(s));
  // an absurd dimension (a corrupted object) is logged as it is, without cells: the shape invariant rejects it
  const bool sane = t.getNumberOfRows() <= 10000 && t.getNumberOfColumns() <= 10000;
  for (size_t i = 0; sane && i < t.getNumberOfRows(); ++i)
  {
    Arr row;
    for (size_t j = 0; j < t.getNumberOfColumns(); ++j) row.add(asc(t(i, j)));
    cells.add(row);
  }
  return Obj().kv("ncol", sane ? static_cast<long long>(t.getNumberOfColumns()) : -1LL).kv("nrow", sane ? static_cast<long long>(t.getNumberOfRows()) : -1LL).kv("cols", cols).kv("rows", rows).kv("cells", cells);
}

static void writeRead(const bpp::DataTable& t, const std::string& sep, bool align)
{
  std::string text;
  std::unique_ptr<bpp::DataTable> back;
  bool header = t.hasColumnNames();
  Res r = call([&]() {
    std::ostringstream os;
    bpp::DataTable::write(t, os, sep, align);
    text = os.str();
    std::istringstream is(text);
    back = bpp::DataTable::read(is, sep, header, -1);
  });
  Obj o = ev("TabWriteRead", r).kv("sep", asc(sep)).kv("align", align).kv("header", header).kv("text", asc(text));
  if (back) o.kv("back", tableProj(*back));
  else o.kv("back", Obj().kv("ncol", 0).kv("nrow", 0).kv("cols", Arr()).kv("rows", Arr()).kv("cells", Arr()));
  emit(o);
}

static std::string cellText(Rng& rng)
{
  static const char* pool[] = {"a", "b", "ab", "a b", "1.5", "-3", "x_y", "NA", " a", "b ", "(c)", "k=v"};
  return pool[rng.below(12)];
}
static std::vector<std::string> uniqueNames(Rng& rng, size_t n, const char* stem)
{
  std::vector<std::string> v;
  std::set<std::string> used;
  while (v.size() < n)
  {
    std::string s = rng.chance(1, 2) ? stem + std::to_string(v.size() + 1) : word(rng) + (rng.chance(1, 3) ? " " + word(rng) : "");
    if (used.insert(s).second) v.push_back(s);
  }
  return v;
}

// One public call of DataTable = one "Tab" event: op, arguments, outcome (class), returned value, table afterwards.
struct TabCall
{
  bpp::DataTable* t;
  void operator()(const char* op, const Obj& args, const std::function<J()>& f) const
  {
    J val = Arr().j();
    Res r = call([&]() { val = f(); });
    if (r.r != "ok") val = Arr().j();
    emit(ev("Tab", r).kv("op", op).kv("a", args).kv("v", val).kv("s", tableProj(*t)));
  }
};
static J jv(const std::string& s) { return asc(s).j(); }
static J jvec(const std::vector<std::string>& v) { return ascList(v).j(); }
static J none() { return Arr().j(); }

static void randomTableCall(bpp::DataTable& t, Rng& rng, size_t maxDim)
{
  TabCall tc{&t};
  size_t ncol = t.getNumberOfColumns(), nrow = t.getNumberOfRows();
  auto vec = [&](size_t n) {
    std::vector<std::string> v;
    for (size_t j = 0; j < n; ++j) v.push_back(cellText(rng));
    return v;
  };
  auto idx = [&](size_t n) { return rng.below(n + 2); };
  auto rowName = [&]() -> std::string {
    if (t.hasRowNames() && nrow > 0 && rng.chance(2, 3)) return t.getRowName(rng.below(nrow));
    static const char* pool[] = {"x", "y", "r1", "r 2", "q"};
    return pool[rng.below(5)];
  };
  auto colName = [&]() -> std::string {
    if (t.hasColumnNames() && ncol > 0 && rng.chance(2, 3)) return t.getColumnName(rng.below(ncol));
    static const char* pool[] = {"x", "y", "c1", "c 2", "k"};
    return pool[rng.below(5)];
  };
  auto names = [&](size_t n, const char* stem) {
    auto v = uniqueNames(rng, rng.chance(1, 8) ? n + 1 : n, stem);
    if (v.size() > 1 && rng.chance(1, 8)) v[v.size() - 1] = v[0];
    return v;
  };
  switch (rng.below(40))
  {
  case 0:
  {
    size_t i = idx(nrow), j = idx(ncol);
    tc("get_ii", Obj().kv("i", i).kv("j", j), [&]() { const bpp::DataTable& c = t; return jv(c(i, j)); });
    break;
  }
  case 1:
  {
    size_t i = idx(nrow), j = idx(ncol);
    std::string v = cellText(rng);
    tc("set_ii", Obj().kv("i", i).kv("j", j).kv("v", asc(v)), [&]() { t(i, j) = v; return none(); });
    break;
  }
  case 2:
  {
    std::string rn = rowName(), cn = colName();
    tc("get_nn", Obj().kv("rn", asc(rn)).kv("cn", asc(cn)), [&]() { const bpp::DataTable& c = t; return jv(c(rn, cn)); });
    break;
  }
  case 3:
  {
    std::string rn = rowName(), cn = colName(), v = cellText(rng);
    tc("set_nn", Obj().kv("rn", asc(rn)).kv("cn", asc(cn)).kv("v", asc(v)), [&]() { t(rn, cn) = v; return none(); });
    break;
  }
  case 4:
  {
    std::string rn = rowName();
    size_t j = idx(ncol);
    tc("get_ni", Obj().kv("rn", asc(rn)).kv("j", j), [&]() { const bpp::DataTable& c = t; return jv(c(rn, j)); });
    break;
  }
  case 5:
  {
    std::string rn = rowName(), v = cellText(rng);
    size_t j = idx(ncol);
    tc("set_ni", Obj().kv("rn", asc(rn)).kv("j", j).kv("v", asc(v)), [&]() { t(rn, j) = v; return none(); });
    break;
  }
  case 6:
  {
    std::string cn = colName();
    size_t i = idx(nrow);
    tc("get_in", Obj().kv("i", i).kv("cn", asc(cn)), [&]() { const bpp::DataTable& c = t; return jv(c(i, cn)); });
    break;
  }
  case 7:
  {
    std::string cn = colName(), v = cellText(rng);
    size_t i = idx(nrow);
    tc("set_in", Obj().kv("i", i).kv("cn", asc(cn)).kv("v", asc(v)), [&]() { t(i, cn) = v; return none(); });
    break;
  }
  case 8:
  {
    auto n = names(ncol, "c");
    tc("setColNames", Obj().kv("names", ascList(n)), [&]() { t.setColumnNames(n); return none(); });
    break;
  }
  case 9: tc("getColNames", Obj(), [&]() { return jvec(t.getColumnNames()); }); break;
  case 10:
  {
    size_t i = idx(ncol);
    tc("getColName", Obj().kv("i", i), [&]() { return jv(t.getColumnName(i)); });
    break;
  }
  case 11: tc("hasColNames", Obj(), [&]() { return J::boolean(t.hasColumnNames()); }); break;
  case 12:
  {
    size_t i = idx(ncol);
    tc("getCol_i", Obj().kv("i", i), [&]() { const bpp::DataTable& c = t; return jvec(c.getColumn(i)); });
    break;
  }
  case 13:
  {
    std::string n = colName();
    tc("getCol_n", Obj().kv("name", asc(n)), [&]() { const bpp::DataTable& c = t; return jvec(c.getColumn(n)); });
    break;
  }
  case 14:
  {
    std::string n = colName();
    tc("hasCol", Obj().kv("name", asc(n)), [&]() { return J::boolean(t.hasColumn(n)); });
    break;
  }
  case 15:
  {
    size_t i = idx(ncol);
    tc("delCol_i", Obj().kv("i", i), [&]() { t.deleteColumn(i); return none(); });
    break;
  }
  case 16:
  {
    std::string n = colName();
    tc("delCol_n", Obj().kv("name", asc(n)), [&]() { t.deleteColumn(n); return none(); });
    break;
  }
  case 17:
  case 18:
  {
    if (ncol >= maxDim) break;
    auto v = vec(rng.chance(1, 8) ? nrow + 1 : nrow);
    tc("addCol", Obj().kv("vec", ascList(v)), [&]() { t.addColumn(v); return none(); });
    break;
  }
  case 19:
  case 20:
  {
    if (ncol >= maxDim) break;
    auto v = vec(rng.chance(1, 8) ? nrow + 1 : nrow);
    std::string n = rng.chance(1, 4) ? colName() : "c" + std::to_string(rng.below(50));
    tc("addCol_n", Obj().kv("name", asc(n)).kv("vec", ascList(v)), [&]() { t.addColumn(n, v); return none(); });
    break;
  }
  case 21:
  {
    auto n = names(nrow, "r");
    tc("setRowNames", Obj().kv("names", ascList(n)), [&]() { t.setRowNames(n); return none(); });
    break;
  }
  case 22:
  {
    size_t i = idx(nrow);
    std::string n = rng.chance(1, 3) ? rowName() : "n" + std::to_string(rng.below(50));
    tc("setRowName", Obj().kv("i", i).kv("name", asc(n)), [&]() { t.setRowName(i, n); return none(); });
    break;
  }
  case 23: tc("getRowNames", Obj(), [&]() { return jvec(t.getRowNames()); }); break;
  case 24:
  {
    size_t i = idx(nrow);
    tc("getRowName", Obj().kv("i", i), [&]() { return jv(t.getRowName(i)); });
    break;
  }
  case 25: tc("hasRowNames", Obj(), [&]() { return J::boolean(t.hasRowNames()); }); break;
  case 26:
  {
    std::string n = rowName();
    tc("hasRow", Obj().kv("name", asc(n)), [&]() { return J::boolean(t.hasRow(n)); });
    break;
  }
  case 27:
  {
    size_t i = idx(nrow);
    tc("getRow_i", Obj().kv("i", i), [&]() { return jvec(t.getRow(i)); });
    break;
  }
  case 28:
  {
    std::string n = rowName();
    tc("getRow_n", Obj().kv("name", asc(n)), [&]() { return jvec(t.getRow(n)); });
    break;
  }
  case 29:
  {
    size_t i = idx(nrow);
    tc("delRow_i", Obj().kv("i", i), [&]() { t.deleteRow(i); return none(); });
    break;
  }
  case 30:
  {
    std::string n = rowName();
    tc("delRow_n", Obj().kv("name", asc(n)), [&]() { t.deleteRow(n); return none(); });
    break;
  }
  case 31:
  case 32:
  {
    if (nrow >= maxDim) break;
    auto v = vec(rng.chance(1, 8) ? ncol + 1 : ncol);
    tc("addRow", Obj().kv("vec", ascList(v)), [&]() { t.addRow(v); return none(); });
    break;
  }
  case 33:
  case 34:
  {
    if (nrow >= maxDim) break;
    auto v = vec(rng.chance(1, 8) ? ncol + 1 : ncol);
    std::string n = rng.chance(1, 4) ? rowName() : "r" + std::to_string(rng.below(50));
    tc("addRow_n", Obj().kv("name", asc(n)).kv("vec", ascList(v)), [&]() { t.addRow(n, v); return none(); });
    break;
  }
  case 35:
  {
    size_t i = idx(nrow);
    auto v = vec(rng.chance(1, 8) ? ncol + 1 : ncol);
    tc("setRow", Obj().kv("i", i).kv("vec", ascList(v)), [&]() { t.setRow(i, v); return none(); });
    break;
  }
  case 36:
  {
    if (rng.coin())
      tc("copy", Obj(), [&]() {
        bpp::DataTable c(t);
        std::unique_ptr<bpp::DataTable> d(c.clone());
        t = *d;
        return none();
      });
    else
    {
      size_t c2 = rng.below(4), r2 = rng.below(3);
      bpp::DataTable o(r2, c2);
      for (size_t a = 0; a < r2; ++a)
        for (size_t b = 0; b < c2; ++b) o(a, b) = cellText(rng);
      if (c2 > 0 && rng.coin()) o.setColumnNames(uniqueNames(rng, c2, "k"));
      if (r2 > 0 && rng.chance(1, 3)) o.setRowNames(uniqueNames(rng, r2, "q"));
      tc("assign", Obj().kv("t", tableProj(o)), [&]() { t = o; return none(); });
    }
    break;
  }
  case 37:
  {
    static const char* seps[] = {",", "\t", ";"};
    std::string sep = seps[rng.below(3)];
    bool al = rng.coin();
    tc("write", Obj().kv("sep", asc(sep)).kv("align", al), [&]() {
      std::ostringstream os;
      bpp::DataTable::write(t, os, sep, al);
      return jv(os.str());
    });
    break;
  }
  case 38:
  {
    // write, then read with any header flag and row-name column: the table becomes what was read
    static const char* seps[] = {",", "\t", ";"};
    std::string sep = seps[rng.below(3)];
    std::ostringstream os;
    bpp::DataTable::write(t, os, sep, rng.coin());
    std::string text = os.str();
    if (rng.chance(1, 6)) text = corrupt(rng, text, ",\t;\nab", 1);
    bool header = rng.coin();
    int rn = static_cast<int>(rng.below(4)) - 1;
    std::unique_ptr<bpp::DataTable> back;
    Res r = call([&]() {
      std::istringstream is(text);
      back = bpp::DataTable::read(is, sep, header, rn);
    });
    if (back) t = *back;
    emit(ev("TabRead", r).kv("text", asc(text)).kv("sep", asc(sep)).kv("header", header).kv("rn", rn).kv("s", tableProj(t)));
    break;
  }
  default:
  {
    static const char* seps[] = {",", "\t", ";"};
    writeRead(t, seps[rng.below(3)], rng.coin());
  }
  }
}

static void modeTable(int argc, char** argv, Rng& rng)
{
  size_t dim = static_cast<size_t>(argInt(argc, argv, "--dim", 4));
  long nrand = argInt(argc, argv, "--rand", 100);
  static const char* seps[] = {",", "\t", ";"};
  // (a) every shape up to dim x dim, every naming mode, built call by call, then written and read back
  for (size_t nc = 1; nc <= dim; ++nc)
    for (size_t nr = 0; nr <= dim; ++nr)
      for (int naming = 0; naming < 3; ++naming)
      {
        reset("table-shape");
        bpp::DataTable u(0);
        TabCall tc{&u};
        tc("new_c", Obj().kv("nc", nc), [&]() { u = bpp::DataTable(nc); return none(); });
        for (size_t i = 0; i < nr; ++i)
        {
          std::vector<std::string> row;
          for (size_t j = 0; j < nc; ++j) row.push_back(cellText(rng));
          tc("addRow", Obj().kv("vec", ascList(row)), [&]() { u.addRow(row); return none(); });
        }
        if (naming >= 1)
        {
          auto cn = uniqueNames(rng, nc, "c");
          tc("setColNames", Obj().kv("names", ascList(cn)), [&]() { u.setColumnNames(cn); return none(); });
        }
        if (naming == 2 && nr > 0)
        {
          auto rn = uniqueNames(rng, nr, "r");
          tc("setRowNames", Obj().kv("names", ascList(rn)), [&]() { u.setRowNames(rn); return none(); });
        }
        for (const char* sep : seps)
          for (int al = 0; al < 2; ++al) writeRead(u, sep, al != 0);
      }
  // (a') read of line-structured texts (header / row-name shapes, degenerate later lines) x header x rowNames
  {
    long k = 0;
    for (char sepc : {',', '\t'})
      for (const auto& text : dictTableTexts(sepc))
      {
        if (dim < 6 && (k++ % 4) != 0) continue; // a quarter of them in the quick tier
        reset("table-read"); // each read starts from the empty table
        std::string sep(1, sepc);
        bool header = rng.coin();
        int rn = static_cast<int>(rng.below(4)) - 1;
        bpp::DataTable t(0);
        std::unique_ptr<bpp::DataTable> back;
        Res r = call([&]() {
          std::istringstream is(text);
          back = bpp::DataTable::read(is, sep, header, rn);
        });
        if (back) t = *back;
        emit(ev("TabRead", r).kv("text", asc(text)).kv("sep", asc(sep)).kv("header", header).kv("rn", rn).kv("s", tableProj(t)));
      }
  }
  // (b) seeded histories over the whole public interface (calls that raise included); write -> read from
  //     whatever table the history has reached
  for (long i = 0; i < nrand; ++i)
  {
    reset("table-history");
    bpp::DataTable t(0);
    TabCall tc{&t};
    switch (rng.below(4))
    {
    case 0:
    {
      size_t nr = rng.below(4), nc = rng.below(5);
      tc("new_rc", Obj().kv("nr", nr).kv("nc", nc), [&]() { t = bpp::DataTable(nr, nc); return none(); });
      break;
    }
    case 1:
    {
      size_t nc = rng.below(5);
      tc("new_c", Obj().kv("nc", nc), [&]() { t = bpp::DataTable(nc); return none(); });
      break;
    }
    case 2:
    {
      size_t nr = rng.below(4);
      auto n = uniqueNames(rng, rng.below(4), "c");
      if (n.size() > 1 && rng.chance(1, 6)) n[1] = n[0];
      tc("new_rnames", Obj().kv("nr", nr).kv("names", ascList(n)), [&]() { t = bpp::DataTable(nr, n); return none(); });
      break;
    }
    default:
    {
      auto n = uniqueNames(rng, rng.below(4), "c");
      if (n.size() > 1 && rng.chance(1, 6)) n[1] = n[0];
      tc("new_names", Obj().kv("names", ascList(n)), [&]() { t = bpp::DataTable(n); return none(); });
    }
    }
    size_t steps = 6 + rng.below(25);
    for (size_t k = 0; k < steps; ++k) randomTableCall(t, rng, 6);
    writeRead(t, seps[rng.below(3)], rng.coin());
  }
}

// =============================================================== distribution descriptions
struct DistCase
{
  std::unique_ptr<bpp::DiscreteDistributionInterface> d;
  std::vector<std::pair<std::string, std::string>> inner; // key -> family of nested descriptions
};

static double gridVal(Rng& rng, double lo, double hi)
{
  // values with at most 3 decimals: exact after writing with 6 / 12 decimals and reading back
  long a = static_cast<long>(std::ceil(lo * 8)), b = static_cast<long>(std::floor(hi * 8));
  return static_cast<double>(rng.range(a, b)) / 8.0;
}

static std::unique_ptr<bpp::DiscreteDistributionInterface> simpleFamily(Rng& rng, size_t fam, size_t n)
{
  using namespace bpp;
  switch (fam)
  {
  case 0: return std::unique_ptr<DiscreteDistributionInterface>(new GammaDiscreteDistribution(n, gridVal(rng, 0.25, 4), gridVal(rng, 0.25, 4)));
  case 1: return std::unique_ptr<DiscreteDistributionInterface>(new GaussianDiscreteDistribution(n, gridVal(rng, -2, 2), gridVal(rng, 0.25, 3)));
  case 2: return std::unique_ptr<DiscreteDistributionInterface>(new BetaDiscreteDistribution(n, gridVal(rng, 0.5, 4), gridVal(rng, 0.5, 4)));
  case 3: return std::unique_ptr<DiscreteDistributionInterface>(new ExponentialDiscreteDistribution(n, gridVal(rng, 0.25, 4)));
  case 4: return std::unique_ptr<DiscreteDistributionInterface>(new TruncatedExponentialDiscreteDistribution(n, gridVal(rng, 0.25, 4), gridVal(rng, 1, 8)));
  case 5:
  {
    double lo = gridVal(rng, -2, 2);
    return std::unique_ptr<DiscreteDistributionInterface>(new UniformDiscreteDistribution(static_cast<unsigned int>(n), lo, lo + gridVal(rng, 0.5, 4)));
  }
  case 6: return std::unique_ptr<DiscreteDistributionInterface>(new ConstantDistribution(gridVal(rng, 0.125, 4)));
  default:
  {
    std::vector<double> v, p;
    double x = gridVal(rng, 0, 1);
    for (size_t i = 0; i < n; ++i)
    {
      x += gridVal(rng, 0.125, 2);
      v.push_back(x);
      p.push_back(1.0 / static_cast<double>(n));
    }
    if (n == 3) p = {0.25, 0.25, 0.5};
    if (n == 5) p = {0.125, 0.125, 0.25, 0.25, 0.25};
    if (n == 6) p = {0.125, 0.125, 0.125, 0.125, 0.25, 0.25};
    if (n == 7) p = {0.125, 0.125, 0.125, 0.125, 0.125, 0.125, 0.25};
    return std::unique_ptr<DiscreteDistributionInterface>(new SimpleDiscreteDistribution(v, p));
  }
  }
}

// k positive weights that sum to 1, multiples of 0.025 (exact in the 6 decimals of the description language)
static std::vector<double> mixtureWeights(Rng& rng, size_t k)
{
  std::vector<long> parts(k, 1);
  for (long left = 40 - static_cast<long>(k); left > 0; --left) parts[rng.below(k)]++;
  std::vector<double> p;
  for (long x : parts) p.push_back(static_cast<double>(x) / 40.0);
  return p;
}

// weights of the components of a mixture (possibly inside an Invariant), empty otherwise
static std::vector<double> componentWeights(const bpp::DiscreteDistributionInterface& d)
{
  std::vector<double> w;
  const bpp::DiscreteDistributionInterface* x = &d;
  if (auto* inv = dynamic_cast<const bpp::InvariantMixedDiscreteDistribution*>(x)) x = &inv->variableSubDistribution();
  if (auto* mix = dynamic_cast<const bpp::MixtureOfDiscreteDistributions*>(x))
    for (size_t i = 0; i < mix->getNumberOfDistributions(); ++i) w.push_back(mix->getNProbability(i));
  return w;
}

static void distCase(DistCase& c)
{
  using namespace bpp;
  chunk("dist", 100);
  const DiscreteDistributionInterface& d = *c.d;
  std::string text, fam2;
  size_t n = d.getNumberOfCategories(), n2 = 0;
  // class values and probabilities on the 10^-6 grid of the description language
  auto fx = [](double x) -> long long {
    double y = x * 1e6;
    return std::fabs(y) < 2147483646.0 ? std::llround(y) : -2147483647LL;
  };
  Arr cats, probs, cats2, probs2;
  for (size_t i = 0; i < n; ++i)
  {
    cats.add(fx(d.getCategory(i)));
    probs.add(fx(d.getProbability(i)));
  }
  Arr w, w2;
  for (double x : componentWeights(d)) w.add(fx(x));
  Res r = call([&]() {
    std::ostringstream* os = new std::ostringstream();
    StlOutputStream out((std::unique_ptr<std::ostream>(os)));
    std::map<std::string, std::string> aliases;
    std::vector<std::string> written;
    BppODiscreteDistributionFormat fmt(false);
    fmt.writeDiscreteDistribution(d, out, aliases, written);
    text = os->str();
    BppODiscreteDistributionFormat rd(false);
    auto back = rd.readDiscreteDistribution(text, true);
    fam2 = back->getName();
    n2 = back->getNumberOfCategories();
    for (double x : componentWeights(*back)) w2.add(fx(x));
    for (size_t i = 0; i < n2; ++i)
    {
      cats2.add(fx(back->getCategory(i)));
      probs2.add(fx(back->getProbability(i)));
    }
  });
  Arr inner;
  for (const auto& kv : c.inner) inner.add(Arr().add(asc(kv.first)).add(asc(kv.second)));
  emit(ev("DistRT", r).kv("famname", d.getName()).kv("fam", asc(d.getName())).kv("n", n).kv("ndigits", asc(std::to_string(n))).kv("inner", inner)
           .kv("text", asc(text)).kv("fam2", asc(fam2)).kv("n2", n2).kv("cats", cats).kv("probs", probs).kv("cats2", cats2).kv("probs2", probs2).kv("w", w).kv("w2", w2));
}

static void modeDist(int argc, char** argv, Rng& rng)
{
  using namespace bpp;
  long nrand = argInt(argc, argv, "--rand", 40);
  ApplicationTools::warning = nullptr;
  ApplicationTools::message = nullptr;
  // every family x class counts 1..8
  for (size_t fam = 0; fam < 8; ++fam)
    for (size_t n = 1; n <= 8; ++n)
    {
      if (fam == 6 && n > 1) continue;
      DistCase c;
      c.d = simpleFamily(rng, fam, n);
      distCase(c);
    }
  // nested compounds
  for (long i = 0; i < nrand; ++i)
  {
    DistCase c;
    size_t n = 1 + rng.below(8);
    if (i >= 10 && rng.coin())
    {
      auto in = simpleFamily(rng, rng.below(6), n);
      c.inner.push_back({"dist", in->getName()});
      // the description language has no syntax for the invariant point: its reader places it at 1e-6
      c.d.reset(new InvariantMixedDiscreteDistribution(std::move(in), gridVal(rng, 0.125, 0.75), 0.000001));
    }
    else
    {
      // mixtures of 2..6 components (every size in turn first), sometimes inside an Invariant
      size_t k = i < 10 ? 2 + static_cast<size_t>(i / 2) % 5 : 2 + rng.below(5);
      std::vector<std::unique_ptr<DiscreteDistributionInterface>> v;
      std::vector<double> p = mixtureWeights(rng, k);
      for (size_t j = 0; j < k; ++j)
      {
        v.push_back(simpleFamily(rng, rng.below(7), 1 + rng.below(4)));
        c.inner.push_back({"dist" + std::to_string(j + 1), v.back()->getName()});
      }
      std::unique_ptr<DiscreteDistributionInterface> mix(new MixtureOfDiscreteDistributions(v, p));
      if (rng.chance(1, 4))
      {
        c.inner.clear();
        c.inner.push_back({"dist", "Mixture"});
        c.d.reset(new InvariantMixedDiscreteDistribution(std::move(mix), gridVal(rng, 0.125, 0.75), 0.000001));
      }
      else c.d = std::move(mix);
    }
    distCase(c);
  }
}

// =============================================================== parameter lists in the description language
struct PlainPars : public bpp::AbstractParametrizable
{
  explicit PlainPars(const std::string& prefix) : bpp::AbstractParametrizable(prefix) {}
  PlainPars* clone() const override { return new PlainPars(*this); }
  void add(const std::string& n, double v) { addParameter_(new bpp::Parameter(getNamespace() + n, v)); }
};
struct AliasPars : public bpp::AbstractParameterAliasable
{
  explicit AliasPars(const std::string& prefix) : bpp::AbstractParameterAliasable(prefix) {}
  AliasPars* clone() const override { return new AliasPars(*this); }
  void add(const std::string& n, double v) { addParameter_(new bpp::Parameter(getNamespace() + n, v)); }
};

static void modeParams(int argc, char** argv, Rng& rng)
{
  using namespace bpp;
  long nrand = argInt(argc, argv, "--rand", 100);
  for (long i = 0; i < nrand; ++i)
  {
    chunk("params", 100);
    std::string prefix = rng.coin() ? "" : word(rng) + ".";
    size_t n = i < 8 ? static_cast<size_t>(i) % 7 : rng.below(7);
    std::vector<std::string> names;
    std::vector<long long> qs;
    std::set<std::string> used;
    while (names.size() < n)
    {
      std::string nm = word(rng);
      if (nm.find('.') != std::string::npos || !used.insert(nm).second) continue;
      names.push_back(nm);
      qs.push_back(rng.range(-8000, 8000) * 125000LL); // k/8 on the 10^-6 grid
    }
    bool aliasable = rng.coin();
    bool comma = rng.coin();
    std::vector<std::string> written;
    for (const auto& nm : names)
      if (rng.chance(1, 6)) written.push_back(prefix + nm);
    std::vector<std::string> writtenBefore(written);
    Arr expect; // [name, "num", q] or [alias, "alias", target] in the order of the text
    std::string text;
    std::map<std::string, std::string> back;
    Res r;
    if (!aliasable)
    {
      PlainPars p(prefix);
      for (size_t k = 0; k < n; ++k) p.add(names[k], static_cast<double>(qs[k]) / 1e6);
      for (size_t k = 0; k < n; ++k)
        if (std::find(writtenBefore.begin(), writtenBefore.end(), prefix + names[k]) == writtenBefore.end())
          expect.add(Arr().add(asc(names[k])).add("num").add(qs[k]));
      r = call([&]() {
        std::ostringstream* os = new std::ostringstream();
        StlOutputStream out((std::unique_ptr<std::ostream>(os)));
        BppOParametrizableFormat f;
        f.write(p, out, written, comma);
        text = os->str();
      });
    }
    else
    {
      AliasPars p(prefix);
      for (size_t k = 0; k < n; ++k) p.add(names[k], static_cast<double>(qs[k]) / 1e6);
      // alias the last parameter to the first one, sometimes
      // (local aliases only in an empty namespace: with a namespace the library mixes full and short names
      //  in its alias registry - excluded in DESIGN C03 - and the text would read "ns.alias=name")
      bool aliased = n >= 2 && prefix.empty() && rng.coin();
      if (aliased)
      {
        p.aliasParameters(names[0], names[n - 1]);
      }
      for (size_t k = 0; k < n; ++k)
      {
        if (aliased && k == n - 1) continue; // no longer independent
        if (std::find(writtenBefore.begin(), writtenBefore.end(), prefix + names[k]) != writtenBefore.end()) continue;
        expect.add(Arr().add(asc(names[k])).add("num").add(qs[k]));
        if (aliased && k == 0) expect.add(Arr().add(asc(names[n - 1])).add("alias").add(asc(names[0])));
      }
      r = call([&]() {
        std::ostringstream* os = new std::ostringstream();
        StlOutputStream out((std::unique_ptr<std::ostream>(os)));
        std::map<std::string, std::string> globalAliases;
        BppOParametrizableFormat f;
        f.write(p, out, globalAliases, p.getIndependentParameters().getParameterNames(), written, true, comma);
        text = os->str();
      });
    }
    // what the option parser makes of the text
    Res r2 = call([&]() { KeyvalTools::multipleKeyvals(text, back, ",", true); });
    emit(ev("ParamWrite", r).kv("comma", comma).kv("expect", expect).kv("text", asc(text)).kv("r2", r2.r).kv("back", ascMap(back)));
  }
}

// =============================================================== main
int main(int argc, char** argv)
{
  vt::installParamAudit(); // C01: audit of every Parameter of the process when VERIF_PARAM_AUDIT=<file> is set
  std::string out = argStr(argc, argv, "--out", "");
  std::string mode = argStr(argc, argv, "--mode", "numbers");
  if (out.empty() || !tracer().open(out))
  {
    fprintf(stderr, "cannot open --out\n");
    return 2;
  }
  installCrashHandlers();
  uint64_t h = 1469598103934665603ULL;
  for (unsigned char c : mode) h = (h ^ c) * 1099511628211ULL;
  Rng rng(envSeed() * 1000003ULL + h);
  reset(mode.c_str());
  if (mode == "numbers") modeNumbers(argc, argv, rng);
  else if (mode == "tok") modeTok(argc, argv, rng);
  else if (mode == "nested") modeNested(argc, argv, rng);
  else if (mode == "keyval") modeKeyval(argc, argv, rng);
  else if (mode == "glob") modeGlob(argc, argv, rng);
  else if (mode == "vars") modeVars(argc, argv, rng);
  else if (mode == "table") modeTable(argc, argv, rng);
  else if (mode == "dist") modeDist(argc, argv, rng);
  else if (mode == "params") modeParams(argc, argv, rng);
  else
  {
    fprintf(stderr, "unknown mode\n");
    return 2;
  }
  tracer().close();
  printf("{\"mode\":\"%s\",\"events\":%ld,\"scenarios\":%ld,\"skipped\":%ld}\n", mode.c_str(), g_events, g_scen, g_skipped);
  return 0;
}
