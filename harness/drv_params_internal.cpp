// C01 for parameters the library owns internally: random histories on objects that create, constrain, copy and
// update their own parameters (the discrete distribution classes: several of them attach their mutable domain
// object to a parameter as its constraint).  The driver only makes calls; what every bpp::Parameter of the
// process looks like is written by the audit handler (harness/param_audit.h, hook h1) to $VERIF_PARAM_AUDIT,
// each call announced by a Note line, and judged by spec/Params/ParamAuditTrace.tla.
//
//   VERIF_PARAM_AUDIT=<file> drv_params_internal --out F --n N [--stream K]
#include "tracer.h"
#include "param_audit.h"

#include <Bpp/App/ApplicationTools.h>
#include <Bpp/Exceptions.h>
#include <Bpp/Numeric/Prob/ConstantDistribution.h>
#include <Bpp/Numeric/Prob/ExponentialDiscreteDistribution.h>
#include <Bpp/Numeric/Prob/GammaDiscreteDistribution.h>
#include <Bpp/Numeric/Prob/GaussianDiscreteDistribution.h>
#include <Bpp/Numeric/Prob/InvariantMixedDiscreteDistribution.h>
#include <Bpp/Numeric/Prob/MixtureOfDiscreteDistributions.h>
#include <Bpp/Numeric/Prob/SimpleDiscreteDistribution.h>
#include <Bpp/Numeric/Prob/TruncatedExponentialDiscreteDistribution.h>

#include <map>
#include <memory>
#include <sstream>

using namespace vt;
typedef std::unique_ptr<bpp::DiscreteDistributionInterface> DistP;

static const double GRID[] = {0, 0.25, 0.5, 1, 1.5, 2, 3, 4, 5, 6, 8, 10, 20};
static double gridVal(Rng& rng) { return GRID[rng.below(sizeof GRID / sizeof GRID[0])]; }
static std::string num(double x)
{
  std::ostringstream o;
  o << x;
  return o.str();
}

static DistP leaf(Rng& rng, std::string& what)
{
  size_t n = static_cast<size_t>(rng.range(1, 4));
  // the three families that attach their domain object to a parameter come up more often
  size_t fam = rng.below(9);
  switch (fam < 6 ? fam % 3 : fam - 3)
  {
  case 0: {
    double v = gridVal(rng);
    what = "Constant(" + num(v) + ")";
    return DistP(new bpp::ConstantDistribution(v));
  }
  case 1: {
    double l = 0.25 + gridVal(rng) / 4, tp = 0.5 + gridVal(rng);
    what = "TruncExponential(" + num(n) + "," + num(l) + "," + num(tp) + ")";
    return DistP(new bpp::TruncatedExponentialDiscreteDistribution(n, l, tp));
  }
  case 2: {
    std::vector<double> v, p;
    size_t k = static_cast<size_t>(rng.range(1, 3));
    double x = gridVal(rng);
    for (size_t i = 0; i < k; ++i)
    {
      v.push_back(x);
      x += 0.5 + gridVal(rng);
      p.push_back(1.0 / static_cast<double>(k));
    }
    what = "Simple(" + num(k) + " values from " + num(v[0]) + ")";
    return DistP(new bpp::SimpleDiscreteDistribution(v, p));
  }
  case 3: {
    double a = 0.25 + gridVal(rng) / 4, b = 0.25 + gridVal(rng) / 4;
    what = "Gamma(" + num(n) + "," + num(a) + "," + num(b) + ")";
    return DistP(new bpp::GammaDiscreteDistribution(n, a, b));
  }
  case 4: {
    double l = 0.25 + gridVal(rng) / 4;
    what = "Exponential(" + num(n) + "," + num(l) + ")";
    return DistP(new bpp::ExponentialDiscreteDistribution(n, l));
  }
  default: {
    double mu = gridVal(rng) - 2, sd = 0.25 + gridVal(rng) / 4;
    what = "Gaussian(" + num(n) + "," + num(mu) + "," + num(sd) + ")";
    return DistP(new bpp::GaussianDiscreteDistribution(n, mu, sd));
  }
  }
}
static DistP make(Rng& rng, std::string& what)
{
  size_t r = rng.below(10);
  if (r < 7) return leaf(rng, what);
  if (r < 9)
  {
    std::string w;
    DistP in = leaf(rng, w);
    double p = 0.1 + 0.1 * static_cast<double>(rng.range(0, 7));
    what = "InvariantMixed(" + w + "," + num(p) + ")";
    return DistP(new bpp::InvariantMixedDiscreteDistribution(std::move(in), p, 0.));
  }
  std::string w1, w2;
  std::vector<DistP> ds;
  ds.push_back(leaf(rng, w1));
  ds.push_back(leaf(rng, w2));
  what = "Mixture(" + w1 + "," + w2 + ")";
  return DistP(new bpp::MixtureOfDiscreteDistributions(ds, std::vector<double>{0.5, 0.5}));
}
template<class T> static bool assignAs(bpp::DiscreteDistributionInterface* dst, const bpp::DiscreteDistributionInterface* src)
{
  T* d = dynamic_cast<T*>(dst);
  const T* s = dynamic_cast<const T*>(src);
  if (!d || !s) return false;
  *d = *s;
  return true;
}

int main(int argc, char** argv)
{
  vt::installParamAudit(); // C01: audit of every Parameter of the process when VERIF_PARAM_AUDIT=<file> is set
  std::string out = argStr(argc, argv, "--out", "");
  long n = argInt(argc, argv, "--n", 100);
  if (out.empty() || !tracer().open(out))
  {
    fprintf(stderr, "drv_params_internal: cannot open --out\n");
    return 2;
  }
  installCrashHandlers();
  bpp::ApplicationTools::message = nullptr;
  bpp::ApplicationTools::warning = nullptr;
  bpp::ApplicationTools::error = nullptr;
  // --stream k: independent sub-run (a crash inside the library ends one sub-run only)
  Rng rng(envSeed() * 40503ULL + 977 + 7919ULL * static_cast<uint64_t>(argInt(argc, argv, "--stream", 0)));
  long calls = 0, raised = 0;
  for (long s = 0; s < n; ++s)
  {
    paramAuditScenario();
    tracer().emit(Obj().kv("e", "Reset").kv("scenario", s));
    std::map<int, DistP> obj;
    int next = 1;
    long len = rng.range(4, 16);
    // every other scenario starts from an object that was restricted (its parameters then carry the domain as
    // their constraint) and a copy of it; the random calls that follow update, restrict, copy and drop both
    // (then the copy's parameter is updated and the original restricted again, by any interval)
    long scripted = rng.coin() ? 5 : 0;
    for (long t = 0; t < len; ++t)
    {
      std::string note, res = "ok";
      int a = 0;
      if (!obj.empty())
      {
        auto it = obj.begin();
        std::advance(it, static_cast<long>(rng.below(obj.size())));
        a = it->first;
      }
      size_t r = rng.below(100);
      if (t < scripted)
      {
        r = t == 0 ? 0 : t == 1 ? 20 : t == 2 ? 40 : t == 3 ? 60 : 20; // new, restrict, copy, update the copy, restrict
        if (t > 0) a = t == 3 && obj.count(2) ? 2 : 1;
        if (!obj.count(a)) a = obj.begin()->first;
      }
      Guard g(t);
      try
      {
        if (a == 0 || (r < 12 && obj.size() < 4))
        {
          std::string w;
          DistP d = make(rng, w);
          note = "new #" + std::to_string(next) + " = " + w;
          paramAuditNote(note);
          obj[next++] = std::move(d);
        }
        else if (r < 30)
        {
          // a constraint from the grid, all shapes
          double lo = gridVal(rng), hi = gridVal(rng);
          if (lo > hi) std::swap(lo, hi);
          if (t >= scripted ? rng.coin() : t == 1)
          {
            // a wide one (most current values fit, so the restriction is applied), later ones narrow it
            lo = rng.coin() ? 0 : -std::numeric_limits<double>::infinity();
            hi = rng.chance(1, 3) ? std::numeric_limits<double>::infinity() : (rng.coin() ? 20 : 10);
          }
          if (rng.chance(1, 8)) lo = -std::numeric_limits<double>::infinity();
          if (rng.chance(1, 8)) hi = std::numeric_limits<double>::infinity();
          bpp::IntervalConstraint ic(lo, hi, rng.coin(), rng.coin());
          note = "#" + std::to_string(a) + ".restrictToConstraint(" + ic.getDescription() + ")";
          paramAuditNote(note);
          obj[a]->restrictToConstraint(ic);
        }
        else if (r < 45 && obj.size() < 5)
        {
          note = "new #" + std::to_string(next) + " = copy of #" + std::to_string(a);
          paramAuditNote(note);
          obj[next++] = DistP(obj[a]->clone());
        }
        else if (r < 55 && obj.size() > 1)
        {
          auto it = obj.begin();
          std::advance(it, static_cast<long>(rng.below(obj.size())));
          int b = it->first;
          note = "#" + std::to_string(b) + " = #" + std::to_string(a) + " (assignment when of the same class)";
          paramAuditNote(note);
          bpp::DiscreteDistributionInterface* d = obj[b].get();
          const bpp::DiscreteDistributionInterface* sr = obj[a].get();
          if (b != a)
          {
            assignAs<bpp::ConstantDistribution>(d, sr) || assignAs<bpp::TruncatedExponentialDiscreteDistribution>(d, sr) ||
            assignAs<bpp::SimpleDiscreteDistribution>(d, sr) || assignAs<bpp::GammaDiscreteDistribution>(d, sr) ||
            assignAs<bpp::ExponentialDiscreteDistribution>(d, sr) || assignAs<bpp::GaussianDiscreteDistribution>(d, sr) ||
            assignAs<bpp::InvariantMixedDiscreteDistribution>(d, sr) || assignAs<bpp::MixtureOfDiscreteDistributions>(d, sr);
          }
        }
        else if (r < 92)
        {
          const bpp::ParameterList& pl = obj[a]->getParameters();
          if (pl.size() > 0)
          {
            size_t i = rng.below(pl.size());
            std::string full = pl[i].getName();
            double v = rng.chance(1, 4) ? pl[i].getValue() + (rng.coin() ? 0.5 : -0.5) : gridVal(rng);
            size_t via = rng.below(3);
            note = "#" + std::to_string(a) + (via == 0 ? ".setParameterValue(" : via == 1 ? ".matchParametersValues(" : ".setParametersValues(") + full + "=" + num(v) + ")";
            paramAuditNote(note);
            if (via == 0) obj[a]->setParameterValue(obj[a]->getParameterNameWithoutNamespace(full), v);
            else
            {
              bpp::ParameterList one;
              one.addParameter(bpp::Parameter(full, v));
              if (via == 1) obj[a]->matchParametersValues(one);
              else obj[a]->setParametersValues(one);
            }
          }
        }
        else if (obj.size() > 1)
        {
          note = "drop #" + std::to_string(a);
          paramAuditNote(note);
          obj.erase(a);
        }
      }
      catch (bpp::Exception& e)
      {
        res = "raise:" + demangle(typeid(e).name());
        ++raised;
      }
      catch (std::exception& e)
      {
        res = std::string("raise:std:") + demangle(typeid(e).name());
        ++raised;
      }
      ++calls;
      if (!note.empty()) tracer().emit(Obj().kv("e", "Call").kv("t", note).kv("r", res));
    }
    paramAuditNote("end of scenario: all objects dropped");
    obj.clear();
  }
  tracer().close();
  printf("{\"scenarios\":%ld,\"events\":%ld,\"calls\":%ld,\"raised\":%ld}\n", n, tracer().count(), calls, raised);
  return 0;
}
