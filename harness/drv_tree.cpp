// C15 driver: runs histories on the real tree / DAG containers of bpp-core
// (AssociationTreeGlobalGraphObserver<string,unsigned> + TreeGlobalGraph,
//  AssociationDAGlobalGraphObserver<string,unsigned> + DAGlobalGraph - the
// classes of test/test_treeGraphObs.cpp and test/test_dAGraphObs.cpp) and
// writes one ndjson event per public call with the outcome and the state read
// back through public const queries.  It produces and encodes observations
// only; spec/Tree/TreeTrace.tla and DagTrace.tla judge them.
//
// modes (tree):  shapes    all rooted shapes with 1..maxn nodes x every new root x all pairs / subsets
//                rtrees    random trees with lo..hi nodes, random re-rootings, sampled pairs / subsets
//                hist      random histories mixing edits and queries (invalid graphs arise)
//                cachewalk query / one edit of every kind (incl. refusals) / query, from random valid trees
//                copies    copies of the graph container (independent) and of the observer (views), edits on either side
//                probe     one scenario per known finding
// modes (dag):   digraphs  all digraphs on 1..maxn labelled nodes
//                dhist     random digraphs / histories
//                dcopies   copies of the DAG container and of its observer
// steering flags (known-finding triggers are left out of the main scenarios):
//   --dups 0|1      second link on an existing relation
//   --uedit 0|1     unlink / delete in un-rooted (undirected) mode
//   --unroot 0|1    unRoot followed by rootAt
//   --eobj 0|1      setFather / addSon with an edge object (tree)
//   --anc 0|1       MRCA / path queries with unequal depths (ancestor arguments)
//   --onechild 0|1  leaves-under on nodes having a one-son descendant
//   --outgroup 0|1  tree setOutGroup
//   --dagroot 0|1   DAG rootAt
#include <Bpp/Exceptions.h>
#include <Bpp/Graph/AssociationDAGraphImplObserver.h>
#include <Bpp/Graph/AssociationTreeGraphImplObserver.h>
#include <Bpp/Graph/TreeGraph.h>

#include <algorithm>
#include <functional>
#include <map>
#include <memory>
#include <set>
#include <signal.h>
#include <string>
#include <vector>

#include "tracer.h"

using namespace bpp;
using vt::Arr;
using vt::J;
using vt::Obj;

typedef AssociationTreeGlobalGraphObserver<std::string, unsigned int> TreeObs;
typedef AssociationDAGlobalGraphObserver<std::string, unsigned int> DagObs;

static const int NPOOL = 16; // edge objects 1..16
static long g_scen = 0;
static bool g_everyRoot = false;
static unsigned long g_calls = 0;

struct Flags
{
  bool dups, uedit, unroot, eobj, anc, onechild, outgroup, dagroot;
};
static Flags F;

// outcome: "ok" | "raise" (a bpp::Exception) | "raise-std" | "raise-other"
template<class Fn> static std::string call(Fn f)
{
  vt::Guard g(0);
  try
  {
    f();
    return "ok";
  }
  catch (bpp::Exception&)
  {
    return "raise";
  }
  catch (std::exception&)
  {
    return "raise-std";
  }
  catch (...)
  {
    return "raise-other";
  }
}

template<class T> static Arr arrU(const std::vector<T>& v)
{
  Arr a;
  for (auto x : v) a.add(static_cast<long long>(x));
  return a;
}

// ------------------------------------------------------------------ harness
static TreeObs* make(TreeObs*, bool directed) { return new TreeObs(directed); }
static DagObs* make(DagObs*, bool) { return new DagObs(); }
template<class ObsT, bool IsTree> struct Harness
{
  std::unique_ptr<ObsT> obs;
  std::vector<std::shared_ptr<std::string>> N;  // node objects by graph id (creation order)
  std::vector<std::shared_ptr<unsigned int>> E; // edge object pool, E[k] holds k (k>=1)
  std::shared_ptr<std::string> ghost;           // an object that never entered the observer

  // observed state (for steering only)
  bool d;
  long root;
  std::vector<unsigned> nodes;
  std::map<unsigned, std::pair<unsigned, unsigned>> edges;

  Harness() : d(true), root(0)
  {
    for (int k = 0; k <= NPOOL; ++k) E.push_back(std::make_shared<unsigned int>(k));
    ghost = std::make_shared<std::string>("ghost");
  }

  std::shared_ptr<std::string> nobj(long id) const
  {
    if (id < 0 || id >= static_cast<long>(N.size())) return ghost;
    return N[static_cast<size_t>(id)];
  }
  std::shared_ptr<unsigned int> eobj(long o) const { return o <= 0 ? std::shared_ptr<unsigned int>() : E[static_cast<size_t>(o)]; }

  // ---- projection through public const queries
  Obj project()
  {
    Obj s;
    const ObsT& co = *obs;
    auto g = co.getGraph();
    nodes.clear();
    edges.clear();
    root = static_cast<long>(g->getRoot());
    if (IsTree)
    {
      d = g->isDirected();
      s.kv("d", d);
    }
    s.kv("root", root);
    std::vector<Graph::NodeId> ns = g->getAllNodes();
    s.kv("n", arrU(ns));
    Arr ae, ao, ai, aeo, aoe;
    std::vector<Graph::EdgeId> es = g->getAllEdges();
    for (auto e : es)
    {
      auto p = g->getNodes(e);
      ae.add(Arr().add((long long)e).add((long long)p.first).add((long long)p.second));
      edges[e] = std::make_pair(p.first, p.second);
      auto o = co.getEdgeFromGraphid(e);
      if (o) aeo.add(Arr().add((long long)e).add((long long)*o));
    }
    for (auto n : ns)
    {
      nodes.push_back(n);
      ao.add(Arr().add((long long)n).add(arrU(g->getOutgoingNeighbors(n))));
      ai.add(Arr().add((long long)n).add(arrU(g->getIncomingNeighbors(n))));
    }
    for (int k = 1; k <= NPOOL; ++k)
      if (co.hasEdge(E[k])) aoe.add(Arr().add(k).add((long long)co.getEdgeGraphid(E[k])));
    s.kv("e", ae).kv("o", ao).kv("i", ai).kv("eo", aeo).kv("oe", aoe);
    return s;
  }

  void emit(Obj& ev)
  {
    std::string r = call([&]() { ev.kv("s", project()); });
    if (r != "ok") ev.kv("s", "unreadable:" + r);
    vt::tracer().emit(ev);
  }
  void ev(const char* name, const Arr& a, const std::string& r)
  {
    Obj o;
    o.kv("e", name).kv("a", a).kv("r", r);
    emit(o);
  }
  void evRows(const char* name, const Arr& rows)
  {
    Obj o;
    o.kv("e", name).kv("rows", rows);
    emit(o);
  }

  void reset(bool directed)
  {
    ++g_scen;
    obs.reset();
    N.clear();
    obs.reset(make(static_cast<ObsT*>(nullptr), directed));
    Obj o;
    o.kv("e", "Reset").kv("k", IsTree ? "tree" : "dag").kv("d", directed).kv("scen", g_scen);
    emit(o);
  }

  // nodes made on the graph itself (setOutGroup, a copied graph) get a node object so that
  // later calls through the observer can name them
  void adoptNewNodes()
  {
    call([&]() {
      for (auto n : obs->getGraph()->getAllNodes())
        if (!const_cast<const ObsT&>(*obs).getNodeFromGraphid(n))
        {
          auto o = std::make_shared<std::string>("g" + std::to_string(n));
          obs->associateNode(o, n);
          if (N.size() <= n) N.resize(n + 1, ghost);
          N[n] = o;
        }
    });
  }

  // ---- edits shared by both containers
  long createNode()
  {
    auto n = std::make_shared<std::string>("n" + std::to_string(N.size()));
    long id = -1;
    std::string r = call([&]() { obs->createNode(n); id = static_cast<long>(obs->getNodeGraphid(n)); });
    if (r == "ok")
    {
      if (id != static_cast<long>(N.size())) N.resize(static_cast<size_t>(id)); // keeps N[id] = object (ids are sequential)
      N.push_back(n);
    }
    Obj o;
    o.kv("e", "CreateNode").kv("id", id).kv("r", r);
    emit(o);
    return id;
  }
  void addSon(long a, long b, long o) { ev("AddSon", Arr().add(a).add(b).add(o), call([&]() { obs->addSon(nobj(a), nobj(b), eobj(o)); })); }
  void link(long a, long b, long o) { ev("Link", Arr().add(a).add(b).add(o), call([&]() { obs->link(nobj(a), nobj(b), eobj(o)); })); }
  void removeSon(long a, long b) { ev("RemoveSon", Arr().add(a).add(b), call([&]() { obs->removeSon(nobj(a), nobj(b)); })); }
  void unlink(long a, long b) { ev("Unlink", Arr().add(a).add(b), call([&]() { obs->unlink(nobj(a), nobj(b)); })); }
  void deleteNode(long n) { ev("DeleteNode", Arr().add(n), call([&]() { obs->deleteNode(nobj(n)); })); }
  bool qValid()
  {
    bool v = false;
    std::string r = call([&]() { v = const_cast<const ObsT&>(*obs).isValid(); });
    ev("QValid", Arr(), r == "ok" ? (v ? "T" : "F") : r);
    return v;
  }

  // ---- steering helpers on the observed state
  bool hasNode(long n) const { return std::find(nodes.begin(), nodes.end(), static_cast<unsigned>(n)) != nodes.end(); }
  bool related(long a, long b, bool directed) const
  {
    for (auto& e : edges)
      if ((e.second.first == (unsigned)a && e.second.second == (unsigned)b) || (!directed && e.second.first == (unsigned)b && e.second.second == (unsigned)a)) return true;
    return false;
  }
  std::vector<unsigned> outOf(long n, bool directed) const
  {
    std::vector<unsigned> r;
    for (auto& e : edges)
    {
      if (e.second.first == (unsigned)n) r.push_back(e.second.second);
      else if (!directed && e.second.second == (unsigned)n) r.push_back(e.second.first);
    }
    return r;
  }
  size_t inDeg(long n) const
  {
    size_t c = 0;
    for (auto& e : edges)
      if (e.second.second == (unsigned)n) ++c;
    return c;
  }
  bool reciprocal() const
  {
    for (auto& e : edges)
      for (auto& f : edges)
        if (e.first != f.first && ((e.second == f.second) || (e.second.first == f.second.second && e.second.second == f.second.first))) return true;
    return false;
  }
  std::set<unsigned> reach(long from, bool directed) const
  {
    std::set<unsigned> s;
    std::vector<unsigned> st(1, static_cast<unsigned>(from));
    s.insert(static_cast<unsigned>(from));
    while (!st.empty())
    {
      unsigned x = st.back();
      st.pop_back();
      for (auto y : outOf(x, directed))
        if (s.insert(y).second) st.push_back(y);
    }
    return s;
  }
  bool looksTree() const
  {
    if (!hasNode(root)) return false;
    return edges.size() + 1 == nodes.size() && reach(root, d).size() == nodes.size();
  }
  bool looksAcyclic() const
  {
    for (auto n : nodes)
      for (auto y : outOf(n, true))
        if (reach(y, true).count(n)) return false;
    return true;
  }
  long depthOf(long n) const // rooted valid tree only
  {
    long dpt = 0;
    long cur = n;
    for (size_t guard = 0; guard <= nodes.size(); ++guard)
    {
      bool up = false;
      for (auto& e : edges)
        if (e.second.second == (unsigned)cur)
        {
          cur = e.second.first;
          ++dpt;
          up = true;
          break;
        }
      if (!up) break;
    }
    return dpt;
  }
  bool hasOneSonBelow(long n) const
  {
    for (auto x : reach(n, true))
      if (outOf(x, true).size() == 1) return true;
    return false;
  }
  long freeObj() const // an edge object not attached at the moment (0 if none)
  {
    for (int k = 1; k <= NPOOL; ++k)
      if (!const_cast<const ObsT&>(*obs).hasEdge(E[k])) return k;
    return 0;
  }
};

// ------------------------------------------------------------------ tree harness
struct TreeH : Harness<TreeObs, true>
{
  void setFather(long n, long f, long o) { ev("SetFather", Arr().add(n).add(f).add(o), call([&]() { obs->setFather(nobj(n), nobj(f), eobj(o)); })); }
  void setRoot(long r) { ev("SetRoot", Arr().add(r), call([&]() { obs->setRoot(nobj(r)); })); }
  // through the observer (by node object) or on the graph itself (by id): an absent id only
  // reaches TreeGraphImpl::rootAt the second way (the observer refuses the unknown object first)
  void rootAt(long r, int viaGraph = -1)
  {
    bool g = viaGraph >= 0 ? viaGraph != 0 : (!hasNode(r) ? (g_calls++ % 4 != 0) : (g_calls++ % 3 == 0));
    Obj o;
    o.kv("e", "RootAt").kv("a", Arr().add(r)).kv("via", g ? "graph" : "observer");
    o.kv("r", call([&]() {
      if (g && r >= 0) obs->getGraph()->rootAt(static_cast<Graph::NodeId>(r));
      else obs->rootAt(nobj(r));
    }));
    emit(o);
  }
  void unRoot(bool join) { ev("UnRoot", Arr().add(join), call([&]() { obs->getGraph()->unRoot(join); })); }
  void qRooted()
  {
    bool v = false;
    std::string r = call([&]() { v = const_cast<const TreeObs&>(*obs).isRooted(); });
    ev("QRooted", Arr(), r == "ok" ? (v ? "T" : "F") : r);
  }
  // graph level only (no observer wrapper); the node it creates gets a node object afterwards
  // so that later calls through the observer can name it
  void setOutGroup(long g)
  {
    std::string r = call([&]() { obs->getGraph()->setOutGroup(static_cast<Graph::NodeId>(g)); });
    adoptNewNodes();
    ev("SetOutGroup", Arr().add(g), r);
  }
  void removeSons(long n)
  {
    std::vector<unsigned> sons;
    std::string r = call([&]() {
      if (g_scen % 2)
      {
        auto v = obs->removeSons(nobj(n));
        for (auto& o : v) sons.push_back(obs->getNodeGraphid(o));
      }
      else
      {
        obs->getNodeGraphid(nobj(n)); // absent nodes are refused by the observer
        auto v = obs->getGraph()->removeSons(static_cast<Graph::NodeId>(n));
        sons.assign(v.begin(), v.end());
      }
    });
    Obj o;
    o.kv("e", "RemoveSons").kv("a", Arr().add(n)).kv("r", r).kv("sons", arrU(sons));
    emit(o);
  }
  std::vector<unsigned> idsOf(const std::vector<std::shared_ptr<std::string>>& v) const
  {
    std::vector<unsigned> r;
    for (auto& o : v) r.push_back(o ? const_cast<const TreeObs&>(*obs).getNodeGraphid(o) : 999999u);
    return r;
  }
  static std::vector<unsigned> valsOf(const std::vector<std::shared_ptr<unsigned int>>& v)
  {
    std::vector<unsigned> r;
    for (auto& o : v) r.push_back(o ? *o : 0u);
    return r;
  }
  // the object-level API of AssociationTreeGraphObserver
  void qObj(const std::vector<unsigned>& ns)
  {
    const TreeObs& co = *obs;
    Arr rows;
    for (auto n : ns)
    {
      auto no = nobj(n);
      std::vector<unsigned> sons, br, lv, sn, se, it1, it2;
      long nsn = -1;
      bool hf = false;
      call([&]() { sons = idsOf(co.getSons(no)); });
      call([&]() { br = valsOf(co.getBranches(no)); });
      if (call([&]() { lv = idsOf(co.getLeavesUnderNode(no)); }) != "ok") lv.assign(1, 999999);
      call([&]() { nsn = static_cast<long>(co.getNumberOfSons(no)); });
      call([&]() { hf = co.hasFather(no); });
      if (call([&]() { sn = idsOf(co.getSubtreeNodes(no)); }) != "ok") sn.assign(1, 999999);
      if (call([&]() { se = valsOf(co.getSubtreeEdges(no)); }) != "ok") se.assign(1, 999999);
      call([&]() {
        auto it = co.sonsIterator(no);
        for (; !it->end(); it->next()) it1.push_back(co.getNodeGraphid(**it));
      });
      call([&]() {
        auto it = co.branchesIterator(no);
        for (; !it->end(); it->next())
          if (**it) it2.push_back(***it);
      });
      rows.add(Arr().add((long long)n).add(arrU(sons)).add(arrU(br)).add(arrU(lv)).add(nsn).add(hf).add(arrU(sn)).add(arrU(se)).add(arrU(it1)).add(arrU(it2)));
    }
    evRows("QObj", rows);
  }
  void qEdgeObj()
  {
    const TreeObs& co = *obs;
    Arr rows;
    for (int k = 1; k <= NPOOL; ++k)
    {
      if (!co.hasEdge(E[k])) continue;
      long son = -1, fat = -1, top = -1, bot = -1;
      call([&]() { son = co.getNodeGraphid(co.getSon(E[k])); });
      call([&]() { fat = co.getNodeGraphid(co.getFatherOfEdge(E[k])); });
      call([&]() {
        auto pr = co.getNodes(E[k]);
        top = co.getNodeGraphid(pr.first);
        bot = co.getNodeGraphid(pr.second);
      });
      rows.add(Arr().add(k).add(son).add(fat).add(top).add(bot));
    }
    evRows("QEdgeObj", rows);
  }
  void qPathObj(const std::vector<std::pair<unsigned, unsigned>>& ps)
  {
    const TreeObs& co = *obs;
    Arr rows;
    for (auto& p : ps)
    {
      std::vector<unsigned> p1, p2, p3;
      if (call([&]() { p1 = idsOf(co.getNodePathBetweenTwoNodes(nobj(p.first), nobj(p.second), true)); }) != "ok") p1.assign(1, 999999);
      if (call([&]() { p2 = idsOf(co.getNodePathBetweenTwoNodes(nobj(p.first), nobj(p.second), false)); }) != "ok") p2.assign(1, 999999);
      if (call([&]() { p3 = valsOf(co.getEdgePathBetweenTwoNodes(nobj(p.first), nobj(p.second))); }) != "ok") p3.assign(1, 999999);
      rows.add(Arr().add((long long)p.first).add((long long)p.second).add(arrU(p1)).add(arrU(p2)).add(arrU(p3)));
    }
    evRows("QPathObj", rows);
  }

  // structural queries; a call that raises is logged as -1 / ["?"]
  void qFather(const std::vector<unsigned>& ns)
  {
    const TreeObs& co = *obs;
    auto g = co.getGraph();
    Arr rows;
    for (auto n : ns)
    {
      bool hf = false;
      long f = -1, etf = -1, o1 = 0, o2 = 0;
      call([&]() { hf = g->hasFather(n); });
      call([&]() { f = static_cast<long>(g->getFatherOfNode(n)); });
      call([&]() { etf = static_cast<long>(g->getEdgeToFather(n)); });
      call([&]() {
        auto e = co.getEdgeToFather(nobj(n));
        o1 = e ? static_cast<long>(*e) : 0;
      });
      call([&]() {
        auto fo = co.getFatherOfNode(nobj(n));
        auto e = co.getEdgeLinking(fo, nobj(n));
        o2 = e ? static_cast<long>(*e) : 0;
      });
      rows.add(Arr().add((long long)n).add(hf).add(f).add(etf).add(o1).add(o2));
    }
    evRows("QFather", rows);
  }
  void qSons(const std::vector<unsigned>& ns)
  {
    const TreeObs& co = *obs;
    auto g = co.getGraph();
    Arr rows;
    for (auto n : ns)
    {
      std::vector<Graph::NodeId> sons, it1;
      std::vector<Graph::EdgeId> br, it2;
      long ns2 = -1;
      bool leaf = false;
      call([&]() { sons = g->getSons(n); });
      call([&]() { br = g->getBranches(n); });
      call([&]() { ns2 = static_cast<long>(g->getNumberOfSons(n)); });
      call([&]() { leaf = g->isLeaf(n); });
      call([&]() {
        const TreeGlobalGraph& cg = *g;
        auto it = cg.sonsIterator(n);
        for (; !it->end(); it->next()) it1.push_back(**it);
      });
      call([&]() {
        const TreeGlobalGraph& cg = *g;
        auto it = cg.branchesIterator(n);
        for (; !it->end(); it->next()) it2.push_back(**it);
      });
      rows.add(Arr().add((long long)n).add(arrU(sons)).add(arrU(br)).add(ns2).add(leaf).add(arrU(it1)).add(arrU(it2)));
    }
    evRows("QSons", rows);
  }
  void qLeaves(const std::vector<unsigned>& ns)
  {
    auto g = const_cast<const TreeObs&>(*obs).getGraph();
    Arr rows;
    for (auto n : ns)
    {
      if (!F.onechild && hasOneSonBelow(n)) continue;
      std::vector<Graph::NodeId> lv;
      std::string r = call([&]() { lv = g->getLeavesUnderNode(n); });
      if (r != "ok") lv.assign(1, 999999);
      rows.add(Arr().add((long long)n).add(arrU(lv)));
    }
    evRows("QLeaves", rows);
  }
  void qSub(unsigned n)
  {
    auto g = const_cast<const TreeObs&>(*obs).getGraph();
    std::vector<Graph::NodeId> sn;
    std::vector<Graph::EdgeId> se;
    std::string r1 = call([&]() { sn = g->getSubtreeNodes(n); });
    std::string r2 = call([&]() { se = g->getSubtreeEdges(n); });
    evRows("QSub", Arr().add(Arr().add((long long)n).add(r1).add(arrU(sn)).add(arrU(se)).add(r2)));
  }
  void qPath(const std::vector<std::pair<unsigned, unsigned>>& ps)
  {
    auto g = const_cast<const TreeObs&>(*obs).getGraph();
    Arr rows;
    for (auto& p : ps)
    {
      std::vector<Graph::NodeId> p1, p2;
      std::vector<Graph::EdgeId> p3;
      if (call([&]() { p1 = g->getNodePathBetweenTwoNodes(p.first, p.second, true); }) != "ok") p1.assign(1, 999999);
      if (call([&]() { p2 = g->getNodePathBetweenTwoNodes(p.first, p.second, false); }) != "ok") p2.assign(1, 999999);
      if (call([&]() { p3 = g->getEdgePathBetweenTwoNodes(p.first, p.second); }) != "ok") p3.assign(1, 999999);
      rows.add(Arr().add((long long)p.first).add((long long)p.second).add(arrU(p1)).add(arrU(p2)).add(arrU(p3)));
    }
    evRows("QPath", rows);
  }
  void qMrca(const std::vector<std::vector<unsigned>>& sets)
  {
    const TreeObs& co = *obs;
    auto g = co.getGraph();
    Arr rows;
    for (auto& s : sets)
    {
      long m1 = -1, m2 = -1;
      std::vector<Graph::NodeId> ids(s.begin(), s.end());
      call([&]() { m1 = static_cast<long>(g->MRCA(ids)); });
      call([&]() {
        std::vector<std::shared_ptr<std::string>> os;
        for (auto n : s) os.push_back(nobj(n));
        auto m = co.MRCA(os);
        m2 = m ? static_cast<long>(co.getNodeGraphid(m)) : -1;
      });
      rows.add(Arr().add(arrU(s)).add(m1).add(m2));
    }
    evRows("QMrca", rows);
  }
  bool mrcaSteerOk(const std::vector<unsigned>& s) const
  {
    if (F.anc || s.size() < 2) return true;
    long d0 = depthOf(s[0]);
    for (auto n : s)
      if (depthOf(n) != d0) return false;
    return true;
  }

  // the complete query battery on a valid rooted tree
  void battery(vt::Rng& rng, bool exhaustive, size_t samples)
  {
    std::vector<unsigned> ns = nodes;
    qFather(ns);
    qSons(ns);
    qLeaves(ns);
    if (exhaustive || ns.size() <= 7)
      for (auto n : ns) qSub(n);
    else
      for (size_t k = 0; k < 4; ++k) qSub(ns[rng.below(ns.size())]);
    std::vector<std::pair<unsigned, unsigned>> ps;
    if (exhaustive)
    {
      for (auto a : ns)
        for (auto b : ns) ps.push_back(std::make_pair(a, b));
    }
    else
    {
      for (size_t k = 0; k < samples; ++k) ps.push_back(std::make_pair(ns[rng.below(ns.size())], ns[rng.below(ns.size())]));
      // ancestor / descendant pairs on purpose
      for (size_t k = 0; k < samples / 3; ++k)
      {
        unsigned b = ns[rng.below(ns.size())];
        std::set<unsigned> below = reach(b, true);
        std::vector<unsigned> bl(below.begin(), below.end());
        unsigned c = bl[rng.below(bl.size())];
        ps.push_back(rng.coin() ? std::make_pair(b, c) : std::make_pair(c, b));
      }
    }
    qPath(ps);
    if (exhaustive || rng.coin())
    {
      qObj(ns);
      qEdgeObj();
      qPathObj(ps);
    }
    std::vector<std::vector<unsigned>> sets;
    if (exhaustive)
    {
      size_t n = ns.size();
      for (unsigned mask = 1; mask < (1u << n); ++mask)
      {
        std::vector<unsigned> s;
        for (size_t i = 0; i < n; ++i)
          if (mask & (1u << i)) s.push_back(ns[i]);
        for (size_t i = s.size(); i > 1; --i) std::swap(s[i - 1], s[rng.below(i)]);
        if (mrcaSteerOk(s)) sets.push_back(s);
      }
    }
    else
    {
      for (size_t k = 0; k < samples; ++k)
      {
        std::vector<unsigned> pool = ns, s;
        size_t sz = 1 + rng.below(std::min<size_t>(5, ns.size()));
        for (size_t i = 0; i < sz; ++i)
        {
          size_t j = rng.below(pool.size());
          s.push_back(pool[j]);
          pool.erase(pool.begin() + static_cast<long>(j));
        }
        if (k % 3 == 0 && s.size() >= 2)
        { // force an ancestor of s[1] into the set
          std::set<unsigned> below = reach(s[0], true);
          std::vector<unsigned> bl(below.begin(), below.end());
          unsigned c = bl[rng.below(bl.size())];
          if (std::find(s.begin(), s.end(), c) == s.end()) s[1] = c;
        }
        if (mrcaSteerOk(s)) sets.push_back(s);
      }
    }
    qMrca(sets);
  }

  // build the tree given by a parent array (par[root] = -1) over labels lab[i];
  // nodes are created in label order so that label = graph id
  void build(const std::vector<int>& par, const std::vector<unsigned>& lab, vt::Rng& rng, bool withObjs, bool unrooted = false)
  {
    size_t n = par.size();
    unsigned rootLab = 0;
    std::vector<std::pair<unsigned, unsigned>> es;
    for (size_t i = 0; i < n; ++i)
    {
      if (par[i] < 0) rootLab = lab[i];
      else es.push_back(std::make_pair(lab[static_cast<size_t>(par[i])], lab[i]));
    }
    for (size_t i = es.size(); i > 1; --i) std::swap(es[i - 1], es[rng.below(i)]);
    bool rootEarly = rng.coin();
    size_t created = 0;
    bool early = rng.coin(); // create all nodes first, or lazily
    if (early)
      for (; created < n; ++created) createNode();
    bool rootSet = (rootLab == 0);
    for (auto& e : es)
    {
      while (created <= std::max(e.first, e.second))
      {
        createNode();
        ++created;
      }
      if (!rootSet && rootEarly && created > rootLab)
      {
        setRoot(rootLab);
        rootSet = true;
      }
      long o = (withObjs && rng.chance(1, 2)) ? freeObj() : 0;
      unsigned ea = e.first, eb = e.second;
      if (unrooted && rng.coin()) std::swap(ea, eb); // no orientation yet
      switch (rng.below(3))
      {
      case 0:
        addSon(ea, eb, (F.eobj ? o : 0));
        break;
      case 1:
        if (!unrooted)
        {
          setFather(eb, ea, (F.eobj ? o : 0));
          break;
        }
      // fall through: setFather is for rooted trees
      default:
        link(ea, eb, o);
      }
      if (rng.chance(1, 6)) qValid(); // query in the middle of the construction (fills the cache)
    }
    while (created < n)
    {
      createNode();
      ++created;
    }
    if (!rootSet) setRoot(rootLab);
  }
};

struct DagH : Harness<DagObs, false>
{
  void addFather(long n, long f, long o) { ev("AddFather", Arr().add(n).add(f).add(o), call([&]() { obs->addFather(nobj(n), nobj(f), eobj(o)); })); }
  void removeFather(long n, long f) { ev("RemoveFather", Arr().add(n).add(f), call([&]() { obs->removeFather(nobj(n), nobj(f)); })); }
  void qRooted()
  {
    bool v = false;
    std::string r = call([&]() { v = const_cast<const DagObs&>(*obs).isRooted(); });
    ev("QRooted", Arr(), r == "ok" ? (v ? "RT" : "RF") : r);
  }
  void rootAt(long r)
  {
    bool g = !hasNode(r) ? (g_calls++ % 4 != 0) : (g_calls++ % 3 == 0);
    Obj o;
    o.kv("e", "RootAt").kv("a", Arr().add(r)).kv("via", g ? "graph" : "observer");
    o.kv("r", call([&]() {
      if (g && r >= 0) obs->getGraph()->rootAt(static_cast<Graph::NodeId>(r));
      else obs->rootAt(nobj(r));
    }));
    emit(o);
  }
  // can the graph hang from r at all?  connected and simple when read without directions
  bool orientable(long r) const
  {
    if (!hasNode(r)) return false;
    for (auto& e : edges)
      if (e.second.first == e.second.second) return false;
    if (reciprocal()) return false;
    return reach(r, false).size() == nodes.size();
  }
  void rootings(vt::Rng& rng, bool everyRoot)
  {
    if (!F.dagroot || nodes.empty()) return;
    std::vector<unsigned> order = nodes;
    for (size_t i = order.size(); i > 1; --i) std::swap(order[i - 1], order[rng.below(i)]);
    if (!everyRoot) order.resize(1);
    for (auto r : order)
    {
      if (!orientable(r)) continue;
      if (rng.coin()) qValid(); // with filled or empty caches
      if (rng.coin()) qRooted();
      rootAt(r);
      battery();
    }
  }
  void qFathers()
  {
    auto g = const_cast<const DagObs&>(*obs).getGraph();
    Arr rows;
    for (auto n : nodes)
    {
      std::vector<Graph::NodeId> fs, ss;
      long nf = -1, nsn = -1;
      bool hf = false;
      call([&]() { fs = g->getFathers(n); });
      call([&]() { nf = static_cast<long>(g->getNumberOfFathers(n)); });
      call([&]() { hf = g->hasFather(n); });
      call([&]() { ss = g->getSons(n); });
      call([&]() { nsn = static_cast<long>(g->getNumberOfSons(n)); });
      rows.add(Arr().add((long long)n).add(arrU(fs)).add(nf).add(hf).add(arrU(ss)).add(nsn));
    }
    evRows("QFathers", rows);
  }
  void qLeaves()
  {
    auto g = const_cast<const DagObs&>(*obs).getGraph();
    Arr rows;
    for (auto n : nodes)
    {
      if (!F.onechild && hasOneSonBelow(n)) continue;
      std::vector<Graph::NodeId> lv;
      if (call([&]() { lv = g->getLeavesUnderNode(n); }) != "ok") lv.assign(1, 999999);
      rows.add(Arr().add((long long)n).add(arrU(lv)));
    }
    evRows("QLeaves", rows);
  }
  void qBelow(unsigned n)
  {
    auto g = obs->getGraph();
    std::vector<Graph::NodeId> sn;
    std::vector<Graph::EdgeId> se;
    std::string r1 = call([&]() { sn = g->getBelowNodes(n); });
    std::string r2 = call([&]() { se = g->getBelowEdges(n); });
    evRows("QBelow", Arr().add(Arr().add((long long)n).add(r1).add(arrU(sn)).add(arrU(se)).add(r2)));
  }
  void addEdge(long a, long b, vt::Rng& rng, bool withObjs)
  {
    long o = (withObjs && rng.chance(1, 3)) ? freeObj() : 0;
    switch (rng.below(3))
    {
    case 0:
      addSon(a, b, o);
      break;
    case 1:
      addFather(b, a, o);
      break;
    default:
      link(a, b, o);
    }
  }
  void battery()
  {
    bool ac = looksAcyclic();
    qValid();
    qRooted();
    qFathers();
    if (ac)
    {
      qLeaves();
      for (auto n : std::vector<unsigned>(nodes)) qBelow(n);
    }
    else if (!nodes.empty())
      qBelow(nodes[0]);
  }
};

// ------------------------------------------------------------------ rooted shapes (Beyer-Hedetniemi level sequences)
static std::vector<std::vector<int>> rootedShapes(size_t n)
{
  std::vector<std::vector<int>> out;
  std::vector<int> L(n);
  for (size_t i = 0; i < n; ++i) L[i] = static_cast<int>(i) + 1;
  for (;;)
  {
    std::vector<int> par(n, -1);
    for (size_t i = 1; i < n; ++i)
      for (size_t j = i; j-- > 0;)
        if (L[j] == L[i] - 1)
        {
          par[i] = static_cast<int>(j);
          break;
        }
    out.push_back(par);
    long p = -1;
    for (size_t i = n; i-- > 0;)
      if (L[i] > 2)
      {
        p = static_cast<long>(i);
        break;
      }
    if (p < 0) break;
    long q = -1;
    for (long i = p - 1; i >= 0; --i)
      if (L[static_cast<size_t>(i)] == L[static_cast<size_t>(p)] - 1)
      {
        q = i;
        break;
      }
    for (size_t i = static_cast<size_t>(p); i < n; ++i) L[i] = L[i - static_cast<size_t>(p - q)];
  }
  return out;
}

static std::vector<unsigned> randomLabels(size_t n, vt::Rng& rng)
{
  std::vector<unsigned> lab(n);
  for (size_t i = 0; i < n; ++i) lab[i] = static_cast<unsigned>(i);
  for (size_t i = n; i > 1; --i) std::swap(lab[i - 1], lab[rng.below(i)]);
  return lab;
}

// ------------------------------------------------------------------ scenarios: trees
static void rerootings(TreeH& h, vt::Rng& rng, bool exhaustive, size_t howMany, size_t samples)
{
  std::vector<unsigned> order = h.nodes;
  for (size_t i = order.size(); i > 1; --i) std::swap(order[i - 1], order[rng.below(i)]);
  if (!exhaustive && order.size() > howMany) order.resize(howMany);
  for (auto r : order)
  {
    if (F.unroot && rng.chance(1, 3))
    {
      h.unRoot(false);
      if (rng.coin()) h.qValid();
    }
    if (rng.coin()) h.qValid(); // re-root with a filled or an empty cache
    h.rootAt(r);
    if (rng.chance(1, 4)) h.qSub(h.nodes[rng.below(h.nodes.size())]); // first query after the edit is not isValid
    h.qValid();
    h.qRooted();
    h.battery(rng, exhaustive, samples);
  }
}

static void modeShapes(size_t maxn, vt::Rng& rng)
{
  for (size_t n = 1; n <= maxn; ++n)
    for (auto& par : rootedShapes(n))
    {
      TreeH h;
      bool unrooted = F.unroot && rng.chance(1, 4); // built un-rooted, oriented by the first rootAt
      h.reset(!unrooted);
      h.build(par, randomLabels(n, rng), rng, true, unrooted);
      h.qValid();
      if (!unrooted) h.battery(rng, true, 0);
      rerootings(h, rng, true, 0, 0);
      if (F.outgroup)
      { // a new root between a node and its father (every node in turn over the shapes; the root is refused)
        h.setOutGroup(h.nodes[rng.below(h.nodes.size())]);
        h.qValid();
        if (h.d && h.looksTree()) h.battery(rng, h.nodes.size() <= 7, 12);
      }
    }
}

static std::vector<int> randomParents(size_t n, vt::Rng& rng)
{
  std::vector<int> par(n, -1);
  int style = static_cast<int>(rng.below(3));
  for (size_t i = 1; i < n; ++i)
  {
    if (style == 0) par[i] = static_cast<int>(rng.below(i));                         // random recursive tree
    else if (style == 1) par[i] = static_cast<int>(i - 1 - rng.below(std::min<size_t>(i, 2))); // deep
    else par[i] = static_cast<int>(rng.below(std::min<size_t>(i, 3)));               // bushy
  }
  return par;
}

static void modeRTrees(size_t count, size_t lo, size_t hi, vt::Rng& rng)
{
  for (size_t k = 0; k < count; ++k)
  {
    size_t n = lo + rng.below(hi - lo + 1);
    TreeH h;
    bool unrooted = F.unroot && rng.chance(1, 4);
    h.reset(!unrooted);
    h.build(randomParents(n, rng), randomLabels(n, rng), rng, true, unrooted);
    h.qValid();
    if (!unrooted) h.battery(rng, false, 24);
    rerootings(h, rng, false, 3, 24);
    if (F.outgroup && rng.coin())
    {
      h.setOutGroup(h.nodes[rng.below(h.nodes.size())]);
      h.qValid();
      if (h.d && h.looksTree()) h.battery(rng, false, 12);
    }
  }
}

// one random step of a history: an edit (valid or not) or a query
static void histStep(TreeH& h, vt::Rng& rng, size_t& created, size_t maxNodes)
{
  size_t total = created + 1; // ids 0..created (the last one never existed)
  long a = static_cast<long>(rng.below(total)), b = static_cast<long>(rng.below(total));
  if (rng.chance(9, 10) && !h.nodes.empty())
  { // mostly existing nodes
    a = h.nodes[rng.below(h.nodes.size())];
    b = h.nodes[rng.below(h.nodes.size())];
  }
  long o = rng.chance(1, 3) ? (rng.chance(3, 4) ? h.freeObj() : static_cast<long>(1 + rng.below(4))) : 0;
  bool undirected = !h.d;
  bool absent = !h.hasNode(a) || !h.hasNode(b);
  // drift towards valid trees now and then (a stale cache can only show when the answer was "valid"):
  // hang a node the root does not reach below one it reaches
  if (!undirected && h.hasNode(h.root) && !h.looksTree() && rng.chance(1, 4))
  {
    std::set<unsigned> rs = h.reach(h.root, true);
    std::vector<unsigned> in(rs.begin(), rs.end()), outside;
    for (auto n : h.nodes)
      if (!rs.count(n)) outside.push_back(n);
    if (!outside.empty())
    {
      h.setFather(outside[rng.below(outside.size())], in[rng.below(in.size())], 0);
      return;
    }
  }
  switch (rng.below(16))
  {
  case 0:
  case 1:
    if (created < maxNodes)
    {
      h.createNode();
      ++created;
    }
    break;
  case 2:
  case 3:
    if (!F.dups && !absent && h.related(a, b, h.d)) break;
    if (rng.coin()) h.addSon(a, b, F.eobj ? o : 0);
    else h.link(a, b, o);
    break;
  case 4:
  case 5:
    if (undirected) break; // "in a rooted tree"
    if (!F.eobj) o = 0;
    h.setFather(a, b, o);
    break;
  case 6:
    if (undirected && !F.uedit) break;
    if (rng.coin()) h.removeSon(a, b);
    else h.unlink(a, b);
    break;
  case 7:
    if (undirected && !F.uedit) break;
    if (rng.chance(1, 2)) h.deleteNode(a);
    break;
  case 8:
    h.setRoot(a);
    break;
  case 9:
  case 10:
    if (undirected && !F.unroot) break;
    h.rootAt(a);
    break;
  case 11:
    if (!F.unroot) break;
    {
      bool join = rng.chance(1, 3);
      if (join)
      { // stay inside the cases the statement covers
        if (!h.hasNode(h.root)) break;
        std::vector<unsigned> s = h.outOf(h.root, h.d);
        if (s.size() == 2 && (s[0] == s[1] || h.related(s[0], s[1], false))) break;
        if (h.d && h.reciprocal()) break;
        bool loop = false;
        for (auto x : s) loop = loop || x == (unsigned)h.root;
        if (loop) break;
      }
      h.unRoot(join);
    }
    break;
  case 12:
  case 13:
    h.qValid();
    break;
  case 14:
    if (rng.chance(1, 3))
    {
      if (F.outgroup && created < maxNodes + 2)
      {
        h.setOutGroup(a);
        created = h.N.size();
      }
    }
    else if (rng.chance(1, 2))
    {
      if (!undirected || F.uedit) h.removeSons(a);
    }
    else if (!h.nodes.empty() && (h.d || !h.looksTree())) h.qSub(h.nodes[rng.below(h.nodes.size())]);
    break;
  default:
    if (h.d && h.looksTree())
    {
      if (rng.coin()) h.battery(rng, false, 6);
      else
      {
        h.qFather(h.nodes);
        h.qSons(h.nodes);
      }
    }
    else
      h.qRooted();
  }
}

// random histories: edits (valid or not) and queries in any order
static void modeHist(size_t count, size_t len, size_t maxNodes, vt::Rng& rng)
{
  for (size_t k = 0; k < count; ++k)
  {
    TreeH h;
    bool unrooted = F.unroot && rng.chance(1, 4);
    h.reset(!unrooted);
    size_t created = 0;
    // start from a small random tree half of the time
    if (rng.coin())
    {
      size_t n = 1 + rng.below(std::min<size_t>(4, maxNodes));
      h.build(randomParents(n, rng), randomLabels(n, rng), rng, true, unrooted);
      created = n;
    }
    for (size_t step = 0; step < len; ++step) histStep(h, rng, created, maxNodes);
    h.qValid();
  }
}

// query (fills the cache with "valid") / ONE edit of every kind / query again - from random valid trees.
// Each edit kind is tried with the cache filled by isValid(), by getSubtreeNodes(), or left empty.
static void modeCacheWalk(size_t count, vt::Rng& rng)
{
  const int KINDS = 27;
  for (size_t k = 0; k < count; ++k)
  {
    size_t n = 2 + rng.below(5);
    std::vector<int> par = randomParents(n, rng);
    std::vector<unsigned> lab = randomLabels(n, rng);
    for (int kind = 0; kind < KINDS; ++kind)
    {
      TreeH h;
      bool unrooted = F.unroot && rng.chance(1, 5);
      h.reset(!unrooted);
      h.build(par, lab, rng, true, unrooted);
      for (int round = 0; round < 2; ++round)
      {
        if (h.nodes.empty()) break;
        switch (rng.below(3)) // how the cache gets filled
        {
        case 0:
          h.qValid();
          break;
        case 1:
          if (h.d || !h.looksTree()) h.qSub(h.nodes[rng.below(h.nodes.size())]);
          else h.qValid();
          break;
        default:
          break;
        }
        unsigned a = h.nodes[rng.below(h.nodes.size())], b = h.nodes[rng.below(h.nodes.size())];
        long absent = static_cast<long>(h.N.size()) + 1;
        long usedObj = 0, freeO = h.freeObj();
        for (int o = 1; o <= NPOOL; ++o)
          if (const_cast<const TreeObs&>(*h.obs).hasEdge(h.E[o])) usedObj = o;
        bool und = !h.d;
        int kd = (kind + round * 7) % KINDS;
        switch (kd)
        {
        case 0: h.createNode(); break;
        case 1: if (F.dups || !h.related(a, b, h.d)) h.addSon(a, b, 0); break;
        case 2: if (F.dups || !h.related(a, b, h.d)) h.addSon(a, b, F.eobj ? freeO : 0); break;
        case 3: if (F.dups || !h.related(a, b, h.d)) h.link(a, b, freeO); break;
        case 4: if (!und) h.setFather(a, b, 0); break;
        case 5: if (!und && F.eobj) h.setFather(a, b, freeO); break;
        case 6: if (!und && F.eobj) h.setFather(a, b, usedObj); break; // object of some link: refused unless it is a's father link
        case 7: if (!und || F.uedit) h.removeSon(a, b); break;
        case 8:
          if (und && !F.uedit) break;
          { // a real relation
            if (h.edges.empty()) break;
            auto it = h.edges.begin();
            std::advance(it, static_cast<long>(rng.below(h.edges.size())));
            if (rng.coin()) h.removeSon(it->second.first, it->second.second);
            else h.unlink(it->second.first, it->second.second);
          }
          break;
        case 9: if (!und || F.uedit) h.deleteNode(a); break;
        case 10: if (!und || F.uedit) h.deleteNode(h.root); break;
        case 11: h.setRoot(a); break;
        case 12: if (!und || F.unroot) h.rootAt(a); break;
        case 13: if (F.unroot) h.unRoot(false); break;
        case 14:
          if (!F.unroot || !h.hasNode(h.root)) break;
          {
            std::vector<unsigned> sn = h.outOf(h.root, h.d);
            if (sn.size() == 2 && (sn[0] == sn[1] || sn[0] == (unsigned)h.root || sn[1] == (unsigned)h.root || h.related(sn[0], sn[1], false))) break;
            if (h.d && h.reciprocal()) break;
            h.unRoot(true);
          }
          break;
        // refusals: nothing may change, the cached answer stays right
        case 15: h.addSon(a, absent, 0); break;
        case 16: h.link(absent, a, 0); break;
        case 17: if (!und) h.setFather(absent, a, 0); break;
        case 18: h.deleteNode(absent); break;
        case 19: h.rootAt(absent); break;
        case 20: h.setRoot(absent); break;
        case 21: h.link(a, b, usedObj); break; // an object that is already attached (or none)
        case 24:
        case 25:
        { // a leaf is deleted and then (by mistake) chosen as the new root, on the graph itself: refused, and
          // the tree must go on living - same root, same answers, further edits and re-rootings work
          if (und && !F.uedit) break;
          std::vector<unsigned> leaves;
          for (auto x : h.nodes)
            if (h.outOf(x, true).empty() && (long)x != h.root) leaves.push_back(x);
          long dead = absent;
          if (!leaves.empty() && kd == 24)
          {
            dead = leaves[rng.below(leaves.size())];
            h.deleteNode(dead);
            if (rng.coin()) h.qValid();
          }
          h.rootAt(dead, 1);
          h.qValid();
          if (!h.nodes.empty())
          {
            long nn = h.createNode();
            h.addSon(h.nodes[rng.below(h.nodes.size())], nn, 0);
            h.qValid();
            if (h.d || !h.looksTree()) h.qSub(h.nodes[rng.below(h.nodes.size())]);
            if (!und || F.unroot) h.rootAt(h.nodes[rng.below(h.nodes.size())], static_cast<int>(rng.below(2)));
          }
          break;
        }
        case 22: if (F.outgroup) h.setOutGroup(a); break;
        case 23: if (F.outgroup) h.setOutGroup(h.root); break; // refused: the root has no father
        default: if (!und || F.uedit) h.removeSons(a); break; // 26
        }
        // first query after the edit: validity, or a guarded structural query
        if (rng.chance(1, 3) && !h.nodes.empty() && (h.d || !h.looksTree())) h.qSub(h.nodes[rng.below(h.nodes.size())]);
        h.qValid();
        if (h.d && h.looksTree() && rng.chance(1, 3)) h.battery(rng, false, 6);
      }
    }
  }
}

// ------------------------------------------------------------------ scenarios: DAGs
static void dagFromMask(size_t n, unsigned long mask, bool loops, vt::Rng& rng)
{
  DagH h;
  h.reset(true);
  for (size_t i = 0; i < n; ++i) h.createNode();
  std::vector<std::pair<unsigned, unsigned>> es;
  size_t bit = 0;
  for (unsigned a = 0; a < n; ++a)
    for (unsigned b = 0; b < n; ++b)
    {
      if (a == b && !loops) continue;
      if (mask & (1ul << bit)) es.push_back(std::make_pair(a, b));
      ++bit;
    }
  for (size_t i = es.size(); i > 1; --i) std::swap(es[i - 1], es[rng.below(i)]);
  size_t askAt = es.empty() ? 0 : rng.below(es.size() + 1);
  for (size_t i = 0; i < es.size(); ++i)
  {
    if (i == askAt)
    {
      h.qValid(); // fills the caches before the remaining edits
      if (rng.coin()) h.qRooted();
    }
    h.addEdge(es[i].first, es[i].second, rng, true);
  }
  h.battery();
  h.rootings(rng, g_everyRoot || n <= 3);
  // one more edit, then ask again (query / mutate / query)
  if (!es.empty())
  {
    auto e = es[rng.below(es.size())];
    switch (rng.below(4))
    {
    case 0:
      h.removeSon(e.first, e.second);
      break;
    case 1:
      h.removeFather(e.second, e.first);
      break;
    case 2:
      h.deleteNode(e.first);
      break;
    default:
      h.createNode();
    }
    h.qValid();
    h.qRooted();
  }
}

static void modeDigraphs(size_t maxn, size_t loopsUpTo, vt::Rng& rng)
{
  for (size_t n = 1; n <= maxn; ++n)
  {
    bool loops = n <= loopsUpTo;
    size_t bits = loops ? n * n : n * (n - 1);
    for (unsigned long mask = 0; mask < (1ul << bits); ++mask) dagFromMask(n, mask, loops, rng);
  }
}

static void dhistStep(DagH& h, vt::Rng& rng, size_t& created, size_t maxNodes)
{
  size_t total = created + 1;
  long a = static_cast<long>(rng.below(total)), b = static_cast<long>(rng.below(total));
  if (rng.chance(9, 10) && !h.nodes.empty())
  {
    a = h.nodes[rng.below(h.nodes.size())];
    b = h.nodes[rng.below(h.nodes.size())];
  }
  bool absent = !h.hasNode(a) || !h.hasNode(b);
  switch (rng.below(12))
  {
  case 0:
  case 1:
    if (created < maxNodes)
    {
      h.createNode();
      ++created;
    }
    break;
  case 2:
  case 3:
  case 4:
    if (rng.chance(1, 4) && a > b) std::swap(a, b);
    if (!F.dups && !absent && h.related(a, b, true)) break;
    {
      long o = rng.chance(1, 3) ? (rng.chance(3, 4) ? h.freeObj() : static_cast<long>(1 + rng.below(4))) : 0;
      switch (rng.below(3))
      {
      case 0:
        h.addSon(a, b, o);
        break;
      case 1:
        h.addFather(b, a, o);
        break;
      default:
        h.link(a, b, o);
      }
    }
    break;
  case 5:
    if (rng.coin()) h.removeSon(a, b);
    else h.removeFather(b, a);
    break;
  case 6:
    if (rng.coin()) h.deleteNode(a);
    else h.unlink(a, b);
    break;
  case 7:
  case 8:
    h.qValid();
    break;
  case 9:
    h.qRooted();
    break;
  case 10:
    if (F.dagroot && rng.coin())
    {
      if (!h.hasNode(a) || h.orientable(a)) h.rootAt(a);
    }
    else if (!h.nodes.empty()) h.qBelow(h.nodes[rng.below(h.nodes.size())]);
    break;
  default:
    h.qFathers();
    if (h.looksAcyclic()) h.qLeaves();
  }
}

static void modeDHist(size_t count, size_t len, size_t maxNodes, vt::Rng& rng)
{
  for (size_t k = 0; k < count; ++k)
  {
    if (k % 2 == 0)
    { // random digraph on 5..maxNodes nodes, sparse enough to be acyclic now and then
      size_t n = 5 + rng.below(maxNodes - 4);
      DagH h;
      h.reset(true);
      for (size_t i = 0; i < n; ++i) h.createNode();
      std::vector<unsigned> ord = randomLabels(n, rng);
      size_t m = n - 1 + rng.below(n + 1);
      for (size_t j = 0; j < m; ++j)
      {
        size_t x = rng.below(n), y = rng.below(n);
        if (x == y) continue;
        if (rng.chance(5, 6) && x > y) std::swap(x, y); // mostly along a topological order
        if (!F.dups && h.related(ord[x], ord[y], true)) continue;
        h.addEdge(ord[x], ord[y], rng, true);
        if (rng.chance(1, 5)) h.qValid();
        if (rng.chance(1, 8)) h.qRooted();
      }
      h.battery();
      h.rootings(rng, false);
      continue;
    }
    DagH h;
    h.reset(true);
    size_t created = 0;
    for (size_t step = 0; step < len; ++step) dhistStep(h, rng, created, maxNodes);
    h.battery();
  }
}

// ------------------------------------------------------------------ several containers: copies and views
// Copies of the graph container (copy construction, assignment) are independent containers; a copy
// of the observer (copy construction, clone, assignment) is a second view on the same graph.
template<class H, class ObsT> struct Multi
{
  typedef typename std::remove_reference<decltype(*std::declval<ObsT&>().getGraph())>::type GraphT;
  std::vector<std::unique_ptr<H>> hs;
  std::vector<size_t> created;
  std::unique_ptr<ObsT> view; // on container 0
  size_t cur;
  Multi() : cur(0) {}
  void sw(size_t i)
  {
    if (i == cur) return;
    Obj o;
    o.kv("e", "Switch").kv("to", (long long)i);
    vt::tracer().emit(o);
    cur = i;
  }
  void watchOthers()
  {
    for (size_t i = 0; i < hs.size(); ++i)
    {
      if (i == cur) continue;
      Obj o;
      o.kv("e", "Watch").kv("obj", (long long)i);
      std::string r = call([&]() { o.kv("s", hs[i]->project()); });
      if (r != "ok") o.kv("s", "unreadable");
      vt::tracer().emit(o);
    }
  }
  void copyCtor(size_t src)
  {
    sw(src);
    std::unique_ptr<H> h2(new H);
    std::string r = call([&]() {
      auto g2 = std::make_shared<GraphT>(*hs[src]->obs->getGraph());
      h2->obs.reset(new ObsT(g2));
    });
    if (r != "ok") return;
    h2->adoptNewNodes();
    Obj o;
    o.kv("e", "Copy").kv("src", (long long)src).kv("dst", (long long)hs.size()).kv("how", "ctor");
    call([&]() { o.kv("s", h2->project()); });
    vt::tracer().emit(o);
    created.push_back(h2->N.size());
    hs.push_back(std::move(h2));
  }
  void assign(size_t src, size_t dst, int forceBase = -1)
  {
    sw(src);
    if (dst == 0) view.reset(); // a view is not told that its graph was overwritten
    H& t = *hs[dst];
    // either the container's own operator= or the one of its graph base class (GlobalGraph& = ...)
    bool viaBase = forceBase >= 0 ? forceBase != 0 : (g_scen + src + dst) % 3 == 0;
    std::string r = call([&]() {
      if (viaBase) static_cast<GlobalGraph&>(*t.obs->getGraph()) = *hs[src]->obs->getGraph();
      else *t.obs->getGraph() = *hs[src]->obs->getGraph();
    });
    call([&]() { // a new observer for the overwritten container (the former one knows former ids only)
      auto g = t.obs->getGraph();
      t.obs.reset();
      t.obs.reset(new ObsT(g));
      t.N.clear();
    });
    t.adoptNewNodes();
    Obj o;
    o.kv("e", "Copy").kv("src", (long long)src).kv("dst", (long long)dst).kv("how", "assign").kv("base", viaBase).kv("r", r);
    call([&]() { o.kv("s", t.project()); });
    vt::tracer().emit(o);
    created[dst] = t.N.size();
  }
  void makeView(vt::Rng& rng)
  {
    sw(0);
    view.reset();
    call([&]() {
      switch (rng.below(3))
      {
      case 0:
        view.reset(new ObsT(*hs[0]->obs));
        break;
      case 1:
        view.reset(hs[0]->obs->clone());
        break;
      default:
        view.reset(make(static_cast<ObsT*>(nullptr), true));
        *view = *hs[0]->obs;
      }
    });
  }
};

static void qViewTree(Multi<TreeH, TreeObs>& m, bool fresh)
{
  if (!m.view) return;
  m.sw(0);
  const TreeObs& cv = *m.view;
  TreeH& h = *m.hs[0];
  Obj o;
  bool v = false, d = false;
  std::string r = call([&]() { v = cv.isValid(); });
  call([&]() { d = cv.isRooted(); });
  Arr eo, rows;
  call([&]() {
    for (auto e : cv.getGraph()->getAllEdges())
    {
      auto x = cv.getEdgeFromGraphid(e);
      if (x) eo.add(Arr().add((long long)e).add((long long)*x));
    }
  });
  bool structural = h.d && h.looksTree();
  Arr known;
  for (auto n : h.nodes)
  {
    std::vector<unsigned> sons, lv;
    long f = -1;
    auto no = cv.getNodeFromGraphid(n);
    if (!no) continue; // made after the view was: the view has no object for it
    known.add((long long)n);
    if (structural)
    {
      call([&]() { for (auto& x : cv.getSons(no)) sons.push_back(cv.getNodeGraphid(x)); });
      call([&]() { f = static_cast<long>(cv.getNodeGraphid(cv.getFatherOfNode(no))); });
      if (call([&]() { for (auto& x : cv.getLeavesUnderNode(no)) lv.push_back(cv.getNodeGraphid(x)); }) != "ok") lv.assign(1, 999999);
    }
    rows.add(Arr().add((long long)n).add(arrU(sons)).add(f).add(arrU(lv)));
  }
  o.kv("e", "QView").kv("v", r == "ok" ? (v ? "T" : "F") : r).kv("d", d ? "T" : "F").kv("fresh", fresh).kv("eo", eo).kv("known", known).kv("rows", rows);
  h.emit(o);
}

static void qViewDag(Multi<DagH, DagObs>& m, bool fresh)
{
  if (!m.view) return;
  m.sw(0);
  const DagObs& cv = *m.view;
  DagH& h = *m.hs[0];
  Obj o;
  bool v = false;
  std::string r = call([&]() { v = cv.isValid(); });
  Arr eo, rows;
  call([&]() {
    for (auto e : cv.getGraph()->getAllEdges())
    {
      auto x = cv.getEdgeFromGraphid(e);
      if (x) eo.add(Arr().add((long long)e).add((long long)*x));
    }
  });
  Arr known;
  for (auto n : h.nodes)
  {
    std::vector<unsigned> sons, fs;
    auto no = cv.getNodeFromGraphid(n);
    if (!no) continue;
    known.add((long long)n);
    call([&]() { for (auto& x : cv.getSons(no)) sons.push_back(cv.getNodeGraphid(x)); });
    call([&]() { for (auto& x : cv.getFathers(no)) fs.push_back(cv.getNodeGraphid(x)); });
    rows.add(Arr().add((long long)n).add(arrU(sons)).add(arrU(fs)));
  }
  o.kv("e", "QView").kv("v", r == "ok" ? (v ? "T" : "F") : r).kv("fresh", fresh).kv("eo", eo).kv("known", known).kv("rows", rows);
  h.emit(o);
}

// an edit made through the view (no edge object): the original container must show it
template<class M> static void editViaView(M& m, vt::Rng& rng)
{
  if (!m.view) return;
  m.sw(0);
  auto& h = *m.hs[0];
  if (h.nodes.empty()) return;
  unsigned a = h.nodes[rng.below(h.nodes.size())], b = h.nodes[rng.below(h.nodes.size())];
  const auto& cv = *m.view;
  auto oa = cv.getNodeFromGraphid(a), ob = cv.getNodeFromGraphid(b);
  switch (rng.below(3))
  {
  case 0:
    if (!oa) return;
    h.ev("DeleteNode", Arr().add((long long)a), call([&]() { m.view->deleteNode(oa); }));
    break;
  case 1:
    if (!oa || !ob) return;
    h.ev("Unlink", Arr().add((long long)a).add((long long)b), call([&]() { m.view->unlink(oa, ob); }));
    break;
  default:
    if (!oa || !ob) return;
    if (!F.dups && h.related(a, b, h.d)) return;
    h.ev("Link", Arr().add((long long)a).add((long long)b).add(0), call([&]() { m.view->link(oa, ob); }));
  }
}

static void modeCopies(size_t count, vt::Rng& rng)
{
  for (size_t k = 0; k < count; ++k)
  {
    Multi<TreeH, TreeObs> m;
    m.hs.emplace_back(new TreeH);
    TreeH& h0 = *m.hs[0];
    bool unrooted = F.unroot && rng.chance(1, 6);
    h0.reset(!unrooted);
    size_t n = 2 + rng.below(4);
    h0.build(randomParents(n, rng), randomLabels(n, rng), rng, true, unrooted);
    m.created.push_back(n);
    switch (rng.below(3)) // copy with a filled or an empty cache
    {
    case 0:
      h0.qValid();
      break;
    case 1:
      if (h0.d || !h0.looksTree()) h0.qSub(h0.nodes[rng.below(h0.nodes.size())]);
      break;
    default:
      break;
    }
    m.copyCtor(0);
    if (k % 3 == 0)
    { // the copy caches "valid", the original becomes invalid and is assigned over the copy
      m.sw(1);
      m.hs[1]->qValid();
      m.sw(0);
      h0.createNode(); // an isolated node
      m.created[0] = h0.N.size();
      m.watchOthers();
      m.assign(0, 1, static_cast<int>(rng.below(2)));
      m.sw(1);
      m.hs[1]->qValid();
    }
    if (rng.coin())
    {
      m.makeView(rng);
      qViewTree(m, true);
    }
    for (size_t step = 0; step < 16; ++step)
    {
      size_t r = rng.below(12);
      if (r == 0 && m.hs.size() < 3) m.copyCtor(rng.below(m.hs.size()));
      else if (r == 1 && m.hs.size() >= 2)
      {
        size_t src = rng.below(m.hs.size()), dst = rng.below(m.hs.size());
        if (src != dst) m.assign(src, dst);
      }
      else if (r == 2) qViewTree(m, false);
      else if (r == 3)
      {
        if (!m.hs[0]->d && !F.uedit) continue;
        editViaView(m, rng);
        m.watchOthers();
        qViewTree(m, false);
      }
      else if (r == 4 && !m.view)
      {
        m.makeView(rng);
        qViewTree(m, true);
      }
      else
      {
        size_t i = rng.below(m.hs.size());
        m.sw(i);
        histStep(*m.hs[i], rng, m.created[i], 5);
        m.watchOthers();
      }
    }
    for (size_t i = 0; i < m.hs.size(); ++i)
    { // query every container at the end
      m.sw(i);
      TreeH& h = *m.hs[i];
      h.qValid();
      if (h.d && h.looksTree()) h.battery(rng, false, 4);
    }
    qViewTree(m, false);
  }
}

static void modeDCopies(size_t count, vt::Rng& rng)
{
  for (size_t k = 0; k < count; ++k)
  {
    Multi<DagH, DagObs> m;
    m.hs.emplace_back(new DagH);
    DagH& h0 = *m.hs[0];
    h0.reset(true);
    size_t n = 2 + rng.below(4);
    for (size_t i = 0; i < n; ++i) h0.createNode();
    for (size_t j = 0; j < n + 1; ++j)
    {
      size_t x = rng.below(n), y = rng.below(n);
      if (x == y || (!F.dups && h0.related(x, y, true))) continue;
      if (rng.chance(4, 5) && x > y) std::swap(x, y);
      if (!F.dups && h0.related(x, y, true)) continue;
      h0.addEdge(x, y, rng, true);
    }
    m.created.push_back(n);
    if (rng.coin()) h0.qValid();
    if (rng.coin()) h0.qRooted();
    m.copyCtor(0);
    if (k % 3 == 0)
    { // the copy caches its answers, the original gets a loop and is assigned over the copy
      m.sw(1);
      m.hs[1]->qValid();
      m.hs[1]->qRooted();
      m.sw(0);
      h0.addSon(0, 0, 0);
      m.watchOthers();
      m.assign(0, 1, static_cast<int>(rng.below(2)));
      m.sw(1);
      m.hs[1]->qValid();
      m.hs[1]->qRooted();
    }
    if (rng.coin())
    {
      m.makeView(rng);
      qViewDag(m, true);
    }
    for (size_t step = 0; step < 16; ++step)
    {
      size_t r = rng.below(12);
      if (r == 0 && m.hs.size() < 3) m.copyCtor(rng.below(m.hs.size()));
      else if (r == 1 && m.hs.size() >= 2)
      {
        size_t src = rng.below(m.hs.size()), dst = rng.below(m.hs.size());
        if (src != dst) m.assign(src, dst);
      }
      else if (r == 2) qViewDag(m, false);
      else if (r == 3)
      {
        editViaView(m, rng);
        m.watchOthers();
        qViewDag(m, false);
      }
      else if (r == 4 && !m.view)
      {
        m.makeView(rng);
        qViewDag(m, true);
      }
      else
      {
        size_t i = rng.below(m.hs.size());
        m.sw(i);
        dhistStep(*m.hs[i], rng, m.created[i], 5);
        m.watchOthers();
      }
    }
    for (size_t i = 0; i < m.hs.size(); ++i)
    {
      m.sw(i);
      m.hs[i]->battery();
    }
    qViewDag(m, false);
  }
}

// ------------------------------------------------------------------ probes: one scenario per known finding
static void modeProbe(const std::string& which, vt::Rng& rng)
{
  Flags all = {true, true, true, true, true, true, true, true};
  F = all;
  if (which == "leaves-one-son")
  { // 0 -> 1 -> 2 : leaves under 0 = {2}
    TreeH h;
    h.reset(true);
    for (int i = 0; i < 3; ++i) h.createNode();
    h.addSon(0, 1, 0);
    h.addSon(1, 2, 0);
    h.qValid();
    h.qLeaves(h.nodes);
  }
  else if (which == "mrca-ancestor")
  { // 0 -> 1 -> 2 : MRCA{1,2} = 1
    TreeH h;
    h.reset(true);
    for (int i = 0; i < 3; ++i) h.createNode();
    h.addSon(0, 1, 0);
    h.addSon(1, 2, 0);
    h.qValid();
    std::vector<std::vector<unsigned>> s;
    s.push_back({1, 2});
    h.qMrca(s);
  }
  else if (which == "unroot-rootat")
  { // path 0 - 2 - 1 built un-rooted, then rooted at 0
    TreeH h;
    h.reset(true);
    for (int i = 0; i < 3; ++i) h.createNode();
    h.addSon(0, 2, 0);
    h.addSon(2, 1, 0);
    h.rootAt(1);
    h.unRoot(false);
    h.qValid();
    h.rootAt(0);
    h.qValid();
  }
  else if (which == "edge-object")
  { // (A) the object sits on the link that is replaced; (B) it sits on another link
    TreeH h;
    h.reset(true);
    for (int i = 0; i < 3; ++i) h.createNode();
    h.link(0, 1, 1);
    h.link(0, 2, 2);
    h.setFather(2, 1, 2); // (A) must end with object 2 on 1 -> 2 (or be refused, unchanged)
    h.qValid();
    h.setFather(2, 0, 1); // (B) object 1 is on 0 -> 1: must be refused with 2 still below 1
    h.qValid();
    h.setFather(1, 2, 3); // a fresh object
    h.addSon(2, 0, 4);
    h.qValid();
  }
  else if (which == "setroot-cache")
  {
    TreeH h;
    h.reset(true);
    for (int i = 0; i < 2; ++i) h.createNode();
    h.addSon(0, 1, 0);
    h.qValid();
    h.setRoot(1);
    h.qValid();
  }
  else if (which == "reciprocal-tree")
  {
    TreeH h;
    h.reset(true);
    for (int i = 0; i < 2; ++i) h.createNode();
    h.addSon(0, 1, 0);
    h.addSon(1, 0, 0);
    h.qValid();
    h.removeSon(1, 0);
    h.addSon(0, 0, 0);
    h.qValid();
  }
  else if (which == "outgroup")
  { // 0 -> {1, 2}, 1 -> 3 : a root between 3 and its father 1
    TreeH h;
    h.reset(true);
    for (int i = 0; i < 4; ++i) h.createNode();
    h.link(0, 1, 1);
    h.link(0, 2, 2);
    h.link(1, 3, 3);
    h.qValid();
    h.setOutGroup(3);
    h.qValid();
    h.setOutGroup(h.root); // refused
    h.qValid();
  }
  else if (which == "dag-rootat")
  {
    DagH h;
    h.reset(true);
    for (int i = 0; i < 4; ++i) h.createNode();
    h.addSon(0, 1, 1);
    h.addSon(0, 2, 0);
    h.addSon(1, 3, 2);
    h.addSon(2, 3, 0);
    h.battery();
    h.rootAt(3);
    h.battery();
    h.rootAt(1);
    h.battery();
    h.addSon(3, 0, 0); // now cyclic
    h.qValid();
    h.rootAt(2);
    h.battery();
  }
  else if (which == "dag-rooted-cache")
  {
    DagH h;
    h.reset(true);
    for (int i = 0; i < 2; ++i) h.createNode();
    h.addSon(0, 1, 0);
    h.qRooted();
    h.createNode();
    h.qRooted();
    h.addSon(0, 2, 0);
    h.qRooted();
    h.removeSon(0, 2);
    h.qRooted();
  }
  else if (which == "dag-leaves-one-son")
  {
    DagH h;
    h.reset(true);
    for (int i = 0; i < 3; ++i) h.createNode();
    h.addSon(0, 1, 0);
    h.addSon(1, 2, 0);
    h.qValid();
    h.qLeaves();
  }
  (void)rng;
}

// a stack overflow (endless recursion on a cyclic graph believed valid) must
// still end in a Crash line: run the signal handler on its own stack
static void altStack()
{
  static char stack[1 << 16];
  stack_t ss;
  ss.ss_sp = stack;
  ss.ss_size = sizeof stack;
  ss.ss_flags = 0;
  sigaltstack(&ss, nullptr);
  struct sigaction sa;
  memset(&sa, 0, sizeof sa);
  sa.sa_handler = vt::onSignal;
  sa.sa_flags = SA_ONSTACK;
  sigaction(SIGSEGV, &sa, nullptr);
  sigaction(SIGBUS, &sa, nullptr);
}

int main(int argc, char** argv)
{
  std::string out = vt::argStr(argc, argv, "--out", "");
  std::string mode = vt::argStr(argc, argv, "--mode", "shapes");
  if (out.empty() || !vt::tracer().open(out))
  {
    fprintf(stderr, "usage: drv_tree --out FILE --mode shapes|rtrees|hist|digraphs|dhist|probe ...\n");
    return 2;
  }
  vt::installCrashHandlers();
  altStack();
  F.dups = vt::argInt(argc, argv, "--dups", 0) != 0;
  F.uedit = vt::argInt(argc, argv, "--uedit", 0) != 0;
  F.unroot = vt::argInt(argc, argv, "--unroot", 0) != 0;
  F.eobj = vt::argInt(argc, argv, "--eobj", 0) != 0;
  F.anc = vt::argInt(argc, argv, "--anc", 0) != 0;
  F.onechild = vt::argInt(argc, argv, "--onechild", 0) != 0;
  F.outgroup = vt::argInt(argc, argv, "--outgroup", 0) != 0;
  F.dagroot = vt::argInt(argc, argv, "--dagroot", 0) != 0;
  uint64_t seed = vt::envSeed() * 1000003ULL + static_cast<uint64_t>(vt::argInt(argc, argv, "--salt", 0));
  vt::Rng rng(seed);
  g_everyRoot = vt::argInt(argc, argv, "--everyroot", 0) != 0;
  size_t n = static_cast<size_t>(vt::argInt(argc, argv, "--n", 50));
  size_t maxn = static_cast<size_t>(vt::argInt(argc, argv, "--maxn", 5));
  if (mode == "shapes") modeShapes(maxn, rng);
  else if (mode == "rtrees") modeRTrees(n, static_cast<size_t>(vt::argInt(argc, argv, "--lo", 8)), static_cast<size_t>(vt::argInt(argc, argv, "--hi", 12)), rng);
  else if (mode == "hist") modeHist(n, static_cast<size_t>(vt::argInt(argc, argv, "--len", 40)), maxn, rng);
  else if (mode == "cachewalk") modeCacheWalk(n, rng);
  else if (mode == "copies") modeCopies(n, rng);
  else if (mode == "dcopies") modeDCopies(n, rng);
  else if (mode == "digraphs") modeDigraphs(maxn, static_cast<size_t>(vt::argInt(argc, argv, "--loops", 3)), rng);
  else if (mode == "dhist") modeDHist(n, static_cast<size_t>(vt::argInt(argc, argv, "--len", 40)), maxn, rng);
  else if (mode == "probe") modeProbe(vt::argStr(argc, argv, "--which", ""), rng);
  else
  {
    fprintf(stderr, "unknown mode %s\n", mode.c_str());
    return 2;
  }
  long events = vt::tracer().count();
  vt::tracer().close();
  printf("{\"driver\":\"drv_tree\",\"mode\":\"%s\",\"scenarios\":%ld,\"events\":%ld,\"done\":true}\n", mode.c_str(), g_scen, events);
  return 0;
}
