// Parameter audit (hook h1 of /repo, guard BPP_CORE_VERIF): any driver can record what every
// bpp::Parameter of the process - including the ones the library creates internally - looks like
// at the end of each state-changing member.  One line in main():
//
//     vt::installParamAudit();          // does nothing unless the environment names a file
//
// When VERIF_PARAM_AUDIT=<file> is set, one ndjson event per call-out is written to THAT file (never
// to the driver's own trace); spec/Params/ParamAuditTrace.tla is the judge (checks/c01.py).
//
//   {"e":"Audit","o":id,"m":member,"k":"none"|"interval"|"other","c":[L,H,il,iu],"v":code,"ok":0|1,
//    "n":name,"raw":[lo,hi,value]}
//   {"e":"Destroy","o":id}
//   {"e":"Note","t":text}          what the driver is about to call (ignored by the judge)
// member "sweep": before each call-out is processed (every 20 + 4 x live call-outs when more than 64 objects are alive)
// and at exit all live objects are read again, so that a constraint object
// changed in place (which calls no member of Parameter) is seen on every parameter that shares it.
//
// Order codes (same convention as spec/Params/Interval.tla, relative to the constraint's own bounds):
// the finite bounds are the "pool": the smaller one is code 0, the larger one code 4 (equal bounds: both
// 0; a reversed interval has lower bound 4, upper bound 0); infinite bounds are -+1000000.  The value is
// 0 / 4 when it equals a bound, 2 strictly between two bounds (or any finite value when no bound is
// finite), <lowest point> - 2 below, <highest point> + 2 above, -+1000000 when infinite, -999999 for NaN.
// So acceptance is decided by Accepts() on the TLA+ side; "ok" (isCorrect of the attached constraint)
// is logged to be compared with it.
//
// Identity: addresses are mapped to ids that are never reused (a constructor call-out always opens
// a new id, a destructor call-out closes it).  Consecutive call-outs that leave an object's audited
// state unchanged are counted, not written (the judge is a state invariant).  A Reset line every few
// thousand events lets the validator work on chunks in parallel.
#ifndef VERIF_PARAM_AUDIT_H
#define VERIF_PARAM_AUDIT_H

#include <Bpp/Numeric/Constraints.h>
#include <Bpp/Numeric/Parameter.h>

#include <cmath>
#include <cstdio>
#include <cstdlib>
#include <cstring>
#include <map>
#include <string>

namespace vt
{
#ifdef BPP_CORE_VERIF
struct ParamAuditState
{
  FILE* f = nullptr;
  std::map<const bpp::Parameter*, long> ids;
  std::map<long, std::string> lastLogged; // per object: the audited state last written
  long nextId = 1, lastSweep = 0, calls = 0, written = 0, sinceReset = 0, maxEvents = 400000, chunk = 3000;
  bool inside = false;
};
inline ParamAuditState& paramAuditState()
{
  static ParamAuditState s;
  return s;
}
inline void paramAuditReset(ParamAuditState& s)
{
  fputs("{\"e\":\"Reset\"}\n", s.f);
  s.sinceReset = 0;
}
inline long paramAuditCode(double x, bool has0, double p0, bool has4, double p4)
{
  if (x != x) return -999999;
  if (std::isinf(x)) return x > 0 ? 1000000 : -1000000;
  if (!has0) return 2;
  if (x < p0) return -2;
  if (x == p0) return 0;
  if (!has4) return 2;
  if (x < p4) return 2;
  if (x == p4) return 4;
  return 6;
}
inline std::string paramAuditEsc(const std::string& n)
{
  std::string o;
  for (unsigned char c : n)
  {
    if (c == '"' || c == '\\' || c < 0x20 || c >= 0x7f) o += '_';
    else o += static_cast<char>(c);
  }
  return o;
}
// describes object p (id) and writes the event unless its audited state is the one last written
inline void paramAuditWrite(ParamAuditState& s, const bpp::Parameter* p, long id, const char* member, bool force)
{
  // read the object through its public const interface
  double v = p->getValue();
  std::shared_ptr<const bpp::ConstraintInterface> c = p->getConstraint();
  const bpp::IntervalConstraint* ic = c ? dynamic_cast<const bpp::IntervalConstraint*>(c.get()) : nullptr;
  char buf[512];
  if (!c) snprintf(buf, sizeof buf, "\"k\":\"none\",\"c\":[],\"v\":%ld,\"ok\":1,\"raw\":[\"\",\"\",\"%.17g\"]", paramAuditCode(v, false, 0, false, 0), v);
  else if (!ic || ic->getLowerBound() != ic->getLowerBound() || ic->getUpperBound() != ic->getUpperBound())
    snprintf(buf, sizeof buf, "\"k\":\"other\",\"c\":[],\"v\":%ld,\"ok\":%d,\"raw\":[\"\",\"\",\"%.17g\"]", paramAuditCode(v, false, 0, false, 0), c->isCorrect(v) ? 1 : 0, v);
  else
  {
    double lo = ic->getLowerBound(), hi = ic->getUpperBound();
    bool lf = !std::isinf(lo), hf = !std::isinf(hi);
    long L, H;
    bool has0 = lf || hf, has4 = lf && hf && lo != hi;
    double p0 = 0, p4 = 0;
    if (lf && hf)
    {
      p0 = lo < hi ? lo : hi;
      p4 = lo < hi ? hi : lo;
      L = lo <= hi ? 0 : 4;
      H = hi > lo ? 4 : 0;
    }
    else
    {
      p0 = lf ? lo : hi;
      L = lf ? 0 : (lo > 0 ? 1000000 : -1000000);
      H = hf ? 0 : (hi > 0 ? 1000000 : -1000000);
    }
    snprintf(buf, sizeof buf, "\"k\":\"interval\",\"c\":[%ld,%ld,%d,%d],\"v\":%ld,\"ok\":%d,\"raw\":[\"%.17g\",\"%.17g\",\"%.17g\"]", L, H,
             ic->strictLowerBound() ? 0 : 1, ic->strictUpperBound() ? 0 : 1, paramAuditCode(v, has0, p0, has4, p4), ic->isCorrect(v) ? 1 : 0, lo, hi, v);
  }
  // the audited state without the raw part decides whether the event says anything new
  std::string key(buf, strstr(buf, ",\"raw\"") ? static_cast<size_t>(strstr(buf, ",\"raw\"") - buf) : strlen(buf));
  auto ll = s.lastLogged.find(id);
  if (force || ll == s.lastLogged.end() || ll->second != key)
  {
    if (s.written < s.maxEvents)
    {
      if (s.sinceReset >= s.chunk) paramAuditReset(s);
      fprintf(s.f, "{\"e\":\"Audit\",\"o\":%ld,\"m\":\"%s\",%s,\"n\":\"%s\"}\n", id, member, buf, paramAuditEsc(p->getName()).c_str());
      ++s.written;
      ++s.sinceReset;
      s.lastLogged[id] = key;
      if ((s.written & 255) == 0) fflush(s.f);
    }
  }
}
// objects whose constraint object was changed in place (no member of Parameter is called then) are caught by
// re-reading every live object now and then: member "sweep"
inline void paramAuditSweep(ParamAuditState& s, const bpp::Parameter* skip = nullptr)
{
  if (s.ids.size() > 20000) return;
  for (const auto& kv : s.ids)
    if (kv.first != skip) paramAuditWrite(s, kv.first, kv.second, "sweep", false);
}
inline void paramAuditHandler(const bpp::Parameter* p, const char* member)
{
  ParamAuditState& s = paramAuditState();
  if (!s.f || s.inside) return;
  s.inside = true;
  ++s.calls;
  // first look at what happened since the last call-out without one (constraint objects changed in place): every
  // time while few objects are alive, amortised to a quarter of an object read per call-out otherwise
  if (s.ids.size() <= 64 || s.calls - s.lastSweep >= 20 + 4 * static_cast<long>(s.ids.size()))
  {
    s.lastSweep = s.calls;
    paramAuditSweep(s, p); // the object of this call-out is written below under the member's own name
  }
  bool ctor = strcmp(member, "ctor") == 0 || strcmp(member, "copy") == 0;
  bool dtor = strcmp(member, "destroy") == 0;
  auto it = s.ids.find(p);
  if (dtor)
  {
    if (it != s.ids.end())
    {
      if (s.written < s.maxEvents)
      {
        if (s.sinceReset >= s.chunk) paramAuditReset(s);
        fprintf(s.f, "{\"e\":\"Destroy\",\"o\":%ld}\n", it->second);
        ++s.written;
        ++s.sinceReset;
      }
      s.lastLogged.erase(it->second);
      s.ids.erase(it);
    }
    s.inside = false;
    return;
  }
  long id;
  if (ctor || it == s.ids.end())
  {
    id = s.nextId++;
    s.ids[p] = id;
  }
  else id = it->second;
  paramAuditWrite(s, p, id, member, ctor);
  s.inside = false;
}
inline void paramAuditClose()
{
  ParamAuditState& s = paramAuditState();
  if (!s.f) return;
  bpp::parameterAuditHook = nullptr;
  paramAuditSweep(s);
  fprintf(s.f, "{\"e\":\"End\",\"calls\":%ld,\"written\":%ld,\"objects\":%ld}\n", s.calls, s.written, s.nextId - 1);
  fclose(s.f);
  s.f = nullptr;
}
#endif

// A free-text line in the audit file (the call the driver is about to make): ignored by the judge, but it makes
// the prefix of a rejected audit event readable.
inline void paramAuditNote(const std::string& text)
{
#ifdef BPP_CORE_VERIF
  ParamAuditState& s = paramAuditState();
  if (!s.f || s.written >= s.maxEvents) return;
  fprintf(s.f, "{\"e\":\"Note\",\"t\":\"%s\"}\n", paramAuditEsc(text).c_str());
  fflush(s.f); // the call announced may crash
  ++s.written;
  ++s.sinceReset;
#else
  (void)text;
#endif
}
// Starts a new chunk (scenario boundary chosen by the driver).
inline void paramAuditScenario()
{
#ifdef BPP_CORE_VERIF
  ParamAuditState& s = paramAuditState();
  if (s.f && s.written < s.maxEvents) paramAuditReset(s);
#endif
}

// Installs the handler when VERIF_PARAM_AUDIT names a file; otherwise (or when the library was built
// without the hook) does nothing.
inline void installParamAudit()
{
#ifdef BPP_CORE_VERIF
  const char* path = getenv("VERIF_PARAM_AUDIT");
  if (!path || !*path) return;
  ParamAuditState& s = paramAuditState();
  if (s.f) return;
  s.f = fopen(path, "w");
  if (!s.f) return;
  const char* mx = getenv("VERIF_PARAM_AUDIT_MAX");
  if (mx) s.maxEvents = atol(mx);
  paramAuditReset(s);
  bpp::parameterAuditHook = &paramAuditHandler;
  atexit(paramAuditClose);
#endif
}
} // namespace vt
#endif
