// Conformance driver for C12: Two/Three/FivePointsNumericalDerivative wrapped
// around a harness-supplied polynomial Function that logs everything it is
// told (fireParameterChanged -> Move, getValue -> Eval, enable*Derivatives ->
// Der).  The driver only produces and encodes observations; the judge is
// spec/NumDeriv/NumDerivTrace.tla.
//
//   drv_numderiv --out F --mode random --n N     seeded random scenarios
//   drv_numderiv --out F --mode grid --nvmax K   exhaustive small scope: scheme x selection/order x cross x
//                                                bound situation, every update entry point in each scenario
//   drv_numderiv --out F --mode stale            dedicated probe of the known finding (partial update)
//
// Encoding (E3): the wrapper's interval is h = 2^-m; one trace unit is 2^-(m+6);
// requested coordinates are multiples of 1/2 in [-4,4] (= k * up units, up = 2^(m+5));
// the code's probe step (1+|x|)*h is 32*(2+|k|) units, so x +- 2h, +-h, +-h/2 .. +-h/32
// (the smallest steps the retry loops can reach) are integers.  Function / derivative values are numerators over 2^5.
// Every evaluation is recomputed in exact dyadic arithmetic; an update in which
// some evaluation was rounded (or whose values do not fit a common 53-bit window
// with 7 bits of headroom for the sums of the difference formulas) is flagged exact=false and the specification
// skips the value comparisons for it (counted in the summary).
#include "tracer.h"
#include "param_audit.h"

#include <Bpp/Exceptions.h>
#include <Bpp/Numeric/AbstractParametrizable.h>
#include <Bpp/Numeric/Constraints.h>
#include <Bpp/Numeric/Function/FivePointsNumericalDerivative.h>
#include <Bpp/Numeric/Function/Functions.h>
#include <Bpp/Numeric/Function/ThreePointsNumericalDerivative.h>
#include <Bpp/Numeric/Function/TwoPointsNumericalDerivative.h>

#include <algorithm>
#include <cmath>
#include <memory>

using namespace vt;

static bool g_quiet = true;   // true while the driver itself looks at the objects
static bool g_exact = true;   // every evaluation since the last Update was exact
static int g_minE = 1000, g_maxMsb = -1000; // lowest / highest bit position of the values evaluated in this update
static int g_bits = 12;       // trace unit = 2^-g_bits
static long g_deleg = 0;      // calls of the wrapped function's own derivative methods
static long g_inexactUpdates = 0, g_updates = 0, g_queries = 0, g_assertedQueries = 0;

// ---------------------------------------------------------------- exact dyadic arithmetic
struct Dy
{
  __int128 m; // odd or 0
  int e;      // value = m * 2^e
  bool ovf;
};
static int blen(__int128 x)
{
  if (x < 0) x = -x;
  int n = 0;
  while (x)
  {
    ++n;
    x >>= 1;
  }
  return n;
}
static Dy norm(Dy a)
{
  if (a.ovf) return a;
  if (a.m == 0)
  {
    a.e = 0;
    return a;
  }
  while ((a.m & 1) == 0)
  {
    a.m >>= 1;
    ++a.e;
  }
  return a;
}
static Dy mul(Dy a, Dy b)
{
  Dy r{0, 0, a.ovf || b.ovf};
  if (r.ovf) return r;
  if (blen(a.m) + blen(b.m) > 120)
  {
    r.ovf = true;
    return r;
  }
  r.m = a.m * b.m;
  r.e = a.e + b.e;
  return norm(r);
}
static Dy add(Dy a, Dy b)
{
  Dy r{0, 0, a.ovf || b.ovf};
  if (r.ovf) return r;
  if (a.m == 0) return b;
  if (b.m == 0) return a;
  if (a.e < b.e) std::swap(a, b); // a has the larger exponent
  int d = a.e - b.e;
  if (blen(a.m) + d > 120)
  {
    r.ovf = true;
    return r;
  }
  r.m = (a.m << d) + b.m;
  r.e = b.e;
  return norm(r);
}
static Dy fromDouble(double x)
{
  // every coordinate the function can sit at is a small dyadic; decompose exactly
  int ex;
  double f = std::frexp(x, &ex); // x = f * 2^ex, 0.5 <= |f| < 1
  long long mant = static_cast<long long>(std::ldexp(f, 53));
  return norm(Dy{static_cast<__int128>(mant), ex - 53, false});
}
static bool sameAsDouble(Dy a, double v)
{
  if (a.ovf) return false;
  if (a.m == 0) return v == 0.0;
  if (blen(a.m) > 53) return false;
  return std::ldexp(static_cast<double>(static_cast<long long>(a.m)), a.e) == v;
}

struct Term
{
  int coef;
  std::vector<int> e;
};

static std::string vname(size_t v) { return "x" + std::to_string(v + 1); }

// ---------------------------------------------------------------- the wrapped function
class PolyFn : public virtual bpp::SecondOrderDerivable, public bpp::AbstractParametrizable
{
public:
  size_t nv;
  std::vector<Term> terms;
  bool matchMode;
  bool en1, en2;
  std::vector<double> d1c;
  std::vector<std::vector<double>> d2c;

  PolyFn(size_t n, const std::vector<Term>& t, const std::vector<double>& p0,
         const std::vector<std::shared_ptr<bpp::ConstraintInterface>>& cons, bool match) :
    bpp::AbstractParametrizable(""), nv(n), terms(t), matchMode(match), en1(true), en2(true), d1c(n, 0.), d2c(n, std::vector<double>(n, 0.))
  {
    for (size_t v = 0; v < nv; ++v)
    {
      if (cons[v])
        addParameter_(new bpp::Parameter(vname(v), p0[v], cons[v]));
      else
        addParameter_(new bpp::Parameter(vname(v), p0[v]));
    }
    recompute();
  }
  PolyFn* clone() const override { return new PolyFn(*this); }

  std::vector<double> pos() const
  {
    std::vector<double> x(nv);
    for (size_t v = 0; v < nv; ++v) x[v] = getParameterValue(vname(v));
    return x;
  }
  static double ipow(double x, int e)
  {
    double r = 1.;
    for (int i = 0; i < e; ++i) r *= x;
    return r;
  }
  double mono(const std::vector<double>& x, const std::vector<int>& e) const
  {
    double r = 1.;
    for (size_t v = 0; v < nv; ++v) r *= ipow(x[v], e[v]);
    return r;
  }
  void recompute()
  {
    std::vector<double> x = pos();
    if (en1)
      for (size_t v = 0; v < nv; ++v)
      {
        double s = 0;
        for (const Term& t : terms)
        {
          if (t.e[v] == 0) continue;
          std::vector<int> e = t.e;
          --e[v];
          s += t.coef * t.e[v] * mono(x, e);
        }
        d1c[v] = s;
      }
    if (en2)
      for (size_t v = 0; v < nv; ++v)
        for (size_t w = 0; w < nv; ++w)
        {
          double s = 0;
          for (const Term& t : terms)
          {
            std::vector<int> e = t.e;
            int f = e[v];
            if (f == 0) continue;
            --e[v];
            f *= e[w];
            if (f == 0) continue;
            --e[w];
            s += t.coef * f * mono(x, e);
          }
          d2c[v][w] = s;
        }
  }

  // ---- FunctionInterface
  void setParameters(const bpp::ParameterList& pl) override
  {
    if (matchMode)
      matchParametersValues(pl);
    else
      setParametersValues(pl);
  }
  double getValue() const override
  {
    std::vector<double> x = pos();
    double s = 0;
    Dy ex{0, 0, false};
    for (const Term& t : terms)
    {
      s += t.coef * mono(x, t.e);
      Dy m = norm(Dy{t.coef, 0, false});
      for (size_t v = 0; v < nv; ++v)
        for (int i = 0; i < t.e[v]; ++i) m = mul(m, fromDouble(x[v]));
      ex = add(ex, m);
    }
    if (!g_quiet)
    {
      if (!sameAsDouble(ex, s)) g_exact = false;
      if (!ex.ovf && ex.m != 0)
      {
        g_minE = std::min(g_minE, ex.e);
        g_maxMsb = std::max(g_maxMsb, ex.e + blen(ex.m));
      }
      tracer().emit(Obj().kv("e", "Eval").kv("p", enc(x)));
    }
    return s;
  }
  void fireParameterChanged(const bpp::ParameterList&) override
  {
    recompute();
    if (!g_quiet) tracer().emit(Obj().kv("e", "Move").kv("p", enc(pos())));
  }
  static Arr enc(const std::vector<double>& x)
  {
    Arr a;
    for (double c : x)
    {
      bool ok = true;
      long long k = dyadic(c, g_bits, ok);
      a.add(ok ? k : 999999999LL); // off the scale: outside every box, no step explains it
    }
    return a;
  }

  // ---- derivatives of the wrapped function itself (the delegation targets)
  // a function that provides derivatives: from the moment they are switched on they refer to the current point
  void enableFirstOrderDerivatives(bool yn) override
  {
    bool was = en1;
    en1 = yn;
    if (yn && !was) recompute();
    if (!g_quiet) tracer().emit(Obj().kv("e", "Der").kv("k", 1).kv("on", yn));
  }
  bool enableFirstOrderDerivatives() const override { return en1; }
  void enableSecondOrderDerivatives(bool yn) override
  {
    bool was = en2;
    en2 = yn;
    if (yn && !was) recompute();
    if (!g_quiet) tracer().emit(Obj().kv("e", "Der").kv("k", 2).kv("on", yn));
  }
  bool enableSecondOrderDerivatives() const override { return en2; }
  size_t idx(const std::string& n) const
  {
    for (size_t v = 0; v < nv; ++v)
      if (vname(v) == n) return v;
    throw bpp::Exception("PolyFn: unknown variable " + n);
  }
  double getFirstOrderDerivative(const std::string& variable) const override
  {
    ++g_deleg;
    if (!en1) throw bpp::Exception("PolyFn: first order derivatives are not computed.");
    return d1c[idx(variable)];
  }
  double getSecondOrderDerivative(const std::string& variable) const override
  {
    ++g_deleg;
    if (!en2) throw bpp::Exception("PolyFn: second order derivatives are not computed.");
    size_t v = idx(variable);
    return d2c[v][v];
  }
  double getSecondOrderDerivative(const std::string& variable1, const std::string& variable2) const override
  {
    ++g_deleg;
    if (!en2) throw bpp::Exception("PolyFn: second order derivatives are not computed.");
    return d2c[idx(variable1)][idx(variable2)];
  }
};

// ---------------------------------------------------------------- one scenario
struct Box
{
  bool hasLo = false, hasHi = false, li = true, ui = true;
  double lo = 0, hi = 0;
};

struct Scenario
{
  int scheme = 3;
  size_t nv = 2;
  int m = 7;   // interval h = 2^-m
  int fk = 2;  // 0 plain Function, 1 FirstOrderDerivable, 2 SecondOrderDerivable
  bool match = false;
  std::vector<Term> terms;
  std::vector<Box> box;
  std::vector<long> k0; // initial point, halves
  std::shared_ptr<PolyFn> fn;
  std::unique_ptr<bpp::AbstractNumericalDerivative> w;
  // driver-side bookkeeping
  std::vector<size_t> sel;
  bool cross = false, d1 = true;
  std::vector<bool> fresh;
  bool ready = false;
  bool lastExact = true;

  double hOf(long k) const { return (1. + std::abs(k / 2.)) * std::ldexp(1., -m); }
  long long unitsOf(double x) const
  {
    bool ok = true;
    long long r = dyadic(x, g_bits, ok);
    return ok ? r : 999999999LL;
  }

  void start()
  {
    g_bits = m + 6;
    g_quiet = true;
    std::vector<std::shared_ptr<bpp::ConstraintInterface>> cons(nv);
    std::vector<double> p0(nv);
    Arr lo, hi, li, ui, p0a;
    for (size_t v = 0; v < nv; ++v)
    {
      const Box& b = box[v];
      p0[v] = k0[v] / 2.;
      if (b.hasLo || b.hasHi)
        cons[v] = std::make_shared<bpp::IntervalConstraint>(b.hasLo ? b.lo : -1e9, b.hasHi ? b.hi : 1e9, b.hasLo ? b.li : true, b.hasHi ? b.ui : true);
      lo.add(b.hasLo ? unitsOf(b.lo) : -(1LL << 30));
      hi.add(b.hasHi ? unitsOf(b.hi) : (1LL << 30));
      li.add(b.hasLo ? b.li : true);
      ui.add(b.hasHi ? b.ui : true);
      p0a.add(unitsOf(p0[v]));
    }
    fn = std::make_shared<PolyFn>(nv, terms, p0, cons, match);
    if (scheme == 2)
    {
      if (fk >= 1)
        w.reset(new bpp::TwoPointsNumericalDerivative(std::shared_ptr<bpp::FirstOrderDerivable>(fn)));
      else
        w.reset(new bpp::TwoPointsNumericalDerivative(std::shared_ptr<bpp::FunctionInterface>(fn)));
    }
    else if (scheme == 3)
    {
      if (fk == 2)
        w.reset(new bpp::ThreePointsNumericalDerivative(std::shared_ptr<bpp::SecondOrderDerivable>(fn)));
      else if (fk == 1)
        w.reset(new bpp::ThreePointsNumericalDerivative(std::shared_ptr<bpp::FirstOrderDerivable>(fn)));
      else
        w.reset(new bpp::ThreePointsNumericalDerivative(std::shared_ptr<bpp::FunctionInterface>(fn)));
    }
    else
    {
      if (fk == 2)
        w.reset(new bpp::FivePointsNumericalDerivative(std::shared_ptr<bpp::SecondOrderDerivable>(fn)));
      else if (fk == 1)
        w.reset(new bpp::FivePointsNumericalDerivative(std::shared_ptr<bpp::FirstOrderDerivable>(fn)));
      else
        w.reset(new bpp::FivePointsNumericalDerivative(std::shared_ptr<bpp::FunctionInterface>(fn)));
    }
    w->setInterval(std::ldexp(1., -m));
    Arr poly;
    for (const Term& t : terms) poly.add(Arr().add(t.coef).add(arrOf(t.e)));
    sel.clear();
    cross = false;
    d1 = true;
    fresh.assign(nv, false);
    ready = false;
    tracer().emit(Obj().kv("e", "Reset").kv("scheme", scheme).kv("nv", nv).kv("lo", lo).kv("hi", hi).kv("li", li).kv("ui", ui)
                    .kv("fk", fk).kv("hm", 32).kv("c", 2).kv("up", 1LL << (m + 5)).kv("dmax", 5).kv("poly", poly).kv("p0", p0a)
                    .kv("m", m).kv("match", match));
  }

  void config(const std::vector<size_t>& s, bool cr, bool dd)
  {
    sel = s;
    cross = cr;
    d1 = dd;
    std::vector<std::string> names;
    Arr sa;
    for (size_t v : s)
    {
      names.push_back(vname(v));
      sa.add(v + 1);
    }
    g_quiet = true;
    w->setParametersToDerivate(names);
    w->enableSecondOrderCrossDerivatives(cr);
    w->enableFirstOrderDerivatives(dd);
    ready = false;
    fresh.assign(nv, false);
    tracer().emit(Obj().kv("e", "Config").kv("sel", sa).kv("cross", cr).kv("d1", dd));
  }

  bool inBox(size_t v, double x) const
  {
    const Box& b = box[v];
    if (b.hasLo && (b.li ? x < b.lo : x <= b.lo)) return false;
    if (b.hasHi && (b.ui ? x > b.hi : x >= b.hi)) return false;
    return true;
  }

  // entry: set | setall | setone | match | f ; vars/ks: the requested halves; copyMode: build the list from the
  // function's own (constrained) parameters where possible; extra: add a name the function does not have (match)
  std::string update(const std::string& entry, const std::vector<size_t>& vars, const std::vector<long>& ks, bool copyMode, bool extra)
  {
    bpp::ParameterList pl;
    Arr asg;
    for (size_t i = 0; i < vars.size(); ++i)
    {
      double x = ks[i] / 2.;
      asg.add(Arr().add(vars[i] + 1).add(unitsOf(x)));
      if (copyMode && inBox(vars[i], x))
      {
        bpp::Parameter p(fn->parameter(vname(vars[i])));
        p.setValue(x);
        pl.addParameter(p);
      }
      else
        pl.addParameter(bpp::Parameter(vname(vars[i]), x));
    }
    if (extra) pl.addParameter(bpp::Parameter("nosuch", 1.5));
    tracer().emit(Obj().kv("e", "Update").kv("entry", entry).kv("asg", asg).kv("copy", copyMode).kv("extra", extra));
    g_exact = true;
    g_minE = 1000;
    g_maxMsb = -1000;
    g_quiet = false;
    double rv = 0;
    bool haveRv = false;
    std::string out = outcome<bpp::Exception>([&]() {
      if (entry == "set") w->setParameters(pl);
      else if (entry == "setall") w->setAllParametersValues(pl);
      else if (entry == "setone") w->setParameterValue(vname(vars[0]), ks[0] / 2.);
      else if (entry == "match") w->matchParametersValues(pl);
      else
      {
        rv = w->f(pl);
        haveRv = true;
      }
    });
    g_quiet = true;
    // the difference formulas form sums like -f1+16f2-30f3+16f4-f5 before dividing: they are exact only if all
    // values of the update fit a common 53-bit window with 7 bits of headroom
    if (g_maxMsb > -1000 && g_maxMsb - g_minE + 7 > 53) g_exact = false;
    ++g_updates;
    if (!g_exact) ++g_inexactUpdates;
    double wv = w->getValue();
    bool ok1 = true, ok2 = true;
    long long wvn = dyadic(wv, 5, ok1);
    long long rvn = haveRv ? dyadic(rv, 5, ok2) : wvn;
    // the value returned by f() must be the reported value too: a mismatch is logged as "not on the scale"
    bool wvok = ok1 && ok2 && rvn == wvn;
    tracer().emit(Obj().kv("e", "Return").kv("out", out).kv("fp", PolyFn::enc(fn->pos())).kv("wv", ok1 ? wvn : 0).kv("wvok", wvok)
                    .kv("exact", g_exact));
    if (out == "ok")
    {
      bool all = true;
      std::vector<bool> in(nv, false);
      for (size_t v : vars) in[v] = true;
      for (size_t v = 0; v < nv; ++v)
        if (!in[v]) all = false;
      // derivatives of selected variables that were not in the list are not refreshed by the code (known finding)
      for (size_t v = 0; v < nv; ++v) fresh[v] = all || in[v];
      ready = true;
      lastExact = g_exact;
    }
    else if (out != "ok")
    {
      // refused updates change nothing; an update that raised half-way leaves no derivatives to ask for
      bool refused = false;
      for (size_t i = 0; i < vars.size(); ++i)
        if (!inBox(vars[i], ks[i] / 2.)) refused = true;
      if (!refused) ready = false;
    }
    return out;
  }

  bool isSel(size_t v) const { return std::find(sel.begin(), sel.end(), v) != sel.end(); }

  // k: "D1" | "D2" | "X"
  void query(const std::string& k, size_t v, size_t wv2, bool staleProbe = false)
  {
    double val = 0;
    g_deleg = 0;
    g_quiet = true;
    std::string out = outcome<bpp::Exception>([&]() {
      if (k == "D1") val = w->getFirstOrderDerivative(vname(v));
      else if (k == "D2") val = w->getSecondOrderDerivative(vname(v));
      else val = w->getSecondOrderDerivative(vname(v), vname(wv2));
    });
    bool ok = out == "ok";
    long long n = ok ? dyadic(val, 5, ok) : 0;
    ++g_queries;
    if (lastExact) ++g_assertedQueries;
    Obj o;
    o.kv("e", "Query").kv("k", k).kv("v", v + 1).kv("w", k == "X" ? static_cast<long long>(wv2 + 1) : 0LL).kv("out", out)
      .kv("val", ok ? n : 0).kv("vok", ok).kv("deleg", g_deleg > 0).kv("exact", lastExact);
    if (staleProbe) o.kv("stale", true);
    tracer().emit(o);
  }

  bool canAsk(size_t v) const { return !isSel(v) || fresh[v]; }
  // all queries the main scenarios may make after a successful update
  void queryAll(Rng* rng)
  {
    if (!ready || !d1) return;
    for (size_t v = 0; v < nv; ++v)
    {
      if (!canAsk(v)) continue;
      if (!rng || rng->chance(2, 3)) query("D1", v, 0);
      if (!rng || rng->chance(2, 3)) query("D2", v, 0);
      for (size_t u = 0; u < nv; ++u)
      {
        if (!canAsk(u)) continue;
        // a cross derivative of a selected with a non-selected variable is delegated: always current
        if (!rng || rng->chance(1, 3)) query("X", v, u);
      }
    }
  }
};

// ---------------------------------------------------------------- generators
static const double DIST[] = {0., 1. / 16, 0.5, 0.75, 1., 1.5, 2., 2.5};

static std::vector<Term> randomPoly(Rng& r, size_t nv, int deg)
{
  std::vector<Term> ts;
  size_t nt = 1 + r.below(5);
  for (size_t i = 0; i < nt; ++i)
  {
    Term t;
    t.coef = static_cast<int>(r.range(1, 3)) * (r.coin() ? 1 : -1);
    t.e.assign(nv, 0);
    int d = (i == 0) ? deg : static_cast<int>(r.range(0, deg));
    for (int j = 0; j < d; ++j) ++t.e[r.below(nv)];
    ts.push_back(t);
  }
  return ts;
}

static void randomScenario(Rng& r, long& sc)
{
  Scenario s;
  static const int SCH[] = {2, 3, 5};
  s.scheme = SCH[r.below(3)];
  s.nv = 1 + r.below(4);
  s.fk = s.scheme == 2 ? static_cast<int>(r.below(2)) : static_cast<int>(r.below(3));
  s.match = r.coin();
  int deg = static_cast<int>(r.range(0, 5));
  s.terms = randomPoly(r, s.nv, deg);
  int dv = 1;
  for (const Term& t : s.terms)
    for (int e : t.e) dv = std::max(dv, e);
  static const int MS[] = {5, 6, 7, 8, 10, 12, 14, 17, 20};
  int mmax = 32 / dv - 1;
  s.m = MS[r.below(9)];
  if (s.m > mmax && r.chance(3, 4))
  {
    // keep the evaluations exactly representable (E3): larger dyadic step for higher degrees
    std::vector<int> okm;
    for (int mm : MS)
      if (mm <= mmax) okm.push_back(mm);
    if (!okm.empty()) s.m = okm[r.below(okm.size())];
  }
  s.k0.resize(s.nv);
  s.box.resize(s.nv);
  for (size_t v = 0; v < s.nv; ++v)
  {
    long k = r.range(-8, 8);
    s.k0[v] = k;
    Box& b = s.box[v];
    double x = k / 2., h = s.hOf(k);
    size_t kind = r.below(20);
    if (kind < 7) continue; // unconstrained
    if (kind == 7)
    {
      // pinned: a single admissible value
      b.hasLo = b.hasHi = true;
      b.lo = b.hi = x;
      continue;
    }
    if (kind < 14 || kind >= 17)
    {
      b.hasLo = true;
      double d = DIST[r.below(8)] * h;
      b.lo = x - 0.5 * static_cast<double>(r.below(3)) * (r.coin() ? 1 : 0) - d;
      b.li = (d == 0. && b.lo == x) ? true : r.coin();
    }
    if (kind >= 11)
    {
      b.hasHi = true;
      double d = DIST[r.below(8)] * h;
      b.hi = x + 0.5 * static_cast<double>(r.below(3)) * (r.coin() ? 1 : 0) + d;
      b.ui = (d == 0. && b.hi == x) ? true : r.coin();
    }
  }
  s.start();
  ++sc;
  auto pickK = [&](size_t v) -> long {
    size_t c = r.below(20);
    if (c < 9) return s.k0[v];
    if (c < 15)
    {
      // an admissible half next to one of the bounds
      std::vector<long> adm;
      for (long k = -8; k <= 8; ++k)
        if (s.inBox(v, k / 2.)) adm.push_back(k);
      if (!adm.empty()) return r.coin() ? adm.front() : adm.back();
    }
    return r.range(-8, 8);
  };
  auto randomSel = [&]() {
    std::vector<size_t> all;
    for (size_t v = 0; v < s.nv; ++v) all.push_back(v);
    for (size_t i = all.size(); i > 1; --i) std::swap(all[i - 1], all[r.below(i)]);
    size_t n = r.chance(1, 8) ? 0 : 1 + r.below(s.nv);
    all.resize(n);
    return all;
  };
  s.config(randomSel(), r.chance(2, 5), true);
  {
    std::vector<size_t> vars;
    std::vector<long> ks;
    for (size_t v = 0; v < s.nv; ++v)
    {
      vars.push_back(v);
      ks.push_back(s.k0[v]);
    }
    s.update("setall", vars, ks, r.coin(), false);
    s.queryAll(&r);
  }
  size_t ops = 4 + r.below(9);
  for (size_t i = 0; i < ops; ++i)
  {
    if (r.chance(1, 5))
    {
      s.config(randomSel(), r.chance(2, 5), !r.chance(1, 8));
      continue;
    }
    static const char* EN[] = {"set", "setall", "setone", "match", "f"};
    std::string entry = EN[r.below(5)];
    std::vector<size_t> vars;
    for (size_t v = 0; v < s.nv; ++v) vars.push_back(v);
    for (size_t j = vars.size(); j > 1; --j) std::swap(vars[j - 1], vars[r.below(j)]);
    if (entry == "setone") vars.resize(1);
    else if (entry != "setall" && r.coin()) vars.resize(1 + r.below(s.nv));
    std::vector<long> ks;
    for (size_t v : vars) ks.push_back(pickK(v));
    s.update(entry, vars, ks, r.coin(), entry == "match" && r.chance(1, 3));
    s.queryAll(&r);
  }
}

// exhaustive small scope: every scheme x selection (subset and order) x cross x bound situation;
// each scenario goes through all five update entry points
static void gridScenarios(long nvmax, long& sc)
{
  struct BC
  {
    double l, r; // distance of the lower / upper bound from the point in units of h, <0: no bound
    int who;     // which selected variable carries the box: 0 = first, 1 = second (middle of the restore chain)
  };
  static const BC BCS[] = {{-1, -1, 0}, {0, -1, 0}, {0.75, -1, 0}, {1.5, -1, 0}, {-1, 0, 0}, {-1, 0.75, 0}, {-1, 1.5, 0},
                           {0.75, 0.75, 0}, {0, 0, 0}, {0, 0, 1}, {0.75, 0.75, 1}, {1.5, 1.5, 0}};
  for (int scheme : {2, 3, 5})
    for (size_t nv = 2; nv <= static_cast<size_t>(nvmax); ++nv)
    {
      // all ordered selections
      std::vector<std::vector<size_t>> sels;
      sels.push_back({});
      std::vector<size_t> idx;
      for (size_t v = 0; v < nv; ++v) idx.push_back(v);
      for (size_t mask = 1; mask < (1u << nv); ++mask)
      {
        std::vector<size_t> sub;
        for (size_t v = 0; v < nv; ++v)
          if (mask & (1u << v)) sub.push_back(v);
        std::sort(sub.begin(), sub.end());
        do sels.push_back(sub);
        while (std::next_permutation(sub.begin(), sub.end()));
      }
      for (const auto& sel : sels)
        for (int cr = 0; cr < (scheme == 3 ? 2 : 1); ++cr)
          for (const BC& bc : BCS)
          {
            if (bc.who == 1 && sel.size() < 3) continue;
            if (sel.empty() && (bc.l >= 0 || bc.r >= 0)) continue;
            Scenario s;
            s.scheme = scheme;
            s.nv = nv;
            s.m = 7;
            s.fk = scheme == 2 ? 1 : 2;
            s.match = (sc % 2) == 1;
            // products couple the variables (a probe made with another variable still perturbed gives a wrong value),
            // squares exercise the second derivatives
            s.terms = {{1, {}}, {1, {}}, {2, {}}, {-1, {}}, {3, {}}};
            for (Term& t : s.terms) t.e.assign(nv, 0);
            s.terms[0].e[0] = 2; s.terms[0].e[1] = 1;        // x1^2 x2
            s.terms[1].e[0] = 1; s.terms[1].e[1] = 1;        // x1 x2
            s.terms[2].e[1] = 2;                             // 2 x2^2
            s.terms[3].e[0] = 1;                             // -x1
            if (nv >= 3)
            {
              Term a{1, std::vector<int>(nv, 0)}, b{-2, std::vector<int>(nv, 0)};
              a.e[2] = 1; a.e[0] = 1;                        // x3 x1
              b.e[2] = 2; b.e[1] = 1;                        // -2 x3^2 x2
              s.terms.push_back(a);
              s.terms.push_back(b);
            }
            s.k0 = {2, -3, 1, 4};
            s.k0.resize(nv);
            s.box.assign(nv, Box());
            if (!sel.empty())
            {
              size_t bv = sel[bc.who == 1 ? 1 : 0];
              double x = s.k0[bv] / 2., h = s.hOf(s.k0[bv]);
              if (bc.l >= 0)
              {
                s.box[bv].hasLo = true;
                s.box[bv].lo = x - bc.l * h;
              }
              if (bc.r >= 0)
              {
                s.box[bv].hasHi = true;
                s.box[bv].hi = x + bc.r * h;
              }
            }
            s.start();
            ++sc;
            s.config(sel, cr == 1, true);
            std::vector<size_t> all;
            std::vector<long> ks;
            for (size_t v = 0; v < nv; ++v)
            {
              all.push_back(v);
              ks.push_back(s.k0[v]);
            }
            s.update("setall", all, ks, true, false);
            s.queryAll(nullptr);
            // a free variable (no box) moves by one half in the later updates
            size_t fv = nv - 1;
            for (size_t v = 0; v < nv; ++v)
              if (!s.box[v].hasLo && !s.box[v].hasHi) fv = v;
            bool freeOk = !s.box[fv].hasLo && !s.box[fv].hasHi;
            std::vector<long> k2 = ks;
            if (freeOk) k2[fv] += 1;
            s.update("set", all, k2, false, false);
            s.queryAll(nullptr);
            s.update("setone", {fv}, {ks[fv]}, false, false);
            s.queryAll(nullptr);
            std::vector<size_t> rev(all.rbegin(), all.rend());
            std::vector<long> k3(k2.rbegin(), k2.rend());
            s.update("match", rev, k3, true, true);
            s.queryAll(nullptr);
            s.update("f", all, ks, false, false);
            s.queryAll(nullptr);
            if (!sel.empty())
            {
              s.update("set", {sel[0]}, {ks[sel[0]]}, true, false);
              s.queryAll(nullptr);
            }
          }
    }
}

// the known finding: a selected variable that is not in the update list keeps the derivative of the previous point
static void staleProbe(long& sc)
{
  for (int scheme : {2, 3, 5})
  {
    Scenario s;
    s.scheme = scheme;
    s.nv = 2;
    s.m = 7;
    s.fk = 0;
    s.terms = {{1, {1, 1}}};
    s.k0 = {2, 2};
    s.box.assign(2, Box());
    s.start();
    ++sc;
    s.config({0, 1}, false, true);
    s.update("setall", {0, 1}, {2, 2}, false, false);
    s.query("D1", 1, 0);
    s.update("setone", {0}, {4}, false, false);
    s.query("D1", 0, 0);
    s.query("D1", 1, 0, true); // d/dx2 (x1 x2) = x1 = 2 now; the wrapper still holds 1
  }
}

int main(int argc, char** argv)
{
  vt::installParamAudit(); // C01: audit of every Parameter of the process when VERIF_PARAM_AUDIT=<file> is set
  std::string out = argStr(argc, argv, "--out", "");
  std::string mode = argStr(argc, argv, "--mode", "random");
  long n = argInt(argc, argv, "--n", 100);
  long nvmax = argInt(argc, argv, "--nvmax", 2);
  if (out.empty() || !tracer().open(out))
  {
    fprintf(stderr, "drv_numderiv: cannot open --out\n");
    return 2;
  }
  installCrashHandlers();
  uint64_t seed = envSeed();
  long sc = 0;
  if (mode == "random")
  {
    for (long i = 0; i < n; ++i)
    {
      Rng r(seed * 1000003ULL + static_cast<uint64_t>(i) * 7919ULL + 12);
      randomScenario(r, sc);
    }
  }
  else if (mode == "grid")
    gridScenarios(nvmax, sc);
  else if (mode == "stale")
    staleProbe(sc);
  tracer().close();
  printf("{\"scenarios\":%ld,\"events\":%ld,\"updates\":%ld,\"inexact_updates\":%ld,\"queries\":%ld,\"queries_exact\":%ld}\n", sc,
         tracer().count(), g_updates, g_inexactUpdates, g_queries, g_assertedQueries);
  return 0;
}
