// Conformance driver for C13 (src/Bpp/Numeric/Hmm): the three HMM likelihood
// algorithms and the two built-in transition models.
//
//   drv_hmm --out F --mode cache  --n N --depth D   history part (HmmCacheTrace.tla):
//        every history of length <= D over the query/update alphabet (likelihood
//        classes and transition models) + N random histories.  Each answer is
//        compared bit for bit with the answers of FRESH objects of the same class
//        built at the parameter values of every version seen so far; the event
//        carries the set of versions whose reference is identical.
//   drv_hmm --out F --mode exact  --n N             exact part (HmmExactTrace.tla):
//        dyadic HMMs (<= 4 states, <= 4 sites), every subset of break points,
//        every chunk size 1..len+1; likelihood / posteriors / site likelihoods are
//        logged as integers at the model's exact scale (E3/E4: rounded, with a
//        flag that the value was within 1e-6 of the integer).
//
// The harness supplies the state alphabet, the emission table (a polynomial in two
// parameters a, b so that updates change it and derivatives exist) and a table
// transition matrix (sparse rows, explicit stationary vector).  Everything else is
// the library's code.
#include "tracer.h"
#include "param_audit.h"

#include <Bpp/Exceptions.h>
#include <Bpp/Numeric/AbstractParametrizable.h>
#include <Bpp/Numeric/Hmm/AutoCorrelationTransitionMatrix.h>
#include <Bpp/Numeric/Hmm/FullHmmTransitionMatrix.h>
#include <Bpp/Numeric/Hmm/LogsumHmmLikelihood.h>
#include <Bpp/Numeric/Hmm/LowMemoryRescaledHmmLikelihood.h>
#include <Bpp/Numeric/Hmm/RescaledHmmLikelihood.h>
#include <Bpp/Numeric/Matrix/Matrix.h>
#include <Bpp/Numeric/ParameterExceptions.h>

#include <cmath>
#include <functional>
#include <map>
#include <memory>
#include <new>
#include <set>

using namespace vt;
using bpp::ParameterList;

// ---------------------------------------------------------------- heap red zones
// Every allocation of the process gets a trailing red zone that is checked when
// the block is released: a write past the end of a vector (the only kind of
// memory error the HMM recursions can make) becomes an observation ("mem":false)
// instead of silent corruption.
static const size_t RZ = 128;
static const unsigned long long MAGIC = 0xC13C13C13C13C13CULL;
static std::atomic<long> g_overruns(0);

static void* rzAlloc(size_t sz)
{
  unsigned char* p = static_cast<unsigned char*>(malloc(16 + sz + RZ));
  if (!p) throw std::bad_alloc();
  memcpy(p, &sz, sizeof(size_t));
  memcpy(p + 8, &MAGIC, 8);
  memset(p + 16 + sz, 0xAB, RZ);
  return p + 16;
}
static void rzFree(void* q) noexcept
{
  if (!q) return;
  unsigned char* p = static_cast<unsigned char*>(q) - 16;
  unsigned long long m;
  memcpy(&m, p + 8, 8);
  if (m != MAGIC)
  {
    g_overruns++; // header destroyed (underrun) - do not touch the block
    return;
  }
  size_t sz;
  memcpy(&sz, p, sizeof(size_t));
  for (size_t i = 0; i < RZ; ++i)
    if (p[16 + sz + i] != 0xAB)
    {
      g_overruns++;
      break;
    }
  free(p);
}
void* operator new(size_t sz) { return rzAlloc(sz); }
void* operator new[](size_t sz) { return rzAlloc(sz); }
void operator delete(void* p) noexcept { rzFree(p); }
void operator delete[](void* p) noexcept { rzFree(p); }
void operator delete(void* p, size_t) noexcept { rzFree(p); }
void operator delete[](void* p, size_t) noexcept { rzFree(p); }

// ---------------------------------------------------------------- harness model classes
class HAlphabet : public virtual bpp::HmmStateAlphabet, public bpp::AbstractParametrizable
{
  size_t n_;

public:
  explicit HAlphabet(size_t n) : bpp::AbstractParametrizable(""), n_(n) {}
  HAlphabet* clone() const override { return new HAlphabet(*this); }
  const bpp::Clonable& getState(size_t) const override { return *this; }
  size_t getNumberOfStates() const override { return n_; }
  bool worksWith(const bpp::HmmStateAlphabet& a) const override { return a.getNumberOfStates() == n_; }
};

typedef std::vector<std::vector<double>> Tab; // [pos][state]

// e(pos,s) = c0 + ca*a + cb*b + cq*(a*a + b*b/2)
class HEmissions : public virtual bpp::HmmEmissionProbabilities, public bpp::AbstractParametrizable
{
  std::shared_ptr<const bpp::HmmStateAlphabet> alph_;
  Tab c0_, ca_, cb_, cq_, e_;
  mutable Tab de_, d2e_;

public:
  HEmissions(std::shared_ptr<const bpp::HmmStateAlphabet> al, const Tab& c0, const Tab& ca, const Tab& cb, const Tab& cq, double a, double b) :
    bpp::AbstractParametrizable(""), alph_(al), c0_(c0), ca_(ca), cb_(cb), cq_(cq), e_(c0), de_(c0), d2e_(c0)
  {
    addParameter_(new bpp::Parameter("a", a));
    addParameter_(new bpp::Parameter("b", b));
    compute();
  }
  HEmissions* clone() const override { return new HEmissions(*this); }
  const bpp::HmmStateAlphabet& hmmStateAlphabet() const override { return *alph_; }
  std::shared_ptr<const bpp::HmmStateAlphabet> getHmmStateAlphabet() const override { return alph_; }
  void setHmmStateAlphabet(std::shared_ptr<const bpp::HmmStateAlphabet> al) override { alph_ = al; }
  double operator()(size_t pos, size_t state) const override { return e_[pos][state]; }
  const std::vector<double>& operator()(size_t pos) const override { return e_[pos]; }
  size_t getNumberOfPositions() const override { return e_.size(); }
  void fireParameterChanged(const ParameterList&) override { compute(); }
  void compute()
  {
    double a = getParameterValue("a"), b = getParameterValue("b");
    for (size_t i = 0; i < e_.size(); ++i)
      for (size_t s = 0; s < e_[i].size(); ++s)
        e_[i][s] = c0_[i][s] + ca_[i][s] * a + cb_[i][s] * b + cq_[i][s] * (a * a + b * b / 2);
  }
  void computeDEmissionProbabilities(std::string& variable) const override
  {
    double a = getParameterValue("a"), b = getParameterValue("b");
    if (variable != "a" && variable != "b") throw bpp::ParameterNotFoundException("HEmissions: no such variable", variable);
    for (size_t i = 0; i < e_.size(); ++i)
      for (size_t s = 0; s < e_[i].size(); ++s)
        de_[i][s] = variable == "a" ? ca_[i][s] + 2 * cq_[i][s] * a : cb_[i][s] + cq_[i][s] * b;
  }
  void computeD2EmissionProbabilities(std::string& variable) const override
  {
    if (variable != "a" && variable != "b") throw bpp::ParameterNotFoundException("HEmissions: no such variable", variable);
    for (size_t i = 0; i < e_.size(); ++i)
      for (size_t s = 0; s < e_[i].size(); ++s)
        d2e_[i][s] = variable == "a" ? 2 * cq_[i][s] : cq_[i][s];
  }
  const std::vector<double>& getDEmissionProbabilities(size_t pos) const override { return de_[pos]; }
  const std::vector<double>& getD2EmissionProbabilities(size_t pos) const override { return d2e_[pos]; }
};

// parameter "t" selects one of the given (matrix, stationary vector) pairs
class HTableTM : public virtual bpp::HmmTransitionMatrix, public bpp::AbstractParametrizable
{
  std::shared_ptr<const bpp::HmmStateAlphabet> alph_;
  std::vector<bpp::RowMatrix<double>> m_;
  std::vector<std::vector<double>> pi_;
  size_t cur_;

public:
  HTableTM(std::shared_ptr<const bpp::HmmStateAlphabet> al, const std::vector<Tab>& ms, const std::vector<std::vector<double>>& pis) :
    bpp::AbstractParametrizable(""), alph_(al), m_(), pi_(pis), cur_(0)
  {
    for (const Tab& t : ms)
    {
      bpp::RowMatrix<double> m(t.size(), t.size());
      for (size_t i = 0; i < t.size(); ++i)
        for (size_t j = 0; j < t.size(); ++j) m(i, j) = t[i][j];
      m_.push_back(m);
    }
    addParameter_(new bpp::Parameter("t", 0));
  }
  HTableTM* clone() const override { return new HTableTM(*this); }
  const bpp::HmmStateAlphabet& hmmStateAlphabet() const override { return *alph_; }
  std::shared_ptr<const bpp::HmmStateAlphabet> getHmmStateAlphabet() const override { return alph_; }
  void setHmmStateAlphabet(std::shared_ptr<const bpp::HmmStateAlphabet> al) override { alph_ = al; }
  size_t getNumberOfStates() const override { return alph_->getNumberOfStates(); }
  double Pij(size_t i, size_t j) const override { return m_[cur_](i, j); }
  const bpp::Matrix<double>& getPij() const override { return m_[cur_]; }
  const std::vector<double>& getEquilibriumFrequencies() const override { return pi_[cur_]; }
  void fireParameterChanged(const ParameterList&) override
  {
    double t = getParameterValue("t");
    cur_ = t < 0 ? 0 : static_cast<size_t>(t) % m_.size();
  }
};

// ---------------------------------------------------------------- scenario configuration
typedef std::vector<std::pair<std::string, double>> Theta;

struct Conf
{
  std::string cls; // rescaled | lowmem | logsum | (transition models alone:) full | auto
  std::string tm;  // auto | full | table
  size_t n = 2, len = 3, chunk = 0;
  Tab c0, ca, cb, cq;
  std::vector<Tab> tables;
  std::vector<std::vector<double>> pis;
};

static ParameterList toPl(const Theta& th)
{
  ParameterList pl;
  for (const auto& kv : th) pl.addParameter(bpp::Parameter(kv.first, kv.second));
  return pl;
}
static double thetaGet(const Theta& th, const std::string& k, double def)
{
  for (const auto& kv : th)
    if (kv.first == k) return kv.second;
  return def;
}
static void thetaSet(Theta& th, const std::string& k, double v)
{
  for (auto& kv : th)
    if (kv.first == k)
    {
      kv.second = v;
      return;
    }
  th.push_back(std::make_pair(k, v));
}

static std::shared_ptr<bpp::HmmTransitionMatrix> makeTm(const Conf& c, std::shared_ptr<HAlphabet> al, const Theta& th)
{
  std::shared_ptr<bpp::HmmTransitionMatrix> tm;
  if (c.tm == "auto") tm.reset(new bpp::AutoCorrelationTransitionMatrix(al, ""));
  else if (c.tm == "full") tm.reset(new bpp::FullHmmTransitionMatrix(al, ""));
  else tm.reset(new HTableTM(al, c.tables, c.pis));
  tm->matchParametersValues(toPl(th));
  return tm;
}

struct Built
{
  std::shared_ptr<HAlphabet> al;
  std::shared_ptr<bpp::HmmTransitionMatrix> tm;
  std::shared_ptr<HEmissions> em;
  std::unique_ptr<bpp::HmmLikelihood> lik;
};

// a FRESH object: new components already at theta, new likelihood object, break points set once
static Built build(const Conf& c, const Theta& th, const std::vector<size_t>& bps)
{
  Built b;
  b.al.reset(new HAlphabet(c.n));
  b.tm = makeTm(c, b.al, th);
  b.em.reset(new HEmissions(b.al, c.c0, c.ca, c.cb, c.cq, thetaGet(th, "a", 0), thetaGet(th, "b", 0)));
  if (c.cls == "rescaled") b.lik.reset(new bpp::RescaledHmmLikelihood(b.al, b.tm, b.em, ""));
  else if (c.cls == "logsum") b.lik.reset(new bpp::LogsumHmmLikelihood(b.al, b.tm, b.em, ""));
  else b.lik.reset(new bpp::LowMemoryRescaledHmmLikelihood(b.al, b.tm, b.em, "", c.chunk));
  if (!bps.empty()) b.lik->setBreakPoints(bps);
  return b;
}

// ---------------------------------------------------------------- queries and answers
struct Q
{
  std::string k; // LogLik Post Site D1 D2 | TPij TMat TEq
  long site = -1;
  std::string var;
  size_t i = 0, j = 0;
  std::string key() const { return k + ":" + std::to_string(site) + ":" + var + ":" + std::to_string(i) + "," + std::to_string(j); }
};

struct Ans
{
  std::string r;
  std::vector<double> v;
  // identity of an answer: outcome kind + the exact bits of every number
  std::string key() const
  {
    std::string s = r == "ok" ? "ok" : "raise";
    char buf[24];
    for (double x : v)
    {
      uint64_t u;
      memcpy(&u, &x, 8);
      snprintf(buf, sizeof buf, ":%016llx", static_cast<unsigned long long>(u));
      s += buf;
    }
    return s;
  }
};

static Ans ask(bpp::HmmLikelihood& L, const Q& q)
{
  Ans a;
  a.r = outcome<bpp::Exception>([&]() {
    if (q.k == "LogLik")
    {
      a.v.push_back(L.getLogLikelihood());
      a.v.push_back(L.getValue());
    }
    else if (q.k == "Post")
    {
      if (q.site < 0)
      {
        std::vector<std::vector<double>> pp;
        L.getHiddenStatesPosteriorProbabilities(pp, false);
        for (const auto& row : pp)
          for (double x : row) a.v.push_back(x);
      }
      else
        for (double x : L.getHiddenStatesPosteriorProbabilitiesForASite(static_cast<size_t>(q.site))) a.v.push_back(x);
    }
    else if (q.k == "Site")
    {
      if (q.site < 0)
        for (double x : L.getLikelihoodForEachSite()) a.v.push_back(x);
      else a.v.push_back(L.getLikelihoodForASite(static_cast<size_t>(q.site)));
    }
    else if (q.k == "D1") a.v.push_back(L.getFirstOrderDerivative(q.var));
    else if (q.k == "D2") a.v.push_back(L.getSecondOrderDerivative(q.var));
  });
  if (a.r != "ok") a.v.clear();
  return a;
}

static Ans askTm(const bpp::HmmTransitionMatrix& T, const Q& q)
{
  Ans a;
  a.r = outcome<bpp::Exception>([&]() {
    size_t n = T.getNumberOfStates();
    if (q.k == "TPij") a.v.push_back(T.Pij(q.i, q.j));
    else if (q.k == "TMat")
    {
      const bpp::Matrix<double>& m = T.getPij();
      for (size_t i = 0; i < n; ++i)
        for (size_t j = 0; j < n; ++j) a.v.push_back(m(i, j));
    }
    else if (q.k == "TEq")
      for (double x : T.getEquilibriumFrequencies()) a.v.push_back(x);
  });
  if (a.r != "ok") a.v.clear();
  return a;
}

static bool isTmKind(const std::string& cls) { return cls == "full" || cls == "auto"; }

// reference answers per configuration (theta bits + break points), each from its own fresh object
class Refs
{
  const Conf& c_;
  std::map<std::string, std::map<std::string, std::string>> memo_;

public:
  explicit Refs(const Conf& c) : c_(c), memo_() {}
  static std::string confKey(const Theta& th, const std::vector<size_t>& bps)
  {
    Ans a;
    for (const auto& kv : th) a.v.push_back(kv.second);
    std::string s = a.key() + "|";
    for (size_t b : bps) s += std::to_string(b) + ",";
    return s;
  }
  const std::string& get(const Theta& th, const std::vector<size_t>& bps, const Q& q)
  {
    auto& m = memo_[confKey(th, bps)];
    auto it = m.find(q.key());
    if (it != m.end()) return it->second;
    std::string k;
    if (isTmKind(c_.cls))
    {
      std::shared_ptr<HAlphabet> al(new HAlphabet(c_.n));
      Conf c2 = c_;
      c2.tm = c_.cls;
      auto tm = makeTm(c2, al, th);
      k = askTm(*tm, q).key();
    }
    else
    {
      Built b = build(c_, th, bps);
      k = ask(*b.lik, q).key();
    }
    return m[q.key()] = k;
  }
};

// ---------------------------------------------------------------- cache-mode scenario runner
struct Version
{
  Theta th;
  std::vector<size_t> bps;
};

struct Slot
{
  bool live = false;
  std::vector<Version> vers;                         // the object's own configuration history (a copy inherits it)
  std::unique_ptr<bpp::HmmLikelihood> lik;
  std::shared_ptr<bpp::HmmTransitionMatrix> tm;      // transition model on its own (kinds full / auto)
};

template<class T> static bool copyAs(bpp::HmmLikelihood* src, Slot& dst, const std::string& how)
{
  T* s = dynamic_cast<T*>(src);
  if (!s) return false;
  if (how == "assign") *dynamic_cast<T*>(dst.lik.get()) = *s;
  else if (how == "clone") dst.lik.reset(s->clone());
  else dst.lik.reset(new T(*s));
  return true;
}
template<class T> static bool copyTmAs(bpp::HmmTransitionMatrix* src, Slot& dst, const std::string& how)
{
  T* s = dynamic_cast<T*>(src);
  if (!s) return false;
  if (how == "assign") *dynamic_cast<T*>(dst.tm.get()) = *s;
  else if (how == "clone") dst.tm.reset(s->clone());
  else dst.tm.reset(new T(*s));
  return true;
}

class CacheRun
{
public:
  Conf c;
  Refs refs;
  Slot slot[3]; // object ids 1 and 2
  int cur = 1;
  long events = 0;

  explicit CacheRun(const Conf& cc) : c(cc), refs(c) {}

  int other() const { return 3 - cur; }
  Slot& S(int o) { return slot[o]; }
  bool tmKind() const { return isTmKind(c.cls); }

  void reset(const Theta& th0, const std::vector<size_t>& bps0)
  {
    for (int o = 1; o <= 2; ++o) slot[o] = Slot();
    cur = 1;
    Slot& s = slot[1];
    s.live = true;
    s.vers.push_back(Version{th0, bps0});
    g_overruns = 0;
    Arr b;
    for (size_t x : bps0) b.add(x);
    tracer().emit(Obj().kv("e", "Reset").kv("k", c.cls).kv("tm", c.tm).kv("n", c.n).kv("len", c.len).kv("chunk", c.chunk).kv("bps", b));
    if (tmKind())
    {
      std::shared_ptr<HAlphabet> al(new HAlphabet(c.n));
      Conf c2 = c;
      c2.tm = c.cls;
      s.tm = makeTm(c2, al, th0);
    }
    else
    {
      Built bl = build(c, th0, bps0);
      s.lik = std::move(bl.lik);
    }
  }
  long ver(int o) { return static_cast<long>(S(o).vers.size()) - 1; }
  bool mem() const { return g_overruns.load() == 0; }

  // style: 0 setParametersValues(sub list) 1 setParameterValue one by one 2 matchParametersValues 3 setAllParametersValues
  void update(int o, const Theta& changes, int style)
  {
    Slot& s = S(o);
    Version v = s.vers.back();
    for (const auto& kv : changes) thetaSet(v.th, kv.first, kv.second);
    bpp::Parametrizable* p = tmKind() ? static_cast<bpp::Parametrizable*>(s.tm.get()) : static_cast<bpp::Parametrizable*>(s.lik.get());
    std::string r = outcome<bpp::Exception>([&]() {
      if (style == 1)
        for (const auto& kv : changes) p->setParameterValue(kv.first, kv.second);
      else if (style == 2) p->matchParametersValues(toPl(changes));
      else if (style == 3)
      {
        ParameterList all = p->getParameters();
        for (const auto& kv : changes)
          if (all.hasParameter(kv.first)) all.setParameterValue(kv.first, kv.second);
        p->setAllParametersValues(all);
      }
      else p->setParametersValues(toPl(changes));
    });
    s.vers.push_back(v);
    tracer().emit(Obj().kv("e", "Update").kv("o", o).kv("ver", ver(o)).kv("r", r).kv("style", style).kv("np", changes.size()).kv("mem", mem()));
    ++events;
  }
  // FullHmmTransitionMatrix::setTransitionProbabilities: afterwards the model's *parameters* are the
  // configuration (read back from the object), and every answer must be the one of a fresh object at them
  void setMatrix(int o, const Tab& m)
  {
    Slot& s = S(o);
    bpp::FullHmmTransitionMatrix* f = dynamic_cast<bpp::FullHmmTransitionMatrix*>(s.tm.get());
    bpp::RowMatrix<double> mat(m.size(), m.size());
    for (size_t i = 0; i < m.size(); ++i)
      for (size_t j = 0; j < m.size(); ++j) mat(i, j) = m[i][j];
    std::string r = outcome<bpp::Exception>([&]() { f->setTransitionProbabilities(mat); });
    Version v = s.vers.back();
    const ParameterList& pl = f->getParameters();
    for (size_t i = 0; i < pl.size(); ++i) thetaSet(v.th, pl[i].getName(), pl[i].getValue());
    s.vers.push_back(v);
    tracer().emit(Obj().kv("e", "Update").kv("o", o).kv("ver", ver(o)).kv("r", r).kv("style", 4).kv("np", pl.size()).kv("mem", mem()));
    ++events;
  }
  void setBps(int o, const std::vector<size_t>& bps)
  {
    Slot& s = S(o);
    Version v = s.vers.back();
    v.bps = bps;
    std::string r = outcome<bpp::Exception>([&]() { s.lik->setBreakPoints(bps); });
    s.vers.push_back(v);
    Arr b;
    for (size_t x : bps) b.add(x);
    tracer().emit(Obj().kv("e", "SetBps").kv("o", o).kv("ver", ver(o)).kv("r", r).kv("bps", b).kv("mem", mem()));
    ++events;
  }
  // copy construction / clone() into a free slot, operator= onto a live one
  void copy(int from, int to, std::string how)
  {
    Slot& s = S(from);
    Slot& d = S(to);
    if (!d.live && how == "assign") how = "clone";
    if (d.live && how != "assign")
    {
      d.lik.reset();
      d.tm.reset();
    }
    std::string r = outcome<bpp::Exception>([&]() {
      if (tmKind())
      {
        copyTmAs<bpp::FullHmmTransitionMatrix>(s.tm.get(), d, how) || copyTmAs<bpp::AutoCorrelationTransitionMatrix>(s.tm.get(), d, how);
      }
      else
      {
        copyAs<bpp::RescaledHmmLikelihood>(s.lik.get(), d, how) || copyAs<bpp::LogsumHmmLikelihood>(s.lik.get(), d, how) ||
            copyAs<bpp::LowMemoryRescaledHmmLikelihood>(s.lik.get(), d, how);
      }
    });
    d.live = true;
    d.vers = s.vers;
    tracer().emit(Obj().kv("e", "Copy").kv("o", from).kv("o2", to).kv("how", how).kv("r", r).kv("mem", mem()));
    ++events;
  }
  void drop(int o)
  {
    { Guard gd; slot[o] = Slot(); }
    tracer().emit(Obj().kv("e", "Drop").kv("o", o).kv("mem", mem()));
    ++events;
  }
  void query(int oid, const Q& q)
  {
    Slot& s = S(oid);
    Ans a = tmKind() ? askTm(*s.tm, q) : ask(*s.lik, q);
    std::string k = a.key();
    Arr same;
    for (size_t i = 0; i < s.vers.size(); ++i)
      if (refs.get(s.vers[i].th, s.vers[i].bps, q) == k) same.add(i);
    Obj o;
    o.kv("e", "Q" + q.k).kv("o", oid).kv("ver", ver(oid)).kv("r", a.r == "ok" ? "ok" : "raise").kv("same", same);
    if (q.k == "Post" || q.k == "Site") o.kv("site", q.site);
    if (q.k == "D1" || q.k == "D2") o.kv("var", q.var);
    if (q.k == "TPij") o.kv("i", q.i).kv("j", q.j);
    o.kv("mem", mem());
    tracer().emit(o);
    ++events;
  }
};

// ---------------------------------------------------------------- generators
static Tab randTab(Rng& g, size_t len, size_t n, double lo, double hi)
{
  Tab t(len, std::vector<double>(n));
  for (auto& r : t)
    for (double& x : r) x = lo + (hi - lo) * g.unit();
  return t;
}
static Tab constTab(size_t len, size_t n, double v) { return Tab(len, std::vector<double>(n, v)); }

static Theta defaultTheta(const Conf& c, const std::string& tmKind)
{
  Theta th;
  if (!isTmKind(c.cls))
  {
    th.push_back({"a", 0.5});
    th.push_back({"b", 0.25});
  }
  if (tmKind == "auto")
    for (size_t i = 0; i < c.n; ++i) th.push_back({"lambda" + std::to_string(i + 1), 0.95});
  else if (tmKind == "full")
  {
    for (size_t i = 0; i < c.n; ++i)
      for (size_t j = 0; j + 1 < c.n; ++j) th.push_back({std::to_string(i + 1) + ".theta" + std::to_string(j + 1), 1.0 / static_cast<double>(c.n - j)});
  }
  else th.push_back({"t", 0});
  return th;
}

// a random re-draw of a random non-empty subset of the parameters (values away from the constraint bounds)
static Theta randChanges(Rng& g, const Theta& cur, size_t ntables, bool all)
{
  Theta ch;
  size_t changeable = 0;
  for (const auto& kv : cur)
    if (kv.first != "t" || ntables >= 2) ++changeable;
  while (ch.empty() && changeable > 0)
    for (const auto& kv : cur)
    {
      if (!all && !g.chance(1, 2)) continue;
      double v;
      if (kv.first == "t")
      {
        v = static_cast<double>((static_cast<size_t>(kv.second) + 1 + g.below(ntables > 1 ? ntables - 1 : 1)) % (ntables ? ntables : 1));
        if (ntables < 2) continue;
      }
      else if (kv.first == "a" || kv.first == "b") v = 0.05 + 1.5 * g.unit();
      else v = 0.02 + 0.96 * g.unit();
      ch.push_back({kv.first, v});
    }
  return ch;
}

static std::vector<size_t> randBps(Rng& g, size_t len)
{
  std::vector<size_t> b;
  for (size_t i = 1; i < len; ++i)
    if (g.chance(1, 3)) b.push_back(i);
  return b;
}

// random stochastic tables for the harness transition matrix (cache mode; zero entries allowed);
// the "stationary" vector only has to be *a* distribution for the history part
static void randTables(Rng& g, Conf& c, size_t k)
{
  c.tables.clear();
  c.pis.clear();
  for (size_t t = 0; t < k; ++t)
  {
    Tab m(c.n, std::vector<double>(c.n, 0.0));
    for (size_t i = 0; i < c.n; ++i)
    {
      double s = 0;
      for (size_t j = 0; j < c.n; ++j)
      {
        m[i][j] = g.chance(1, 3) ? 0.0 : g.unit();
        s += m[i][j];
      }
      if (s == 0)
      {
        m[i][i] = 1;
        s = 1;
      }
      for (size_t j = 0; j < c.n; ++j) m[i][j] /= s;
    }
    std::vector<double> pi(c.n);
    double s = 0;
    for (double& x : pi)
    {
      x = 0.05 + g.unit();
      s += x;
    }
    for (double& x : pi) x /= s;
    c.tables.push_back(m);
    c.pis.push_back(pi);
  }
}

static void randCoefs(Rng& g, Conf& c, bool tiny)
{
  c.c0 = randTab(g, c.len, c.n, 0.05, 1.0);
  c.ca = randTab(g, c.len, c.n, 0.0, 0.5);
  c.cb = randTab(g, c.len, c.n, 0.0, 0.5);
  c.cq = randTab(g, c.len, c.n, 0.0, 0.25);
  if (tiny) // emissions spanning 1e-200 .. 1
    for (size_t i = 0; i < c.len; ++i)
    {
      double f = std::pow(10.0, -200.0 * g.unit());
      for (size_t s = 0; s < c.n; ++s)
      {
        c.c0[i][s] *= f;
        c.ca[i][s] *= f;
        c.cb[i][s] *= f;
        c.cq[i][s] *= f;
      }
    }
}

// the action alphabet of the likelihood classes / of the transition models
static std::vector<std::string> alphabet(const Conf& c, bool random)
{
  // C copy current -> other slot, Cb assign other -> current, Uo update the other object, W switch to the other object, X destroy the other object
  std::vector<std::string> a;
  if (c.cls == "full") a = {"U", "S", "TPij", "TMat", "TEq", "C", "Cb", "Uo", "W"};
  else if (isTmKind(c.cls)) a = {"U", "TPij", "TMat", "TEq", "C", "Cb", "Uo", "W"};
  else a = {"U", "B", "LogLik", "Post", "PostS", "Site", "D1a", "D1b", "D2a", "D2b", "D1z", "C", "Cb", "Uo", "W"};
  if (random)
  {
    a.push_back("X");
    if (!isTmKind(c.cls)) a.push_back("SiteS");
  }
  return a;
}

static void act(CacheRun& run, Rng& g, const std::string& a, const std::vector<Theta>& cycle, size_t& cyc, const std::vector<std::vector<size_t>>& bpsCycle, size_t& bcyc, bool randomUpd)
{
  Q q;
  int o = run.cur;
  if (a == "U" || a == "Uo")
  {
    if (a == "Uo")
    {
      o = run.other();
      if (!run.S(o).live) return;
    }
    if (randomUpd) run.update(o, randChanges(g, run.S(o).vers.back().th, run.c.tables.size(), g.chance(1, 4)), static_cast<int>(g.below(4)));
    else
    {
      cyc = (cyc + 1) % cycle.size();
      run.update(o, cycle[cyc], static_cast<int>(cyc % 4));
    }
    return;
  }
  if (a == "C")
  {
    const char* hows[] = {"clone", "ctor", "assign"};
    run.copy(o, run.other(), hows[g.below(3)]);
    return;
  }
  if (a == "Cb")
  {
    if (run.S(run.other()).live) run.copy(run.other(), o, "assign");
    return;
  }
  if (a == "W")
  {
    if (run.S(run.other()).live) run.cur = run.other();
    return;
  }
  if (a == "X")
  {
    if (run.S(run.other()).live) run.drop(run.other());
    return;
  }
  if (a == "S")
  {
    Tab m(run.c.n, std::vector<double>(run.c.n));
    for (auto& row : m)
    {
      double s = 0;
      for (double& x : row)
      {
        x = 0.05 + g.unit();
        s += x;
      }
      for (double& x : row) x /= s;
    }
    run.setMatrix(o, m);
    return;
  }
  if (a == "B")
  {
    if (randomUpd) run.setBps(o, randBps(g, run.c.len));
    else
    {
      bcyc = (bcyc + 1) % bpsCycle.size();
      run.setBps(o, bpsCycle[bcyc]);
    }
    return;
  }
  if (a == "LogLik") q.k = "LogLik";
  else if (a == "Post") q.k = "Post";
  else if (a == "PostS")
  {
    q.k = "Post";
    q.site = static_cast<long>(g.below(run.c.len));
  }
  else if (a == "Site") q.k = "Site";
  else if (a == "SiteS")
  {
    q.k = "Site";
    q.site = static_cast<long>(g.below(run.c.len));
  }
  else if (a[0] == 'D')
  {
    q.k = a.substr(0, 2);
    q.var = a.substr(2) == "z" ? "zz" : a.substr(2);
  }
  else if (a == "TPij")
  {
    q.k = "TPij";
    q.i = g.below(run.c.n);
    q.j = g.below(run.c.n);
  }
  else q.k = a;
  run.query(o, q);
}

static Conf randConf(Rng& g, const std::string& cls)
{
  Conf c;
  c.cls = cls;
  if (isTmKind(cls))
  {
    c.tm = cls;
    c.n = 1 + g.below(5);
    c.len = 1;
    return c;
  }
  const char* tms[] = {"auto", "full", "table"};
  c.tm = tms[g.below(3)];
  c.n = 1 + g.below(5);
  c.len = g.chance(1, 10) ? 13 + g.below(40) : 1 + g.below(12);
  c.chunk = cls == "lowmem" ? 1 + g.below(c.len + 1) : 0;
  randCoefs(g, c, g.chance(1, 4));
  if (c.tm == "table") randTables(g, c, 3);
  return c;
}

static long modeCache(Rng& g, long nrandom, long depth, long& scenarios)
{
  long events = 0;
  const char* classes[] = {"rescaled", "logsum", "lowmem", "full", "auto"};
  // (1) every history of length <= depth over the alphabet, small fixed models
  for (const char* cls : classes)
  {
    Conf c;
    c.cls = cls;
    c.tm = isTmKind(cls) ? cls : (std::string(cls) == "logsum" ? "full" : "auto");
    c.n = 2;
    c.len = isTmKind(cls) ? 1 : 3;
    c.chunk = std::string(cls) == "lowmem" ? 2 : 0;
    randCoefs(g, c, false);
    Theta th0 = defaultTheta(c, c.tm);
    std::vector<Theta> cycle;
    for (int k = 0; k < 3; ++k) cycle.push_back(randChanges(g, th0, 0, k != 1));
    std::vector<std::vector<size_t>> bpsCycle = {{}, {1}, {2}, {1, 2}};
    std::vector<std::string> al = alphabet(c, false);
    long d = isTmKind(cls) ? depth + 1 : depth;
    std::vector<size_t> idx(static_cast<size_t>(d), 0);
    CacheRun run(c); // references are shared by all histories of the family
    for (;;)
    {
      size_t cyc = 0, bcyc = 0;
      run.reset(th0, {});
      ++scenarios;
      for (long k = 0; k < d; ++k) act(run, g, al[idx[static_cast<size_t>(k)]], cycle, cyc, bpsCycle, bcyc, false);
      long p = d - 1;
      while (p >= 0 && ++idx[static_cast<size_t>(p)] == al.size()) idx[static_cast<size_t>(p--)] = 0;
      if (p < 0) break;
    }
    events += run.events;
  }
  // (2) random histories: random models, lengths, chunk sizes, break points, update styles
  for (long s = 0; s < nrandom; ++s)
  {
    Conf c = randConf(g, classes[g.below(10) < 8 ? g.below(3) : 3 + g.below(2)]);
    Theta th0 = defaultTheta(c, c.tm);
    CacheRun run(c);
    run.reset(th0, isTmKind(c.cls) ? std::vector<size_t>() : randBps(g, c.len));
    ++scenarios;
    std::vector<std::string> al = alphabet(c, true);
    size_t steps = 6 + g.below(25);
    std::vector<Theta> none;
    std::vector<std::vector<size_t>> noneB;
    size_t cyc = 0, bcyc = 0;
    for (size_t k = 0; k < steps; ++k)
    {
      std::string a = g.chance(1, 4) ? "U" : al[g.below(al.size())];
      act(run, g, a, none, cyc, noneB, bcyc, true);
    }
    events += run.events;
  }
  return events;
}

// ---------------------------------------------------------------- exact mode
// numerator of x over den, and whether x was (nearly) on that grid
static long num(double x, long den, bool& near)
{
  double s = x * static_cast<double>(den);
  if (!(s == s) || s > 2.0e9 || s < -2.0e9)
  {
    near = false;
    return -1;
  }
  double r = std::floor(s + 0.5);
  if (std::fabs(s - r) > 1e-6 * (1.0 + std::fabs(r))) near = false;
  return static_cast<long>(r);
}

struct ExactModel
{
  Conf c;
  long dP = 8, dPi = 1, dE = 8;
  Tab c0n, can, cbn; // numerators over dE
  std::vector<Theta> settings; // dyadic transition-parameter settings the updates move between
  std::vector<int> ex;         // per-site binary exponent: emissions of site t are (numerator / dE) * 2^-ex[t]
  std::vector<long> lamDen;    // unused
};

static Tab scaleTab(const Tab& t, double f)
{
  Tab r = t;
  for (auto& row : r)
    for (double& x : row) x *= f;
  return r;
}

static Arr tabArr(const Tab& t)
{
  Arr a;
  for (const auto& r : t)
  {
    Arr b;
    for (double x : r) b.add(static_cast<long>(x));
    a.add(b);
  }
  return a;
}

// a doubly stochastic matrix with entries k/8: mean of 8 random permutation matrices
static Tab randDS(Rng& g, size_t n, bool positive)
{
  for (;;)
  {
    Tab m(n, std::vector<double>(n, 0.0));
    for (int r = 0; r < 8; ++r)
    {
      std::vector<size_t> p(n);
      for (size_t i = 0; i < n; ++i) p[i] = i;
      for (size_t i = n; i > 1; --i) std::swap(p[i - 1], p[g.below(i)]);
      for (size_t i = 0; i < n; ++i) m[i][p[i]] += 1;
    }
    bool ok = true;
    for (auto& row : m)
      for (double x : row)
        if (positive && x == 0) ok = false;
    if (ok) return m;
  }
}

// theta values of the library's simplex parametrisation (method 1) for a row of probabilities
static void fullTheta(Theta& th, size_t row, const std::vector<double>& p)
{
  double y = 1;
  for (size_t j = 0; j + 1 < p.size(); ++j)
  {
    thetaSet(th, std::to_string(row + 1) + ".theta" + std::to_string(j + 1), p[j] / y);
    y -= p[j];
  }
}

static long ipow(long b, size_t e)
{
  long r = 1;
  while (e--) r *= b;
  return r;
}

static void exactEvent(Rng& g, const ExactModel& m, Built& o, const Theta& th, const std::vector<size_t>& bps, long& skipped)
{
  const Conf& c = m.c;
  bool near = true;
  Obj ev;
  ev.kv("e", "Exact").kv("cls", c.cls).kv("chunk", c.chunk);
  Arr b;
  for (size_t x : bps) b.add(x);
  ev.kv("bps", b);
  // current parameter values as the likelihood object reports them
  Obj par;
  bool pn = true;
  par.kv("a", num(o.lik->getParameterValue("a"), 1, pn)).kv("b", num(o.lik->getParameterValue("b"), 1, pn));
  if (c.tm == "auto")
  {
    Arr l;
    for (size_t i = 0; i < c.n; ++i) l.add(num(o.lik->getParameterValue("lambda" + std::to_string(i + 1)), 8, pn));
    par.kv("lam", l);
  }
  if (c.tm == "table") par.kv("t", num(o.lik->getParameterValue("t"), 1, pn));
  ev.kv("par", par).kv("parNear", pn);
  // the model as the object's own components expose it
  const bpp::HmmTransitionMatrix& T = o.lik->hmmTransitionMatrix();
  const bpp::HmmEmissionProbabilities& E = o.lik->hmmEmissionProbabilities();
  Arr P, P2, Pi, En;
  const bpp::Matrix<double>& pm = T.getPij();
  for (size_t i = 0; i < c.n; ++i)
  {
    Arr r, r2;
    for (size_t j = 0; j < c.n; ++j)
    {
      r.add(num(T.Pij(i, j), m.dP, near));
      r2.add(num(pm(i, j), m.dP, near));
    }
    P.add(r);
    P2.add(r2);
  }
  for (size_t i = 0; i < c.n; ++i) Pi.add(num(T.getEquilibriumFrequencies()[i], m.dPi, near));
  for (size_t i = 0; i < c.len; ++i)
  {
    Arr r;
    for (size_t s = 0; s < c.n; ++s) r.add(num(std::ldexp(E(i, s), m.ex[i]), m.dE, near));
    En.add(r);
  }
  ev.kv("dP", m.dP).kv("dPi", m.dPi).kv("dE", m.dE).kv("P", P).kv("Pm", P2).kv("Pi", Pi).kv("E", En).kv("near", near);
  // answers, at the exact scale of the model
  size_t nseg = bps.size() + 1;
  double scale = static_cast<double>(ipow(m.dPi, nseg)) * static_cast<double>(ipow(m.dP, c.len - nseg)) * static_cast<double>(ipow(m.dE, c.len));
  if (scale * 16.0 > 2.0e9) // L'' <= len^2 * scale
  {
    ++skipped;
    return;
  }
  bool ln = true, tn = true, sn = true;
  // likelihood = (L / scale) * 2^-k with k = sum of the per-site exponents: L = exp(logL + k log 2) * scale
  double lik = 0, logL = 0;
  long kexp = 0;
  for (int x : m.ex) kexp += x;
  std::string lr = outcome<bpp::Exception>([&]() {
    logL = o.lik->getLogLikelihood();
    lik = std::exp(logL + static_cast<double>(kexp) * std::log(2.0));
  });
  long L = num(lik, static_cast<long>(scale), ln);
  bool valueAgrees = o.lik->getValue() == -o.lik->getLogLikelihood();
  // rank fact: the two other algorithms (fresh objects, same parameters and break points) agree to 1e-9 relative
  bool agree = true;
  {
    const char* others[] = {"rescaled", "logsum", "lowmem"};
    for (const char* oc : others)
    {
      if (c.cls == oc) continue;
      Conf c2 = c;
      c2.cls = oc;
      c2.chunk = std::string(oc) == "lowmem" ? 1 + g.below(c.len + 1) : 0;
      double l2 = 0;
      std::string r2 = outcome<bpp::Exception>([&]() { l2 = build(c2, th, bps).lik->getLogLikelihood(); });
      if (r2 != "ok" || !(std::fabs(l2 - logL) <= 1e-9 * std::max(1.0, std::fabs(logL)))) agree = false;
    }
  }
  ev.kv("L", L).kv("Lnear", ln).kv("Lr", lr).kv("valueAgrees", valueAgrees).kv("k", kexp).kv("fin", std::isfinite(logL)).kv("agree", agree);
  // posteriors: T[i][s] = posterior_i(s) * L ; site likelihoods: SL[i] = lik_i * L * dE
  std::vector<std::vector<double>> pp;
  std::string pr = outcome<bpp::Exception>([&]() { o.lik->getHiddenStatesPosteriorProbabilities(pp, false); });
  Arr Tn, SL;
  bool rowsEq = true;
  if (pr == "ok")
  {
    for (size_t i = 0; i < c.len; ++i)
    {
      Arr r;
      for (size_t s = 0; s < c.n; ++s) r.add(num(pp[i][s] * static_cast<double>(L), 1, tn));
      Tn.add(r);
      std::vector<double> one = o.lik->getHiddenStatesPosteriorProbabilitiesForASite(i);
      if (one != pp[i]) rowsEq = false;
    }
    std::vector<double> sl = o.lik->getLikelihoodForEachSite();
    for (size_t i = 0; i < c.len; ++i)
    {
      SL.add(num(std::ldexp(sl[i], m.ex[i]) * static_cast<double>(L) * static_cast<double>(m.dE), 1, sn));
      if (o.lik->getLikelihoodForASite(i) != sl[i]) rowsEq = false;
    }
  }
  // derivatives of -log L w.r.t. a and b, in random order, second before first half of the time:
  // q1 = -d1 * L (= L'), q2 = (d1*d1 - d2) * L (= L'')
  {
    Obj D;
    std::string order[2] = {"a", "b"};
    if (g.coin()) std::swap(order[0], order[1]);
    Obj per[2];
    for (int k = 0; k < 2; ++k)
    {
      double d1 = 0, d2 = 0;
      bool secondFirst = g.coin();
      std::string r = outcome<bpp::Exception>([&]() {
        if (secondFirst) d2 = o.lik->getSecondOrderDerivative(order[k]);
        d1 = o.lik->getFirstOrderDerivative(order[k]);
        if (!secondFirst) d2 = o.lik->getSecondOrderDerivative(order[k]);
      });
      bool n1 = true, n2 = true;
      long q1 = r == "ok" ? num(-d1 * static_cast<double>(L), 1, n1) : 0;
      long q2 = r == "ok" ? num((d1 * d1 - d2) * static_cast<double>(L), 1, n2) : 0;
      per[k].kv("r", r == "ok" ? "ok" : "raise").kv("q1", q1).kv("n1", n1).kv("q2", q2).kv("n2", n2);
    }
    D.kv(order[0], per[0]).kv(order[1], per[1]);
    ev.kv("D", D);
  }
  ev.kv("Pr", pr == "ok" ? "ok" : "raise").kv("T", Tn).kv("Tnear", tn).kv("SL", SL).kv("SLnear", sn).kv("rowsEq", rowsEq);
  ev.kv("mem", g_overruns.load() == 0);
  tracer().emit(ev);
}

// all dyadic transition settings for a model family: returns the theta lists; fills tables for "table"
static std::vector<Theta> exactSettings(Rng& g, ExactModel& m)
{
  Conf& c = m.c;
  std::vector<Theta> out;
  size_t n = c.n;
  m.dP = 8;
  if (c.tm == "auto")
  {
    std::vector<std::vector<long>> lams; // eighths
    if (n == 1) lams = {{4}, {7}};
    else if (n == 2)
    {
      // stationary vector ((8-l2),(8-l1))/(16-l1-l2) must be dyadic
      for (long l1 = 1; l1 <= 7; ++l1)
        for (long l2 = 1; l2 <= 7; ++l2)
        {
          long d = 16 - l1 - l2;
          if (d == 8 || d == 4 || d == 2) lams.push_back({l1, l2});
        }
      m.dPi = 8;
    }
    else if (n == 3)
    {
      lams = {{2, 2, 2}, {4, 4, 4}, {6, 6, 6}};
      m.dP = 16;
      m.dPi = 3;
    }
    else
    {
      lams = {{2, 2, 2, 2}, {5, 5, 5, 5}};
      m.dPi = 4;
    }
    if (n == 1) m.dPi = 1;
    for (int k = 0; k < 3; ++k)
    {
      const auto& l = lams[g.below(lams.size())];
      Theta th;
      for (size_t i = 0; i < n; ++i) th.push_back({"lambda" + std::to_string(i + 1), static_cast<double>(l[i]) / 8.0});
      out.push_back(th);
    }
  }
  else if (c.tm == "full")
  {
    m.dPi = static_cast<long>(n);
    for (int k = 0; k < 3; ++k)
    {
      Tab ds = randDS(g, n, true);
      Theta th;
      for (size_t i = 0; i < n; ++i) fullTheta(th, i, scaleTab(ds, 0.125)[i]);
      out.push_back(th);
    }
  }
  else
  {
    // harness table: doubly stochastic with zero entries (uniform stationary vector), plus hand-made
    // sparse chains with transient states (stationary vector with zero entries) for n = 2 and 4
    c.tables.clear();
    c.pis.clear();
    m.dPi = 8;
    for (int k = 0; k < 2; ++k)
    {
      c.tables.push_back(scaleTab(randDS(g, n, false), 0.125));
      c.pis.push_back(std::vector<double>(n, 1.0 / static_cast<double>(n)));
    }
    if (n == 3) m.dPi = 3;
    if (n == 1) m.dPi = 1;
    if (n == 2)
    {
      c.tables.push_back({{1, 0}, {0.5, 0.5}}); // state 2 transient
      c.pis.push_back({1, 0});
      c.tables.push_back({{0.875, 0.125}, {0.375, 0.625}});
      c.pis.push_back({0.75, 0.25});
    }
    if (n == 4)
    {
      c.tables.push_back({{0.5, 0.5, 0, 0}, {0.5, 0.5, 0, 0}, {0.25, 0.25, 0.25, 0.25}, {0, 0, 0.5, 0.5}}); // states 3,4 transient
      c.pis.push_back({0.5, 0.5, 0, 0});
    }
    for (size_t t = 0; t < c.tables.size(); ++t) out.push_back(Theta{{"t", static_cast<double>(t)}});
  }
  return out;
}

// Nearly reducible FullHmmTransitionMatrix (groups of states connected by entries 1e-9), uninformative data
// (every emission 1): the stationary vector must be a distribution with pi P = pi, and the probability of the
// data is 1 whatever the matrix.  Fixed-point (E4): pi6 = round(pi * 1e6), P4 / pi4 = round(. * 1e4), L6 = round(exp(logL) * 1e6).
static long fx(double x, double sc)
{
  double v = x * sc;
  if (!(v == v) || v > 2.0e9 || v < -2.0e9) return -1000000000;
  return static_cast<long>(std::floor(v + 0.5));
}

static Theta nearTheta(Rng& g, size_t n, int shape)
{
  // shape 0: two closed groups {1..h} | {h+1..n}; shape 1: state 1 feeds a closed group {2..n}
  const double e = 1e-9;
  size_t h = shape == 0 ? (n + 1) / 2 : 1;
  Theta th;
  thetaSet(th, "a", 0);
  thetaSet(th, "b", 0);
  for (size_t i = 0; i < n; ++i)
  {
    std::vector<double> row(n, e);
    bool first = i < h;
    size_t lo = first ? 0 : h, hi = first ? h : n;
    if (shape == 1 && first)
    {
      lo = 1;
      hi = n;
    }
    double sum = 0;
    for (size_t j = lo; j < hi; ++j)
    {
      row[j] = 0.1 + g.unit();
      sum += row[j];
    }
    double rest = 1.0 - e * static_cast<double>(n - (hi - lo));
    for (size_t j = lo; j < hi; ++j) row[j] *= rest / sum;
    fullTheta(th, i, row);
  }
  return th;
}

static void nearEvent(Built& o, const Conf& c, const std::vector<size_t>& bps)
{
  const bpp::HmmTransitionMatrix& T = o.lik->hmmTransitionMatrix();
  Arr pi6, pi4, P4, b;
  for (size_t x : bps) b.add(x);
  for (size_t i = 0; i < c.n; ++i)
  {
    pi6.add(fx(T.getEquilibriumFrequencies()[i], 1e6));
    pi4.add(fx(T.getEquilibriumFrequencies()[i], 1e4));
    Arr r;
    for (size_t j = 0; j < c.n; ++j) r.add(fx(T.Pij(i, j), 1e4));
    P4.add(r);
  }
  double logL = 0;
  std::string lr = outcome<bpp::Exception>([&]() { logL = o.lik->getLogLikelihood(); });
  tracer().emit(Obj().kv("e", "Near").kv("cls", c.cls).kv("n", c.n).kv("len", c.len).kv("bps", b).kv("pi6", pi6).kv("pi4", pi4).kv("P4", P4)
                    .kv("Lr", lr).kv("fin", std::isfinite(logL)).kv("L6", fx(std::exp(logL), 1e6)).kv("mem", g_overruns.load() == 0));
}

static long modeNear(Rng& g, long reps, long& scenarios)
{
  long events = 0;
  const char* classes[] = {"rescaled", "logsum", "lowmem"};
  for (size_t n = 2; n <= 5; ++n)
    for (int shape = 0; shape < 2; ++shape)
      for (const char* cls : classes)
        for (long rep = 0; rep < reps; ++rep)
        {
          Conf c;
          c.cls = cls;
          c.tm = "full";
          c.n = n;
          c.len = 1 + g.below(4);
          c.chunk = c.cls == "lowmem" ? 1 + g.below(c.len + 1) : 0;
          c.c0 = constTab(c.len, n, 1.0);
          c.ca = constTab(c.len, n, 0.0);
          c.cb = c.ca;
          c.cq = c.ca;
          std::vector<size_t> bps = randBps(g, c.len);
          tracer().emit(Obj().kv("e", "Reset").kv("k", c.cls).kv("tm", c.tm).kv("n", c.n).kv("len", c.len).kv("chunk", c.chunk).kv("near", true));
          ++scenarios;
          g_overruns = 0;
          Theta th = nearTheta(g, n, shape);
          Built o = build(c, th, bps);
          nearEvent(o, c, bps);
          ++events;
          Theta th2 = nearTheta(g, n, 1 - shape);
          std::string r = outcome<bpp::Exception>([&]() { o.lik->setParametersValues(toPl(th2)); });
          tracer().emit(Obj().kv("e", "XUpdate").kv("r", r));
          nearEvent(o, c, bps);
          events += 2;
        }
  return events;
}

static long modeExact(Rng& g, long reps, long& scenarios, long& skipped)
{
  long events = 0;
  const char* tms[] = {"auto", "full", "table"};
  for (size_t n = 1; n <= 4; ++n)
    for (size_t len = 1; len <= 4; ++len)
      for (const char* tmk : tms)
        for (long rep = 0; rep < reps; ++rep)
        {
          ExactModel m;
          Conf& c = m.c;
          c.n = n;
          c.len = len;
          c.tm = tmk;
          c.cls = "rescaled";
          std::vector<Theta> settings = exactSettings(g, m);
          // emission numerators over 8: e = c0 + a*ca + b*cb with a, b in {0, 1}
          m.c0n = Tab(len, std::vector<double>(n));
          m.can = m.c0n;
          m.cbn = m.c0n;
          for (size_t i = 0; i < len; ++i)
            for (size_t s = 0; s < n; ++s)
            {
              m.c0n[i][s] = static_cast<double>(1 + g.below(4));
              m.can[i][s] = static_cast<double>(g.below(3));
              m.cbn[i][s] = static_cast<double>(g.below(3));
            }
          c.c0 = scaleTab(m.c0n, 0.125);
          c.ca = scaleTab(m.can, 0.125);
          c.cb = scaleTab(m.cbn, 0.125);
          c.cq = constTab(len, n, 0.0);
          // tiny emissions: half of the families scale whole sites by exact powers of two (2^-70 .. 2^-600,
          // i.e. 1e-21 .. 1e-181): every state of such a site emits with a tiny probability
          m.ex.assign(len, 0);
          if (g.coin())
          {
            const int xs[] = {70, 150, 300, 600};
            for (size_t i = 0; i < len; ++i)
              if (g.coin()) m.ex[i] = xs[g.below(4)];
            if (len > 1 && g.coin()) m.ex[1 + g.below(len - 1)] = xs[g.below(4)];
            // every site at 2^-600: the likelihood of a two-site prefix is below the smallest double
            if (g.chance(1, 3)) m.ex.assign(len, 600);
          }
          for (size_t i = 0; i < len; ++i)
            for (size_t st = 0; st < n; ++st)
            {
              c.c0[i][st] = std::ldexp(c.c0[i][st], -m.ex[i]);
              c.ca[i][st] = std::ldexp(c.ca[i][st], -m.ex[i]);
              c.cb[i][st] = std::ldexp(c.cb[i][st], -m.ex[i]);
            }
          // every subset of break points x every algorithm (x every chunk size)
          for (size_t mask = 0; mask < (1u << (len - 1)); ++mask)
          {
            std::vector<size_t> bps;
            for (size_t i = 1; i < len; ++i)
              if (mask & (1u << (i - 1))) bps.push_back(i);
            std::vector<std::pair<std::string, size_t>> algs = {{"rescaled", 0}, {"logsum", 0}};
            for (size_t ch = 1; ch <= len + 1; ++ch) algs.push_back({"lowmem", ch});
            for (const auto& alg : algs)
            {
              c.cls = alg.first;
              c.chunk = alg.second;
              Theta th = settings[g.below(settings.size())];
              thetaSet(th, "a", static_cast<double>(g.below(2)));
              thetaSet(th, "b", static_cast<double>(g.below(2)));
              Obj rs;
              rs.kv("e", "Reset").kv("k", c.cls).kv("tm", c.tm).kv("n", c.n).kv("len", c.len).kv("chunk", c.chunk);
              rs.kv("c0", tabArr(m.c0n)).kv("ca", tabArr(m.can)).kv("cb", tabArr(m.cbn));
              {
                Arr xa;
                for (int x : m.ex) xa.add(x);
                rs.kv("x", xa);
              }
              Arr tabs;
              for (const Tab& t : c.tables) tabs.add(tabArr(scaleTab(t, 8.0)));
              rs.kv("tables", tabs);
              tracer().emit(rs);
              ++scenarios;
              g_overruns = 0;
              // break points are set after construction; half of the time only after a first round of queries
              bool late = g.coin() && !bps.empty();
              Built o = build(c, th, late ? std::vector<size_t>() : bps);
              if (late)
              {
                exactEvent(g, m, o, th, {}, skipped);
                ++events;
                o.lik->setBreakPoints(bps);
              }
              exactEvent(g, m, o, th, bps, skipped);
              ++events;
              // two updates (emission parameter flips and/or another dyadic transition setting)
              for (int u = 0; u < 2; ++u)
              {
                Theta ch;
                if (g.coin()) ch.push_back({"a", 1.0 - thetaGet(th, "a", 0)});
                if (g.coin()) ch.push_back({"b", 1.0 - thetaGet(th, "b", 0)});
                if (g.coin() || ch.empty())
                  for (const auto& kv : settings[g.below(settings.size())]) ch.push_back(kv);
                for (const auto& kv : ch) thetaSet(th, kv.first, kv.second);
                std::string r = outcome<bpp::Exception>([&]() {
                  if (g.coin()) o.lik->setParametersValues(toPl(ch));
                  else o.lik->matchParametersValues(toPl(ch));
                });
                tracer().emit(Obj().kv("e", "XUpdate").kv("r", r));
                ++events;
                exactEvent(g, m, o, th, bps, skipped);
                ++events;
              }
            }
          }
        }
  return events;
}

int main(int argc, char** argv)
{
  vt::installParamAudit(); // C01: audit of every Parameter of the process when VERIF_PARAM_AUDIT=<file> is set
  std::string out = argStr(argc, argv, "--out", "");
  std::string mode = argStr(argc, argv, "--mode", "cache");
  long n = argInt(argc, argv, "--n", 50);
  long depth = argInt(argc, argv, "--depth", 3);
  if (out.empty() || !tracer().open(out))
  {
    fprintf(stderr, "drv_hmm: cannot open --out\n");
    return 2;
  }
  installCrashHandlers();
  Rng g(envSeed() * 0x9e3779b97f4a7c15ULL + (mode == "cache" ? 13 : 1313));
  long scenarios = 0, events = 0, skipped = 0;
  if (mode == "cache") events = modeCache(g, n, depth, scenarios);
  else
  {
    events = modeExact(g, n, scenarios, skipped);
    events += modeNear(g, 2 * n, scenarios);
  }
  tracer().close();
  printf("{\"mode\":\"%s\",\"scenarios\":%ld,\"events\":%ld,\"skipped\":%ld,\"overruns\":%ld}\n", mode.c_str(), scenarios, events, skipped, g_overruns.load());
  return 0;
}
