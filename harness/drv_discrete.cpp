// Conformance driver for C09 (src/Bpp/Numeric/Prob/*DiscreteDistribution*): lifecycle
// histories of discretised distributions.  Every event carries the observation of the
// object after the call (through public const queries only) in the encodings of
// DESIGN.md: E1 ranks for the structure (all doubles of one observation are ranked
// together), E4 fixed point (1e-6) for masses and means, and bit-for-bit equality
// booleans against (a) the previous observation and (b) a freshly constructed twin
// with the same abstract state.
//
//   drv_discrete --out F --mode random --n N [--avoid id,id]   seeded random histories
//   drv_discrete --out F --mode grid --ns 1,2,3 [--avoid ..]    families x n x scheme x median x parameter grid
//   drv_discrete --out F --mode probe --id <known-finding id>   one dedicated scenario
//   VERIF_C09_DUMP=1 adds a "raw" member with the raw doubles (debugging only, never validated)
#include "tracer.h"
#include "param_audit.h"

#include <Bpp/Exceptions.h>
#include <Bpp/Numeric/Constraints.h>
#include <Bpp/Numeric/NumConstants.h>
#include <Bpp/Numeric/Prob/BetaDiscreteDistribution.h>
#include <Bpp/Numeric/Prob/ConstantDistribution.h>
#include <Bpp/Numeric/Prob/ExponentialDiscreteDistribution.h>
#include <Bpp/Numeric/Prob/GammaDiscreteDistribution.h>
#include <Bpp/Numeric/Prob/GaussianDiscreteDistribution.h>
#include <Bpp/Numeric/Prob/InvariantMixedDiscreteDistribution.h>
#include <Bpp/Numeric/Prob/MixtureOfDiscreteDistributions.h>
#include <Bpp/Numeric/Prob/SimpleDiscreteDistribution.h>
#include <Bpp/Numeric/Prob/TruncatedExponentialDiscreteDistribution.h>
#include <Bpp/Numeric/Prob/UniformDiscreteDistribution.h>

#include <algorithm>
#include <cmath>
#include <cstring>
#include <memory>
#include <set>

using namespace vt;
using bpp::DiscreteDistributionInterface;
typedef std::unique_ptr<DiscreteDistributionInterface> DistP;

static bool g_dump = false;
static std::set<std::string> g_avoid;
static bool avoid(const char* id) { return g_avoid.count(id) != 0; }

// ------------------------------------------------------------------ abstract state
struct Restr
{
  double lo, hi;
  bool il, iu;
};

struct Cfg
{
  std::string fam; // gamma gammaoff beta gaussian exponential truncexp uniform simple constant invariant mixture
  size_t n = 1;
  short scheme = 1;
  bool median = false;
  std::vector<std::pair<std::string, double>> par; // own parameters, short names, in constructor order
  std::vector<Restr> restr;                        // accepted restrictions, in order
  std::vector<Cfg> inner;                          // compound distributions
  double invariant = 0;
  std::vector<double> svals;                       // simple: V_i (sprobs derive from theta_i)

  double get(const std::string& k) const
  {
    for (const auto& p : par)
      if (p.first == k) return p.second;
    return 0;
  }
  void set(const std::string& k, double v)
  {
    for (auto& p : par)
      if (p.first == k) p.second = v;
  }
  bool compound() const { return fam == "invariant" || fam == "mixture"; }
  std::string kind() const
  {
    if (fam == "simple" || fam == "constant" || fam == "invariant" || fam == "mixture") return fam;
    return "cont";
  }
};

// theta_i -> probabilities, with the operations of the library's own update so that a
// fresh object receives bit-identical class probabilities
static std::vector<double> thetasToProbs(const Cfg& c, size_t k)
{
  std::vector<double> p(k);
  double x = 1.0;
  for (size_t i = 0; i + 1 < k; ++i)
  {
    double th = c.get("theta" + std::to_string(i + 1));
    p[i] = th * x;
    x *= 1 - th;
  }
  p[k - 1] = x;
  return p;
}

// fresh object: constructor only (no median, no restriction)
static DistP construct(const Cfg& c)
{
  if (c.fam == "gamma") return DistP(new bpp::GammaDiscreteDistribution(c.n, c.get("alpha"), c.get("beta")));
  if (c.fam == "gammaoff") return DistP(new bpp::GammaDiscreteDistribution(c.n, c.get("alpha"), c.get("beta"), 0.05, 0.05, true, c.get("offset")));
  if (c.fam == "beta") return DistP(new bpp::BetaDiscreteDistribution(c.n, c.get("alpha"), c.get("beta"), c.scheme));
  if (c.fam == "gaussian") return DistP(new bpp::GaussianDiscreteDistribution(c.n, c.get("mu"), c.get("sigma")));
  if (c.fam == "exponential") return DistP(new bpp::ExponentialDiscreteDistribution(c.n, c.get("lambda")));
  if (c.fam == "truncexp") return DistP(new bpp::TruncatedExponentialDiscreteDistribution(c.n, c.get("lambda"), c.get("tp")));
  if (c.fam == "uniform") return DistP(new bpp::UniformDiscreteDistribution(static_cast<unsigned int>(c.n), c.get("min"), c.get("max")));
  if (c.fam == "constant") return DistP(new bpp::ConstantDistribution(c.get("value")));
  if (c.fam == "simple")
  {
    size_t k = c.svals.size();
    std::vector<double> vals(k);
    for (size_t i = 0; i < k; ++i) vals[i] = c.get("V" + std::to_string(i + 1));
    bool dup = false;
    for (size_t i = 0; i < k; ++i)
      for (size_t j = i + 1; j < k; ++j)
        if (vals[i] == vals[j]) dup = true;
    if (!dup) return DistP(new bpp::SimpleDiscreteDistribution(vals, thetasToProbs(c, k)));
    // The constructor refuses equal values, a parameter update separates them by the precision: the fresh object
    // is built on the initial (distinct) values and receives all current parameter values in one bulk update.
    DistP d(new bpp::SimpleDiscreteDistribution(c.svals, thetasToProbs(c, k)));
    bpp::ParameterList pl;
    for (const auto& p : c.par) pl.addParameter(bpp::Parameter(d->getNamespace() + p.first, p.second));
    d->matchParametersValues(pl);
    return d;
  }
  if (c.fam == "invariant")
    return DistP(new bpp::InvariantMixedDiscreteDistribution(construct(c.inner[0]), c.get("p"), c.invariant));
  if (c.fam == "mixture")
  {
    std::vector<DistP> v;
    for (const auto& ic : c.inner) v.push_back(construct(ic));
    return DistP(new bpp::MixtureOfDiscreteDistributions(v, thetasToProbs(c, c.inner.size())));
  }
  throw std::runtime_error("unknown family " + c.fam);
}

static bpp::IntervalConstraint mkInterval(const Restr& r) { return bpp::IntervalConstraint(r.lo, r.hi, r.il, r.iu); }

// the twin: a freshly constructed object brought to the same abstract state
static DistP buildFresh(const Cfg& c)
{
  DistP d = construct(c);
  if (c.median) d->setMedian(true);
  for (const auto& r : c.restr)
  {
    bpp::IntervalConstraint ic = mkInterval(r);
    d->restrictToConstraint(ic);
  }
  return d;
}

// ------------------------------------------------------------------ observation (raw doubles)
struct Probe
{
  double x;
  int kind; // 0 = bound i, 1 = midpoint of class i
  int i;
  int resV; // class index j with getValueCategory(x) == v[j] exactly; -1 none; -2 bpp exception; -3 other throw
  long resI; // getCategoryIndex(x), or -2 / -3
};

struct Obs
{
  bool failed = false; // a const query threw: nothing else is meaningful
  std::string failWhat;
  size_t n = 0;
  std::vector<double> B; // getBounds(): lower, interior, upper
  std::vector<double> interior; // getBound(i)
  double lower = 0, upper = 0;
  bool sl = false, su = false;
  std::vector<double> v, p;
  std::vector<Probe> probes;
  std::vector<std::vector<double>> cum; // per class: Inf, IInf, Sup, SSup
  std::vector<double> F;                // pProb at B[i]
  double Elo = 0, Eup = 0, Zexp = 1;
  bool mii = false; // invariant-mixed: two or more nested class values lie within the 1e-12 resolution of the invariant
  bool mro = false; // median-valued classes: only the rescaling moved the values (see medianRescaleOnly)
  bool hasCdf = false;
};

static bool bitEq(double a, double b) { return std::memcmp(&a, &b, sizeof(double)) == 0 || (a == b); }
static bool vecEq(const std::vector<double>& a, const std::vector<double>& b)
{
  if (a.size() != b.size()) return false;
  for (size_t i = 0; i < a.size(); ++i)
    if (!bitEq(a[i], b[i])) return false;
  return true;
}

static double clip01(double x) { return x < 0 ? 0 : (x > 1 ? 1 : x); }

// Probabilities of the theta-parametrised families (simple, mixture) are products of parameter
// values; the constructor stores the probabilities it is given and derives the thetas by division,
// a later notification recomputes the probabilities from those thetas: equal up to rounding only.
static bool vecNear(const std::vector<double>& a, const std::vector<double>& b)
{
  if (a.size() != b.size()) return false;
  for (size_t i = 0; i < a.size(); ++i)
    if (!(std::fabs(a[i] - b[i]) <= 1e-12)) return false;
  return true;
}

static bool medianRescaleOnly(const DiscreteDistributionInterface& d, const Obs& o);

static Obs observe(const DiscreteDistributionInterface& d, const Cfg& c)
{
  Obs o;
  Guard g(1);
  try
  {
    o.n = d.getNumberOfCategories();
    o.v = d.getCategories();
    o.p = d.getProbabilities();
    o.lower = d.getLowerBound();
    o.upper = d.getUpperBound();
    o.sl = d.strictLowerBound();
    o.su = d.strictUpperBound();
    if (o.n < 1 || o.n > 4096) throw std::runtime_error("absurd class count");
    o.B = d.getBounds();
    for (size_t i = 0; i + 1 < o.n; ++i) o.interior.push_back(d.getBound(i));
  }
  catch (std::exception& e)
  {
    o.failed = true;
    o.failWhat = demangle(typeid(e).name());
    return o;
  }
  // lookup probes: every bound, every class midpoint
  std::vector<double> all;
  all.push_back(o.lower);
  for (double b : o.interior) all.push_back(b);
  all.push_back(o.upper);
  auto look = [&](double x, int kind, int i) {
    Probe pr{x, kind, i, -1, -1};
    try
    {
      double r = d.getValueCategory(x);
      for (size_t j = 0; j < o.v.size(); ++j)
        if (bitEq(o.v[j], r)) pr.resV = static_cast<int>(j);
    }
    catch (bpp::Exception&) { pr.resV = -2; }
    catch (...) { pr.resV = -3; }
    try
    {
      size_t r = d.getCategoryIndex(x);
      pr.resI = r > 100000 ? 100000 : static_cast<long>(r);
    }
    catch (bpp::Exception&) { pr.resI = -2; }
    catch (...) { pr.resI = -3; }
    o.probes.push_back(pr);
  };
  for (size_t i = 0; i < all.size(); ++i) look(all[i], 0, static_cast<int>(i));
  for (size_t i = 0; i + 1 < all.size(); ++i) look(all[i] / 2 + all[i + 1] / 2, 1, static_cast<int>(i));
  // cumulative class queries at every class value
  for (size_t j = 0; j < o.v.size(); ++j)
  {
    std::vector<double> q(4, -1);
    try
    {
      q[0] = d.getInfCumulativeProbability(o.v[j]);
      q[1] = d.getIInfCumulativeProbability(o.v[j]);
      q[2] = d.getSupCumulativeProbability(o.v[j]);
      q[3] = d.getSSupCumulativeProbability(o.v[j]);
    }
    catch (...) {}
    o.cum.push_back(q);
  }
  // the parent's own cumulative function and partial expectation (continuous families only)
  if (c.kind() == "cont")
  {
    try
    {
      for (double b : all) o.F.push_back(d.pProb(b));
      o.Elo = d.Expectation(o.lower);
      o.Eup = d.Expectation(o.upper);
      if (!c.restr.empty())
      {
        double lo = -bpp::NumConstants::VERY_BIG(), hi = bpp::NumConstants::VERY_BIG();
        for (const auto& r : c.restr)
        {
          lo = std::max(lo, r.lo);
          hi = std::min(hi, r.hi);
        }
        o.Zexp = clip01(d.pProb(hi)) - clip01(d.pProb(lo));
      }
      o.hasCdf = true;
    }
    catch (...) { o.hasCdf = false; }
    if (c.median && c.scheme != 2) o.mro = medianRescaleOnly(d, o);
  }
  if (c.fam == "invariant")
  {
    try
    {
      const auto* im = dynamic_cast<const bpp::InvariantMixedDiscreteDistribution*>(&d);
      size_t nearInv = 0;
      if (im)
        for (double x : im->variableSubDistribution().getCategories())
          if (std::fabs(x - c.invariant) <= 1.0000001e-12) ++nearInv;
      o.mii = nearInv >= 2;
    }
    catch (...) {}
  }
  return o;
}

// Situation of the known finding C09-median-values-leave-their-class, recomputed from the object's own parent
// functions: the UN-rescaled medians qProb(minX + (i + 1/2) ec) lie inside their own classes, and every stored
// value is that median times the common factor mean / sum(medians) / ec (or has been clamped to / separated at
// a domain end afterwards).  Medians that are wrong before the rescaling do not qualify.
static bool medianRescaleOnly(const DiscreteDistributionInterface& d, const Obs& o)
{
  if (o.failed || o.B.size() != o.n + 1 || o.v.empty() || o.v.size() > o.n) return false;
  try
  {
    size_t n = o.n;
    double minX = d.pProb(o.lower), maxX = d.pProb(o.upper);
    if (!(maxX > minX)) return false;
    double ec = (maxX - minX) / static_cast<double>(n), t = 0;
    std::vector<double> u(n);
    for (size_t i = 0; i < n; ++i)
    {
      u[i] = d.qProb(minX + (static_cast<double>(i) + 0.5) * ec);
      if (!(o.B[i] <= u[i] && u[i] <= o.B[i + 1])) return false;
      t += u[i];
    }
    double f = t != 0 ? (d.Expectation(o.upper) - d.Expectation(o.lower)) / t / ec : 1;
    // The class map sorts the rescaled values (a negative factor reverses their order) and merges those it
    // cannot tell apart (fewer classes than requested): compare as sets, within 1e-9 relative + 1e-11.
    auto near = [](double a, double b) { return std::fabs(a - b) <= 1e-9 * std::max(1.0, std::fabs(b)) + 1e-11; };
    for (double x : o.v)
    {
      bool ok = near(x, o.lower) || near(x, o.upper);
      for (size_t i = 0; i < n && !ok; ++i) ok = near(x, u[i] * f);
      if (!ok) return false;
    }
    for (size_t i = 0; i < n; ++i)
    {
      double w = u[i] * f;
      bool ok = w <= o.lower || w >= o.upper; // clamped to an end
      for (size_t j = 0; j < o.v.size() && !ok; ++j) ok = near(o.v[j], w);
      if (!ok) return false;
    }
    return true;
  }
  catch (...) { return false; }
}

// the look-ups see the internal domain object even where the reported domain ends do not (ConstantDistribution
// reports its value as both ends)
static bool sameLookups(const Obs& a, const Obs& b)
{
  if (a.probes.size() != b.probes.size()) return false;
  for (size_t i = 0; i < a.probes.size(); ++i)
    if (!bitEq(a.probes[i].x, b.probes[i].x) || a.probes[i].resV != b.probes[i].resV || a.probes[i].resI != b.probes[i].resI) return false;
  return true;
}

static bool obsEq(const Obs& a, const Obs& b)
{
  return a.failed == b.failed && a.n == b.n && bitEq(a.lower, b.lower) && bitEq(a.upper, b.upper) && a.sl == b.sl && a.su == b.su &&
         vecEq(a.interior, b.interior) && vecEq(a.v, b.v) && vecEq(a.p, b.p) && sameLookups(a, b);
}

// ------------------------------------------------------------------ known situation "narrow class"
// 0: every value strictly increasing and inside its own class; 1: values are out of their class ONLY in
// classes narrower than 100 x the 1e-12 resolution of the class map (or than 64 ulp of their bounds) - the
// situation of the known finding C09-class-narrower-than-precision; 2: any other failure of the shape.
static int classifyShape(const Obs& o)
{
  if (o.failed) return 2;
  size_t n = o.n;
  if (o.v.size() != n || o.p.size() != n || o.B.size() != n + 1) return 2;
  for (size_t i = 0; i + 1 < n; ++i)
    if (!(o.v[i] < o.v[i + 1])) return 2;
  bool out = false;
  for (size_t i = 0; i < n; ++i)
  {
    if (o.B[i] <= o.v[i] && o.v[i] <= o.B[i + 1]) continue;
    out = true;
    double w = o.B[i + 1] - o.B[i];
    double res = std::max(1e-10, 64 * 2.220446049250313e-16 * std::max(std::fabs(o.B[i]), std::fabs(o.B[i + 1])));
    if (!(w >= 0 && w < res)) return 2;
  }
  return out ? 1 : 0;
}

// ------------------------------------------------------------------ encoding
static long long fp(double x)
{
  if (!(x == x)) return 2000000000LL; // NaN
  double s = std::round(x * 1e6);
  if (s > 2e9) return 2000000000LL;
  if (s < -2e9) return -2000000000LL;
  return static_cast<long long>(s);
}
static Obj encode(const Obs& o, const Cfg& c, const Obs* prev, const Obs* twin, bool twinFailed)
{
  Obj j;
  if (o.failed) return j.kv("failed", true).kv("what", o.failWhat);
  j.kv("failed", false);
  j.kv("n", o.n).kv("sz", Arr().add(o.v.size()).add(o.p.size()).add(o.B.size()));
  // E1: one pool per observation
  std::vector<double> pool;
  pool.push_back(o.lower);
  pool.push_back(o.upper);
  for (double x : o.interior) pool.push_back(x);
  for (double x : o.B) pool.push_back(x);
  for (double x : o.v) pool.push_back(x);
  for (const auto& pr : o.probes) pool.push_back(pr.x);
  for (const auto& r : c.restr)
  {
    pool.push_back(r.lo);
    pool.push_back(r.hi);
  }
  bool nan = false;
  for (double x : pool)
    if (!(x == x)) nan = true;
  j.kv("nan", nan);
  std::vector<double> s;
  for (double x : pool)
    if (x == x) s.push_back(x);
  std::sort(s.begin(), s.end());
  s.erase(std::unique(s.begin(), s.end()), s.end());
  auto rk = [&](double x) -> long {
    if (!(x == x)) return -1;
    return static_cast<long>(std::lower_bound(s.begin(), s.end(), x) - s.begin());
  };
  Arr rb, rB, rv;
  rb.add(rk(o.lower));
  for (double x : o.interior) rb.add(rk(x));
  rb.add(rk(o.upper));
  for (double x : o.B) rB.add(rk(x));
  for (double x : o.v) rv.add(rk(x));
  j.kv("rb", rb).kv("rB", rB).kv("rv", rv).kv("sl", o.sl).kv("su", o.su);
  Arr rr;
  for (const auto& r : c.restr) rr.add(Arr().add(rk(r.lo)).add(rk(r.hi)).add(r.il).add(r.iu));
  j.kv("rr", rr);
  // E4 probabilities (+ exact sign, + exact equality of all masses)
  Arr p, ps;
  double sum = 0;
  for (size_t i = 0; i < o.p.size(); ++i)
  {
    p.add(fp(o.p[i]));
    ps.add(o.p[i] < 0 ? -1 : (o.p[i] > 0 ? 1 : 0));
    sum += o.p[i];
  }
  bool peq = true;
  for (size_t i = 1; i < o.p.size(); ++i)
    if (!bitEq(o.p[i], o.p[0])) peq = false;
  j.kv("p", p).kv("ps", ps).kv("psum", fp(sum)).kv("peq", peq);
  // lookups
  Arr lk;
  for (const auto& pr : o.probes) lk.add(Arr().add(rk(pr.x)).add(pr.kind).add(pr.i).add(pr.resV).add(pr.resI));
  j.kv("lk", lk);
  Arr cum;
  for (const auto& q : o.cum) cum.add(Arr().add(fp(q[0])).add(fp(q[1])).add(fp(q[2])).add(fp(q[3])));
  j.kv("cum", cum);
  // parent (continuous families): conditional class masses from the object's own pProb
  j.kv("cdf", o.hasCdf);
  if (o.hasCdf)
  {
    size_t m = o.F.size();
    double Z = o.F[m - 1] - o.F[0];
    Arr mc, rF;
    std::vector<double> fs(o.F);
    std::sort(fs.begin(), fs.end());
    fs.erase(std::unique(fs.begin(), fs.end()), fs.end());
    for (size_t i = 0; i < m; ++i) rF.add(static_cast<long>(std::lower_bound(fs.begin(), fs.end(), o.F[i]) - fs.begin()));
    for (size_t i = 0; i + 1 < m; ++i) mc.add(fp((o.F[i + 1] - o.F[i]) / Z));
    j.kv("mc", mc).kv("rF", rF).kv("Z", fp(Z));
    // mass the domain should carry: the parent's mass over the intersection of the accepted restrictions
    // (the whole parent when there is none), from the object's own cdf clipped to [0,1]
    j.kv("Zexp", fp(o.Zexp));
    // means, scaled to a unit that keeps them inside 32 bits
    double dm = 0;
    for (size_t i = 0; i < o.v.size() && i < o.p.size(); ++i) dm += o.v[i] * o.p[i];
    double pm = (o.Eup - o.Elo) / Z;
    double unit = 1e-300;
    for (double x : o.v) unit = std::max(unit, std::fabs(x));
    unit = std::max(unit, std::fabs(pm));
    j.kv("dm", fp(dm / unit)).kv("pm", fp(pm / unit));
  }
  // history: bit-for-bit equality with the previous observation and with the fresh twin
  j.kv("mii", o.mii).kv("mro", o.mro); // for the signature of a known finding only
  j.kv("narrow", classifyShape(o) == 1); // for the signature of a known finding only; no predicate reads it
  j.kv("same", prev ? obsEq(o, *prev) : false);
  Obj tw;
  if (twinFailed || !twin || twin->failed) tw.kv("built", false);
  else
  {
    tw.kv("built", true)
        .kv("n", twin->n == o.n)
        .kv("lower", bitEq(twin->lower, o.lower))
        .kv("upper", bitEq(twin->upper, o.upper))
        .kv("flags", twin->sl == o.sl && twin->su == o.su)
        .kv("bounds", vecEq(twin->interior, o.interior))
        .kv("values", vecEq(twin->v, o.v))
        .kv("probs", (c.fam == "simple" || c.fam == "mixture") ? vecNear(twin->p, o.p) : vecEq(twin->p, o.p));
  }
  j.kv("tw", tw);
  if (g_dump)
  {
    auto raw = [](const std::vector<double>& v) {
      std::string s = "";
      char b[40];
      for (double x : v)
      {
        snprintf(b, sizeof b, "%.17g ", x);
        s += b;
      }
      return s;
    };
    Obj r;
    r.kv("B", raw(o.B)).kv("v", raw(o.v)).kv("p", raw(o.p)).kv("F", raw(o.F));
    if (twin && !twin->failed) r.kv("tB", raw(twin->B)).kv("tv", raw(twin->v)).kv("tp", raw(twin->p)).kv("tsl", twin->sl).kv("tsu", twin->su);
    Arr rs;
    for (const auto& x : c.restr) rs.add(raw({x.lo, x.hi}) + (x.il ? "[" : "]") + (x.iu ? "]" : "["));
    r.kv("restr", rs);
    j.kv("raw", r);
  }
  return j;
}

// ------------------------------------------------------------------ runner
static std::string nsOf(const std::string& fam)
{
  if (fam == "gamma" || fam == "gammaoff") return "Gamma.";
  if (fam == "beta") return "Beta.";
  if (fam == "gaussian") return "Gaussian.";
  if (fam == "exponential") return "Exponential.";
  if (fam == "truncexp") return "TruncExponential.";
  if (fam == "uniform") return "Uniform.";
  if (fam == "constant") return "Constant.";
  if (fam == "simple") return "Simple.";
  if (fam == "invariant") return "Invariant.";
  if (fam == "mixture") return "Mixture.";
  return "";
}

struct Target
{
  int inner; // -1 = own parameter, k = parameter of component k
  std::string name;
  bool deep = false; // component k of a mixture is an invariant-mixed distribution: parameter of ITS nested distribution
  Target(int i, const std::string& n, bool d = false) : inner(i), name(n), deep(d) {}
};

class Runner
{
public:
  Rng rng;
  DistP obj;
  Cfg cfg;
  Obs last;
  bool haveLast = false;
  long scenarios = 0, events = 0, twinFailures = 0, rejected = 0, accepted = 0;

  explicit Runner(uint64_t seed) : rng(seed), obj(), cfg(), last() {}

  // log grid over three decades: lo * 10^(k/4), k = 0..12
  double grid(double lo) { return lo * std::pow(10.0, static_cast<double>(rng.range(0, 12)) / 4.0); }

  std::string shortName(const Target& t) const
  {
    if (t.inner < 0) return t.name;
    const Cfg& ic = cfg.inner[static_cast<size_t>(t.inner)];
    if (cfg.fam == "invariant") return nsOf(ic.fam) + t.name;
    std::string comp = std::to_string(t.inner + 1) + "_" + nsOf(ic.fam);
    return t.deep ? comp + nsOf(ic.inner[0].fam) + t.name : comp + t.name;
  }
  Cfg& cfgOf(const Target& t)
  {
    if (t.inner < 0) return cfg;
    Cfg& ic = cfg.inner[static_cast<size_t>(t.inner)];
    return t.deep ? ic.inner[0] : ic;
  }

  Obj stJson() const
  {
    Obj s;
    s.kv("fam", cfg.fam).kv("kind", cfg.kind()).kv("n", cfg.n).kv("scheme", cfg.scheme).kv("median", cfg.median).kv("nr", cfg.restr.size());
    s.kv("k", cfg.fam == "mixture" ? cfg.inner.size() : (cfg.fam == "simple" ? cfg.svals.size() : 1));
    return s;
  }

  static std::string kindOf(const std::string& r)
  {
    if (r == "ok") return "ok";
    if (r.compare(0, 10, "raise:std:") == 0) return "std";
    if (r == "raise:other") return "other";
    return "bpp";
  }
  void emit(Obj& e, const std::string& outcome)
  {
    if (g_dump)
    {
      fprintf(stderr, "after %s -> %s\n", e.j().dump().c_str(), outcome.c_str());
      fflush(stderr);
    }
    Obs o = observe(*obj, cfg);
    Obs tw;
    bool twinFailed = false;
    try
    {
      Guard g(2);
      DistP t = buildFresh(cfg);
      tw = observe(*t, cfg);
    }
    catch (...)
    {
      twinFailed = true;
      ++twinFailures;
    }
    e.kv("r", outcome).kv("rk", kindOf(outcome)).kv("st", stJson()).kv("o", encode(o, cfg, haveLast ? &last : nullptr, &tw, twinFailed));
    tracer().emit(e);
    last = o;
    haveLast = true;
    ++events;
  }

  void reset()
  {
    obj.reset();
    haveLast = false;
    tracer().emit(Obj().kv("e", "Reset"));
    ++scenarios;
  }

  bool doConstruct(const Cfg& c)
  {
    cfg = c;
    std::string r = outcome<bpp::Exception>([&]() { obj = construct(cfg); });
    Obj e;
    e.kv("e", "Construct");
    if (r != "ok")
    {
      e.kv("r", r).kv("rk", kindOf(r)).kv("st", stJson());
      tracer().emit(e);
      return false;
    }
    emit(e, r);
    return true;
  }

  // via: 0 setParameterValue, 1 matchParametersValues, 2 setParametersValues
  void doSetParam(const std::vector<std::pair<Target, double>>& ch, int via)
  {
    std::string r = outcome<bpp::Exception>([&]() {
      if (via == 0 && ch.size() == 1) obj->setParameterValue(shortName(ch[0].first), ch[0].second);
      else
      {
        bpp::ParameterList pl;
        for (const auto& c : ch) pl.addParameter(bpp::Parameter(obj->getNamespace() + shortName(c.first), c.second));
        if (via == 2) obj->setParametersValues(pl);
        else obj->matchParametersValues(pl);
      }
    });
    if (r == "ok")
    {
      for (const auto& c : ch) cfgOf(c.first).set(c.first.name, c.second);
      ++accepted;
    }
    else ++rejected;
    Obj e;
    Arr names;
    for (const auto& c : ch) names.add(shortName(c.first));
    e.kv("e", "SetParam").kv("names", names).kv("via", via);
    emit(e, r);
  }

  void doSetN(size_t n)
  {
    std::string r = outcome<bpp::Exception>([&]() { obj->setNumberOfCategories(n); });
    if (r == "ok")
    {
      cfg.n = n;
      for (auto& ic : cfg.inner)
      {
        ic.n = n;
        for (auto& ic2 : ic.inner) ic2.n = n;
      }
    }
    Obj e;
    e.kv("e", "SetN").kv("a", n);
    emit(e, r);
  }

  // a namespace change renames every parameter (own and nested); the classes must not move, and later
  // parameter changes through the new names must still reach the nested distributions
  void doSetNamespace(const std::string& prefix)
  {
    std::string r = outcome<bpp::Exception>([&]() { obj->setNamespace(prefix); });
    Obj e;
    e.kv("e", "SetNamespace").kv("a", prefix);
    emit(e, r);
  }

  void doSetMedian(bool m)
  {
    std::string r = outcome<bpp::Exception>([&]() { obj->setMedian(m); });
    if (r == "ok") cfg.median = m;
    Obj e;
    e.kv("e", "SetMedian").kv("a", m);
    emit(e, r);
  }

  void doRestrict(const Restr& rs)
  {
    bpp::IntervalConstraint ic = mkInterval(rs);
    std::string r = outcome<bpp::Exception>([&]() { obj->restrictToConstraint(ic); });
    if (r == "ok") cfg.restr.push_back(rs);
    Obj e;
    e.kv("e", "Restrict").kv("il", rs.il).kv("iu", rs.iu);
    emit(e, r);
  }

  template<class T> static bool assignAs(DiscreteDistributionInterface* dst, const DiscreteDistributionInterface* src)
  {
    T* a = dynamic_cast<T*>(dst);
    const T* b = dynamic_cast<const T*>(src);
    if (!a || !b) return false;
    *a = *b;
    return true;
  }

  // how: 0 clone (continue with the clone, the original is destroyed), 1 operator= into a
  // differently configured object of the same family, 2 clone then mutate the ORIGINAL and
  // continue with the clone (independence of the copy)
  void doCopy(int how)
  {
    std::string r = outcome<bpp::Exception>([&]() {
      if (how == 0) obj.reset(obj->clone());
      else if (how == 1)
      {
        Cfg other = cfg;
        other.n = cfg.n == 3 ? 5 : 3;
        for (auto& ic : other.inner) ic.n = other.n;
        other.median = !cfg.median;
        other.restr.clear();
        if (other.fam == "simple" || other.fam == "constant") other = cfg;
        DistP dst = buildFresh(other);
        bool ok = assignAs<bpp::GammaDiscreteDistribution>(dst.get(), obj.get()) || assignAs<bpp::BetaDiscreteDistribution>(dst.get(), obj.get()) ||
                  assignAs<bpp::GaussianDiscreteDistribution>(dst.get(), obj.get()) || assignAs<bpp::ExponentialDiscreteDistribution>(dst.get(), obj.get()) ||
                  assignAs<bpp::TruncatedExponentialDiscreteDistribution>(dst.get(), obj.get()) || assignAs<bpp::UniformDiscreteDistribution>(dst.get(), obj.get()) ||
                  assignAs<bpp::SimpleDiscreteDistribution>(dst.get(), obj.get()) || assignAs<bpp::ConstantDistribution>(dst.get(), obj.get()) ||
                  assignAs<bpp::InvariantMixedDiscreteDistribution>(dst.get(), obj.get()) || assignAs<bpp::MixtureOfDiscreteDistributions>(dst.get(), obj.get());
        if (!ok) throw std::runtime_error("assign: unknown type");
        obj = std::move(dst);
      }
      else
      {
        DistP cp(obj->clone());
        // disturb the original; the copy must not notice - first with calls that are refused
        // (a parameter value outside its constraint, a restriction that excludes the invariant /
        // the constant / the truncation point), then with calls that are accepted
        for (const auto& t : targets())
        {
          double bad;
          if (!badValue(t, bad)) continue;
          try { obj->setParameterValue(shortName(t), bad); } catch (...) {}
          try
          {
            bpp::ParameterList pl;
            pl.addParameter(bpp::Parameter(obj->getNamespace() + shortName(t), bad));
            obj->matchParametersValues(pl);
          }
          catch (...) {}
        }
        try
        {
          bpp::IntervalConstraint far(last.upper + std::fabs(last.upper) + 1, last.upper + 2 * std::fabs(last.upper) + 2, true, true);
          if (cfg.kind() != "cont" || cfg.fam == "truncexp") obj->restrictToConstraint(far);
        }
        catch (...) {}
        try
        {
          if (cfg.kind() != "simple" && cfg.kind() != "constant") obj->setNumberOfCategories(cfg.n == 2 ? 3 : 2);
          obj->setMedian(!cfg.median);
          bpp::IntervalConstraint ic(last.lower / 2 + last.upper / 2, last.upper, true, true);
          if (cfg.kind() == "cont") obj->restrictToConstraint(ic);
        }
        catch (...) {}
        obj = std::move(cp);
      }
    });
    Obj e;
    e.kv("e", "Copy").kv("how", how);
    emit(e, r);
  }

  // -------------------------------------------------------------- generators
  Cfg randomLeaf(const std::string& fam, size_t n)
  {
    Cfg c;
    c.fam = fam;
    c.n = n;
    if (fam == "gamma" || fam == "gammaoff")
    {
      c.par = {{"alpha", grid(0.1)}, {"beta", grid(0.1)}};
      if (fam == "gammaoff") c.par.push_back({"offset", randomLocation()});
    }
    else if (fam == "beta")
    {
      c.par = {{"alpha", grid(0.1)}, {"beta", grid(0.1)}};
      c.scheme = static_cast<short>(rng.range(1, 3));
    }
    else if (fam == "gaussian") c.par = {{"mu", randomLocation(avoid("C09-median-zero-sum-hang"))}, {"sigma", grid(0.1)}};
    else if (fam == "exponential") c.par = {{"lambda", grid(0.01)}};
    else if (fam == "truncexp") c.par = {{"lambda", grid(0.01)}, {"tp", grid(0.1)}};
    else if (fam == "uniform")
    {
      double a = randomLocation(), w = grid(0.1);
      c.par = {{"min", a}, {"max", a + w}};
    }
    else if (fam == "constant")
    {
      c.par = {{"value", randomLocation()}};
      c.n = 1;
    }
    else if (fam == "simple")
    {
      size_t k = static_cast<size_t>(rng.range(1, 6));
      double v = randomLocation();
      for (size_t i = 0; i < k; ++i)
      {
        c.svals.push_back(v);
        c.par.push_back({"V" + std::to_string(i + 1), v});
        if (i + 1 < k) c.par.push_back({"theta" + std::to_string(i + 1), 0.05 + 0.9 * rng.unit()});
        v += grid(0.01);
      }
      c.n = k;
    }
    return c;
  }
  double randomLocation(bool nonzero = false)
  {
    if (rng.chance(1, 5) && !nonzero) return 0;
    double m = grid(0.01);
    return (!avoid("C09-gamma-negative-offset-mean") && rng.coin()) ? -m : m;
  }
  double randomPositiveLocation() { return rng.chance(1, 4) ? 0 : grid(0.01); }

  size_t randomN()
  {
    size_t r = rng.below(10);
    if (r < 5) return static_cast<size_t>(rng.range(1, 6));
    return static_cast<size_t>(rng.range(1, 32));
  }

  Cfg randomCfg()
  {
    static const char* leaves[] = {"gamma", "gammaoff", "beta", "gaussian", "exponential", "truncexp", "uniform"};
    size_t r = rng.below(100);
    size_t n = randomN();
    if (r < 62) return randomLeaf(leaves[rng.below(7)], n);
    if (r < 70) return randomLeaf("simple", n);
    if (r < 76) return randomLeaf("constant", 1);
    Cfg c;
    c.n = std::min<size_t>(n, 12);
    if (r < 88)
    {
      c.fam = "invariant";
      static const char* in[] = {"gamma", "exponential", "beta", "truncexp", "gaussian"};
      c.inner.push_back(randomLeaf(in[rng.below(5)], c.n));
      c.par = {{"p", 0.01 + 0.98 * rng.unit()}};
      c.invariant = rng.chance(3, 4) ? 0 : grid(0.01);
    }
    else
    {
      c.fam = "mixture";
      size_t k = static_cast<size_t>(rng.range(2, 3));
      static const char* in[] = {"gamma", "exponential", "gaussian", "beta", "uniform"};
      for (size_t i = 0; i < k; ++i) c.inner.push_back(randomLeaf(in[rng.below(5)], c.n));
      for (size_t i = 0; i + 1 < k; ++i) c.par.push_back({"theta" + std::to_string(i + 1), 0.05 + 0.9 * rng.unit()});
    }
    return c;
  }

  // all parameters the object exposes, with a generator of in-range values and of refused values
  std::vector<Target> targets() const
  {
    std::vector<Target> t;
    if (cfg.fam != "uniform")
      for (const auto& p : cfg.par) t.push_back(Target(-1, p.first));
    for (size_t k = 0; k < cfg.inner.size(); ++k)
      if (cfg.inner[k].fam != "uniform")
        for (const auto& p : cfg.inner[k].par)
        {
          // known finding: a restriction tightens the nested truncation point's constraint, the copy of the
          // parameter held by the compound does not know, and a change refused by the nested object leaks
          if (p.first == "tp" && !cfg.restr.empty() && avoid("C09-compound-refused-nested-change-leaks")) continue;
          t.push_back(Target(static_cast<int>(k), p.first));
        }
    return t;
  }
  double goodValue(const Target& t)
  {
    const std::string& f = cfgOf(t).fam;
    const std::string& nm = t.name;
    if (nm == "alpha" || nm == "beta" || nm == "sigma") return grid(0.1);
    if (nm == "lambda") return grid(0.01);
    if (nm == "tp") return grid(0.1);
    if (nm == "mu") return randomLocation(avoid("C09-median-zero-sum-hang"));
    if (nm == "offset" || nm == "value") return randomLocation();
    if (nm == "p" || nm.substr(0, 5) == "theta") return 0.01 + 0.98 * rng.unit();
    if (nm[0] == 'V')
    {
      // keep the values of a user-specified distribution apart: move V_i inside its own gap
      const Cfg& c = cfgOf(t);
      size_t i = static_cast<size_t>(atoi(nm.c_str() + 1)) - 1, k = c.svals.size();
      double cur = c.get(nm);
      if (k > 1 && rng.chance(1, 6)) return c.get("V" + std::to_string(1 + (i + 1 + rng.below(k - 1)) % k)); // exactly another class value
      double lo = i > 0 ? c.get("V" + std::to_string(i)) : cur - 1;
      double hi = i + 1 < k ? c.get("V" + std::to_string(i + 2)) : cur + 1;
      return lo + (hi - lo) * (0.1 + 0.8 * rng.unit());
    }
    (void)f;
    return 1;
  }
  bool badValue(const Target& t, double& v)
  {
    const std::string& nm = t.name;
    const std::string& f = cfgOf(t).fam;
    if ((f == "gamma" || f == "gammaoff") && (nm == "alpha" || nm == "beta")) v = rng.coin() ? 0.01 : -1;
    else if (f == "beta") v = rng.coin() ? 0.00001 : -2;
    else if (nm == "sigma") v = rng.coin() ? 0 : -1;
    else if (nm == "lambda" || nm == "tp") v = -0.5;
    else if (nm == "p" || nm.substr(0, 5) == "theta") v = rng.coin() ? -0.1 : 1.5;
    else return false;
    return true;
  }

  // a sub-interval of the current domain that keeps at least one whole class of the last
  // observation (for a mixture: of every component, so that no component loses all its mass)
  bool pick(const std::vector<double>& B, size_t n, double& lo, double& hi, bool& keepLo, bool& keepHi)
  {
    if (B.size() != n + 1 || n == 0) return false;
    size_t a = rng.below(n), b = a + 1 + rng.below(n - a); // a < b <= n
    if (rng.chance(1, 3)) a = 0;
    if (rng.chance(1, 3)) b = n;
    lo = B[a];
    hi = B[b];
    // inside a class rather than on a bound, now and then
    if (a > 0 && rng.chance(1, 3)) lo = B[a - 1] / 2 + B[a] / 2;
    if (b < n && rng.chance(1, 3)) hi = B[b] / 2 + B[b + 1] / 2;
    keepLo = a == 0;
    keepHi = b == n;
    return true;
  }
  bool randomRestriction(Restr& r)
  {
    if (!haveLast || last.failed) return false;
    const double BIG = bpp::NumConstants::VERY_BIG();
    double lo, hi;
    bool kl, kh;
    if (cfg.fam == "mixture" || cfg.fam == "invariant")
    {
      bool first = true;
      size_t k = cfg.inner.size();
      for (size_t c = 0; c < k; ++c)
      {
        const DiscreteDistributionInterface* comp = nullptr;
        if (cfg.fam == "mixture") comp = &dynamic_cast<const bpp::MixtureOfDiscreteDistributions&>(*obj).nDistribution(c);
        else comp = &dynamic_cast<const bpp::InvariantMixedDiscreteDistribution&>(*obj).variableSubDistribution();
        double l2, h2;
        bool a2, b2;
        if (!pick(comp->getBounds(), comp->getNumberOfCategories(), l2, h2, a2, b2)) return false;
        if (first) { lo = l2; hi = h2; kl = a2; kh = b2; first = false; }
        else
        {
          if (l2 < lo) { lo = l2; kl = a2; }
          if (h2 > hi) { hi = h2; kh = b2; }
        }
      }
    }
    else if (cfg.fam == "constant" && rng.coin())
    {
      // an interval that does not contain the constant: must be refused, nothing may move
      double v = cfg.get("value"), a = grid(0.01), w = grid(0.01);
      bool above = rng.coin();
      r = Restr{above ? v + a : v - a - w, above ? v + a + w : v - a, rng.coin(), rng.coin()};
      return true;
    }
    else if (!pick(last.B, last.n, lo, hi, kl, kh)) return false;
    // an end that is kept is never requested at exactly the current domain end: what an
    // intersection does with the inclusion flags at equal bounds belongs to C01, not here
    if (kl) lo = rng.coin() ? -2 * BIG : lo - std::fabs(lo) / 2 - 1;
    if (kh) hi = rng.coin() ? 2 * BIG : hi + std::fabs(hi) / 2 + 1;
    if (!(lo < hi)) return false;
    r = Restr{lo, hi, rng.coin(), rng.coin()};
    if (cfg.fam == "invariant")
    {
      // the invariant must stay inside, else the call is refused (also exercised, less often)
      if (rng.chance(4, 5) && !(cfg.invariant > r.lo)) r.lo = cfg.invariant - 1;
      if (rng.chance(4, 5) && !(cfg.invariant < r.hi)) r.hi = cfg.invariant + 1;
    }
    return true;
  }

  // regular range: under the parameter values of c, every continuous (component) parent keeps
  // at least 1% of its mass inside the accepted restrictions
  static bool regularLeaf(const Cfg& leaf, const std::vector<Restr>& restr)
  {
    if (restr.empty() || leaf.kind() != "cont") return true;
    try
    {
      Cfg one = leaf;
      one.n = 1;
      one.restr.clear();
      DistP d = construct(one);
      double lo = d->getLowerBound(), hi = d->getUpperBound();
      for (const auto& r : restr)
      {
        lo = std::max(lo, r.lo);
        hi = std::min(hi, r.hi);
      }
      if (!(lo < hi)) return false;
      double z = clip01(d->pProb(hi)) - clip01(d->pProb(lo));
      return z >= 0.01;
    }
    catch (...) { return false; }
  }
  static bool regular(const Cfg& c)
  {
    if (!c.compound()) return regularLeaf(c, c.restr);
    for (const auto& ic : c.inner)
      if (!regularLeaf(ic, c.restr)) return false;
    return true;
  }

  static bool hasEmptyClass(const Obs& o)
  {
    if (o.failed || o.B.size() != o.n + 1) return false;
    for (size_t i = 0; i < o.n; ++i)
      if (!(o.B[i] < o.B[i + 1])) return true;
    return false;
  }
  // Steering around the known findings (ids given with --avoid): the next abstract state is
  // tried on a scratch object first; states in which the listed defect would show are not entered.
  long steered = 0;
  bool acceptable(const Cfg& next)
  {
    if (!regular(next)) return false;
    // only the listed situations are avoided: a scratch object that fails in any OTHER way is entered,
    // so that the real object shows the failure
    bool avNarrow = !next.median && avoid("C09-class-narrower-than-precision");
    bool avMedian = next.median && avoid("C09-median-values-leave-their-class");
    bool avEmpty = avoid("C09-empty-class-equal-prob");
    if (!avNarrow && !avMedian && !avEmpty && !(next.fam == "invariant" && avoid("C09-invariant-merge-count"))) return true;
    try
    {
      Guard g(3);
      std::vector<Cfg> todo;
      todo.push_back(next);
      for (const auto& ic : next.inner)
      {
        Cfg leaf = ic;
        leaf.median = next.median;
        leaf.restr = next.restr;
        todo.push_back(leaf);
      }
      for (const auto& c : todo)
      {
        DistP d = buildFresh(c);
        Obs o = observe(*d, c);
        int cls = classifyShape(o);
        if (g_dump) fprintf(stderr, "  scratch %s n=%zu median=%d: shape class %d, mro %d, sizes %zu\n", c.fam.c_str(), c.n, int(c.median), cls, int(o.mro), o.v.size());
        // known finding C09-invariant-merge-count: two or more nested values closer than the 1e-12 resolution of
        // the compound's class map to the invariant are all merged with it (class count below the nested count)
        if (o.mii && avoid("C09-invariant-merge-count")) { ++steered; return false; }
        bool bad = (avNarrow && cls == 1) || (avMedian && cls != 0 && o.mro) || (avEmpty && c.kind() == "cont" && c.scheme == 1 && hasEmptyClass(o));
        // (scheme 1 only: "equal probabilities when possible" has to fall back to equal intervals instead)
        if (bad) { ++steered; return false; }
      }
    }
    catch (...) {}
    return true;
  }

  void randomStep()
  {
    for (int tries = 0; tries < 12; ++tries)
      if (tryStep()) return;
    doSetMedian(cfg.median); // nothing acceptable found: a no-op call
  }

  bool tryStep()
  {
    const std::string kind = cfg.kind();
    size_t r = rng.below(100);
    std::vector<Target> ts = targets();
    if (r < 38 && !ts.empty())
    {
      Target t = ts[rng.below(ts.size())];
      double v;
      if (rng.chance(1, 5) && badValue(t, v)) { doSetParam({{t, v}}, static_cast<int>(rng.below(3))); return true; }
      std::vector<std::pair<Target, double>> ch;
      ch.push_back({t, goodValue(t)});
      if (rng.chance(1, 4) && ts.size() > 1)
      {
        Target u = ts[rng.below(ts.size())];
        if (u.name != t.name || u.inner != t.inner) ch.push_back({u, goodValue(u)});
      }
      Cfg next = cfg;
      for (const auto& c : ch)
      {
        Cfg& tc = c.first.inner < 0 ? next : next.inner[static_cast<size_t>(c.first.inner)];
        (c.first.deep ? tc.inner[0] : tc).set(c.first.name, c.second);
      }
      if (!acceptable(next)) return false;
      doSetParam(ch, ch.size() > 1 ? 1 + static_cast<int>(rng.below(2)) : static_cast<int>(rng.below(3)));
    }
    else if (r < 55)
    {
      size_t n = cfg.n;
      if (kind != "simple" && kind != "constant") n = kind == "cont" ? randomN() : std::min<size_t>(randomN(), 12); // else: the class count is not a request
      Cfg next = cfg;
      next.n = n;
      for (auto& ic : next.inner) ic.n = n;
      if (!acceptable(next)) return false;
      doSetN(n);
    }
    else if (r < 68)
    {
      bool m = rng.chance(3, 4) ? !cfg.median : cfg.median;
      Cfg next = cfg;
      next.median = m;
      if (!acceptable(next)) return false;
      doSetMedian(m);
    }
    else if (r < 88)
    {
      Restr rs;
      if (!randomRestriction(rs)) return false;
      Cfg next = cfg;
      next.restr.push_back(rs);
      bool refusedAnyway = kind == "simple" || kind == "constant";
      if (!refusedAnyway && !acceptable(next)) return false;
      if (refusedAnyway && !regular(next)) return false;
      doRestrict(rs);
    }
    else if (r < 94) doCopy(static_cast<int>(rng.below(3)));
    else
    {
      static const char* ns[] = {"A.", "Bb.", "A.c.", "Zz9."};
      doSetNamespace(ns[rng.below(4)]);
    }
    return true;
  }

  void random(long n)
  {
    for (long s = 0; s < n; ++s)
    {
      reset();
      Cfg c0 = randomCfg();
      for (int tries = 0; tries < 20 && !acceptable(c0); ++tries) c0 = randomCfg();
      if (!doConstruct(c0)) continue;
      long len = rng.range(1, 11);
      for (long i = 0; i < len; ++i)
      {
        if (last.failed) break;
        randomStep();
      }
    }
  }

  // families x n x scheme x median x parameter grid: Construct, SetMedian, one parameter
  // change back and forth (history: the second state must look like the first)
  void gridMode(const std::vector<size_t>& ns, int paramSteps)
  {
    static const char* leaves[] = {"gamma", "gammaoff", "beta", "gaussian", "exponential", "truncexp", "uniform"};
    for (const char* f : leaves)
      for (size_t n : ns)
        for (short scheme = 1; scheme <= (std::string(f) == "beta" ? 3 : 1); ++scheme)
          for (int a = 0; a < paramSteps; ++a)
            for (int b = 0; b < paramSteps; ++b)
            {
              Cfg c;
              c.fam = f;
              c.n = n;
              c.scheme = scheme;
              double pa = 0.1 * std::pow(10.0, 3.0 * a / std::max(1, paramSteps - 1));
              double pb = 0.1 * std::pow(10.0, 3.0 * b / std::max(1, paramSteps - 1));
              std::string fam = f;
              if (fam == "gamma") c.par = {{"alpha", pa}, {"beta", pb}};
              else if (fam == "gammaoff") c.par = {{"alpha", pa}, {"beta", 1.0}, {"offset", b == 0 ? 0 : pb / 10}};
              else if (fam == "beta") c.par = {{"alpha", pa}, {"beta", pb}};
              else if (fam == "gaussian") c.par = {{"mu", (a % 2 ? 1 : -1) * pa / 10}, {"sigma", pb}};
              else if (fam == "exponential") { if (a > 0) continue; c.par = {{"lambda", pb / 10}}; }
              else if (fam == "truncexp") c.par = {{"lambda", pa / 10}, {"tp", pb}};
              else if (fam == "uniform") c.par = {{"min", -pa}, {"max", pb}};
              if (!acceptable(c)) continue;
              reset();
              if (!doConstruct(c)) continue;
              {
                Cfg next = cfg;
                next.median = true;
                if (acceptable(next)) doSetMedian(true);
              }
              std::vector<Target> ts = targets();
              if (!ts.empty())
              {
                Target t = ts[0];
                double old = cfg.get(t.name);
                double there = std::fabs(old) * 3 > 100 ? old / 3 : old * 3; // stays inside the three decades
                Cfg next = cfg;
                next.set(t.name, there);
                if (acceptable(next))
                {
                  doSetParam({{t, there}}, 0);
                  doSetParam({{t, old}}, 0);
                }
              }
              doSetMedian(false);
            }
  }

  // namespace changes of compounds (explicit, twice, and by embedding an invariant-mixed distribution in a
  // mixture, whose constructor renames its clone), each followed by changes of nested and own parameters
  // through the new names
  void renameScenarios()
  {
    for (size_t n : {size_t(2), size_t(4)})
      for (int variant = 0; variant < 3; ++variant)
      {
        Cfg g;
        g.fam = "gamma";
        g.n = n;
        g.par = {{"alpha", 0.9}, {"beta", 1.0}};
        Cfg ex;
        ex.fam = "exponential";
        ex.n = n;
        ex.par = {{"lambda", 2.0}};
        Cfg inv;
        inv.fam = "invariant";
        inv.n = n;
        inv.par = {{"p", 0.25}};
        inv.inner.push_back(g);
        Cfg c;
        if (variant == 0) c = inv;
        else
        {
          c.fam = "mixture";
          c.n = n;
          c.par = {{"theta1", 0.4}};
          c.inner.push_back(variant == 1 ? g : inv); // variant 2: the invariant-mixed is embedded (renamed by the mixture)
          c.inner.push_back(ex);
        }
        reset();
        if (!doConstruct(c)) continue;
        bool deep = variant == 2;
        Target nested(variant == 0 ? 0 : 0, "alpha", deep);
        if (variant == 2) doSetParam({{nested, 0.7}}, 0); // right after the embedding
        doSetNamespace("A.");
        doSetParam({{nested, 1.3}}, 1);
        doSetNamespace("Bb.c.");
        doSetParam({{Target(0, "beta", deep), 2.0}}, 0);
        if (variant == 0) doSetParam({{Target(-1, "p"), 0.5}}, 2);
        else doSetParam({{Target(-1, "theta1"), 0.6}}, 2);
        if (variant == 2) doSetParam({{Target(0, "p"), 0.1}, {nested, 0.5}}, 1);
        doSetN(n + 1);
      }
    // a restriction that excludes the invariant is refused and must leave no trace: the updates that follow
    // recompute the classes and would show a nested distribution that had been restricted nevertheless
    for (size_t n : {size_t(2), size_t(5)})
    {
      Cfg g, c;
      g.fam = "gamma";
      g.n = n;
      g.par = {{"alpha", 0.5}, {"beta", 0.5}};
      c.fam = "invariant";
      c.n = n;
      c.par = {{"p", 0.1}};
      c.inner.push_back(g);
      reset();
      if (!doConstruct(c)) continue;
      doRestrict(Restr{0.2, 5.0, true, true});
      doSetParam({{Target(-1, "p"), 0.25}}, 0);
      doSetN(n + 1);
      doSetMedian(true);
    }
    // user-specified values updated so that one coincides EXACTLY with another (the update separates them by the
    // precision; the class count stays), the last one in particular; then moved apart again
    for (size_t k : {size_t(2), size_t(3), size_t(5)})
      for (int which = 0; which < 2; ++which)
      {
        Cfg c;
        c.fam = "simple";
        c.n = k;
        for (size_t i = 0; i < k; ++i)
        {
          double v = 0.5 + static_cast<double>(i);
          c.svals.push_back(v);
          c.par.push_back({"V" + std::to_string(i + 1), v});
          if (i + 1 < k) c.par.push_back({"theta" + std::to_string(i + 1), 0.2});
        }
        reset();
        if (!doConstruct(c)) continue;
        std::string moved = which == 0 ? "V" + std::to_string(k) : "V1";
        double onto = which == 0 ? 0.5 : 0.5 + static_cast<double>(k - 1);
        doSetParam({{Target(-1, moved), onto}}, 0);
        doSetParam({{Target(-1, "theta1"), 0.3}}, 1);
        doSetParam({{Target(-1, moved), 7.25}}, 2);
      }
    // gamma with offset: a restriction that cuts nothing yet ([1, inf[ while the offset is 2) must be remembered:
    // when the offset drops below it, the domain starts at the restriction
    for (size_t n : {size_t(1), size_t(4)})
    {
      Cfg c;
      c.fam = "gammaoff";
      c.n = n;
      c.par = {{"alpha", 2.0}, {"beta", 1.0}, {"offset", 2.0}};
      reset();
      if (!doConstruct(c)) continue;
      doRestrict(Restr{1.0, 2 * bpp::NumConstants::VERY_BIG(), true, false});
      doSetParam({{Target(-1, "offset"), 0.0}}, 0);
      doSetParam({{Target(-1, "offset"), 1.5}}, 1);
      doSetParam({{Target(-1, "offset"), -3.0}, {Target(-1, "alpha"), 3.0}}, 2);
    }
    // two components of a mixture made identical by a parameter change (their classes coincide and must
    // share the probability), then moved apart again
    for (size_t n : {size_t(1), size_t(3)})
    {
      Cfg g1, g2, c;
      g1.fam = g2.fam = "gamma";
      g1.n = g2.n = n;
      g1.par = {{"alpha", 0.9}, {"beta", 1.0}};
      g2.par = {{"alpha", 2.0}, {"beta", 1.0}};
      c.fam = "mixture";
      c.n = n;
      c.par = {{"theta1", 0.3}};
      c.inner = {g1, g2};
      reset();
      if (!doConstruct(c)) continue;
      doSetParam({{Target(1, "alpha"), 0.9}}, 0);
      doSetParam({{Target(-1, "theta1"), 0.6}}, 1);
      doSetParam({{Target(0, "alpha"), 1.5}}, 2);
    }
  }

  // dedicated scenarios reproducing the known findings (the main generators steer around them)
  void probe(const std::string& id);
};

void Runner::probe(const std::string& id)
{
  reset();
  Cfg c;
  if (id == "C09-class-narrower-than-precision")
  {
    // shape 0.1, 32 classes: the first classes are narrower than the 1e-12 resolution of the class map
    c.fam = "gamma";
    c.n = 32;
    c.par = {{"alpha", 0.1}, {"beta", 1.0}};
    doConstruct(c);
  }
  else if (id == "C09-empty-class-equal-prob")
  {
    // Beta(100, 0.1): the upper 1/32 quantile is closer to 1 than a double can tell
    c.fam = "beta";
    c.n = 32;
    c.scheme = 1;
    c.par = {{"alpha", 100.0}, {"beta", 0.1}};
    doConstruct(c);
  }
  else if (id == "C09-compound-refused-nested-change-leaks")
  {
    c.fam = "invariant";
    c.n = 2;
    c.par = {{"p", 0.25}};
    Cfg in;
    in.fam = "truncexp";
    in.n = 2;
    in.par = {{"lambda", 1.0}, {"tp", 2.0}};
    c.inner.push_back(in);
    if (!doConstruct(c)) return;
    doRestrict(Restr{-1.0, 3.0, true, true});                                        // tp must now stay <= 3 (nested constraint only)
    doSetParam({{Target(-1, "p"), 0.75}, {Target(0, "tp"), 5.0}}, 1);                // refused by the nested object ...
    doSetMedian(true);                                                               // ... but p = 0.75 shows up here
  }
  else if (id == "C09-invariant-merge-count")
  {
    // Beta(0.1, 1), 32 classes: the two lowest class values (~1e-16, ~5e-13) are both within 1e-12 of the invariant 0
    c.fam = "invariant";
    c.n = 32;
    c.par = {{"p", 0.3}};
    Cfg in;
    in.fam = "beta";
    in.n = 32;
    in.scheme = 1;
    in.par = {{"alpha", 0.1}, {"beta", 1.0}};
    c.inner.push_back(in);
    doConstruct(c);
  }
  else if (id == "C09-median-values-leave-their-class")
  {
    // medians are rescaled by mean / sum(medians): ill-conditioned for a parent centred on 0
    c.fam = "gaussian";
    c.n = 6;
    c.par = {{"mu", 0.0}, {"sigma", 10.0}};
    if (!doConstruct(c)) return;
    doSetMedian(true);
  }
}

static std::vector<std::string> splitCsv(const std::string& s)
{
  std::vector<std::string> v;
  std::string cur;
  for (char ch : s)
  {
    if (ch == ',') { if (!cur.empty()) v.push_back(cur); cur.clear(); }
    else cur += ch;
  }
  if (!cur.empty()) v.push_back(cur);
  return v;
}

int main(int argc, char** argv)
{
  vt::installParamAudit(); // C01: audit of every Parameter of the process when VERIF_PARAM_AUDIT=<file> is set
  installCrashHandlers();
  std::string out = argStr(argc, argv, "--out", "");
  std::string mode = argStr(argc, argv, "--mode", "random");
  if (out.empty() || !tracer().open(out))
  {
    fprintf(stderr, "drv_discrete: cannot open --out\n");
    return 2;
  }
  g_dump = getenv("VERIF_C09_DUMP") != nullptr;
  for (const auto& a : splitCsv(argStr(argc, argv, "--avoid", ""))) g_avoid.insert(a);
  Runner r(envSeed() * 7919 + static_cast<uint64_t>(argInt(argc, argv, "--stream", 0)));
  if (mode == "random") r.random(argInt(argc, argv, "--n", 100));
  else if (mode == "grid")
  {
    std::vector<size_t> ns;
    for (const auto& s : splitCsv(argStr(argc, argv, "--ns", "1,2,3,4"))) ns.push_back(static_cast<size_t>(atol(s.c_str())));
    r.gridMode(ns, static_cast<int>(argInt(argc, argv, "--steps", 3)));
    r.renameScenarios();
  }
  else if (mode == "probe") r.probe(argStr(argc, argv, "--id", ""));
  tracer().close();
  printf("{\"scenarios\":%ld,\"events\":%ld,\"twin_failures\":%ld,\"accepted\":%ld,\"rejected\":%ld,\"steered\":%ld}\n", r.scenarios, r.events, r.twinFailures, r.accepted, r.rejected, r.steered);
  return 0;
}
