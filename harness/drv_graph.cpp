// Conformance driver for C14 (src/Bpp/Graph): GlobalGraph and
// AssociationGlobalGraphObserver<std::string, unsigned int> (the classes used by
// test/test_graphObs.cpp).  One ndjson event per public call, written after the
// call returned or threw, carrying the full projection of the graph and of every
// live observer through public queries only.
//
//   drv_graph --out F --mode random --n N [--len 40] [--maxnodes 8]
//   drv_graph --out F --mode bfs --depth D --maxnodes M [--cfg all|<dir><eobj><idx>] [--cap K]
//   drv_graph --out F --mode probe --name <finding-id>
//
// Object identifiers in the trace: node / edge objects of observer 1 are
// 1..999 (the label is also the content of the object), objects owned by the
// copy (observer 2) are 1000 + label.  -1 = no object, -2 = the query raised.
#include "tracer.h"

#include <Bpp/Exceptions.h>
#include <Bpp/Graph/AssociationGraphImplObserver.h>

#include <algorithm>
#include <deque>
#include <functional>
#include <map>
#include <memory>
#include <set>

using namespace vt;
using bpp::GlobalGraph;
using bpp::Graph;

// bpp::Exception symbolises a stack trace in its constructor (backtrace +
// backtrace_symbols + demangling: 32 us per throw), and a full projection
// provokes dozens of throws.  The trace text is never looked at, so the
// executable interposes the two glibc functions with empty ones (2 us per
// throw).  Nothing of the library under test is changed.
extern "C" int backtrace(void**, int) { return 0; }
extern "C" char** backtrace_symbols(void* const*, int) { return static_cast<char**>(malloc(sizeof(char*))); }

typedef bpp::AssociationGlobalGraphObserver<std::string, unsigned int> Obs;
// a second instantiation, to go through the converting copy constructor (there and back)
struct DStr : std::string
{
  DStr(const std::string& s) : std::string(s) {}
  DStr(const DStr& s) : std::string(s) {}
};
typedef bpp::AssociationGlobalGraphObserver<DStr, unsigned long> ObsB;
typedef std::shared_ptr<std::string> NP;
typedef std::shared_ptr<unsigned int> EP;
typedef std::vector<long> LV;

// GlobalGraph::link / unlink are protected (reached by users through the
// observers, which are friends).  A derived class may form pointers to them.
struct Acc : GlobalGraph
{
  static Graph::EdgeId L(GlobalGraph& g, Graph::NodeId a, Graph::NodeId b)
  {
    Graph::EdgeId (GlobalGraph::* f)(Graph::NodeId, Graph::NodeId) = &Acc::link;
    return (g.*f)(a, b);
  }
  static std::vector<Graph::EdgeId> U(GlobalGraph& g, Graph::NodeId a, Graph::NodeId b)
  {
    std::vector<Graph::EdgeId> (GlobalGraph::* f)(Graph::NodeId, Graph::NodeId) = &Acc::unlink;
    return (g.*f)(a, b);
  }
};

static const long NONE = -1, RAISED = -2, IMAX = 12;
static bool g_debug = false; // --debug: announce every call on stderr before it runs (to locate a crash)

struct Op
{
  std::string e;
  int k;
  LV a;
  Op(const std::string& e_, int k_, const LV& a_) : e(e_), k(k_), a(a_) {}
};

template<class T> static LV sortedLV(const std::vector<T>& v)
{
  LV r(v.begin(), v.end());
  std::sort(r.begin(), r.end());
  return r;
}
static Arr arr(const LV& v)
{
  Arr a;
  for (long x : v) a.add(x);
  return a;
}
template<class F> static LV tryList(F f)
{
  try
  {
    return f();
  }
  catch (...)
  {
    return LV(1, RAISED);
  }
}
template<class F> static long tryVal(F f)
{
  try
  {
    return static_cast<long>(f());
  }
  catch (...)
  {
    return RAISED;
  }
}
template<class F> static bool raises(F f)
{
  try
  {
    f();
    return false;
  }
  catch (...)
  {
    return true;
  }
}

// one side = one graph with its observers and the names the driver gave their objects
struct SideData
{
  std::unique_ptr<Obs> o[3];
  std::shared_ptr<GlobalGraph> g;
  std::map<const void*, long> nreg, ereg; // pointer -> object id
  std::map<long, NP> nobj;                // object id -> object
  std::map<long, EP> eobj;
  long hwN, hwE;
  bool isClone;
  SideData() : g(), nreg(), ereg(), nobj(), eobj(), hwN(0), hwE(0), isClone(false) {}
  void swapWith(SideData& x)
  {
    for (int i = 0; i < 3; ++i) o[i].swap(x.o[i]);
    g.swap(x.g);
    nreg.swap(x.nreg);
    ereg.swap(x.ereg);
    nobj.swap(x.nobj);
    eobj.swap(x.eobj);
    std::swap(hwN, x.hwN);
    std::swap(hwE, x.hwE);
    std::swap(isClone, x.isClone);
  }
};

class World : public SideData
{
public:
  std::unique_ptr<SideData> oth; // the other side (a copy of the graph, or the original while the copy is active)
  std::vector<NP> nkeep; // every object ever seen stays alive: addresses are never reused
  std::vector<EP> ekeep;
  std::map<const void*, long> ghostN, ghostE;
  std::map<long, NP> ghostNP;
  std::map<long, EP> ghostEP;
  long unknown;
  bool logging;
  bool full;         // full projection (every query, also the ones that must raise) or only the maps
  bool lightOnRaise; // enumeration: calls that raise are collected into one RaiseBatch event (maps only)
  bool lastRaised;
  Arr pendingOps;    // the raising calls since the last event
  long pendingCount;
  std::string pendingProj; // the (light) projection after the last of them

  explicit World(bool directed) : SideData(), oth(), nkeep(), ekeep(), ghostN(), ghostE(), ghostNP(), ghostEP(), unknown(9000), logging(true), full(true), lightOnRaise(false), lastRaised(false), pendingOps(), pendingCount(0), pendingProj()
  {
    o[1].reset(new Obs(directed));
    g = o[1]->getGraph();
  }
  ~World()
  {
    // observers before graphs, the copy before the original
    if (oth)
    {
      oth->o[2].reset();
      oth->o[1].reset();
    }
    oth.reset();
  }
  bool has(int k) const { return k >= 1 && k <= 2 && o[k]; }
  int maxAlive() const { return o[2] ? 2 : (o[1] ? 1 : 0); }

  // ---- objects
  NP N(long id)
  {
    auto it = nobj.find(id);
    if (it != nobj.end()) return it->second;
    NP p(new std::string(std::to_string(id % 1000)));
    nobj[id] = p;
    nreg[p.get()] = id;
    nkeep.push_back(p);
    return p;
  }
  EP E(long id)
  {
    if (id < 0) return EP();
    auto it = eobj.find(id);
    if (it != eobj.end()) return it->second;
    EP p(new unsigned int(static_cast<unsigned int>(id % 1000)));
    eobj[id] = p;
    ereg[p.get()] = id;
    ekeep.push_back(p);
    return p;
  }
  long nid(const NP& p, int k)
  {
    if (!p) return NONE;
    auto it = nreg.find(p.get());
    if (it != nreg.end()) return it->second;
    it = ghostN.find(p.get());
    if (it != ghostN.end()) return it->second;
    long id = unknown++;
    try
    {
      long lab = std::stol(*p);
      long cand = (k - 1) * 1000 + lab;
      if (lab >= 0 && lab < 1000 && nobj.find(cand) == nobj.end()) id = cand;
    }
    catch (...)
    {}
    nobj[id] = p;
    nreg[p.get()] = id;
    nkeep.push_back(p);
    return id;
  }
  long eid(const EP& p, int k)
  {
    if (!p) return NONE;
    auto it = ereg.find(p.get());
    if (it != ereg.end()) return it->second;
    it = ghostE.find(p.get());
    if (it != ghostE.end()) return it->second;
    long id = unknown++;
    long lab = static_cast<long>(*p);
    long cand = (k - 1) * 1000 + lab;
    if (lab >= 0 && lab < 1000 && eobj.find(cand) == eobj.end()) id = cand;
    eobj[id] = p;
    ereg[p.get()] = id;
    ekeep.push_back(p);
    return id;
  }
  // the objects of a destroyed or overwritten observer k lose their names but stay known as
  // "ghosts" (ids >= 9000, one registry for both sides): every later projection still asks
  // every observer about them
  void forgetObjectsOf(int k)
  {
    for (auto it = nobj.begin(); it != nobj.end();)
      if (it->first / 1000 == k - 1 && it->first < 9000)
      {
        nreg.erase(it->second.get());
        long id = unknown++;
        ghostN[it->second.get()] = id;
        ghostNP[id] = it->second;
        it = nobj.erase(it);
      }
      else ++it;
    for (auto it = eobj.begin(); it != eobj.end();)
      if (it->first / 1000 == k - 1 && it->first < 9000)
      {
        ereg.erase(it->second.get());
        long id = unknown++;
        ghostE[it->second.get()] = id;
        ghostEP[id] = it->second;
        it = eobj.erase(it);
      }
      else ++it;
  }
  LV nids(const std::vector<NP>& v, int k)
  {
    LV r;
    for (const auto& p : v) r.push_back(nid(p, k));
    std::sort(r.begin(), r.end());
    return r;
  }
  LV eids(const std::vector<EP>& v, int k)
  {
    LV r;
    for (const auto& p : v) r.push_back(eid(p, k));
    std::sort(r.begin(), r.end());
    return r;
  }

  // ---- graph projection
  LV liveNodes() const { return tryList([&]() { return sortedLV(g->getAllNodes()); }); }
  LV liveEdges() const { return tryList([&]() { return sortedLV(g->getAllEdges()); }); }
  bool isLive(long n) const
  {
    LV v = liveNodes();
    return std::find(v.begin(), v.end(), n) != v.end();
  }
  void noteIds()
  {
    for (long n : liveNodes()) hwN = std::max(hwN, n + 1);
    for (long e : liveEdges()) hwE = std::max(hwE, e + 1);
  }
  long absentNode() const { return hwN + 2; }
  long absentEdge() const { return hwE + 3; }

  template<class It> static LV drain(std::unique_ptr<It> it)
  {
    LV r;
    for (; !it->end(); it->next()) r.push_back(static_cast<long>(**it));
    std::sort(r.begin(), r.end());
    return r;
  }

  Obj projGraph()
  {
    const GlobalGraph& cg = *g;
    GlobalGraph& mg = *g;
    Obj s;
    s.kv("full", full);
    s.kv("dir", cg.isDirected());
    LV nodes = liveNodes();
    s.kv("nodes", arr(nodes));
    if (!full)
    {
      // light projection: only what binds the views (node table, edge table)
      Arr et0, nt0;
      for (long e : liveEdges())
      {
        auto p = cg.getNodes(static_cast<Graph::EdgeId>(e));
        et0.add(Arr().add(e).add(static_cast<long>(p.first)).add(static_cast<long>(p.second)));
      }
      s.kv("et", et0);
      for (long nl : nodes)
      {
        Graph::NodeId n = static_cast<Graph::NodeId>(nl);
        Obj r;
        r.kv("n", nl);
        for (int outgoing = 1; outgoing >= 0; --outgoing)
        {
          Arr z;
          std::vector<Graph::NodeId> ns = outgoing ? cg.getOutgoingNeighbors(n) : cg.getIncomingNeighbors(n);
          std::vector<Graph::EdgeId> es = outgoing ? cg.getOutgoingEdges(n) : cg.getIncomingEdges(n);
          for (size_t i = 0; i < std::max(ns.size(), es.size()); ++i)
            z.add(Arr().add(i < ns.size() ? static_cast<long>(ns[i]) : -9L).add(i < es.size() ? static_cast<long>(es[i]) : -9L));
          r.kv(outgoing ? "om" : "im", z);
        }
        nt0.add(r.j());
      }
      s.kv("nt", nt0);
      return s;
    }
    s.kv("itn", arr(tryList([&]() { return drain(mg.allNodesIterator()); })));
    s.kv("itnc", arr(tryList([&]() { return drain(cg.allNodesIterator()); })));
    s.kv("nn", static_cast<long>(cg.getNumberOfNodes()));
    s.kv("ne", static_cast<long>(cg.getNumberOfEdges()));
    Arr et;
    for (long e : liveEdges())
    {
      long a = RAISED, b = RAISED;
      try
      {
        auto p = cg.getNodes(static_cast<Graph::EdgeId>(e));
        a = p.first;
        b = p.second;
      }
      catch (...)
      {}
      et.add(Arr().add(e).add(a).add(b).add(tryVal([&]() { return cg.getTop(static_cast<Graph::EdgeId>(e)); })).add(tryVal([&]() { return cg.getBottom(static_cast<Graph::EdgeId>(e)); })));
    }
    s.kv("et", et);
    s.kv("ite", arr(tryList([&]() { return drain(mg.allEdgesIterator()); })));
    s.kv("itec", arr(tryList([&]() { return drain(cg.allEdgesIterator()); })));
    s.kv("lv", arr(tryList([&]() { return sortedLV(cg.getAllLeaves()); })));
    s.kv("lvs", arr(tryList([&]() {
      std::set<Graph::NodeId> st = cg.getSetOfAllLeaves();
      return LV(st.begin(), st.end());
    })));
    s.kv("inner", arr(tryList([&]() { return sortedLV(cg.getAllInnerNodes()); })));
    Arr lf;
    for (long nl : nodes)
      for (unsigned int d = 0; d <= 3; ++d)
        lf.add(Arr().add(nl).add(static_cast<long>(d)).add(arr(tryList([&]() { return sortedLV(cg.getLeavesFromNode(static_cast<Graph::NodeId>(nl), d)); }))));
    s.kv("lf", lf);
    Arr nt;
    for (long nl : nodes)
    {
      Graph::NodeId n = static_cast<Graph::NodeId>(nl);
      Obj r;
      r.kv("n", nl);
      // the two maps of the node table: neighbour -> edge, as the parallel list queries give them
      auto zip = [&](bool outgoing) {
        Arr z;
        try
        {
          std::vector<Graph::NodeId> ns = outgoing ? cg.getOutgoingNeighbors(n) : cg.getIncomingNeighbors(n);
          std::vector<Graph::EdgeId> es = outgoing ? cg.getOutgoingEdges(n) : cg.getIncomingEdges(n);
          for (size_t i = 0; i < std::max(ns.size(), es.size()); ++i)
            z.add(Arr().add(i < ns.size() ? static_cast<long>(ns[i]) : -9L).add(i < es.size() ? static_cast<long>(es[i]) : -9L));
        }
        catch (...)
        {
          z.add(Arr().add(RAISED).add(RAISED));
        }
        return z;
      };
      r.kv("om", zip(true));
      r.kv("im", zip(false));
      r.kv("nb", arr(tryList([&]() { return sortedLV(cg.getNeighbors(n)); })));
      r.kv("on", arr(tryList([&]() { return sortedLV(cg.getOutgoingNeighbors(n)); })));
      r.kv("in", arr(tryList([&]() { return sortedLV(cg.getIncomingNeighbors(n)); })));
      r.kv("ed", arr(tryList([&]() { return sortedLV(cg.getEdges(n)); })));
      r.kv("oe", arr(tryList([&]() { return sortedLV(cg.getOutgoingEdges(n)); })));
      r.kv("ie", arr(tryList([&]() { return sortedLV(cg.getIncomingEdges(n)); })));
      r.kv("ion", arr(tryList([&]() { return drain(mg.outgoingNeighborNodesIterator(n)); })));
      r.kv("iin", arr(tryList([&]() { return drain(mg.incomingNeighborNodesIterator(n)); })));
      r.kv("ioe", arr(tryList([&]() { return drain(mg.outgoingEdgesIterator(n)); })));
      r.kv("iie", arr(tryList([&]() { return drain(mg.incomingEdgesIterator(n)); })));
      r.kv("con", arr(tryList([&]() { return drain(cg.outgoingNeighborNodesIterator(n)); })));
      r.kv("cin", arr(tryList([&]() { return drain(cg.incomingNeighborNodesIterator(n)); })));
      r.kv("coe", arr(tryList([&]() { return drain(cg.outgoingEdgesIterator(n)); })));
      r.kv("cie", arr(tryList([&]() { return drain(cg.incomingEdgesIterator(n)); })));
      r.kv("deg", tryVal([&]() { return cg.getDegree(n); }));
      r.kv("nnb", tryVal([&]() { return cg.getNumberOfNeighbors(n); }));
      r.kv("no", tryVal([&]() { return cg.getNumberOfOutgoingNeighbors(n); }));
      r.kv("ni", tryVal([&]() { return cg.getNumberOfIncomingNeighbors(n); }));
      long lf = tryVal([&]() { return cg.isLeaf(n) ? 1 : 0; });
      r.kv("leaf", lf); // 1 / 0, -2 = raised (always an integer)
      nt.add(r.j());
    }
    s.kv("nt", nt);
    // getEdge on every ordered pair, getAnyEdge once per unordered pair (-3 = not asked), one absent id
    LV ids = nodes;
    ids.push_back(absentNode());
    Arr pairs;
    for (long a : ids)
      for (long b : ids)
      {
        if (a == absentNode() && b != absentNode() && (nodes.empty() || b != nodes.front())) continue;
        if (b == absentNode() && a != absentNode() && (nodes.empty() || a != nodes.front())) continue;
        long any = a <= b ? tryVal([&]() { return cg.getAnyEdge(static_cast<Graph::NodeId>(a), static_cast<Graph::NodeId>(b)); }) : -3;
        pairs.add(Arr().add(a).add(b).add(tryVal([&]() { return cg.getEdge(static_cast<Graph::NodeId>(a), static_cast<Graph::NodeId>(b)); })).add(any));
      }
    s.kv("pairs", pairs);
    Graph::NodeId x = static_cast<Graph::NodeId>(absentNode());
    Graph::EdgeId y = static_cast<Graph::EdgeId>(absentEdge());
    long absn = 0;
    absn += !raises([&]() { cg.getOutgoingNeighbors(x); });
    absn += !raises([&]() { cg.getIncomingNeighbors(x); });
    absn += !raises([&]() { cg.getNeighbors(x); });
    absn += !raises([&]() { cg.getOutgoingEdges(x); });
    absn += !raises([&]() { cg.getIncomingEdges(x); });
    absn += !raises([&]() { cg.getEdges(x); });
    absn += !raises([&]() { cg.getDegree(x); });
    absn += !raises([&]() { cg.isLeaf(x); });
    absn += !raises([&]() { cg.getNumberOfNeighbors(x); });
    absn += !raises([&]() { cg.getNumberOfOutgoingNeighbors(x); });
    absn += !raises([&]() { cg.getNumberOfIncomingNeighbors(x); });
    absn += !raises([&]() { cg.getNodes(y); });
    absn += !raises([&]() { cg.getTop(y); });
    absn += !raises([&]() { cg.getBottom(y); });
    s.kv("absn", absn);
    return s;
  }

  // ---- observer projection
  template<class It> LV drainN(std::unique_ptr<It> it, int k)
  {
    LV r;
    for (; !it->end(); it->next()) r.push_back(nid(**it, k));
    std::sort(r.begin(), r.end());
    return r;
  }
  template<class It> LV drainE(std::unique_ptr<It> it, int k)
  {
    LV r;
    for (; !it->end(); it->next()) r.push_back(eid(**it, k));
    std::sort(r.begin(), r.end());
    return r;
  }

  Obj projObs(int k)
  {
    Obs& m = *o[k];
    const Obs& c = *o[k];
    Obj w;
    w.kv("k", k);
    long absq = 0;
    Arr n2o, o2n, i2o, o2i, e2o, o2e, j2o, o2j;
    for (long n = 0; n <= hwN + 2; ++n)
    {
      NP p = c.getNodeFromGraphid(static_cast<Graph::NodeId>(n));
      if (p) n2o.add(Arr().add(n).add(nid(p, k)));
    }
    for (long e = 0; e <= hwE + 3; ++e)
    {
      EP p = c.getEdgeFromGraphid(static_cast<Graph::EdgeId>(e));
      if (p) e2o.add(Arr().add(e).add(eid(p, k)));
    }
    std::vector<std::pair<long, NP>> nknown;
    for (const auto& it : nobj)
      if (it.first / 1000 == k - 1 || it.first >= 9000) nknown.push_back(it);
    for (const auto& it : ghostNP) nknown.push_back(it);
    std::vector<std::pair<long, EP>> eknown;
    for (const auto& it : eobj)
      if (it.first / 1000 == k - 1 || it.first >= 9000) eknown.push_back(it);
    for (const auto& it : ghostEP) eknown.push_back(it);
    for (const auto& it : nknown)
    {
      const NP& p = it.second;
      if (c.hasNode(p)) o2n.add(Arr().add(it.first).add(tryVal([&]() { return c.getNodeGraphid(p); })));
      else if (full) absq += !raises([&]() { c.getNodeGraphid(p); });
      if (c.hasNodeIndex(p)) o2i.add(Arr().add(it.first).add(tryVal([&]() { return c.getNodeIndex(p); })));
      else if (full) absq += !raises([&]() { c.getNodeIndex(p); });
    }
    for (const auto& it : eknown)
    {
      const EP& p = it.second;
      if (c.hasEdge(p)) o2e.add(Arr().add(it.first).add(tryVal([&]() { return c.getEdgeGraphid(p); })));
      else if (full) absq += !raises([&]() { c.getEdgeGraphid(p); });
      if (c.hasEdgeIndex(p)) o2j.add(Arr().add(it.first).add(tryVal([&]() { return c.getEdgeIndex(p); })));
      else if (full) absq += !raises([&]() { c.getEdgeIndex(p); });
    }
    for (long i = 0; i <= IMAX; ++i)
    {
      unsigned int ui = static_cast<unsigned int>(i);
      if (c.hasNode(ui)) i2o.add(Arr().add(i).add(tryVal([&]() { return nid(c.getNode(ui), k); })));
      else if (full)
      {
        NP q;
        bool r = raises([&]() { q = c.getNode(ui); });
        if (!r && q) ++absq;
      }
      if (c.hasEdge(ui)) j2o.add(Arr().add(i).add(tryVal([&]() { return eid(c.getEdge(ui), k); })));
      else if (full)
      {
        EP q;
        bool r = raises([&]() { q = c.getEdge(ui); });
        if (!r && q) ++absq;
      }
    }
    w.kv("n2o", n2o).kv("o2n", o2n).kv("i2o", i2o).kv("o2i", o2i);
    w.kv("e2o", e2o).kv("o2e", o2e).kv("j2o", j2o).kv("o2j", o2j);
    if (!full) return w;
    std::vector<NP> all;
    try
    {
      all = c.getAllNodes();
    }
    catch (...)
    {}
    w.kv("all", arr(tryList([&]() { return nids(c.getAllNodes(), k); })));
    w.kv("it", arr(tryList([&]() { return drainN(m.allNodesIterator(), k); })));
    w.kv("itc", arr(tryList([&]() { return drainN(c.allNodesIterator(), k); })));
    w.kv("nn", static_cast<long>(c.getNumberOfNodes()));
    std::vector<EP> alle;
    try
    {
      alle = c.getAllEdges();
    }
    catch (...)
    {}
    w.kv("alle", arr(tryList([&]() { return eids(c.getAllEdges(), k); })));
    w.kv("ite", arr(tryList([&]() { return drainE(m.allEdgesIterator(), k); })));
    w.kv("itec", arr(tryList([&]() { return drainE(c.allEdgesIterator(), k); })));
    w.kv("ne", static_cast<long>(c.getNumberOfEdges()));
    w.kv("lv", arr(tryList([&]() { return nids(c.getAllLeaves(), k); })));
    w.kv("nl", tryVal([&]() { return c.getNumberOfLeaves(); }));
    w.kv("idxs", arr(tryList([&]() { return sortedLV(c.getAllNodesIndexes()); })));
    w.kv("eidxs", arr(tryList([&]() { return sortedLV(c.getAllEdgesIndexes()); })));
    w.kv("inner", arr(tryList([&]() { return nids(c.getAllInnerNodes(), k); })));
    w.kv("lvidx", arr(tryList([&]() { return sortedLV(c.getAllLeavesIndexes()); })));
    w.kv("inneridx", arr(tryList([&]() { return sortedLV(c.getAllInnerNodesIndexes()); })));
    {
      Arr lf;
      for (const NP& p : all)
        for (unsigned int d = 1; d <= 3; d += 2)
          lf.add(Arr().add(nid(p, k)).add(static_cast<long>(d)).add(arr(tryList([&]() { return nids(c.getLeavesFromNode(p, d), k); }))));
      w.kv("lf", lf);
      // the list queries keyed by node index
      Arr ix;
      for (long i = 0; i <= IMAX; ++i)
      {
        unsigned int ui = static_cast<unsigned int>(i);
        if (!c.hasNode(ui)) continue;
        NP p;
        try
        {
          p = c.getNode(ui);
        }
        catch (...)
        {}
        if (!p || !c.hasNode(p))
        {
          // an index whose object is not associated: the queries by index raise
          absq += !raises([&]() { c.getNeighbors(ui); });
          absq += !raises([&]() { c.getOutgoingEdges(ui); });
          continue;
        }
        Obj r;
        r.kv("i", i);
        r.kv("nb", arr(tryList([&]() { return sortedLV(c.getNeighbors(ui)); })));
        r.kv("on", arr(tryList([&]() { return sortedLV(c.getOutgoingNeighbors(ui)); })));
        r.kv("in", arr(tryList([&]() { return sortedLV(c.getIncomingNeighbors(ui)); })));
        r.kv("ed", arr(tryList([&]() { return sortedLV(c.getEdges(ui)); })));
        r.kv("oe", arr(tryList([&]() { return sortedLV(c.getOutgoingEdges(ui)); })));
        r.kv("ie", arr(tryList([&]() { return sortedLV(c.getIncomingEdges(ui)); })));
        long lf2 = tryVal([&]() { return c.isLeaf(ui) ? 1 : 0; });
        r.kv("leaf", lf2); // 1 / 0, -2 = raised (always an integer)
        ix.add(r.j());
      }
      w.kv("ix", ix);
    }
    Arr nt;
    for (const NP& p : all)
    {
      Obj r;
      r.kv("o", nid(p, k));
      long gid = tryVal([&]() { return c.getNodeGraphid(p); });
      bool live = gid >= 0 && isLive(gid); // iterators on a node the graph does not have are undefined behaviour
      r.kv("nb", arr(tryList([&]() { return nids(c.getNeighbors(p), k); })));
      r.kv("on", arr(tryList([&]() { return nids(c.getOutgoingNeighbors(p), k); })));
      r.kv("in", arr(tryList([&]() { return nids(c.getIncomingNeighbors(p), k); })));
      r.kv("ed", arr(tryList([&]() { return eids(c.getEdges(p), k); })));
      r.kv("oe", arr(tryList([&]() { return eids(c.getOutgoingEdges(p), k); })));
      r.kv("ie", arr(tryList([&]() { return eids(c.getIncomingEdges(p), k); })));
      LV bad(1, RAISED);
      r.kv("ion", arr(live ? tryList([&]() { return drainN(m.outgoingNeighborNodesIterator(p), k); }) : bad));
      r.kv("iin", arr(live ? tryList([&]() { return drainN(m.incomingNeighborNodesIterator(p), k); }) : bad));
      r.kv("ioe", arr(live ? tryList([&]() { return drainE(m.outgoingEdgesIterator(p), k); }) : bad));
      r.kv("iie", arr(live ? tryList([&]() { return drainE(m.incomingEdgesIterator(p), k); }) : bad));
      r.kv("con", arr(live ? tryList([&]() { return drainN(c.outgoingNeighborNodesIterator(p), k); }) : bad));
      r.kv("cin", arr(live ? tryList([&]() { return drainN(c.incomingNeighborNodesIterator(p), k); }) : bad));
      r.kv("coe", arr(live ? tryList([&]() { return drainE(c.outgoingEdgesIterator(p), k); }) : bad));
      r.kv("cie", arr(live ? tryList([&]() { return drainE(c.incomingEdgesIterator(p), k); }) : bad));
      r.kv("deg", tryVal([&]() { return c.getDegree(p); }));
      long lf = tryVal([&]() { return c.isLeaf(p) ? 1 : 0; });
      r.kv("leaf", lf); // 1 / 0, -2 = raised (always an integer)
      nt.add(r.j());
    }
    w.kv("nt", nt);
    Arr et;
    for (const EP& p : alle)
    {
      long a = RAISED, b = RAISED;
      try
      {
        auto pr = c.getNodes(p);
        a = nid(pr.first, k);
        b = nid(pr.second, k);
      }
      catch (...)
      {}
      et.add(Arr().add(eid(p, k)).add(a).add(b));
    }
    w.kv("et", et);
    Arr el;
    for (const NP& a : all)
      for (const NP& b : all)
      {
        long v = RAISED;
        try
        {
          v = eid(c.getEdgeLinking(a, b), k);
        }
        catch (...)
        {}
        el.add(Arr().add(nid(a, k)).add(nid(b, k)).add(v));
      }
    w.kv("el", el);
    // an object this observer has never seen
    NP xn(new std::string("777"));
    EP xe(new unsigned int(777));
    absq += c.hasNode(xn) ? 1 : 0;
    absq += c.hasEdge(xe) ? 1 : 0;
    absq += !raises([&]() { c.getNodeGraphid(xn); });
    absq += !raises([&]() { c.getNeighbors(xn); });
    absq += !raises([&]() { c.getOutgoingNeighbors(xn); });
    absq += !raises([&]() { c.getIncomingNeighbors(xn); });
    absq += !raises([&]() { c.getEdges(xn); });
    absq += !raises([&]() { c.getOutgoingEdges(xn); });
    absq += !raises([&]() { c.getIncomingEdges(xn); });
    absq += !raises([&]() { c.getDegree(xn); });
    absq += !raises([&]() { c.isLeaf(xn); });
    absq += !raises([&]() { c.getNodeIndex(xn); });
    absq += !raises([&]() { m.outgoingNeighborNodesIterator(xn); });
    absq += !raises([&]() { m.incomingEdgesIterator(xn); });
    absq += !raises([&]() { c.getEdgeGraphid(xe); });
    absq += !raises([&]() { c.getNodes(xe); });
    absq += !raises([&]() { c.getEdgeIndex(xe); });
    if (!all.empty()) absq += !raises([&]() { c.getEdgeLinking(xn, all[0]); });
    w.kv("absq", absq);
    return w;
  }

  Obj projSide()
  {
    noteIds();
    Obj s = projGraph();
    Arr obs;
    for (int k = 1; k <= 2; ++k)
      if (o[k]) obs.add(projObs(k).j());
    s.kv("obs", obs);
    return s;
  }
  Obj proj()
  {
    Obj s = projSide();
    Obj other;
    if (oth)
    {
      // the maps of the other side, read through its own graph and observers
      bool f = full;
      full = false;
      swapWith(*oth);
      other = projSide();
      swapWith(*oth);
      full = f;
      other.kv("has", true);
    }
    else other.kv("has", false);
    s.kv("oth", other);
    return s;
  }

  void emit(const std::string& name, int k, const LV& a, const std::string& outc, const J& ret)
  {
    lastRaised = outc.compare(0, 5, "raise") == 0;
    if (!logging) return;
    if (lightOnRaise && lastRaised)
    {
      // collected: one event for the whole run of raising calls, with the maps read after the last one
      pendingOps.add(Arr().add(name).add(k).add(arr(a)));
      ++pendingCount;
      bool f = full;
      full = false;
      pendingProj = proj().j().dump();
      full = f;
      return;
    }
    flushBatch();
    Obj ev;
    ev.kv("e", name).kv("k", k).kv("a", arr(a));
    if (name == "Reset") ev.kv("load", false);
    ev.kv("r", lastRaised ? "raise" : "ok").kv("x", outc).kv("ret", ret);
    ev.kv("s", proj());
    tracer().emit(ev);
  }
  void flushBatch()
  {
    if (pendingCount == 0) return;
    Obj ev;
    ev.kv("e", "RaiseBatch").kv("k", 0).kv("a", Arr()).kv("r", "raise").kv("ops", pendingOps).kv("s", J::raw(pendingProj));
    tracer().emit(ev);
    pendingOps = Arr();
    pendingCount = 0;
    pendingProj.clear();
  }
  void emitLoad(bool directed0)
  {
    if (!logging) return;
    noteIds();
    Obj ev;
    ev.kv("e", "Reset").kv("k", 0).kv("a", Arr().add(directed0 ? 1 : 0)).kv("r", "ok").kv("load", true).kv("hw", Arr().add(hwN).add(hwE));
    ev.kv("s", proj());
    tracer().emit(ev);
  }

  // ---- one public call
  void exec(const Op& op)
  {
    const std::string& e = op.e;
    const LV& a = op.a;
    int k = op.k;
    long ret = 0;
    LV retv;
    bool isList = false;
    std::string r;
    auto nn = [](long x) { return static_cast<Graph::NodeId>(x); };
    if (g_debug)
    {
      fprintf(stderr, "call %s k=%d", e.c_str(), k);
      for (long x : a) fprintf(stderr, " %ld", x);
      fprintf(stderr, "\n");
    }
    if (e == "GCreateNode") r = outcome<bpp::Exception>([&]() { ret = g->createNode(); });
    else if (e == "GCreateNodeFromNode") r = outcome<bpp::Exception>([&]() { ret = g->createNodeFromNode(nn(a[0])); });
    else if (e == "GCreateNodeOnEdge") r = outcome<bpp::Exception>([&]() { ret = g->createNodeOnEdge(nn(a[0])); });
    else if (e == "GCreateNodeFromEdge") r = outcome<bpp::Exception>([&]() { ret = g->createNodeFromEdge(nn(a[0])); });
    else if (e == "GLink") r = outcome<bpp::Exception>([&]() { ret = Acc::L(*g, nn(a[0]), nn(a[1])); });
    else if (e == "GUnlink")
    {
      isList = true;
      r = outcome<bpp::Exception>([&]() { retv = sortedLV(Acc::U(*g, nn(a[0]), nn(a[1]))); });
    }
    else if (e == "GDeleteNode") r = outcome<bpp::Exception>([&]() { g->deleteNode(nn(a[0])); });
    else if (e == "GMakeDirected") r = outcome<bpp::Exception>([&]() { g->makeDirected(); });
    else if (e == "GMakeUndirected") r = outcome<bpp::Exception>([&]() { g->makeUndirected(); });
    else if (e == "Copy")
    {
      r = outcome<bpp::Exception>([&]() { o[2].reset(new Obs(*o[1])); });
      k = 2;
    }
    else if (e == "CopyConv")
    {
      // converting copy constructor, to another instantiation and back
      r = outcome<bpp::Exception>([&]() {
        ObsB b(*o[1]);
        o[2].reset(new Obs(b));
      });
      k = 2;
    }
    else if (e == "Assign")
    {
      int dst = static_cast<int>(a[0]), src = static_cast<int>(a[1]);
      r = outcome<bpp::Exception>([&]() { *o[dst] = *o[src]; });
      if (dst != src) forgetObjectsOf(dst);
      k = dst;
    }
    else if (e == "Attach")
    {
      r = outcome<bpp::Exception>([&]() { o[1].reset(new Obs(g)); });
      k = 1;
    }
    else if (e == "Clone")
    {
      r = outcome<bpp::Exception>([&]() {
        oth.reset(new SideData());
        oth->g.reset(g->clone());
        oth->hwN = hwN;
        oth->hwE = hwE;
        oth->isClone = true;
      });
      k = 0;
    }
    else if (e == "Swap")
    {
      swapWith(*oth);
      r = "ok";
      k = 0;
    }
    else if (e == "DropClone")
    {
      r = outcome<bpp::Exception>([&]() {
        oth->o[2].reset();
        oth->o[1].reset();
        oth.reset();
      });
      k = 0;
    }
    else if (e == "AssignAcross")
    {
      int kk = static_cast<int>(a[0]);
      r = outcome<bpp::Exception>([&]() { *o[kk] = *oth->o[1]; });
      forgetObjectsOf(kk);
      oth->o[2] = std::move(o[kk]);
      k = kk;
    }
    else if (e == "Drop")
    {
      r = outcome<bpp::Exception>([&]() { o[2].reset(); });
      forgetObjectsOf(2);
      k = 2;
    }
    else
    {
      Obs& m = *o[k];
      if (e == "OCreateNode") r = outcome<bpp::Exception>([&]() { m.createNode(N(a[0])); });
      else if (e == "OCreateNodeFrom") r = outcome<bpp::Exception>([&]() { m.createNode(N(a[0]), N(a[1]), E(a[2])); });
      else if (e == "OLink") r = outcome<bpp::Exception>([&]() { m.link(N(a[0]), N(a[1]), E(a[2])); });
      else if (e == "OUnlink") r = outcome<bpp::Exception>([&]() { m.unlink(N(a[0]), N(a[1])); });
      else if (e == "ODeleteNode") r = outcome<bpp::Exception>([&]() { m.deleteNode(N(a[0])); });
      else if (e == "AssocNode") r = outcome<bpp::Exception>([&]() { m.associateNode(N(a[0]), nn(a[1])); });
      else if (e == "AssocEdge") r = outcome<bpp::Exception>([&]() { m.associateEdge(E(a[0]), nn(a[1])); });
      else if (e == "DissocNode") r = outcome<bpp::Exception>([&]() { m.dissociateNode(N(a[0])); });
      else if (e == "DissocEdge") r = outcome<bpp::Exception>([&]() { m.dissociateEdge(E(a[0])); });
      else if (e == "SetNodeIndex") r = outcome<bpp::Exception>([&]() { ret = m.setNodeIndex(N(a[0]), static_cast<unsigned int>(a[1])); });
      else if (e == "SetEdgeIndex") r = outcome<bpp::Exception>([&]() { ret = m.setEdgeIndex(E(a[0]), static_cast<unsigned int>(a[1])); });
      else if (e == "AddNodeIndex") r = outcome<bpp::Exception>([&]() { ret = m.addNodeIndex(N(a[0])); });
      else if (e == "AddEdgeIndex") r = outcome<bpp::Exception>([&]() { ret = m.addEdgeIndex(E(a[0])); });
      else if (e == "SetEdgeLinking") r = outcome<bpp::Exception>([&]() { m.setEdgeLinking(N(a[0]), N(a[1]), E(a[2])); });
      else
      {
        fprintf(stderr, "unknown op %s\n", e.c_str());
        exit(2);
      }
    }
    bool raised = r.compare(0, 5, "raise") == 0;
    if (isList) emit(e, k, a, r, arr(raised ? LV() : retv).j());
    else emit(e, k, a, r, J::num(raised ? RAISED : ret));
  }
};

// ------------------------------------------------------------------ scenario plumbing
static long g_scenarios = 0;

static void replaySilently(World& w, const std::vector<Op>& hist);

// A scenario starts with a Reset event.  With a non-empty `hist` the history is replayed
// silently first and the Reset event says "load": the state the scenario continues from.
static std::unique_ptr<World> startScenario(bool directed, bool logReset = true, bool fullReset = true, const std::vector<Op>* hist = nullptr)
{
  std::unique_ptr<World> w(new World(directed));
  bool load = hist && !hist->empty();
  if (load) replaySilently(*w, *hist);
  if (logReset)
  {
    ++g_scenarios;
    w->full = fullReset;
    if (load) w->emitLoad(directed);
    else w->emit("Reset", 0, LV(1, directed ? 1 : 0), "ok", J::num(0));
    w->full = true;
  }
  return w;
}

// The Reset event carries the directed flag as a boolean
struct ResetFix
{};

// ------------------------------------------------------------------ helpers on a world
static LV assocNodeObjs(World& w, int k)
{
  return tryList([&]() { return w.nids(w.o[k]->getAllNodes(), k); });
}
static LV assocEdgeObjs(World& w, int k)
{
  return tryList([&]() { return w.eids(w.o[k]->getAllEdges(), k); });
}
static bool contains(const LV& v, long x) { return std::find(v.begin(), v.end(), x) != v.end(); }
static long freshLabel(const LV& used, long base, long lo = 1)
{
  for (long l = lo; l < 900; ++l)
    if (!contains(used, base + l)) return base + l;
  return base + 899;
}
static bool hasSelfLoop(World& w)
{
  for (long e : w.liveEdges())
  {
    try
    {
      auto p = w.g->getNodes(static_cast<Graph::EdgeId>(e));
      if (p.first == p.second) return true;
    }
    catch (...)
    {}
  }
  return false;
}
static bool related(World& w, long a, long b)
{
  bool r = !raises([&]() { w.g->getEdge(static_cast<Graph::NodeId>(a), static_cast<Graph::NodeId>(b)); });
  if (!r && !w.g->isDirected()) r = !raises([&]() { w.g->getEdge(static_cast<Graph::NodeId>(b), static_cast<Graph::NodeId>(a)); });
  return r;
}

// known findings the main scenarios steer around (names from findings.d/C14.json)
static std::set<std::string> g_avoid;
static bool avoid(const std::string& n) { return g_avoid.count(n) != 0; }

// ------------------------------------------------------------------ random histories
static void randomScenario(Rng& rng, long len, long maxNodes)
{
  bool directed = rng.coin();
  bool eobjMode = rng.chance(2, 3);
  int idxMode = static_cast<int>(rng.below(3)); // 0 none, 1 explicit, 2 allocated (bias of the index calls)
  std::unique_ptr<World> wp = startScenario(directed);
  World& w = *wp;
  bool copyHeavy = rng.chance(1, 3); // more copies, assignments and graph copies
  for (long step = 0; step < len; ++step)
  {
    // calls that copy: observers (copy constructors, operator=), the graph itself, and moving between the two sides
    if (rng.chance(copyHeavy ? 5 : 1, 40))
    {
      size_t c2 = rng.below(10);
      if (c2 < 2)
      {
        if (w.has(1) && !w.has(2)) w.exec(Op(rng.coin() ? "Copy" : "CopyConv", 1, LV()));
        else if (w.has(2)) w.exec(Op("Drop", 2, LV()));
      }
      else if (c2 < 4)
      {
        if (w.has(1) && w.has(2)) w.exec(Op("Assign", 0, rng.chance(1, 8) ? LV{1, 1} : (rng.coin() ? LV{1, 2} : LV{2, 1})));
        else if (w.has(1) && !w.has(2)) w.exec(Op("Copy", 1, LV()));
      }
      else if (c2 < 6)
      {
        if (!w.oth) w.exec(Op("Clone", 0, LV()));
        else if (!w.has(1)) w.exec(Op("Attach", 1, LV()));
        else w.exec(Op("Swap", 0, LV()));
      }
      else if (c2 < 7)
      {
        if (w.oth) w.exec(Op("Swap", 0, LV()));
      }
      else if (c2 < 8)
      {
        if (w.oth && w.oth->isClone && rng.coin()) w.exec(Op("DropClone", 0, LV()));
        else if (!w.has(1)) w.exec(Op("Attach", 1, LV()));
      }
      else
      {
        // an observer of this side is assigned from observer 1 of the other side and moves over
        if (w.oth && w.maxAlive() > 0 && w.oth->o[1] && !w.oth->o[2]) w.exec(Op("AssignAcross", 0, LV{w.maxAlive()}));
        else if (w.oth && w.maxAlive() > 0 && w.oth->o[1] && w.oth->o[2])
        {
          w.exec(Op("Swap", 0, LV()));
          w.exec(Op("Drop", 2, LV()));
          w.exec(Op("Swap", 0, LV()));
        }
        else if (!w.has(1)) w.exec(Op("Attach", 1, LV()));
        else if (w.oth) w.exec(Op("Swap", 0, LV()));
      }
      continue;
    }
    if (!w.has(1))
    {
      // a graph without observer (fresh copy): graph-level calls only, or attach one
      LV nodes0 = w.liveNodes(), edges0 = w.liveEdges();
      size_t c0 = rng.below(8);
      long n0 = (nodes0.empty() || rng.chance(1, 7)) ? w.absentNode() : nodes0[rng.below(nodes0.size())];
      long e0 = (edges0.empty() || rng.chance(1, 7)) ? w.absentEdge() : edges0[rng.below(edges0.size())];
      bool room0 = static_cast<long>(nodes0.size()) < maxNodes;
      if (c0 == 0) w.exec(Op("Attach", 1, LV()));
      else if (c0 == 1) { if (room0) w.exec(Op("GCreateNode", 0, LV())); }
      else if (c0 == 2) { if (room0 || !contains(nodes0, n0)) w.exec(Op("GCreateNodeFromNode", 0, LV{n0})); }
      else if (c0 == 3) { if (room0 || !contains(edges0, e0)) w.exec(Op("GCreateNodeOnEdge", 0, LV{e0})); }
      else if (c0 == 4) w.exec(Op("GDeleteNode", 0, LV{n0}));
      else if (c0 == 5) w.exec(Op("GLink", 0, LV{n0, nodes0.empty() ? w.absentNode() : nodes0[rng.below(nodes0.size())]}));
      else if (c0 == 6) w.exec(Op("GUnlink", 0, LV{n0, nodes0.empty() ? w.absentNode() : nodes0[rng.below(nodes0.size())]}));
      else w.exec(Op(rng.coin() ? "GMakeDirected" : "GMakeUndirected", 0, LV()));
      continue;
    }
    int k = (w.has(2) && rng.chance(1, 3)) ? 2 : 1;
    long base = (k - 1) * 1000;
    LV objs = assocNodeObjs(w, k);
    LV eobjs = assocEdgeObjs(w, k);
    LV nodes = w.liveNodes();
    LV edges = w.liveEdges();
    bool absentArg = rng.chance(1, 7);
    auto anyObj = [&]() -> long {
      if (objs.empty() || absentArg) return freshLabel(objs, base, k == 2 ? 50 : 1);
      return objs[rng.below(objs.size())];
    };
    auto liveObj = [&]() -> long { return objs.empty() ? freshLabel(objs, base, k == 2 ? 50 : 1) : objs[rng.below(objs.size())]; };
    auto newObj = [&]() -> long {
      if (absentArg && !objs.empty()) return objs[rng.below(objs.size())]; // already associated: must raise
      return freshLabel(objs, base, k == 2 ? 50 : 1);
    };
    auto newEObj = [&]() -> long {
      if (!eobjMode && !rng.chance(1, 5)) return NONE;
      if (!eobjs.empty() && rng.chance(1, 10)) return eobjs[rng.below(eobjs.size())]; // already associated: must raise
      return freshLabel(eobjs, base, k == 2 ? 50 : 1);
    };
    auto anyNode = [&]() -> long {
      if (nodes.empty() || rng.chance(1, 7)) return w.absentNode();
      return nodes[rng.below(nodes.size())];
    };
    auto anyEdge = [&]() -> long {
      if (edges.empty() || rng.chance(1, 7)) return w.absentEdge();
      return edges[rng.below(edges.size())];
    };
    bool room = static_cast<long>(nodes.size()) < maxNodes;
    size_t c = rng.below(100);
    if (nodes.size() < 2 && rng.chance(3, 4)) c = rng.below(22);   // grow first
    if (c >= 97 && !w.has(2) && nodes.size() < 3 && rng.chance(3, 4)) c = rng.below(56);
    // related pairs (a -> b listed by a), as graph ids and as objects of observer k
    std::vector<std::pair<long, long>> relIds, relObjs, relFree;
    for (long a : nodes)
      for (long b : tryList([&]() { return sortedLV(w.g->getOutgoingNeighbors(static_cast<Graph::NodeId>(a))); }))
      {
        if (b < 0) continue;
        relIds.push_back(std::make_pair(a, b));
        long oa = w.nid(w.o[k]->getNodeFromGraphid(static_cast<Graph::NodeId>(a)), k), ob = w.nid(w.o[k]->getNodeFromGraphid(static_cast<Graph::NodeId>(b)), k);
        if (oa >= 0 && ob >= 0)
        {
          relObjs.push_back(std::make_pair(oa, ob));
          long e = tryVal([&]() { return w.g->getEdge(static_cast<Graph::NodeId>(a), static_cast<Graph::NodeId>(b)); });
          if (e >= 0 && !w.o[k]->getEdgeFromGraphid(static_cast<Graph::EdgeId>(e))) relFree.push_back(std::make_pair(oa, ob));
        }
      }
    if (c < 10)
    {
      if (room) w.exec(Op("OCreateNode", k, LV{newObj()}));
      else if (!objs.empty()) w.exec(Op("OCreateNode", k, LV{liveObj()})); // object in use: must raise
    }
    else if (c < 22)
    {
      long of = anyObj(), nw = newObj();
      if (room || contains(objs, nw) || (!contains(objs, of) && of != nw)) w.exec(Op("OCreateNodeFrom", k, LV{of, nw, newEObj()}));
    }
    else if (c < 40)
    {
      long a = anyObj(), b = anyObj();
      w.exec(Op("OLink", k, LV{a, b, newEObj()}));
    }
    else if (c < 50)
    {
      long a = anyObj(), b = anyObj();
      if (!relObjs.empty() && rng.chance(3, 4))
      {
        auto pr = relObjs[rng.below(relObjs.size())];
        a = pr.first;
        b = pr.second;
        if (!w.g->isDirected() && rng.coin()) std::swap(a, b);
      }
      w.exec(Op("OUnlink", k, LV{a, b}));
    }
    else if (c < 56) w.exec(Op("ODeleteNode", k, LV{anyObj()}));
    else if (c < 59)
    {
      if (room) w.exec(Op("GCreateNode", 0, LV()));
    }
    else if (c < 62)
    {
      long n = anyNode();
      if (room || !contains(nodes, n)) w.exec(Op("GCreateNodeFromNode", 0, LV{n}));
    }
    else if (c < 66)
    {
      long x = anyEdge();
      if (room || !contains(edges, x)) w.exec(Op("GCreateNodeOnEdge", 0, LV{x}));
    }
    else if (c < 68)
    {
      long x = anyEdge();
      if (static_cast<long>(nodes.size()) + 1 < maxNodes || !contains(edges, x)) w.exec(Op("GCreateNodeFromEdge", 0, LV{x}));
    }
    else if (c < 71)
    {
      long a = anyNode(), b = anyNode();
      w.exec(Op("GLink", 0, LV{a, b}));
    }
    else if (c < 73)
    {
      long a = anyNode(), b = anyNode();
      if (!relIds.empty() && rng.chance(3, 4))
      {
        auto pr = relIds[rng.below(relIds.size())];
        a = pr.first;
        b = pr.second;
      }
      w.exec(Op("GUnlink", 0, LV{a, b}));
    }
    else if (c < 75) w.exec(Op("GDeleteNode", 0, LV{anyNode()}));
    else if (c < 77) w.exec(Op("GMakeDirected", 0, LV()));
    else if (c < 79) w.exec(Op("GMakeUndirected", 0, LV()));
    else if (c < 82)
    {
      // associate an object to a node that has none (or to an absent / occupied one)
      LV cand;
      for (long n : nodes)
        if (!w.o[k]->getNodeFromGraphid(static_cast<Graph::NodeId>(n))) cand.push_back(n);
      long n = (!cand.empty() && !absentArg) ? cand[rng.below(cand.size())] : anyNode();
      if (avoid("C14-associate-occupied") && contains(nodes, n) && w.o[k]->getNodeFromGraphid(static_cast<Graph::NodeId>(n))) continue;
      w.exec(Op("AssocNode", k, LV{newObj(), n}));
    }
    else if (c < 84)
    {
      LV cand;
      for (long e : edges)
        if (!w.o[k]->getEdgeFromGraphid(static_cast<Graph::EdgeId>(e))) cand.push_back(e);
      long e = (!cand.empty() && !absentArg) ? cand[rng.below(cand.size())] : anyEdge();
      long eo = freshLabel(eobjs, base, k == 2 ? 50 : 1);
      if (!eobjs.empty() && rng.chance(1, 8)) eo = eobjs[rng.below(eobjs.size())];
      w.exec(Op("AssocEdge", k, LV{eo, e}));
    }
    else if (c < 86) w.exec(Op("DissocNode", k, LV{anyObj()}));
    else if (c < 87)
    {
      long eo = (eobjs.empty() || absentArg) ? freshLabel(eobjs, base, k == 2 ? 50 : 1) : eobjs[rng.below(eobjs.size())];
      w.exec(Op("DissocEdge", k, LV{eo}));
    }
    else if (c < 92)
    {
      long ob = absentArg ? anyObj() : liveObj();
      if (idxMode == 2 || (idxMode == 0 && rng.coin())) w.exec(Op("AddNodeIndex", k, LV{ob}));
      else w.exec(Op("SetNodeIndex", k, LV{ob, static_cast<long>(rng.below(IMAX))}));
    }
    else if (c < 96)
    {
      long eo = (eobjs.empty() || absentArg) ? freshLabel(eobjs, base, k == 2 ? 50 : 1) : eobjs[rng.below(eobjs.size())];
      if (idxMode == 2 || (idxMode == 0 && rng.coin())) w.exec(Op("AddEdgeIndex", k, LV{eo}));
      else w.exec(Op("SetEdgeIndex", k, LV{eo, static_cast<long>(rng.below(IMAX))}));
    }
    else if (c < 97)
    {
      long a = anyObj(), b = anyObj();
      long eo = freshLabel(eobjs, base, k == 2 ? 50 : 1);
      if (!relFree.empty() && rng.chance(2, 3))
      {
        auto pr = relFree[rng.below(relFree.size())];
        a = pr.first;
        b = pr.second;
      }
      else if (!relObjs.empty() && rng.chance(2, 3))
      {
        auto pr = relObjs[rng.below(relObjs.size())];
        a = pr.first;
        b = pr.second;
      }
      w.exec(Op("SetEdgeLinking", k, LV{a, b, eo}));
    }
    else
    {
      if (!w.has(2)) w.exec(Op(rng.coin() ? "Copy" : "CopyConv", 1, LV()));
      else w.exec(Op("Drop", 2, LV()));
    }
  }
}

// ------------------------------------------------------------------ exhaustive small scope
struct BfsCfg
{
  bool directed, eobj;
  int idx; // 0 none, 1 explicit, 2 allocated
  std::string name() const { return std::string(directed ? "d" : "u") + (eobj ? "e" : "n") + std::to_string(idx); }
};

// canonical form: node ids compressed order-preservingly, edges renamed by end points
static std::string canonical(World& w)
{
  LV nodes = w.liveNodes();
  std::map<long, long> rk;
  for (size_t i = 0; i < nodes.size(); ++i) rk[nodes[i]] = static_cast<long>(i);
  auto R = [&](long n) { return rk.count(n) ? rk[n] : 90 + n; };
  std::string key = w.g->isDirected() ? "D" : "U";
  Obs& o = *w.o[1];
  std::vector<std::vector<long>> es;
  for (long e : w.liveEdges())
  {
    auto p = w.g->getNodes(static_cast<Graph::EdgeId>(e));
    EP eo = o.getEdgeFromGraphid(static_cast<Graph::EdgeId>(e));
    es.push_back({R(p.first), R(p.second), eo ? 1 : 0, (eo && o.hasEdgeIndex(eo)) ? 1 : 0, e});
  }
  std::sort(es.begin(), es.end());
  std::map<long, long> erk;
  for (size_t i = 0; i < es.size(); ++i) erk[es[i][4]] = static_cast<long>(i);
  for (auto& e : es) key += "|" + std::to_string(e[0]) + ">" + std::to_string(e[1]) + ":" + std::to_string(e[2]) + std::to_string(e[3]);
  for (long n : nodes)
  {
    NP p = o.getNodeFromGraphid(static_cast<Graph::NodeId>(n));
    key += "#" + std::to_string(p ? 1 : 0) + std::to_string((p && o.hasNodeIndex(p)) ? 1 : 0) + "o";
    std::vector<Graph::NodeId> ns = w.g->getOutgoingNeighbors(static_cast<Graph::NodeId>(n));
    std::vector<Graph::EdgeId> eg = w.g->getOutgoingEdges(static_cast<Graph::NodeId>(n));
    for (size_t i = 0; i < ns.size(); ++i) key += std::to_string(R(ns[i])) + "." + std::to_string(erk.count(eg[i]) ? erk[eg[i]] : 99) + ",";
    key += "i";
    ns = w.g->getIncomingNeighbors(static_cast<Graph::NodeId>(n));
    eg = w.g->getIncomingEdges(static_cast<Graph::NodeId>(n));
    for (size_t i = 0; i < ns.size(); ++i) key += std::to_string(R(ns[i])) + "." + std::to_string(erk.count(eg[i]) ? erk[eg[i]] : 99) + ",";
  }
  // objects the observer still knows although the graph lost the node (should never happen)
  key += "$" + std::to_string(o.getNumberOfNodes()) + "," + std::to_string(o.getNumberOfEdges());
  return key;
}

// after a call: give every node (and edge, when the configuration uses edge objects)
// an object and, per configuration, an index - through the public association calls
static void normalize(World& w, const BfsCfg& cfg, std::vector<Op>* done)
{
  Obs& o = *w.o[1];
  auto run = [&](const Op& op) {
    w.exec(op);
    if (done) done->push_back(op);
  };
  for (long n : w.liveNodes())
    if (!o.getNodeFromGraphid(static_cast<Graph::NodeId>(n))) run(Op("AssocNode", 1, LV{freshLabel(assocNodeObjs(w, 1), 0), n}));
  if (cfg.eobj)
    for (long e : w.liveEdges())
      if (!o.getEdgeFromGraphid(static_cast<Graph::EdgeId>(e))) run(Op("AssocEdge", 1, LV{freshLabel(assocEdgeObjs(w, 1), 0), e}));
  if (cfg.idx != 0)
  {
    for (long ob : assocNodeObjs(w, 1))
      if (!o.hasNodeIndex(w.N(ob)))
      {
        if (cfg.idx == 1) run(Op("SetNodeIndex", 1, LV{ob, IMAX - (ob % (IMAX + 1))}));
        else run(Op("AddNodeIndex", 1, LV{ob}));
      }
    for (long eo : assocEdgeObjs(w, 1))
      if (!o.hasEdgeIndex(w.E(eo)))
      {
        if (cfg.idx == 1) run(Op("SetEdgeIndex", 1, LV{eo, IMAX - (eo % (IMAX + 1))}));
        else run(Op("AddEdgeIndex", 1, LV{eo}));
      }
  }
}

static std::vector<Op> enumerateOps(World& w, const BfsCfg& cfg, long maxNodes)
{
  std::vector<Op> ops;
  LV objs = assocNodeObjs(w, 1), eobjs = assocEdgeObjs(w, 1), nodes = w.liveNodes(), edges = w.liveEdges();
  long n = static_cast<long>(nodes.size());
  long X = freshLabel(objs, 0) + 40; // an object the observer does not know
  long newO = freshLabel(objs, 0);
  long newE = cfg.eobj ? freshLabel(eobjs, 0) : NONE;
  LV objsX = objs;
  objsX.push_back(X);
  if (n < maxNodes)
  {
    ops.push_back(Op("OCreateNode", 1, LV{newO}));
    for (long of : objsX) ops.push_back(Op("OCreateNodeFrom", 1, LV{of, newO, newE}));
    if (!eobjs.empty() && !objs.empty()) ops.push_back(Op("OCreateNodeFrom", 1, LV{objs[0], newO, eobjs[0]})); // edge object in use: raise
    ops.push_back(Op("GCreateNode", 0, LV()));
    for (long m : nodes) ops.push_back(Op("GCreateNodeFromNode", 0, LV{m}));
    for (long x : edges) ops.push_back(Op("GCreateNodeOnEdge", 0, LV{x}));
  }
  if (n + 1 < maxNodes)
    for (long x : edges) ops.push_back(Op("GCreateNodeFromEdge", 0, LV{x}));
  if (!objs.empty())
  {
    ops.push_back(Op("OCreateNode", 1, LV{objs[0]}));                    // object in use: raise
    ops.push_back(Op("OCreateNodeFrom", 1, LV{objs[0], objs[0], newE})); // new object in use: raise
  }
  ops.push_back(Op("GCreateNodeFromNode", 0, LV{w.absentNode()}));
  ops.push_back(Op("GCreateNodeOnEdge", 0, LV{w.absentEdge()}));
  ops.push_back(Op("GCreateNodeFromEdge", 0, LV{w.absentEdge()}));
  for (long a : objsX)
    for (long b : objsX)
    {
      ops.push_back(Op("OLink", 1, LV{a, b, newE}));
      ops.push_back(Op("OUnlink", 1, LV{a, b}));
    }
  if (!eobjs.empty() && objs.size() >= 2) ops.push_back(Op("OLink", 1, LV{objs[0], objs[1], eobjs[0]})); // edge object in use: raise
  for (long a : objsX) ops.push_back(Op("ODeleteNode", 1, LV{a}));
  for (long m : nodes) ops.push_back(Op("GDeleteNode", 0, LV{m}));
  ops.push_back(Op("GDeleteNode", 0, LV{w.absentNode()}));
  long n0 = nodes.empty() ? w.absentNode() + 1 : nodes[0];
  ops.push_back(Op("GLink", 0, LV{w.absentNode(), n0}));
  ops.push_back(Op("GLink", 0, LV{n0, w.absentNode()}));
  ops.push_back(Op("GUnlink", 0, LV{w.absentNode(), n0}));
  ops.push_back(Op("GUnlink", 0, LV{n0, w.absentNode()}));
  if (nodes.size() >= 2)
  {
    ops.push_back(Op("GLink", 0, LV{nodes[0], nodes[1]}));
    ops.push_back(Op("GUnlink", 0, LV{nodes[0], nodes[1]}));
    ops.push_back(Op("GUnlink", 0, LV{nodes[1], nodes[0]}));
  }
  ops.push_back(Op("GMakeDirected", 0, LV()));
  ops.push_back(Op("GMakeUndirected", 0, LV()));
  // association / index calls on absent or occupied operands
  ops.push_back(Op("DissocNode", 1, LV{X}));
  ops.push_back(Op("DissocEdge", 1, LV{freshLabel(eobjs, 0) + 40}));
  ops.push_back(Op("AssocNode", 1, LV{X, w.absentNode()}));
  ops.push_back(Op("AssocEdge", 1, LV{freshLabel(eobjs, 0) + 40, w.absentEdge()}));
  if (!objs.empty())
  {
    ops.push_back(Op("AssocNode", 1, LV{objs[0], nodes.empty() ? 0 : nodes[0]}));
    if (cfg.idx != 0)
    {
      ops.push_back(Op("SetNodeIndex", 1, LV{objs[0], 0}));
      ops.push_back(Op("AddNodeIndex", 1, LV{objs[0]}));
    }
    else if (objs.size() >= 2)
    {
      // without the index configuration: one explicit and one allocated index, then a clash
      ops.push_back(Op("SetNodeIndex", 1, LV{objs[0], 3}));
      ops.push_back(Op("AddNodeIndex", 1, LV{objs[1]}));
    }
  }
  if (!avoid("C14-associate-occupied") && !nodes.empty() && !objs.empty()) ops.push_back(Op("AssocNode", 1, LV{X, nodes[0]})); // occupied
  return ops;
}

static void replaySilently(World& w, const std::vector<Op>& hist)
{
  w.logging = false;
  for (const Op& op : hist) w.exec(op);
  w.logging = true;
}

static long bfs(const BfsCfg& cfg, long depth, long maxNodes, long cap, long& states, bool& truncated)
{
  std::set<std::string> seen;
  std::deque<std::vector<Op>> frontier, next;
  frontier.push_back(std::vector<Op>());
  {
    std::unique_ptr<World> w0 = startScenario(cfg.directed, false);
    seen.insert(canonical(*w0));
  }
  long transitions = 0;
  for (long d = 0; d < depth; ++d)
  {
    next.clear();
    for (const auto& hist : frontier)
    {
      std::vector<Op> ops;
      {
        std::unique_ptr<World> w = startScenario(cfg.directed, false, false, &hist);
        ops = enumerateOps(*w, cfg, maxNodes);
      }
      // dry run: which calls raise in this state?  They leave the state alone, so they all go into
      // one scenario (one RaiseBatch event with the maps, which show that nothing changed); every
      // call that succeeds gets a scenario of its own: Reset(load), the call with a full projection
      std::vector<Op> raising, succeeding;
      for (const Op& op : ops)
      {
        std::unique_ptr<World> w = startScenario(cfg.directed, false, false, &hist);
        w->logging = false;
        w->exec(op);
        (w->lastRaised ? raising : succeeding).push_back(op);
      }
      if (cap > 0 && transitions >= cap)
      {
        truncated = true;
        states = static_cast<long>(seen.size());
        return transitions;
      }
      if (!raising.empty())
      {
        std::unique_ptr<World> w = startScenario(cfg.directed, true, false, &hist);
        std::string before = canonical(*w);
        w->lightOnRaise = true;
        for (const Op& op : raising)
        {
          w->exec(op);
          ++transitions;
          if (!w->lastRaised || canonical(*w) != before) break; // not what the dry run saw: the validator will object
        }
        w->flushBatch();
      }
      for (const Op& op : succeeding)
      {
        std::unique_ptr<World> w = startScenario(cfg.directed, true, false, &hist);
        std::vector<Op> h2 = hist;
        w->exec(op);
        ++transitions;
        h2.push_back(op);
        normalize(*w, cfg, &h2);
        std::string key = canonical(*w);
        if (seen.insert(key).second && d + 1 < depth) next.push_back(h2);
      }
    }
    frontier.swap(next);
  }
  states = static_cast<long>(seen.size());
  return transitions;
}

// ------------------------------------------------------------------ probes for known findings
static void probe(const std::string& name)
{
  if (name == "C14-associate-occupied")
  {
    std::unique_ptr<World> w = startScenario(true);
    w->exec(Op("OCreateNode", 1, LV{1}));
    w->exec(Op("AssocNode", 1, LV{2, 0}));
  }
  else
  {
    fprintf(stderr, "unknown probe %s\n", name.c_str());
    exit(2);
  }
}

// ------------------------------------------------------------------ scripted scenario
// --ops "dir=1;OCreateNode:1:1;GLink:0:5,0"   (name:observer:comma separated arguments)
static void script(const std::string& spec)
{
  std::vector<std::string> parts;
  for (size_t p = 0; p <= spec.size();)
  {
    size_t q = spec.find(';', p);
    if (q == std::string::npos) q = spec.size();
    if (q > p) parts.push_back(spec.substr(p, q - p));
    p = q + 1;
  }
  bool directed = true;
  std::unique_ptr<World> w;
  for (const std::string& t : parts)
  {
    if (t.compare(0, 4, "dir=") == 0)
    {
      directed = t[4] == '1';
      w = startScenario(directed);
      continue;
    }
    if (!w) w = startScenario(directed);
    size_t c1 = t.find(':'), c2 = t.find(':', c1 + 1);
    std::string name = t.substr(0, c1);
    int k = c1 == std::string::npos ? 0 : atoi(t.substr(c1 + 1, c2 - c1 - 1).c_str());
    LV a;
    if (c2 != std::string::npos)
    {
      std::string as = t.substr(c2 + 1);
      for (size_t p = 0; p < as.size();)
      {
        size_t q = as.find(',', p);
        if (q == std::string::npos) q = as.size();
        a.push_back(atol(as.substr(p, q - p).c_str()));
        p = q + 1;
      }
    }
    w->exec(Op(name, k, a));
  }
}

int main(int argc, char** argv)
{
  std::string out = argStr(argc, argv, "--out", "");
  std::string mode = argStr(argc, argv, "--mode", "random");
  if (out.empty() || !tracer().open(out))
  {
    fprintf(stderr, "cannot open --out\n");
    return 2;
  }
  installCrashHandlers();
  g_debug = argStr(argc, argv, "--debug", "0") == "1";
  std::string av = argStr(argc, argv, "--avoid", "");
  for (size_t p = 0; p < av.size();)
  {
    size_t q = av.find(',', p);
    if (q == std::string::npos) q = av.size();
    if (q > p) g_avoid.insert(av.substr(p, q - p));
    p = q + 1;
  }
  uint64_t seed = envSeed();
  Obj summary;
  summary.kv("mode", mode);
  if (mode == "random")
  {
    long n = argInt(argc, argv, "--n", 100), len = argInt(argc, argv, "--len", 40), mx = argInt(argc, argv, "--maxnodes", 8);
    Rng rng(seed * 7919 + 14);
    for (long i = 0; i < n; ++i) randomScenario(rng, len, mx);
  }
  else if (mode == "bfs")
  {
    long depth = argInt(argc, argv, "--depth", 4), mx = argInt(argc, argv, "--maxnodes", 3), cap = argInt(argc, argv, "--cap", 0);
    std::string which = argStr(argc, argv, "--cfg", "all");
    long totalStates = 0, totalTrans = 0;
    bool truncated = false;
    Arr per;
    for (int d = 0; d < 2; ++d)
      for (int e = 0; e < 2; ++e)
        for (int ix = 0; ix < 3; ++ix)
        {
          BfsCfg cfg{d == 1, e == 1, ix};
          if (which != "all" && which.find(cfg.name()) == std::string::npos) continue;
          long st = 0;
          bool tr = false;
          long t = bfs(cfg, depth, mx, cap, st, tr);
          totalStates += st;
          totalTrans += t;
          truncated = truncated || tr;
          per.add(Arr().add(cfg.name()).add(st).add(t).add(tr));
        }
    summary.kv("states", totalStates).kv("transitions", totalTrans).kv("truncated", truncated).kv("per_cfg", per);
  }
  else if (mode == "script")
  {
    script(argStr(argc, argv, "--ops", ""));
  }
  else if (mode == "probe")
  {
    probe(argStr(argc, argv, "--name", ""));
  }
  else
  {
    fprintf(stderr, "unknown mode\n");
    return 2;
  }
  summary.kv("scenarios", g_scenarios).kv("events", tracer().count()).kv("done", true);
  tracer().close();
  printf("%s\n", summary.j().dump().c_str());
  return 0;
}
