// Conformance driver for C10 (optimisers of src/Bpp/Numeric/Function).
//
// Every scenario builds a harness objective (random SPD quadratic, condition
// number <= 1e3, or a smooth strictly convex non-quadratic - sqrt type, quadratic+quartic, log-cosh and
// exp type of scaled linear forms -, all with a known
// minimiser m and analytic first/second derivatives), a start, per-coordinate
// interval constraints containing start and minimiser, a constraint policy, a
// stopping tolerance 1e-4..1e-10 and an evaluation budget, and drives one of
// the eleven optimisers through a short history of public calls
// (optimize-before-init, init, manual step, clone, optimize, optimize again,
// re-init).  One ndjson event per call *boundary*:
//
//   Reset      configuration of the scenario (written immediately)
//   OptEarly   optimize() before init()                      -> r
//   InitBegin  f0 = rank f(start), sf = E1 codes of start
//   Evals      batch of calls of the objective: [[codes...], rank] each
//   InitEnd    r
//   Clone      the optimiser is replaced by its clone()
//   MStepBegin / StepDone / MStepEnd   manual step()
//   OptBegin   s0 = rank of f at the parameters held when optimize() starts
//   StepDone   OptimizationListener seam: nb, tol
//   Finish     r, ret/fv/re ranks, feas codes, nb, tol, q (E4 distance), cv
//   BrBegin / Bracket   bracketMinimum / inwardBracketMinimum
//
// Reals never reach the trace: coordinates are E1 codes relative to their own
// bounds (0 below, 1 at lower, 2 inside, 3 at upper, 4 above, 5 NaN), objective
// values are dense ranks in the sorted pool of all values of the scenario
// (events of a scenario are buffered until it ends so that the pool is
// complete), the distance to the minimiser is one E4 fixed-point number.
//
//   drv_optim --out F --n N [--sub K] [--sc ID] [--only OptName] [--nosteer 1] [--stats 1]
#include "tracer.h"
#include "param_audit.h"

#include <Bpp/App/ApplicationTools.h>
#include <Bpp/Exceptions.h>
#include <Bpp/Numeric/AbstractParametrizable.h>
#include <Bpp/Numeric/AutoParameter.h>
#include <Bpp/Numeric/Constraints.h>
#include <Bpp/Numeric/Function/BfgsMultiDimensions.h>
#include <Bpp/Numeric/Function/BrentOneDimension.h>
#include <Bpp/Numeric/Function/ConjugateGradientMultiDimensions.h>
#include <Bpp/Numeric/Function/DirectionFunction.h>
#include <Bpp/Numeric/Function/DownhillSimplexMethod.h>
#include <Bpp/Numeric/Function/Functions.h>
#include <Bpp/Numeric/Function/GoldenSectionSearch.h>
#include <Bpp/Numeric/Function/MetaOptimizer.h>
#include <Bpp/Numeric/Function/NewtonBacktrackOneDimension.h>
#include <Bpp/Numeric/Function/NewtonOneDimension.h>
#include <Bpp/Numeric/Function/OneDimensionOptimizationTools.h>
#include <Bpp/Numeric/Function/PowellMultiDimensions.h>
#include <Bpp/Numeric/Function/SimpleMultiDimensions.h>
#include <Bpp/Numeric/Function/SimpleNewtonMultiDimensions.h>

#include <algorithm>
#include <functional>
#include <cmath>
#include <limits>
#include <map>
#include <memory>

using namespace vt;
using std::shared_ptr;
using std::string;
using std::vector;

struct EvalCapExceeded
{
}; // deliberately not a std::exception: nothing in the library catches it

// ---------------------------------------------------------------- harness objective
struct EvalRec
{
  vector<double> x;
  double f;
};

class HFn : public virtual bpp::SecondOrderDerivable, public bpp::AbstractParametrizable
{
public:
  size_t n;
  int kind; // 0 quadratic, 1 sqrt-type convex, 2 quadratic + quartic, 3 log-cosh of scaled linear forms, 4 exp(t) - t - 1 of them
  vector<vector<double>> A; // SPD (kind 0, 2) or rows q_k (kind 1)
  vector<double> w; // weights (kind 1) / quartic coefficients (kind 2)
  vector<double> m; // minimiser
  double c, mu, kappa, lmin; // lmin: smallest eigenvalue of a quadratic (overall scale)
  bool d1, d2;
  // recording
  bool record;
  vector<EvalRec>* sink;
  long evals, cap;
  bool capHit;
  double kmax = 1e3; // upper end of the condition numbers drawn for this objective
  double smax = 1.5; // upper end of the scale factors of the exp family
  bool plain = false; // minimiser within [-1,1]^n and minimum value +1 or -1 (relative and absolute tolerances coincide): the convergence bound is then 1000 sqrt(tol) in absolute terms
  bool forceSmall = false; // quadratic with eigenvalues well below 1 and a random rotation (strongly correlated parameters)

  HFn(size_t n_) : AbstractParametrizable(""), n(n_), kind(0), A(), w(), m(), c(0), mu(0), kappa(1), lmin(1), d1(true), d2(true), record(false), sink(nullptr), evals(0), cap(1000000), capHit(false)
  {
    for (size_t i = 0; i < n; ++i) addParameter_(new bpp::Parameter("x" + std::to_string(i), 0.));
  }
  HFn* clone() const override { return new HFn(*this); }

  // one term of the non-quadratic families as a function of the linear form t: value, first and second derivative
  static double lcosh(double t)
  {
    t = std::abs(t);
    return t + std::log1p(std::exp(-2. * t)) - 0.6931471805599453;
  }
  double term(double t) const { return kind == 1 ? std::sqrt(1. + t * t) - 1. : kind == 3 ? lcosh(t) : std::exp(t) - t - 1.; }
  double term1(double t) const { return kind == 1 ? t / std::sqrt(1. + t * t) : kind == 3 ? std::tanh(t) : std::exp(t) - 1.; }
  double term2(double t) const
  {
    if (kind == 1) return 1. / std::pow(1. + t * t, 1.5);
    if (kind == 3)
    {
      double th = std::tanh(t);
      double c2 = 1. / std::cosh(t);
      return (std::abs(t) < 15.) ? 1. - th * th : c2 * c2; // sech^2 without cancellation in the tails
    }
    return std::exp(t);
  }

  vector<double> point() const
  {
    vector<double> x(n);
    for (size_t i = 0; i < n; ++i) x[i] = getParameters()[i].getValue();
    return x;
  }
  double evalAt(const vector<double>& x) const
  {
    vector<double> y(n);
    for (size_t i = 0; i < n; ++i) y[i] = x[i] - m[i];
    double s = c;
    if (kind == 0 || kind == 2)
    {
      for (size_t i = 0; i < n; ++i)
      {
        double t = 0;
        for (size_t j = 0; j < n; ++j) t += A[i][j] * y[j];
        s += 0.5 * y[i] * t;
      }
      if (kind == 2)
        for (size_t i = 0; i < n; ++i) s += w[i] * y[i] * y[i] * y[i] * y[i];
    }
    else
    {
      for (size_t k = 0; k < A.size(); ++k)
      {
        double t = 0;
        for (size_t j = 0; j < n; ++j) t += A[k][j] * y[j];
        s += w[k] * term(t);
      }
      for (size_t i = 0; i < n; ++i) s += 0.5 * mu * y[i] * y[i];
    }
    return s;
  }
  double grad(const vector<double>& x, size_t i) const
  {
    vector<double> y(n);
    for (size_t j = 0; j < n; ++j) y[j] = x[j] - m[j];
    double g = 0;
    if (kind == 0 || kind == 2)
    {
      for (size_t j = 0; j < n; ++j) g += A[i][j] * y[j];
      if (kind == 2) g += 4. * w[i] * y[i] * y[i] * y[i];
    }
    else
    {
      for (size_t k = 0; k < A.size(); ++k)
      {
        double t = 0;
        for (size_t j = 0; j < n; ++j) t += A[k][j] * y[j];
        g += w[k] * term1(t) * A[k][i];
      }
      g += mu * y[i];
    }
    return g;
  }
  double hess(const vector<double>& x, size_t i) const
  {
    vector<double> y(n);
    for (size_t j = 0; j < n; ++j) y[j] = x[j] - m[j];
    double h = 0;
    if (kind == 0 || kind == 2)
    {
      h = A[i][i];
      if (kind == 2) h += 12. * w[i] * y[i] * y[i];
    }
    else
    {
      for (size_t k = 0; k < A.size(); ++k)
      {
        double t = 0;
        for (size_t j = 0; j < n; ++j) t += A[k][j] * y[j];
        h += w[k] * A[k][i] * A[k][i] * term2(t);
      }
      h += mu;
    }
    return h;
  }
  size_t idx(const string& v) const { return static_cast<size_t>(atoi(v.c_str() + 1)); }

  // ---- FunctionInterface: one Eval per call that moves / (re)evaluates the objective
  void setParameters(const bpp::ParameterList& pl) override
  {
    matchParametersValues(pl);
    if (record && sink)
    {
      if (++evals > cap)
      {
        capHit = true;
        throw EvalCapExceeded();
      }
      vector<double> x = point();
      sink->push_back(EvalRec{x, evalAt(x)});
    }
  }
  double getValue() const override { return evalAt(point()); }
  void fireParameterChanged(const bpp::ParameterList&) override {}
  void enableFirstOrderDerivatives(bool yn) override { d1 = yn; }
  bool enableFirstOrderDerivatives() const override { return d1; }
  void enableSecondOrderDerivatives(bool yn) override { d2 = yn; }
  bool enableSecondOrderDerivatives() const override { return d2; }
  double getFirstOrderDerivative(const string& v) const override { return grad(point(), idx(v)); }
  double getSecondOrderDerivative(const string& v) const override { return hess(point(), idx(v)); }
  double getSecondOrderDerivative(const string& v1, const string& v2) const override
  {
    if (v1 == v2) return hess(point(), idx(v1));
    return (kind == 0 || kind == 2) ? A[idx(v1)][idx(v2)] : 0.;
  }
  // silent placement of the objective (harness only)
  void place(const vector<double>& x)
  {
    bool r = record;
    record = false;
    bpp::ParameterList pl = getParameters();
    for (size_t i = 0; i < n; ++i) pl[i].setValue(x[i]);
    matchParametersValues(pl);
    record = r;
  }
};

// ---------------------------------------------------------------- buffered events
struct Ev
{
  string e;
  vector<std::pair<string, long>> ints;
  vector<std::pair<string, double>> reals; // -> rank
  vector<std::pair<string, string>> strs;
  vector<std::pair<string, bool>> bools;
  vector<std::pair<string, vector<int>>> ivecs;
  vector<std::pair<string, vector<double>>> rvecs; // -> vector of ranks
  vector<std::pair<vector<int>, double>> pts; // Evals
  vector<std::pair<string, string>> raws; // ready-made JSON
  explicit Ev(const string& n) : e(n), ints(), reals(), strs(), bools(), ivecs(), rvecs(), pts(), raws() {}
  Ev& raw(const string& k, const string& v)
  {
    raws.emplace_back(k, v);
    return *this;
  }
  Ev& i(const string& k, long v)
  {
    ints.emplace_back(k, v);
    return *this;
  }
  Ev& r(const string& k, double v)
  {
    reals.emplace_back(k, v);
    return *this;
  }
  Ev& s(const string& k, const string& v)
  {
    strs.emplace_back(k, v);
    return *this;
  }
  Ev& b(const string& k, bool v)
  {
    bools.emplace_back(k, v);
    return *this;
  }
  Ev& iv(const string& k, const vector<int>& v)
  {
    ivecs.emplace_back(k, v);
    return *this;
  }
  Ev& rv(const string& k, const vector<double>& v)
  {
    rvecs.emplace_back(k, v);
    return *this;
  }
};

static const long UNRANKED = -1000000;

struct Box
{
  vector<int> has, il, iu;
  vector<double> lo, hi;
  int code(size_t i, double x) const
  {
    if (x != x) return 5;
    if (!has[i]) return 2;
    if (x < lo[i]) return 0;
    if (x == lo[i]) return 1;
    if (x == hi[i]) return 3;
    if (x > hi[i]) return 4;
    // strictly inside; within a few precision steps (bound +- 1e-12 is where AutoParameter puts a
    // value that hit an excluded bound) the constraint counts as touched
    if (x - lo[i] <= 1e-11) return 6;
    if (hi[i] - x <= 1e-11) return 7;
    return 2;
  }
  vector<int> codes(const vector<double>& x) const
  {
    vector<int> c(x.size());
    for (size_t i = 0; i < x.size(); ++i) c[i] = code(i, x[i]);
    return c;
  }
  bool feasible(size_t i, double x) const
  {
    int c = code(i, x);
    return c == 2 || c == 6 || c == 7 || (c == 1 && il[i]) || (c == 3 && iu[i]);
  }
};

class Scenario
{
public:
  vector<Ev> evs;
  vector<EvalRec> sink;
  Box box;
  long totalEvals = 0;

  void flushEvals()
  {
    size_t k = 0;
    while (k < sink.size())
    {
      Ev e("Evals");
      for (size_t j = 0; j < 256 && k < sink.size(); ++j, ++k) e.pts.emplace_back(box.codes(sink[k].x), sink[k].f);
      evs.push_back(e);
    }
    totalEvals += static_cast<long>(sink.size());
    sink.clear();
  }
  void add(const Ev& e)
  {
    flushEvals();
    evs.push_back(e);
  }
  long emitAll()
  {
    flushEvals();
    vector<double> pool;
    for (const Ev& e : evs)
    {
      for (const auto& kv : e.reals)
        if (kv.second == kv.second) pool.push_back(kv.second);
      for (const auto& kv : e.rvecs)
        for (double d : kv.second)
          if (d == d) pool.push_back(d);
      for (const auto& p : e.pts)
        if (p.second == p.second) pool.push_back(p.second);
    }
    std::sort(pool.begin(), pool.end());
    pool.erase(std::unique(pool.begin(), pool.end()), pool.end());
    auto rank = [&](double d) -> long {
      if (d != d) return UNRANKED;
      return static_cast<long>(std::lower_bound(pool.begin(), pool.end(), d) - pool.begin());
    };
    for (const Ev& e : evs)
    {
      Obj o;
      o.kv("e", e.e);
      for (const auto& kv : e.strs) o.kv(kv.first, kv.second);
      for (const auto& kv : e.ints) o.kv(kv.first, kv.second);
      for (const auto& kv : e.bools) o.kv(kv.first, kv.second);
      for (const auto& kv : e.reals) o.kv(kv.first, rank(kv.second));
      for (const auto& kv : e.ivecs) o.kv(kv.first, arrOf(kv.second));
      for (const auto& kv : e.raws) o.kv(kv.first, J::raw(kv.second));
      for (const auto& kv : e.rvecs)
      {
        Arr a;
        for (double d : kv.second) a.add(rank(d));
        o.kv(kv.first, a);
      }
      if (e.e == "Evals")
      {
        Arr a;
        for (const auto& p : e.pts) a.add(Arr().add(arrOf(p.first)).add(rank(p.second)));
        o.kv("pts", a);
      }
      tracer().emit(o);
    }
    long n = static_cast<long>(evs.size());
    evs.clear();
    return n;
  }
};

// meta-optimiser: some sub-optimiser was last run with a tolerance coarser than the one requested from the
// meta-optimiser itself (1e-6 relative slack for the rounding of its 10^x schedule)
static bool metaCoarse(const bpp::OptimizerInterface* o)
{
  auto* mo = dynamic_cast<bpp::MetaOptimizer*>(const_cast<bpp::OptimizerInterface*>(o));
  if (!mo) return false;
  double req = mo->getStopCondition()->getTolerance();
  bpp::MetaOptimizerInfos& inf = mo->optimizers();
  for (size_t i = 0; i < inf.getNumberOfOptimizers(); ++i)
    if (!(inf.optimizer(i).getStopCondition()->getTolerance() <= req * (1. + 1e-6))) return true;
  return false;
}

// ---------------------------------------------------------------- listener seam
class Listener : public bpp::OptimizationListener
{
public:
  Scenario* sc;
  explicit Listener(Scenario* s) : sc(s) {}
  void optimizationInitializationPerformed(const bpp::OptimizationEvent&) override {}
  void optimizationStepPerformed(const bpp::OptimizationEvent& ev) override
  {
    const bpp::OptimizerInterface* o = ev.getOptimizer();
    sc->add(Ev("StepDone").i("nb", static_cast<long>(o->getNumberOfEvaluations())).b("tol", o->isToleranceReached()).r("fv", o->getFunctionValue()).b("itc", metaCoarse(o)));
  }
  bool listenerModifiesParameters() const override { return false; }
};

// ---------------------------------------------------------------- random material
static double logUniform(Rng& g, double a, double b) { return std::exp(std::log(a) + g.unit() * (std::log(b) - std::log(a))); }
static double gauss(Rng& g)
{
  double u = g.unit(), v = g.unit();
  if (u < 1e-300) u = 1e-300;
  return std::sqrt(-2. * std::log(u)) * std::cos(6.283185307179586 * v);
}

// random orthogonal matrix by Gram-Schmidt
static vector<vector<double>> randomOrtho(Rng& g, size_t n)
{
  vector<vector<double>> q(n, vector<double>(n));
  for (size_t i = 0; i < n; ++i)
  {
    for (;;)
    {
      for (size_t j = 0; j < n; ++j) q[i][j] = gauss(g);
      for (size_t k = 0; k < i; ++k)
      {
        double d = 0;
        for (size_t j = 0; j < n; ++j) d += q[i][j] * q[k][j];
        for (size_t j = 0; j < n; ++j) q[i][j] -= d * q[k][j];
      }
      double nn = 0;
      for (size_t j = 0; j < n; ++j) nn += q[i][j] * q[i][j];
      if (nn > 1e-6)
      {
        nn = std::sqrt(nn);
        for (size_t j = 0; j < n; ++j) q[i][j] /= nn;
        break;
      }
    }
  }
  return q;
}

static void makeObjective(Rng& g, HFn& f, int kind)
{
  size_t n = f.n;
  f.kind = kind;
  f.m.resize(n);
  for (size_t i = 0; i < n; ++i) f.m[i] = (g.unit() * 2. - 1.) * (f.plain ? 1. : logUniform(g, 0.1, 10.));
  f.c = f.plain ? (g.coin() ? 1. : -1.) : g.chance(1, 3) ? 0. : (g.unit() * 2. - 1.) * logUniform(g, 0.01, 100.);
  if (kind == 0 || kind == 2)
  {
    // eigenvalues in [1, kappa], kappa log-uniform in [1, 1e3]; rotation random (or axis-aligned)
    double kappa = logUniform(g, 1., f.kmax);
    f.kappa = kappa;
    vector<double> ev(n);
    for (size_t i = 0; i < n; ++i) ev[i] = logUniform(g, 1., kappa);
    ev[0] = 1.;
    if (n > 1) ev[n - 1] = kappa;
    if (n == 1) f.kappa = 1.;
    // overall scale: eigenvalues sc * [1, kappa], sc in [0.01, 100] half of the time (eigenvalues below 1: an inverse
    // Hessian with large entries; above 1: steep objectives)
    f.lmin = (kind == 0 && g.coin()) ? logUniform(g, 0.01, 100.) : 1.;
    if (f.forceSmall) f.lmin = logUniform(g, 0.01, 0.3);
    for (size_t i = 0; i < n; ++i) ev[i] *= f.lmin;
    vector<vector<double>> q = (g.chance(1, 5) && !f.forceSmall) ? vector<vector<double>>() : randomOrtho(g, n);
    f.A.assign(n, vector<double>(n, 0.));
    for (size_t i = 0; i < n; ++i)
      for (size_t j = 0; j <= i; ++j)
      {
        double s = 0;
        if (q.empty()) s = (i == j) ? ev[i] : 0.;
        else
          for (size_t k = 0; k < n; ++k) s += q[k][i] * ev[k] * q[k][j];
        f.A[i][j] = f.A[j][i] = s;
      }
    f.w.assign(n, 0.);
    if (kind == 2)
      for (size_t i = 0; i < n; ++i) f.w[i] = logUniform(g, 0.01, 1.);
  }
  else if (kind == 3 || kind == 4)
  {
    // n independent linear forms (orthonormal or the axes) with their own scale factors: strictly convex,
    // curvature vanishing (log-cosh) or exploding (exp) away from the minimiser; no quadratic term
    vector<vector<double>> q = g.coin() ? vector<vector<double>>() : randomOrtho(g, n);
    f.A.assign(n, vector<double>(n, 0.));
    f.w.assign(n, 0.);
    for (size_t k = 0; k < n; ++k)
    {
      double sc = kind == 3 ? logUniform(g, 0.3, 5.) : (g.coin() ? 1. : -1.) * logUniform(g, 0.2, f.smax);
      for (size_t j = 0; j < n; ++j) f.A[k][j] = sc * (q.empty() ? (j == k ? 1. : 0.) : q[k][j]);
      f.w[k] = logUniform(g, 0.3, 3.);
    }
    f.mu = 0.;
  }
  else
  {
    size_t K = n + g.below(3);
    f.A.assign(K, vector<double>(n));
    f.w.assign(K, 0.);
    for (size_t k = 0; k < K; ++k)
    {
      for (size_t j = 0; j < n; ++j) f.A[k][j] = gauss(g);
      f.w[k] = logUniform(g, 0.1, 10.);
    }
    f.mu = logUniform(g, 0.1, 2.);
  }
}

// ---------------------------------------------------------------- the driver
static const char* OPTS[] = {"Bfgs", "ConjugateGradient", "Powell", "DownhillSimplex", "Simple", "SimpleNewton",
                             "Brent", "GoldenSection", "Newton1D", "NewtonBacktrack", "Meta"};
static const int NOPT = 11;
static const char* KINDS[] = {"quad", "cvx1", "cvx2", "lcosh", "expo"};

struct Stats
{
  long runs = 0, conv = 0, raises = 0, hang = 0;
  double maxq = 0;
};

class Driver
{
public:
  Rng g;
  long scenarios = 0, events = 0, evalsTotal = 0, hangs = 0;
  std::map<string, Stats> stats;
  string only;
  bool quadOnly = false;
  int series = 0; // 0 main, 2 simplex in dimension 5-6 at tight tolerances, 3 re-use of one object on correlated quadratics with small eigenvalues
  bool extra1d = false; // scenario of the extra one-dimensional series: objective mostly elsewhere at init(), tiny budgets
  bool steer = true; // (no region is steered around any more: the former simplex finding was a defect of its stop condition, fixed)

  explicit Driver(uint64_t seed) : g(seed), stats(), only() {}

  shared_ptr<bpp::OptimizerInterface> makeInner(const string& name, shared_ptr<HFn> f)
  {
    if (name == "Bfgs") return std::make_shared<bpp::BfgsMultiDimensions>(f);
    if (name == "ConjugateGradient") return std::make_shared<bpp::ConjugateGradientMultiDimensions>(f);
    if (name == "Powell") return std::make_shared<bpp::PowellMultiDimensions>(f);
    if (name == "DownhillSimplex") return std::make_shared<bpp::DownhillSimplexMethod>(f);
    if (name == "Simple") return std::make_shared<bpp::SimpleMultiDimensions>(f);
    if (name == "SimpleNewton") return std::make_shared<bpp::SimpleNewtonMultiDimensions>(f);
    if (name == "Newton1D") return std::make_shared<bpp::NewtonOneDimension>(f);
    return nullptr;
  }
  static int derivs(const string& name) { return (name == "Bfgs" || name == "ConjugateGradient") ? 1 : (name == "SimpleNewton" || name == "Newton1D") ? 2 : 0; }

  void quiet(bpp::OptimizerInterface& o)
  {
    o.setVerbose(0);
    o.setMessageHandler(nullptr);
    o.setProfiler(nullptr);
  }

  // one optimiser scenario
  void runOne(const string& opt, long id)
  {
    bool oneD = (opt == "Brent" || opt == "GoldenSection" || opt == "Newton1D");
    size_t n = oneD ? 1 : 1 + g.below(6);
    if (series == 2) n = g.chance(1, 4) ? 5 : 6;
    if (series == 3) n = 2 + g.below(5);
    // objective family: quadratic half of the time; the Newton-type optimisers see the families whose
    // curvature degenerates far from the minimiser more often (their step-halving give-up paths)
    int kind = 0;
    if (!quadOnly)
    {
      size_t u = g.below(100);
      bool newton = (opt == "SimpleNewton" || opt == "Newton1D");
      if (newton) kind = u < 40 ? 0 : u < 50 ? 1 : u < 60 ? 2 : u < 85 ? 3 : 4;
      else kind = u < 52 ? 0 : u < 64 ? 1 : u < 76 ? 2 : u < 88 ? 3 : 4;
    }
    auto f = std::make_shared<HFn>(n);
    if (series == 2 || series == 3) kind = 0;
    if (series == 2)
    {
      f->plain = true;
      f->kmax = 49.; // well-conditioned
    }
    if (series == 3) f->forceSmall = true;
    makeObjective(g, *f, kind);
    Scenario sc;
    // start
    vector<double> start(n);
    for (size_t i = 0; i < n; ++i) start[i] = f->m[i] + (g.coin() ? 1. : -1.) * logUniform(g, series == 2 ? 5. : 0.01, 10.); // series 2: far starts
    // box: interval constraints containing start and minimiser
    Box& bx = sc.box;
    bx.has.assign(n, 0);
    bx.il.assign(n, 1);
    bx.iu.assign(n, 1);
    bx.lo.assign(n, 0.);
    bx.hi.assign(n, 0.);
    bool anyBox = false, inactive = true;
    int boxStyle = static_cast<int>(g.below(4)); // 0 none, 1 wide, 2 mixed, 3 tight
    if (series == 2 || series == 3) boxStyle = static_cast<int>(g.below(2));
    for (size_t i = 0; i < n; ++i)
    {
      if (boxStyle == 0 || (boxStyle == 2 && g.coin())) continue;
      bx.has[i] = 1;
      anyBox = true;
      double a = std::min(start[i], f->m[i]), b = std::max(start[i], f->m[i]);
      double wl = (boxStyle == 1) ? logUniform(g, 1., 100.) : logUniform(g, 1e-3, 10.);
      double wu = (boxStyle == 1) ? logUniform(g, 1., 100.) : logUniform(g, 1e-3, 10.);
      bx.lo[i] = a - wl;
      bx.hi[i] = b + wu;
      bx.il[i] = g.chance(2, 3);
      bx.iu[i] = g.chance(2, 3);
      if (boxStyle == 3 && g.chance(1, 4))
      { // start exactly on an inclusive bound
        if (start[i] < f->m[i])
        {
          bx.lo[i] = start[i];
          bx.il[i] = 1;
        }
        else
        {
          bx.hi[i] = start[i];
          bx.iu[i] = 1;
        }
      }
      if (!(bx.lo[i] < f->m[i] && f->m[i] < bx.hi[i])) inactive = false;
    }
    const string pols[3] = {bpp::AutoParameter::CONSTRAINTS_AUTO, bpp::AutoParameter::CONSTRAINTS_IGNORE, bpp::AutoParameter::CONSTRAINTS_KEEP};
    string pol = pols[g.below(3)];
    int tk = 4 + static_cast<int>(g.below(7)); // tolerance 1e-4 .. 1e-10
    if (series == 2) tk = 9 + static_cast<int>(g.below(2));
    if (series == 3) tk = 7 + static_cast<int>(g.below(4));
    double tol = std::pow(10., -tk);
    // budget: mostly ample, sometimes binding
    static const long budgets[] = {1, 2, 3, 4, 5, 7, 10, 20, 50, 200};
    long maxEval = g.chance(1, 4) ? budgets[g.below(10)] : 20000;
    // the line search is normally given thousands of evaluations; its budget-exhaustion path needs tiny ones
    if (opt == "NewtonBacktrack" && g.coin()) maxEval = budgets[g.below(5)];
    if (extra1d && g.chance(2, 5)) maxEval = budgets[g.below(5)];
    int hist = static_cast<int>(g.below(10)); // history shape
    if (series == 2)
    {
      hist = 8;
      maxEval = 200000; // the run must stay below a tenth of its budget for the convergence clause to apply
    }
    if (series == 3)
    {
      hist = 3; // converged run, then init() of the same object at a far start
      maxEval = 20000;
    }
    bool early = g.chance(1, 5);
    bool multi = !(oneD || opt == "NewtonBacktrack" || opt == "Meta");
    // block-wise use of one optimiser object: init() on sub-lists of the parameters (same size / other names, other size, back)
    bool blocks = (hist == 6 && multi && n >= 2);
    // same names, other constraints: the box is replaced between two runs of the same optimiser object
    bool rebox = (hist == 7 && !(opt == "NewtonBacktrack" || opt == "Brent" || opt == "GoldenSection"));

    string cfg;
    bool cvg = true; // the configuration is a minimiser whose minimiser the driver knows (convergence clause applicable)
    long metaN = 0; // number of precision stages of a meta-optimiser (0: not one)
    f->sink = &sc.sink;
    f->cap = 60 * maxEval + 20000;
    // where the objective sits when init() is called: at the start (what most code does), at its minimiser
    // (as a previous run would have left it) or anywhere; the start is what init() is given
    int fat = static_cast<int>(g.below(10));
    if (extra1d && fat < 4 && g.coin()) fat = 4 + static_cast<int>(g.below(6)); // start 20 %, minimiser 40 %, anywhere 40 %
    vector<double> sit = start;
    if (fat >= 4 && fat < 7) sit = f->m;
    else if (fat >= 7)
      for (size_t i = 0; i < n; ++i) sit[i] = f->m[i] + (g.unit() * 2. - 1.) * 5.;
    if (blocks)
    { // only some coordinates are handed to the optimiser: the others must be where the run is meant to start
      fat = 0;
      sit = start;
    }
    f->place(sit);

    bpp::ParameterList pl;
    for (size_t i = 0; i < n; ++i)
    {
      shared_ptr<bpp::ConstraintInterface> c;
      if (bx.has[i]) c = std::make_shared<bpp::IntervalConstraint>(bx.lo[i], bx.hi[i], bx.il[i] != 0, bx.iu[i] != 0);
      pl.addParameter(bpp::Parameter("x" + std::to_string(i), start[i], c));
    }

    // ---- build the optimiser
    shared_ptr<bpp::OptimizerInterface> o;
    shared_ptr<bpp::DirectionFunction> dirf;
    double dirScale = 1.;
    vector<double> xi;
    if (opt == "Brent")
    {
      auto b = std::make_shared<bpp::BrentOneDimension>(f);
      bool inward = g.chance(1, 3);
      if (inward)
      {
        // the scanned interval contains start and minimiser and lies inside the box
        double a = std::min(start[0], f->m[0]), bb = std::max(start[0], f->m[0]);
        double lo = a - g.unit() * (bx.has[0] ? 0.9 * (a - bx.lo[0]) : 3.);
        double hi = bb + g.unit() * (bx.has[0] ? 0.9 * (bx.hi[0] - bb) : 3.);
        b->setBracketing(bpp::BrentOneDimension::BRACKET_INWARD);
        cfg = "inward";
        b->setInitialInterval(lo, hi);
      }
      else
      {
        double d = logUniform(g, 1e-3, 1.);
        double lo = start[0] - g.unit() * d, hi = start[0] + g.unit() * d + 1e-9;
        if (bx.has[0])
        {
          lo = std::max(lo, 0.5 * (bx.lo[0] + start[0]));
          hi = std::min(hi, 0.5 * (bx.hi[0] + start[0]));
        }
        b->setInitialInterval(lo, hi);
      }
      o = b;
    }
    else if (opt == "GoldenSection")
    {
      auto b = std::make_shared<bpp::GoldenSectionSearch>(f);
      double d = logUniform(g, 1e-3, 1.);
      double lo = start[0] - g.unit() * d, hi = start[0] + g.unit() * d + 1e-9;
      if (bx.has[0])
      {
        lo = std::max(lo, 0.5 * (bx.lo[0] + start[0]));
        hi = std::min(hi, 0.5 * (bx.hi[0] + start[0]));
      }
      b->setInitialInterval(lo, hi);
      o = b;
    }
    else if (opt == "NewtonBacktrack")
    {
      // a line search along a descent direction through a DirectionFunction (as lineSearch() does)
      xi.resize(n);
      vector<double> gr(n);
      double slope = 0;
      for (size_t i = 0; i < n; ++i) gr[i] = f->grad(start, i);
      bool newtonDir = g.coin();
      for (size_t i = 0; i < n; ++i) xi[i] = -gr[i] / (newtonDir ? f->hess(start, i) : 1.) * logUniform(g, 0.3, 3.);
      for (size_t i = 0; i < n; ++i) slope += xi[i] * gr[i];
      double test = 0;
      for (size_t i = 0; i < n; ++i)
      {
        double x = std::abs(start[i]), t = std::abs(xi[i]);
        if (x > 1.) t /= x;
        if (t > test) test = t;
      }
      dirf = std::make_shared<bpp::DirectionFunction>(f);
      dirf->setConstraintPolicy(pol);
      dirf->setMessageHandler(nullptr);
      bpp::ParameterList pp = pl;
      dirf->init(pp, xi);
      o = std::make_shared<bpp::NewtonBacktrackOneDimension>(dirf, slope, test);
    }
    else if (opt == "Meta")
    {
      static const char* inner[] = {"Bfgs", "ConjugateGradient", "Powell", "DownhillSimplex", "Simple", "SimpleNewton"};
      auto desc = std::unique_ptr<bpp::MetaOptimizerInfos>(new bpp::MetaOptimizerInfos());
      unsigned nn = 1 + static_cast<unsigned>(g.below(4));
      bool simplexOk = true;
      size_t groups = (n >= 2 && g.coin()) ? 2 : 1;
      size_t cut = groups == 2 ? 1 + g.below(n - 1) : n;
      for (size_t gi = 0; gi < groups; ++gi)
      {
        vector<string> names;
        for (size_t i = (gi == 0 ? 0 : cut); i < (gi == 0 ? cut : n); ++i) names.push_back("x" + std::to_string(i));
        string in = inner[g.below(6)];
        if (names.size() == 1 && g.chance(1, 3)) in = "Newton1D";
        if (in == "DownhillSimplex" && !simplexOk) in = "Powell";
        string ty = g.coin() ? bpp::MetaOptimizerInfos::IT_TYPE_STEP : bpp::MetaOptimizerInfos::IT_TYPE_FULL;
        // step-wise derivative-free sub-optimisers leave the function at a trial point: make them frequent
        if (ty == bpp::MetaOptimizerInfos::IT_TYPE_STEP && in != "Newton1D" && g.chance(1, 3)) in = g.coin() ? "Powell" : "DownhillSimplex";
        // the simplex method step-wise: init() rebuilds the simplex at every meta step, so it cannot converge by
        // construction (no convergence claim for such a configuration), but it must still descend and report consistently
        if (in == "DownhillSimplex" && ty == bpp::MetaOptimizerInfos::IT_TYPE_STEP) cvg = false;
        auto io = makeInner(in, f);
        quiet(*io);
        io->setMaximumNumberOfEvaluations(static_cast<unsigned>(maxEval));
        cfg += (cfg.empty() ? "" : "+") + in + ":" + ty;
        desc->addOptimizer(in, io, names, static_cast<unsigned short>(derivs(in)),
                           ty);
      }
      cfg += "/n" + std::to_string(nn);
      metaN = nn;
      o = std::make_shared<bpp::MetaOptimizer>(f, std::move(desc), nn);
    }
    else o = makeInner(opt, f);

    quiet(*o);
    o->setConstraintPolicy(pol);
    o->getStopCondition()->setTolerance(tol);
    o->setMaximumNumberOfEvaluations(static_cast<unsigned>(maxEval));
    auto lis = std::make_shared<Listener>(&sc);
    o->addOptimizationListener(lis);

    // ---- Reset (written immediately: a hang must stay attributable)
    {
      Obj o;
      o.kv("e", "Reset").kv("opt", opt).kv("dim", n).kv("kind", KINDS[kind]);
      o.kv("pol", pol).kv("max", maxEval).kv("tk", tk).kv("inact", inactive).kv("sc", id).kv("cfg", cfg).kv("hist", hist).kv("kap", static_cast<long>(f->kappa + 0.5)).kv("fat", fat < 4 ? "start" : fat < 7 ? "min" : "else").kv("full", !blocks).kv("cvg", cvg && !blocks).kv("mn", metaN);
      Arr b;
      for (size_t i = 0; i < n; ++i) b.add(Arr().add(bx.has[i] != 0).add(bx.il[i] != 0).add(bx.iu[i] != 0));
      o.kv("box", b);
      tracer().emit(o);
      tracer().flush();
      ++events;
    }
    ++scenarios;
    Stats& st = stats[opt];
    ++st.runs;

    bpp::ParameterList ipl = pl;
    if (opt == "NewtonBacktrack")
    {
      ipl.reset();
      ipl.addParameter(bpp::Parameter("x", 0.0));
    }
    vector<size_t> act(n); // indices of the parameters given to the last init()
    for (size_t i = 0; i < n; ++i) act[i] = i;
    vector<double> base = start;
    auto reported = [&]() -> vector<double> {
      vector<double> x(n);
      if (opt == "NewtonBacktrack")
      {
        // the point the direction function maps the reported abscissa to, obtained from the
        // library itself (recording off), the objective being put back where it was
        vector<double> keep = f->point();
        bool rec = f->record;
        f->record = false;
        try
        {
          dirf->setParameters(o->getParameters());
          x = f->point();
        }
        catch (bpp::Exception&)
        {
          x.assign(n, std::numeric_limits<double>::quiet_NaN());
        }
        f->place(keep);
        f->record = rec;
        return x;
      }
      x = base; // coordinates that are not being optimised stay where they were at init()
      for (size_t k = 0; k < act.size(); ++k) x[act[k]] = o->getParameters()[k].getValue();
      return x;
    };

    bool dead = false;
    vector<shared_ptr<bpp::OptimizerInterface>> olds;
    auto guarded = [&](const std::function<void()>& fn) -> string {
      string r = outcome<bpp::Exception>(fn, id);
      if (f->capHit) r = "cap";
      return r;
    };
    auto hang = [&]() {
      sc.add(Ev("Hang").i("in", id));
      ++hangs;
      ++st.hang;
      dead = true;
    };

    f->record = true;
    // ---- optimize() before init(): must raise, nothing happens
    if (early)
    {
      string r = guarded([&]() { o->optimize(); });
      if (r == "cap") hang();
      else sc.add(Ev("OptEarly").s("r", r));
    }
    auto doInit = [&](const vector<double>& from) {
      if (dead) return false;
      bpp::ParameterList q;
      if (opt == "NewtonBacktrack") q = ipl;
      else
        for (size_t k = 0; k < act.size(); ++k)
        {
          bpp::Parameter pk = pl[act[k]];
          pk.setValue(from[act[k]]);
          q.addParameter(pk);
        }
      base = from;
      // the objective stays wherever the history left it
      sc.add(Ev("InitBegin").r("f0", f->evalAt(from)).iv("sf", bx.codes(from)));
      string r = guarded([&]() { o->init(q); });
      if (r == "cap")
      {
        hang();
        return false;
      }
      sc.add(Ev("InitEnd").s("r", r));
      return r == "ok";
    };
    auto doClone = [&]() {
      if (dead) return;
      shared_ptr<bpp::OptimizerInterface> c(o->clone());
      olds.push_back(o); // the original stays alive: a copy that still refers to it misbehaves deterministically
      o = c;
      o->addOptimizationListener(lis);
      sc.add(Ev("Clone"));
    };
    auto doStep = [&]() {
      if (dead) return true;
      sc.add(Ev("MStepBegin"));
      double ret = 0;
      string r = guarded([&]() { ret = o->step(); });
      if (r == "cap")
      {
        hang();
        return false;
      }
      sc.add(Ev("MStepEnd").s("r", r));
      return r == "ok";
    };
    auto doOptimize = [&](bool first, const vector<double>& from) {
      if (dead) return false;
      vector<double> held = first ? from : reported();
      sc.add(Ev("OptBegin").r("s0", f->evalAt(held)).b("first", first));
      double ret = std::numeric_limits<double>::quiet_NaN();
      string r = guarded([&]() { ret = o->optimize(); });
      if (r == "cap")
      {
        hang();
        return false;
      }
      Ev e("Finish");
      e.s("r", r);
      if (r == "ok")
      {
        vector<double> x = reported();
        double fv = o->getFunctionValue();
        double re = f->evalAt(x);
        bool tolr = o->isToleranceReached();
        // E4: sup-norm distance to the minimiser in units of sqrt(tolerance * max(1,|f*|) / min(1, lambda_min)) * max(1, |m|_inf), x1000, capped
        double d = 0, ms = 1.;
        for (size_t i = 0; i < n; ++i)
        {
          d = std::max(d, std::abs(x[i] - f->m[i]));
          ms = std::max(ms, std::abs(f->m[i]));
        }
        double fs = std::max(1., std::abs(f->c)); // |f*|: several stop conditions are relative to |f|
        double q = d / (std::sqrt(tol * fs / std::min(1., f->lmin)) * ms);
        // E4: gap f(x) - f* (for a quadratic 0.5 y'Ay, no cancellation) in units of tolerance * max(1,|f*|) * condition number
        double gap = re - f->c;
        if (kind == 0)
        {
          gap = 0;
          for (size_t i = 0; i < n; ++i)
            for (size_t j = 0; j < n; ++j) gap += 0.5 * (x[i] - f->m[i]) * f->A[i][j] * (x[j] - f->m[j]);
        }
        double gq = gap / (tol * fs * f->kappa);
        if (getenv("VERIF_DEBUG")) fprintf(stderr, "sc=%ld finish d=%g tol=%g c=%g lmin=%g kappa=%g ms=%g q=%g gap=%g nb=%u\n", id, d, tol, f->c, f->lmin, f->kappa, ms, q, gap, o->getNumberOfEvaluations());
        long gi = (gq != gq || gq > 2e6) ? 2000000000L : static_cast<long>(std::ceil(gq * 1000.));
        long qi = (q != q || q > 1e6) ? 1000000000L : static_cast<long>(std::ceil(q * 1000.));
        bool cv = (kind == 0) && inactive && tolr && opt != "NewtonBacktrack" && static_cast<long>(o->getNumberOfEvaluations()) < maxEval; // statistics only
        e.r("ret", ret).r("fv", fv).r("re", re).iv("feas", bx.codes(x));
        e.i("nb", static_cast<long>(o->getNumberOfEvaluations())).b("tol", tolr).i("q", qi).i("g", gi);
        if (cv)
        {
          ++st.conv;
          st.maxq = std::max(st.maxq, q);
        }
      }
      else
      {
        ++st.raises;
        e.i("nb", static_cast<long>(o->getNumberOfEvaluations())).b("tol", o->isToleranceReached());
      }
      sc.add(e);
      return r == "ok";
    };

    // ---- the history
    if (blocks)
    {
      // first half, second half (same size, other names), a sub-list of another size, the first half again;
      // each run starts where the previous one left the objective's coordinates
      size_t k = std::max<size_t>(1, n / 2);
      vector<vector<size_t>> sets(4);
      for (size_t i = 0; i < k; ++i) sets[0].push_back(i);
      for (size_t i = n - k; i < n; ++i) sets[1].push_back(i);
      size_t k3 = (k == 1) ? std::min<size_t>(2, n) : k - 1;
      size_t off = g.below(n - k3 + 1);
      for (size_t i = 0; i < k3; ++i) sets[2].push_back(off + i);
      sets[3] = sets[0];
      vector<double> cur = start;
      for (size_t r = 0; r < 4 && !dead; ++r)
      {
        act = sets[r];
        // the user moves on from the reported point - pulled back inside the constraints if the previous run
        // (policy ignore) left them: a start must be admissible
        for (size_t i = 0; i < n; ++i)
          if (!bx.feasible(i, cur[i]))
          {
            double d = 1e-6 * (bx.hi[i] - bx.lo[i]);
            cur[i] = (cur[i] != cur[i] || cur[i] < bx.lo[i] + d) ? bx.lo[i] + d : bx.hi[i] - d;
          }
        f->place(cur);
        if (!doInit(cur)) break;
        if (!doOptimize(true, cur)) break;
        cur = reported();
      }
      f->record = false;
      events += sc.emitAll();
      evalsTotal += sc.totalEvals;
      return;
    }
    bool ok = doInit(start);
    if (ok)
    {
      switch (hist)
      {
      case 0: // manual steps, then optimize
      {
        size_t k = 1 + g.below(3);
        bool sok = true;
        for (size_t j = 0; j < k && sok; ++j) sok = doStep();
        if (sok) doOptimize(false, start);
        break;
      }
      case 1: // optimize twice
        if (doOptimize(true, start)) doOptimize(false, start);
        break;
      case 2: // clone after init, run the clone
      case 5:
        doClone();
        doOptimize(true, start);
        break;
      case 3: // optimize, re-init somewhere else, optimize
        if (doOptimize(true, start) && opt != "NewtonBacktrack")
        {
          vector<double> s2(n);
          for (size_t i = 0; i < n; ++i)
          {
            s2[i] = f->m[i] + (g.coin() ? 1. : -1.) * logUniform(g, series == 3 ? 2. : 0.01, 10.);
            if (bx.has[i] && !(bx.lo[i] < s2[i] && s2[i] < bx.hi[i])) s2[i] = bx.lo[i] + (0.05 + 0.9 * g.unit()) * (bx.hi[i] - bx.lo[i]);
          }
          if (doInit(s2)) doOptimize(true, s2);
        }
        break;
      case 4: // optimize, clone, optimize the clone again
        if (doOptimize(true, start))
        {
          doClone();
          doOptimize(false, start);
        }
        break;
      case 7: // optimize, replace the constraints (same names), init again inside the new box, optimize
        if (rebox)
        {
          if (!doOptimize(true, start)) break;
          vector<double> s2(n);
          bool inact2 = true;
          Box nb = bx;
          for (size_t i = 0; i < n; ++i)
          {
            s2[i] = f->m[i] + (g.coin() ? 1. : -1.) * logUniform(g, 0.01, 10.);
            nb.has[i] = g.chance(3, 4);
            double a = std::min(s2[i], f->m[i]), b = std::max(s2[i], f->m[i]);
            nb.lo[i] = a - logUniform(g, 1e-3, 30.);
            nb.hi[i] = b + logUniform(g, 1e-3, 30.);
            nb.il[i] = g.chance(2, 3);
            nb.iu[i] = g.chance(2, 3);
          }
          Arr jb;
          for (size_t i = 0; i < n; ++i) jb.add(Arr().add(nb.has[i] != 0).add(nb.il[i] != 0).add(nb.iu[i] != 0));
          sc.add(Ev("Rebox").raw("box", jb.j().dump()).b("inact", inact2)); // evaluations so far were coded against the old box
          bx = nb;
          bpp::ParameterList pl2;
          for (size_t i = 0; i < n; ++i)
          {
            shared_ptr<bpp::ConstraintInterface> c;
            if (bx.has[i]) c = std::make_shared<bpp::IntervalConstraint>(bx.lo[i], bx.hi[i], bx.il[i] != 0, bx.iu[i] != 0);
            pl2.addParameter(bpp::Parameter("x" + std::to_string(i), s2[i], c));
          }
          pl = pl2;
          if (doInit(s2)) doOptimize(true, s2);
        }
        else doOptimize(true, start);
        break;
      default:
        doOptimize(true, start);
      }
    }
    f->record = false;
    events += sc.emitAll();
    evalsTotal += sc.totalEvals;
  }

  // one bracketing scenario
  void runBracket(long id)
  {
    auto f = std::make_shared<HFn>(1);
    // mostly non-quadratic: a parabolic fit is exact on a quadratic, the interesting branches of the outward search
    // need slopes that flatten quickly (exp family with scale factors up to 6, log-cosh from far away)
    size_t u = g.below(100);
    int kind = u < 20 ? 0 : u < 35 ? 1 : u < 50 ? 2 : u < 70 ? 3 : 4;
    f->smax = 6.;
    makeObjective(g, *f, kind);
    Scenario sc;
    Box& bx = sc.box;
    bool inward = g.coin();
    bool constrained = g.coin();
    double m = f->m[0];
    double a = m + (g.coin() ? 1. : -1.) * logUniform(g, 0.01, 10.);
    double b;
    if (inward) b = (a < m) ? m + logUniform(g, 0.01, 10.) : m - logUniform(g, 0.01, 10.); // [a,b] contains the minimiser
    else b = a + (g.coin() ? 1. : -1.) * logUniform(g, 1e-3, 3.);
    bx.has.assign(1, constrained ? 1 : 0);
    bx.il.assign(1, g.coin());
    bx.iu.assign(1, g.coin());
    double lo = std::min(std::min(a, b), m), hi = std::max(std::max(a, b), m);
    bx.lo.assign(1, lo - logUniform(g, 1e-3, 10.));
    bx.hi.assign(1, hi + logUniform(g, 1e-3, 10.));
    unsigned nint = 2 + static_cast<unsigned>(g.below(20));
    {
      Obj o;
      o.kv("e", "Reset").kv("opt", inward ? "BracketInward" : "BracketOutward").kv("dim", 1).kv("kind", KINDS[kind]);
      o.kv("pol", constrained ? "auto" : "ignore").kv("max", 0).kv("tk", 0).kv("inact", true).kv("sc", id).kv("full", true).kv("cvg", true).kv("mn", 0);
      o.kv("box", Arr().add(Arr().add(bx.has[0] != 0).add(bx.il[0] != 0).add(bx.iu[0] != 0)));
      tracer().emit(o);
      tracer().flush();
      ++events;
    }
    ++scenarios;
    Stats& st = stats[inward ? "BracketInward" : "BracketOutward"];
    ++st.runs;
    f->sink = &sc.sink;
    f->cap = 100000;
    f->place(vector<double>(1, a));
    bpp::ParameterList pl;
    if (constrained)
    {
      bpp::AutoParameter ap("x0", a, std::make_shared<bpp::IntervalConstraint>(bx.lo[0], bx.hi[0], bx.il[0] != 0, bx.iu[0] != 0));
      ap.setMessageHandler(nullptr);
      pl.addParameter(ap);
    }
    else pl.addParameter(bpp::Parameter("x0", a));
    sc.add(Ev("BrBegin"));
    bpp::Bracket br;
    f->record = true;
    string r;
    r = outcome<bpp::Exception>([&]() {
      br = inward ? bpp::OneDimensionOptimizationTools::inwardBracketMinimum(a, b, *f, pl, nint)
                  : bpp::OneDimensionOptimizationTools::bracketMinimum(a, b, *f, pl);
    }, id);
    if (f->capHit) r = "cap";
    f->record = false;
    if (r == "cap")
    {
      sc.add(Ev("Hang").i("in", id));
      ++hangs;
    }
    else
    {
      Ev e("Bracket");
      e.s("r", r).s("mode", inward ? "in" : "out");
      if (r == "ok")
      {
        // abscissae: dense ranks among the three; values: ranks in the scenario pool
        vector<double> xs = {br.a.x, br.b.x, br.c.x};
        vector<double> srt = xs;
        std::sort(srt.begin(), srt.end());
        srt.erase(std::unique(srt.begin(), srt.end()), srt.end());
        vector<int> xr(3);
        for (int i = 0; i < 3; ++i) xr[i] = static_cast<int>(std::lower_bound(srt.begin(), srt.end(), xs[i]) - srt.begin());
        e.iv("x", xr).rv("f", vector<double>{br.a.f, br.b.f, br.c.f});
        if (getenv("VERIF_DEBUG"))
          fprintf(stderr, "sc=%ld a=%.17g b=%.17g m=%.17g box=[%g,%g] has=%d | A(%.17g,%.17g) B(%.17g,%.17g) C(%.17g,%.17g)\n", id, a, b, m, bx.lo[0], bx.hi[0], bx.has[0],
                  br.a.x, br.a.f, br.b.x, br.b.f, br.c.x, br.c.f);
      }
      else ++st.raises;
      sc.add(e);
    }
    events += sc.emitAll();
    evalsTotal += sc.totalEvals;
  }
};

int main(int argc, char** argv)
{
  vt::installParamAudit(); // C01: audit of every Parameter of the process when VERIF_PARAM_AUDIT=<file> is set
  string out = argStr(argc, argv, "--out", "");
  long n = argInt(argc, argv, "--n", 150);
  long nbr = argInt(argc, argv, "--brackets", -1);
  string only = argStr(argc, argv, "--only", "");
  bool showStats = argInt(argc, argv, "--stats", 0) != 0;
  uint64_t sub = static_cast<uint64_t>(argInt(argc, argv, "--sub", 0));
  if (out.empty() || !tracer().open(out))
  {
    fprintf(stderr, "drv_optim: cannot open --out\n");
    return 2;
  }
  installCrashHandlers();
  bpp::ApplicationTools::message = std::make_shared<bpp::NullOutputStream>();
  bpp::ApplicationTools::warning = std::make_shared<bpp::NullOutputStream>();
  bpp::ApplicationTools::error = std::make_shared<bpp::NullOutputStream>();
  Driver d(envSeed() * 2654435761ULL + 12345ULL + sub * 7919ULL);
  d.quadOnly = argInt(argc, argv, "--quad", 0) != 0;
  d.steer = argInt(argc, argv, "--nosteer", 0) == 0;
  // every scenario has its own generator, so a single one can be regenerated (--sc ID)
  uint64_t base = envSeed() * 2654435761ULL + 12345ULL + sub * 7919ULL;
  long one = argInt(argc, argv, "--sc", -1);
  if (nbr < 0) nbr = n / 2;
  for (long id = 0; id < n + nbr; ++id)
  {
    if (one >= 0 && id != one) continue;
    d.g = Rng(base ^ (static_cast<uint64_t>(id + 1) * 0x9e3779b97f4a7c15ULL));
    if (id < n)
    {
      string opt = only.empty() ? OPTS[id % NOPT] : only;
      d.runOne(opt, id);
    }
    else if (only.empty() || only == "Bracket") d.runBracket(id);
  }
  // extra series for the cheap one-dimensional optimisers: the objective sits at its minimiser / anywhere when
  // init(start) is called (as after an earlier run), budgets of 1..5 evaluations in 40 % of the runs
  // extra series 2: the simplex method in dimension 5-6 on well-conditioned quadratics at tolerances 1e-9 / 1e-10
  // (minimiser in [-1,1]^n, minimum value +1 or -1); extra series 3: BFGS / conjugate gradient / Powell objects used twice on a
  // strongly correlated quadratic with eigenvalues below 1 (converged run, then init() at a far start)
  long n2 = only.empty() ? n / 4 : 0, n3 = only.empty() ? n / 8 : 0;
  static const char* REUSE[] = {"Bfgs", "ConjugateGradient", "Bfgs", "Powell"};
  for (long id = 2 * n + nbr; id < 2 * n + nbr + n2 + n3; ++id)
  {
    if (one >= 0 && id != one) continue;
    d.g = Rng(base ^ (static_cast<uint64_t>(id + 1) * 0x9e3779b97f4a7c15ULL));
    d.series = (id < 2 * n + nbr + n2) ? 2 : 3;
    d.runOne(d.series == 2 ? "DownhillSimplex" : REUSE[(id - 2 * n - nbr - n2) % 4], id);
  }
  d.series = 0;
  static const char* ONED[] = {"GoldenSection", "Brent", "Newton1D", "NewtonBacktrack"};
  long nx = only.empty() ? n / 2 : 0;
  d.extra1d = true;
  for (long id = n + nbr; id < n + nbr + nx; ++id)
  {
    if (one >= 0 && id != one) continue;
    d.g = Rng(base ^ (static_cast<uint64_t>(id + 1) * 0x9e3779b97f4a7c15ULL));
    d.runOne(ONED[(id - n - nbr) % 4], id);
  }
  tracer().close();
  if (showStats)
    for (const auto& kv : d.stats)
      fprintf(stderr, "%-18s runs=%ld conv-checked=%ld raises=%ld hang=%ld maxq=%.3g\n", kv.first.c_str(), kv.second.runs, kv.second.conv,
              kv.second.raises, kv.second.hang, kv.second.maxq);
  printf("{\"scenarios\":%ld,\"events\":%ld,\"evals\":%ld,\"hangs\":%ld}\n", d.scenarios, d.events, d.evalsTotal, d.hangs);
  return 0;
}
