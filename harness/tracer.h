// Common trace layer for the bpp-core conformance drivers.
// One ndjson object per public call, written after the call returns (also on
// the throw path).  Only integers, booleans, strings and nested arrays/objects
// are ever written: reals are encoded by the driver (pool index, exact small
// integer, dyadic numerator) before they get here.
#ifndef VERIF_TRACER_H
#define VERIF_TRACER_H

#include <atomic>
#include <chrono>
#include <csignal>
#include <cstdint>
#include <cstdio>
#include <cstdlib>
#include <cstring>
#include <ctime>
#include <cxxabi.h>
#include <exception>
#include <map>
#include <sstream>
#include <string>
#include <thread>
#include <typeinfo>
#include <unistd.h>
#include <vector>

namespace vt
{
// ---------------------------------------------------------------- JSON
class J
{
  std::string s_;

public:
  J() : s_("null") {}
  explicit J(const std::string& raw, int) : s_(raw) {}
  static J raw(const std::string& r) { return J(r, 0); }
  static J num(long long v) { return J(std::to_string(v), 0); }
  static J boolean(bool b) { return J(b ? "true" : "false", 0); }
  static J str(const std::string& v)
  {
    std::string o = "\"";
    for (unsigned char c : v)
    {
      if (c == '"') o += "\\\"";
      else if (c == '\\') o += "\\\\";
      else if (c == '\n') o += "\\n";
      else if (c == '\t') o += "\\t";
      else if (c == '\r') o += "\\r";
      else if (c < 0x20 || c >= 0x7f)
      {
        char b[8];
        snprintf(b, sizeof b, "\\u%04x", c);
        o += b;
      }
      else o += static_cast<char>(c);
    }
    o += "\"";
    return J(o, 0);
  }
  const std::string& dump() const { return s_; }
};

class Arr
{
  std::string s_;
  bool first_;

public:
  Arr() : s_("["), first_(true) {}
  Arr& add(const J& j)
  {
    if (!first_) s_ += ",";
    first_ = false;
    s_ += j.dump();
    return *this;
  }
  Arr& add(long long v) { return add(J::num(v)); }
  Arr& add(int v) { return add(J::num(v)); }
  Arr& add(long v) { return add(J::num(v)); }
  Arr& add(size_t v) { return add(J::num(static_cast<long long>(v))); }
  Arr& add(bool v) { return add(J::boolean(v)); }
  Arr& add(const std::string& v) { return add(J::str(v)); }
  Arr& add(const char* v) { return add(J::str(v)); }
  Arr& add(const Arr& a) { return add(a.j()); }
  J j() const { return J::raw(s_ + "]"); }
};

class Obj
{
  std::string s_;
  bool first_;

public:
  Obj() : s_("{"), first_(true) {}
  Obj& kv(const std::string& k, const J& j)
  {
    if (!first_) s_ += ",";
    first_ = false;
    s_ += J::str(k).dump() + ":" + j.dump();
    return *this;
  }
  Obj& kv(const std::string& k, long long v) { return kv(k, J::num(v)); }
  Obj& kv(const std::string& k, int v) { return kv(k, J::num(v)); }
  Obj& kv(const std::string& k, long v) { return kv(k, J::num(v)); }
  Obj& kv(const std::string& k, size_t v) { return kv(k, J::num(static_cast<long long>(v))); }
  Obj& kv(const std::string& k, bool v) { return kv(k, J::boolean(v)); }
  Obj& kv(const std::string& k, const std::string& v) { return kv(k, J::str(v)); }
  Obj& kv(const std::string& k, const char* v) { return kv(k, J::str(v)); }
  Obj& kv(const std::string& k, const Arr& a) { return kv(k, a.j()); }
  Obj& kv(const std::string& k, const Obj& o) { return kv(k, o.j()); }
  J j() const { return J::raw(s_ + "}"); }
};

template<class T> Arr arrOf(const std::vector<T>& v)
{
  Arr a;
  for (const auto& x : v) a.add(x);
  return a;
}

// ---------------------------------------------------------------- tracer
class Tracer
{
  FILE* f_;
  long n_;

public:
  Tracer() : f_(nullptr), n_(0) {}
  bool open(const std::string& path)
  {
    f_ = fopen(path.c_str(), "w");
    return f_ != nullptr;
  }
  void emit(const Obj& o)
  {
    if (!f_) return;
    fputs(o.j().dump().c_str(), f_);
    fputc('\n', f_);
    ++n_;
  }
  void rawLine(const char* s)
  {
    if (!f_) return;
    fputs(s, f_);
    fputc('\n', f_);
    ++n_;
  }
  void flush()
  {
    if (f_) fflush(f_);
  }
  void close()
  {
    if (f_) fclose(f_);
    f_ = nullptr;
  }
  long count() const { return n_; }
  int fd() const { return f_ ? fileno(f_) : -1; }
};

inline Tracer& tracer()
{
  static Tracer t;
  return t;
}

// ---------------------------------------------------------------- PRNG (splitmix64)
class Rng
{
  uint64_t s_;

public:
  explicit Rng(uint64_t seed) : s_(seed) {}
  uint64_t next()
  {
    uint64_t z = (s_ += 0x9e3779b97f4a7c15ULL);
    z = (z ^ (z >> 30)) * 0xbf58476d1ce4e5b9ULL;
    z = (z ^ (z >> 27)) * 0x94d049bb133111ebULL;
    return z ^ (z >> 31);
  }
  // uniform in [0,n)
  size_t below(size_t n) { return n == 0 ? 0 : static_cast<size_t>(next() % n); }
  // uniform in [lo,hi]
  long range(long lo, long hi) { return lo + static_cast<long>(below(static_cast<size_t>(hi - lo + 1))); }
  bool coin() { return (next() & 1) != 0; }
  bool chance(unsigned num, unsigned den) { return below(den) < num; }
  double unit() { return static_cast<double>(next() >> 11) * (1.0 / 9007199254740992.0); }
};

inline uint64_t envSeed()
{
  const char* s = getenv("VERIF_SEED");
  return s ? strtoull(s, nullptr, 10) : 1ULL;
}

// ---------------------------------------------------------------- crash / hang reporting
// A crash or a hang must not truncate the trace silently: it becomes an event
// that no specification action matches.
inline void crashLine(const char* what)
{
  Tracer& t = tracer();
  t.flush();
  int fd = t.fd();
  if (fd >= 0)
  {
    char buf[160];
    int n = snprintf(buf, sizeof buf, "{\"e\":\"Crash\",\"what\":\"%s\"}\n", what);
    if (n > 0)
    {
      ssize_t w = write(fd, buf, static_cast<size_t>(n));
      (void)w;
    }
  }
}

inline void onSignal(int sig)
{
  const char* w = sig == SIGSEGV ? "SIGSEGV" : sig == SIGABRT ? "SIGABRT" : sig == SIGFPE ? "SIGFPE" : sig == SIGBUS ? "SIGBUS" : sig == SIGILL ? "SIGILL" : "signal";
  crashLine(w);
  _exit(0);
}

inline void onTerminate()
{
  crashLine("terminate");
  _exit(0);
}

inline void installCrashHandlers()
{
  std::set_terminate(onTerminate);
  signal(SIGSEGV, onSignal);
  signal(SIGABRT, onSignal);
  signal(SIGFPE, onSignal);
  signal(SIGBUS, onSignal);
  signal(SIGILL, onSignal);
}

// Watchdog: a single call that runs longer than the budget becomes a "Hang"
// event and the process ends (exit 0: the trace is the verdict).  The budget is
// measured in CPU time of the process (the drivers are single-threaded, the
// watchdog thread sleeps), so a loaded machine does not turn a slow call into
// a false "Hang"; a call that blocks without using the CPU is caught by a wall
// clock backstop of 20 x the budget.
class Watchdog
{
  std::atomic<long long> deadlineCpu_;  // ms of process CPU time, 0 = disarmed
  std::atomic<long long> deadlineWall_; // ms since start
  std::atomic<long> tag_;
  std::thread th_;
  std::chrono::steady_clock::time_point t0_;
  long long now() const
  {
    return std::chrono::duration_cast<std::chrono::milliseconds>(std::chrono::steady_clock::now() - t0_).count();
  }
  static long long cpuNow()
  {
    struct timespec ts;
    if (clock_gettime(CLOCK_PROCESS_CPUTIME_ID, &ts) != 0) return 0;
    return static_cast<long long>(ts.tv_sec) * 1000 + ts.tv_nsec / 1000000;
  }

public:
  Watchdog() : deadlineCpu_(0), deadlineWall_(0), tag_(0), th_(), t0_(std::chrono::steady_clock::now())
  {
    th_ = std::thread([this]() {
      for (;;)
      {
        std::this_thread::sleep_for(std::chrono::milliseconds(50));
        long long d = deadlineCpu_.load();
        if (d > 0 && (cpuNow() > d || now() > deadlineWall_.load()))
        {
          if (deadlineCpu_.load() != d) continue; // re-armed meanwhile
          Tracer& t = tracer();
          t.flush();
          char buf[96];
          int n = snprintf(buf, sizeof buf, "{\"e\":\"Hang\",\"in\":%ld}\n", tag_.load());
          if (t.fd() >= 0 && n > 0)
          {
            ssize_t w = write(t.fd(), buf, static_cast<size_t>(n));
            (void)w;
          }
          _exit(0);
        }
      }
    });
    th_.detach();
  }
  void arm(long long ms, long tag)
  {
    tag_.store(tag);
    deadlineWall_.store(now() + 20 * ms);
    deadlineCpu_.store(cpuNow() + ms);
  }
  void disarm() { deadlineCpu_.store(0); }
};

inline Watchdog& watchdog()
{
  static Watchdog w;
  return w;
}

inline long long callBudgetMs()
{
  const char* s = getenv("VERIF_CALL_BUDGET_MS");
  return s ? atoll(s) : 5000;
}

struct Guard
{
  explicit Guard(long tag = 0) { watchdog().arm(callBudgetMs(), tag); }
  ~Guard() { watchdog().disarm(); }
};

// ---------------------------------------------------------------- exception naming
inline std::string demangle(const char* n)
{
  int st = 0;
  char* d = abi::__cxa_demangle(n, nullptr, nullptr, &st);
  std::string r = (st == 0 && d) ? d : n;
  free(d);
  size_t p = r.rfind("::");
  if (p != std::string::npos) r = r.substr(p + 2);
  return r;
}

// Runs f(); returns "ok" or "raise:<Class>" (class of a bpp::Exception
// subclass, or "std" for anything from the standard library, "other" else).
// BPPEXC is supplied by the driver (bpp::Exception) to keep this header
// independent of the library.
template<class BppExc, class F> std::string outcome(F f, long tag = 0)
{
  Guard g(tag);
  try
  {
    f();
    return "ok";
  }
  catch (BppExc& e)
  {
    return "raise:" + demangle(typeid(e).name());
  }
  catch (std::exception& e)
  {
    return std::string("raise:std:") + demangle(typeid(e).name());
  }
  catch (...)
  {
    return "raise:other";
  }
}

// ---------------------------------------------------------------- E1 pool
// Sorted pool of doubles; values read back from the code are mapped to their
// index by exact equality, anything else is -1000000 ("?").
class Pool
{
  std::vector<double> p_;

public:
  explicit Pool(const std::vector<double>& p) : p_(p) {}
  size_t size() const { return p_.size(); }
  double at(size_t i) const { return p_[i]; }
  long indexOf(double x) const
  {
    for (size_t i = 0; i < p_.size(); ++i)
      if (p_[i] == x) return static_cast<long>(i);
    return -1000000;
  }
};

// ---------------------------------------------------------------- E3 dyadic
// x must be k / 2^bits exactly with |k| < 2^30; ok=false otherwise.
inline long long dyadic(double x, int bits, bool& ok)
{
  double s = x * static_cast<double>(1LL << bits);
  if (!(s == s) || s > 1073741823.0 || s < -1073741823.0 || s != static_cast<double>(static_cast<long long>(s)))
  {
    ok = false;
    return 0;
  }
  return static_cast<long long>(s);
}

// ---------------------------------------------------------------- argv helpers
inline std::string argStr(int argc, char** argv, const std::string& key, const std::string& def)
{
  for (int i = 1; i + 1 < argc; ++i)
    if (key == argv[i]) return argv[i + 1];
  return def;
}
inline long argInt(int argc, char** argv, const std::string& key, long def)
{
  std::string s = argStr(argc, argv, key, "");
  return s.empty() ? def : atol(s.c_str());
}
} // namespace vt
#endif
