// Conformance driver for C05 (src/Bpp/Numeric/Matrix/LUDecomposition.h, MatrixTools::inv / det).
// Header-only subsystem: compiled straight from $VERIF_REPO/src (plus the exception classes).
//
//   drv_lu --out F --mode random --n N     N histories on LUDecomposition objects of integer matrices
//                                          (n = 1..6 with |a_ij| <= 9, one in six n = 7..10 with |a_ij| <= 2)
//   drv_lu --out F --mode exh2             every 2x2 matrix over -2..2: factorise, inspect, solve, invert
//
// A history: Factor (object o <- matrix A), then inspections (pivot vector, L / U patterns, det), solves with right-hand
// sides of 1..4 columns held by any storage class (sometimes of the wrong height), copies of the object, the
// MatrixTools::inv / det wrappers and the determinant laws (transpose, product).  Real-valued answers are logged as
// exact integers: X as Xs = round(d.X) with d the exact integer determinant (computed here by fraction-free elimination,
// NOT trusted: the specification recomputes it) and the flag "every d.x within 0.25 of that integer".
#include "tracer.h"

#include <Bpp/Exceptions.h>
#include <Bpp/Exceptions.cpp> // the only compiled part of the library these headers need
#include <Bpp/Numeric/Matrix/LUDecomposition.h>
#include <Bpp/Numeric/Matrix/Matrix.h>
#include <Bpp/Numeric/Matrix/MatrixTools.h>

#include <algorithm>
#include <cmath>
#include <map>
#include <memory>
#include <set>

using namespace vt;
typedef double S;
typedef bpp::Matrix<S> BM;
typedef bpp::RowMatrix<S> RM;
typedef bpp::ColMatrix<S> CM;
typedef bpp::LinearMatrix<S> LM;
typedef std::vector<std::vector<long>> IM; // integer matrix

static char g_cur[48] = "none";
static void setCur(const char* s)
{
  strncpy(g_cur, s, sizeof g_cur - 1);
  g_cur[sizeof g_cur - 1] = 0;
}
static void onFatal(int sig)
{
  Tracer& t = tracer();
  t.flush();
  char buf[200];
  int n = snprintf(buf, sizeof buf, "{\"e\":\"Crash\",\"what\":\"signal %d (memory error or sanitizer report)\",\"op\":\"%s\"}\n", sig, g_cur);
  if (t.fd() >= 0 && n > 0)
  {
    ssize_t w = write(t.fd(), buf, static_cast<size_t>(n));
    (void)w;
  }
  _exit(0);
}

static std::unique_ptr<BM> make(char cls, size_t r, size_t c)
{
  switch (cls)
  {
  case 'R': return std::unique_ptr<BM>(new RM(r, c));
  case 'C': return std::unique_ptr<BM>(new CM(r, c));
  default: return std::unique_ptr<BM>(new LM(r, c));
  }
}
static std::unique_ptr<BM> fromInt(char cls, const IM& a)
{
  size_t r = a.size(), c = r ? a[0].size() : 0;
  std::unique_ptr<BM> m = make(cls, r, c);
  for (size_t i = 0; i < r; ++i)
    for (size_t j = 0; j < c; ++j) (*m)(i, j) = static_cast<S>(a[i][j]);
  return m;
}
static const long long OFF = -999999999LL;
// an integer-valued entry, exactly
static long long exactInt(double x)
{
  if (!(std::fabs(x) < 1e9) || x != std::floor(x)) return OFF;
  return static_cast<long long>(x);
}
static J matJ(const BM& m)
{
  Arr rows;
  for (size_t i = 0; i < m.getNumberOfRows(); ++i)
  {
    Arr row;
    for (size_t j = 0; j < m.getNumberOfColumns(); ++j) row.add(exactInt(m(i, j)));
    rows.add(row);
  }
  return Obj().kv("r", m.getNumberOfRows()).kv("c", m.getNumberOfColumns()).kv("e", rows).j();
}
static J imJ(const IM& a)
{
  Arr rows;
  for (auto& r : a)
  {
    Arr row;
    for (long x : r) row.add(x);
    rows.add(row);
  }
  return Obj().kv("r", a.size()).kv("c", a.empty() ? 0 : a[0].size()).kv("e", rows).j();
}
// 0 / 1 / 2 = exactly zero / exactly one / anything else
static J patternJ(const BM& m)
{
  Arr rows;
  for (size_t i = 0; i < m.getNumberOfRows(); ++i)
  {
    Arr row;
    for (size_t j = 0; j < m.getNumberOfColumns(); ++j) row.add(m(i, j) == 0.0 ? 0 : (m(i, j) == 1.0 ? 1 : 2));
    rows.add(row);
  }
  return Obj().kv("r", m.getNumberOfRows()).kv("c", m.getNumberOfColumns()).kv("e", rows).j();
}
// round(scale * M) with the largest distance to the rounded value
static J roundedJ(const BM& m, long double scale, long double& dev, long long& maxAbs)
{
  Arr rows;
  dev = 0;
  maxAbs = 0;
  for (size_t i = 0; i < m.getNumberOfRows(); ++i)
  {
    Arr row;
    for (size_t j = 0; j < m.getNumberOfColumns(); ++j)
    {
      long double y = static_cast<long double>(m(i, j)) * scale;
      if (!(std::fabs(y) < 1e9L))
      {
        row.add(OFF);
        dev = 1;
        maxAbs = 2000000000LL;
        continue;
      }
      long double ry = std::floor(y + 0.5L);
      dev = std::max(dev, std::fabs(y - ry));
      maxAbs = std::max(maxAbs, static_cast<long long>(std::fabs(ry)));
      row.add(static_cast<long long>(ry));
    }
    rows.add(row);
  }
  return Obj().kv("r", m.getNumberOfRows()).kv("c", m.getNumberOfColumns()).kv("e", rows).j();
}

// exact determinant, fraction-free elimination in 128-bit integers
static long long exactDet(const IM& a0)
{
  size_t n = a0.size();
  std::vector<std::vector<__int128>> a(n, std::vector<__int128>(n));
  for (size_t i = 0; i < n; ++i)
    for (size_t j = 0; j < n; ++j) a[i][j] = a0[i][j];
  __int128 prev = 1;
  int sign = 1;
  for (size_t k = 0; k + 1 < n; ++k)
  {
    size_t p = k;
    while (p < n && a[p][k] == 0) ++p;
    if (p == n) return 0;
    if (p != k)
    {
      std::swap(a[p], a[k]);
      sign = -sign;
    }
    for (size_t i = k + 1; i < n; ++i)
      for (size_t j = k + 1; j < n; ++j) a[i][j] = (a[k][k] * a[i][j] - a[i][k] * a[k][j]) / prev;
    prev = a[k][k];
  }
  return static_cast<long long>(sign * a[n - 1][n - 1]);
}

struct LuObj
{
  std::unique_ptr<bpp::LUDecomposition<S>> lu;
  IM a;
};

class Runner
{
public:
  Rng rng;
  std::map<int, LuObj> objs;
  long scenarios = 0, skippedBig = 0, solves = 0, singular = 0, refused = 0;
  std::set<std::string> rhsCombos;

  explicit Runner(uint64_t seed) : rng(seed), objs(), rhsCombos() {}
  char cls() { return "RCL"[rng.below(3)]; }

  // ------------------------------------------------------------ matrix generators
  IM randomM(size_t n, long lim)
  {
    IM a(n, std::vector<long>(n));
    for (auto& r : a)
      for (auto& x : r) x = rng.range(-lim, lim);
    return a;
  }
  // |a_ij| <= 9 up to 6x6, <= 2 for 7x7..10x10 (keeps every exact minor below 2^31)
  static long limFor(size_t n) { return n <= 6 ? 9 : 2; }
  IM genMatrix(size_t n)
  {
    const long lim = limFor(n), half = n <= 6 ? 4 : 1;
    if (rng.chance(3, 10)) return genSparse(n, lim);
    size_t kind = rng.below(10);
    if (kind < 4) return randomM(n, rng.chance(1, 3) ? 2 : lim);
    if (kind < 6)
    { // permuted triangular: needs row exchanges, determinant = +- product of the diagonal
      IM t(n, std::vector<long>(n, 0));
      for (size_t i = 0; i < n; ++i)
        for (size_t j = i; j < n; ++j) t[i][j] = (i == j) ? (rng.coin() ? 1 : -1) * rng.range(1, lim) : rng.range(-lim, lim);
      if (rng.coin())
        for (size_t i = 0; i < n; ++i)
          for (size_t j = i + 1; j < n; ++j) std::swap(t[i][j], t[j][i]); // lower triangular instead
      for (size_t i = n; i > 1; --i) std::swap(t[i - 1], t[rng.below(i)]);
      return t;
    }
    if (kind < 8 && n >= 2)
    { // rank deficient: one row is a combination of two others / duplicated / zero column
      IM a = randomM(n, half);
      size_t r = rng.below(n), p = (r + 1 + rng.below(n - 1)) % n, q = rng.below(n);
      switch (rng.below(3))
      {
      case 0:
        for (size_t j = 0; j < n; ++j) a[r][j] = (q == r ? 2 * a[p][j] : a[p][j] + (q == p ? 0 : a[q][j]));
        break;
      case 1:
        for (size_t j = 0; j < n; ++j) a[r][j] = -a[p][j];
        break;
      default:
        for (size_t i = 0; i < n; ++i) a[i][q] = 0;
        break;
      }
      return a;
    }
    if (kind < 9)
    { // zeros on the diagonal: elimination cannot proceed without exchanges
      IM a = randomM(n, lim);
      for (size_t i = 0; i < n; ++i) a[i][i] = 0;
      return a;
    }
    IM a = randomM(n, 1); // many ties between candidate pivots
    return a;
  }
  // sparse and structured matrices: zero patterns that are not triangular although many symmetric pairs hold a zero
  std::vector<size_t> randomPerm(size_t n, bool singleCycle)
  {
    std::vector<size_t> p(n);
    for (size_t i = 0; i < n; ++i) p[i] = i;
    if (singleCycle)
    { // Sattolo: one cycle of length n
      for (size_t i = n; i > 1; --i) std::swap(p[i - 1], p[rng.below(i - 1)]);
    }
    else
      for (size_t i = n; i > 1; --i) std::swap(p[i - 1], p[rng.below(i)]);
    return p;
  }
  IM genSparse(size_t n, long lim)
  {
    IM a(n, std::vector<long>(n, 0));
    auto nz = [&]() { long x = rng.range(1, lim); return rng.coin() ? x : -x; };
    switch (rng.below(5))
    {
    case 0: // every entry zero with probability 1/2 or 3/4
    {
      unsigned den = rng.coin() ? 2 : 4;
      for (auto& r : a)
        for (auto& x : r) x = rng.chance(1, den) ? nz() : 0;
      if (rng.coin())
        for (size_t i = 0; i < n; ++i) a[i][i] = nz();
      break;
    }
    case 1: // permutation matrix / permuted diagonal, cycles of every length (one in two: a single n-cycle)
    {
      std::vector<size_t> p = randomPerm(n, rng.coin());
      bool ones = rng.coin();
      for (size_t i = 0; i < n; ++i) a[i][p[i]] = ones ? 1 : nz();
      break;
    }
    case 2: // diagonal + one off-diagonal entry per row along a permutation: cyclic zero pattern (e.g. [[1,2,0],[0,1,3],[4,0,1]])
    {
      std::vector<size_t> p = randomPerm(n, true);
      for (size_t i = 0; i < n; ++i)
      {
        a[i][i] = nz();
        if (p[i] != i) a[i][p[i]] = nz();
      }
      break;
    }
    case 3: // permuted sparse triangular (rows and columns permuted independently)
    {
      IM t(n, std::vector<long>(n, 0));
      for (size_t i = 0; i < n; ++i)
        for (size_t j = i; j < n; ++j) t[i][j] = (i == j) ? nz() : (rng.chance(1, 3) ? nz() : 0);
      std::vector<size_t> p = randomPerm(n, false), q = rng.coin() ? p : randomPerm(n, false);
      for (size_t i = 0; i < n; ++i)
        for (size_t j = 0; j < n; ++j) a[i][j] = t[p[i]][q[j]];
      break;
    }
    default: // banded with a corner entry
      for (size_t i = 0; i < n; ++i)
      {
        a[i][i] = rng.chance(1, 5) ? 0 : nz();
        if (i + 1 < n) a[i][i + 1] = nz();
      }
      if (n >= 2) a[n - 1][0] = nz();
      break;
    }
    return a;
  }
  IM genRhs(size_t rows, size_t cols, long lim)
  {
    IM b(rows, std::vector<long>(cols));
    for (auto& r : b)
      for (auto& x : r) x = rng.range(-lim, lim);
    return b;
  }
  static long maxAbs(const IM& a)
  {
    long m = 1;
    for (auto& r : a)
      for (long x : r) m = std::max(m, std::labs(x));
    return m;
  }

  // ------------------------------------------------------------ events
  void reset()
  {
    objs.clear();
    tracer().emit(Obj().kv("e", "Reset"));
    ++scenarios;
  }
  void factor(int o, const IM& a, char c)
  {
    setCur("Factor");
    std::unique_ptr<BM> m = fromInt(c, a);
    LuObj x;
    x.a = a;
    std::string res = outcome<bpp::Exception>([&]() { x.lu.reset(new bpp::LUDecomposition<S>(*m)); });
    tracer().emit(Obj().kv("e", "Factor").kv("o", o).kv("cls", std::string(1, c)).kv("A", matJ(*m)).kv("r", res));
    if (res == "ok") objs[o] = std::move(x);
  }
  // copy construction (to is fresh) or assignment into a live object that held another factorisation
  void copy(int from, int to)
  {
    setCur("Copy");
    bool assign = objs.count(to) != 0;
    std::string res = outcome<bpp::Exception>([&]() {
      if (assign) *objs.at(to).lu = *objs.at(from).lu;
      else
      {
        LuObj x;
        x.lu.reset(new bpp::LUDecomposition<S>(*objs.at(from).lu));
        objs[to] = std::move(x);
      }
    });
    objs.at(to).a = objs.at(from).a;
    tracer().emit(Obj().kv("e", "Copy").kv("o", from).kv("o2", to).kv("how", assign ? "assign" : "ctor").kv("r", res));
  }
  // ranks of |U_ii| among their sorted distinct values, rank of `ret` (or -1), "smallest pivot below the threshold"
  void pivotRanks(const BM& U, double ret, bool haveRet, Obj& e)
  {
    size_t n = U.getNumberOfRows();
    std::vector<double> d;
    for (size_t i = 0; i < n; ++i) d.push_back(std::fabs(U(i, i)));
    std::vector<double> s = d;
    std::sort(s.begin(), s.end());
    s.erase(std::unique(s.begin(), s.end()), s.end());
    Arr du;
    for (double x : d) du.add(static_cast<long>(std::lower_bound(s.begin(), s.end(), x) - s.begin()));
    e.kv("du", du).kv("small", !s.empty() && s[0] < 1e-6);
    if (haveRet)
    {
      long rk = -1;
      for (size_t i = 0; i < s.size(); ++i)
        if (s[i] == ret) rk = static_cast<long>(i);
      e.kv("ind", rk);
    }
  }
  void inspect(int o)
  {
    setCur("Inspect");
    bpp::LUDecomposition<S>& lu = *objs.at(o).lu;
    size_t n = objs.at(o).a.size();
    std::vector<size_t> piv;
    S det = 0;
    RM L, U;
    std::string res = outcome<bpp::Exception>([&]() {
      piv = lu.getPivot();
      L = lu.getL();
      U = lu.getU();
      det = lu.det();
    });
    Obj e;
    e.kv("e", "Inspect").kv("o", o).kv("r", res);
    if (res == "ok")
    {
      e.kv("piv", arrOf(piv)).kv("Lp", patternJ(L)).kv("Up", patternJ(U));
      // L.U in extended precision, rounded: must be the row-permuted A
      RM P(L.getNumberOfRows(), U.getNumberOfColumns());
      long double dev = 0;
      long long mx = 0;
      bool shapes = L.getNumberOfColumns() == U.getNumberOfRows();
      if (shapes)
        for (size_t i = 0; i < P.getNumberOfRows(); ++i)
          for (size_t j = 0; j < P.getNumberOfColumns(); ++j)
          {
            long double s = 0;
            for (size_t k = 0; k < L.getNumberOfColumns(); ++k) s += static_cast<long double>(L(i, k)) * static_cast<long double>(U(k, j));
            P(i, j) = static_cast<double>(s);
          }
      e.kv("luR", roundedJ(P, 1.0L, dev, mx)).kv("luClose", shapes && dev < 1e-6L);
      int sdiag = 1;
      for (size_t i = 0; i < n && i < U.getNumberOfRows(); ++i) sdiag *= (U(i, i) > 0) - (U(i, i) < 0);
      double rd = std::floor(det + 0.5);
      e.kv("sdiag", sdiag).kv("sdet", (det > 0) - (det < 0));
      e.kv("detR", std::fabs(rd) < 2e9 ? static_cast<long long>(rd) : OFF).kv("detClose", std::fabs(det - rd) < 0.25);
      pivotRanks(U, 0, false, e);
    }
    tracer().emit(e);
  }
  // X <- solve(B): B rows x cols in class bc, X in class xc (stale: sentinel-filled, any size)
  void solve(int o, size_t rows, size_t cols, char bc, char xc)
  {
    setCur("Solve");
    bpp::LUDecomposition<S>& lu = *objs.at(o).lu;
    const IM& a = objs.at(o).a;
    size_t n = a.size();
    IM b = genRhs(rows, cols, limFor(n));
    std::unique_ptr<BM> B = fromInt(bc, b);
    size_t xr = rng.below(3) == 0 ? n : rng.below(8), xcn = rng.below(3) == 0 ? cols : rng.below(6);
    if (xr == 0 || xcn == 0) xr = xcn = 0;
    std::unique_ptr<BM> X = make(xc, xr, xcn);
    bpp::MatrixTools::fill(*X, 77.);
    S ret = 0;
    std::string res = outcome<bpp::Exception>([&]() { ret = lu.solve(*B, *X); });
    Obj e;
    e.kv("e", "Solve").kv("o", o).kv("B", matJ(*B)).kv("bcls", std::string(1, bc)).kv("xcls", std::string(1, xc)).kv("r", res);
    long long d = exactDet(a);
    e.kv("d", d);
    ++solves;
    rhsCombos.insert(std::string(1, bc) + std::string(1, xc) + std::to_string(cols));
    if (res == "ok")
    {
      long double dev = 0;
      long long mx = 0;
      J xs = roundedJ(*X, static_cast<long double>(d), dev, mx);
      bool big = static_cast<double>(mx) * static_cast<double>(maxAbs(a)) * static_cast<double>(n) > 2.0e9;
      if (big && d != 0) ++skippedBig; // (an answer for a singular matrix is a violation, not a magnitude skip)
      e.kv("big", big);
      if (!big) e.kv("Xs", xs).kv("close", dev < 0.25L);
    }
    else if (res == "raise:ZeroDivisionException") ++singular;
    else ++refused;
    RM U = lu.getU();
    pivotRanks(U, ret, res == "ok", e);
    tracer().emit(e);
  }
  void inverse(const IM& a, char ac, char oc)
  {
    setCur("Inv");
    size_t n = a.size();
    std::unique_ptr<BM> A = fromInt(ac, a);
    size_t xr = rng.below(3) == 0 ? n : rng.below(8);
    std::unique_ptr<BM> O = make(oc, xr, xr);
    bpp::MatrixTools::fill(*O, 77.);
    S ret = 0;
    std::string res = outcome<bpp::Exception>([&]() { ret = bpp::MatrixTools::inv(*A, *O); });
    Obj e;
    long long d = exactDet(a);
    e.kv("e", "Inv").kv("A", matJ(*A)).kv("cls", std::string(1, ac)).kv("ocls", std::string(1, oc)).kv("r", res).kv("d", d);
    if (res == "ok")
    {
      long double dev = 0;
      long long mx = 0;
      J xs = roundedJ(*O, static_cast<long double>(d), dev, mx);
      bool big = static_cast<double>(mx) * static_cast<double>(maxAbs(a)) * static_cast<double>(n) > 2.0e9;
      if (big && d != 0) ++skippedBig;
      e.kv("big", big);
      if (!big) e.kv("Xs", xs).kv("close", dev < 0.25L);
    }
    bpp::LUDecomposition<S> lu(*A);
    RM U = lu.getU();
    pivotRanks(U, ret, res == "ok", e);
    tracer().emit(e);
  }
  static bool roundDet(double det, long long& r)
  {
    double rd = std::floor(det + 0.5);
    r = std::fabs(rd) < 2e9 ? static_cast<long long>(rd) : OFF;
    return std::fabs(det - rd) < 0.25;
  }
  void detWrapper(const IM& a, char c)
  {
    setCur("Det");
    std::unique_ptr<BM> A = fromInt(c, a);
    double det = 0;
    std::string res = outcome<bpp::Exception>([&]() { det = bpp::MatrixTools::det(*A); });
    long long r = 0;
    bool close = roundDet(det, r);
    tracer().emit(Obj().kv("e", "Det").kv("A", matJ(*A)).kv("cls", std::string(1, c)).kv("r", res).kv("detR", r).kv("detClose", close));
  }
  void detTranspose(const IM& a, char c, char c2)
  {
    setCur("DetT");
    std::unique_ptr<BM> A = fromInt(c, a);
    std::unique_ptr<BM> At = make(c2, 0, 0);
    double d1 = 0, d2 = 0;
    std::string res = outcome<bpp::Exception>([&]() {
      bpp::MatrixTools::transpose(*A, *At);
      d1 = bpp::MatrixTools::det(*A);
      d2 = bpp::MatrixTools::det(*At);
    });
    long long r1 = 0, r2 = 0;
    bool c1 = roundDet(d1, r1), cc2 = roundDet(d2, r2);
    tracer().emit(Obj().kv("e", "DetT").kv("A", matJ(*A)).kv("At", matJ(*At)).kv("r", res).kv("detA", r1).kv("detAt", r2).kv("close", c1 && cc2));
  }
  void detProduct(const IM& a, const IM& b, char c, char c2, char c3)
  {
    setCur("DetAB");
    std::unique_ptr<BM> A = fromInt(c, a), B = fromInt(c2, b), AB = make(c3, 1, 1);
    double d1 = 0, d2 = 0, d3 = 0;
    std::string res = outcome<bpp::Exception>([&]() {
      bpp::MatrixTools::mult(*A, *B, *AB);
      d1 = bpp::MatrixTools::det(*A);
      d2 = bpp::MatrixTools::det(*B);
      d3 = bpp::MatrixTools::det(*AB);
    });
    long long r1 = 0, r2 = 0, r3 = 0;
    bool k1 = roundDet(d1, r1), k2 = roundDet(d2, r2), k3 = roundDet(d3, r3);
    tracer().emit(Obj().kv("e", "DetAB").kv("A", matJ(*A)).kv("B", matJ(*B)).kv("AB", matJ(*AB)).kv("r", res).kv("detA", r1).kv("detB", r2).kv("detAB", r3).kv("close", k1 && k2 && k3));
  }

  // ------------------------------------------------------------ histories
  void random(long count, size_t maxN)
  {
    for (long s = 0; s < count; ++s)
    {
      reset();
      size_t n = 1 + rng.below(maxN);
      if (maxN >= 6 && rng.chance(1, 6)) n = 7 + rng.below(4); // 7..10 with small entries
      factor(1, genMatrix(n), cls());
      if (!objs.count(1)) continue;
      if (rng.chance(1, 3)) detWrapper(objs.at(1).a, cls());
      long len = rng.range(2, 6);
      int next = 2;
      if (rng.chance(1, 3)) factor(next++, genMatrix(1 + rng.below(maxN)), cls()); // a second object, so that assignments have a target
      for (long i = 0; i < len; ++i)
      {
        std::vector<int> ids;
        for (auto& kv : objs) ids.push_back(kv.first);
        int o = ids[rng.below(ids.size())];
        size_t no = objs.at(o).a.size();
        size_t r = rng.below(100);
        if (r < 22) inspect(o);
        else if (r < 60)
        {
          size_t rows = no;
          if (rng.chance(1, 7)) rows = rng.coin() ? no + 1 : (no > 1 ? no - 1 : no + 2); // wrong height
          solve(o, rows, 1 + rng.below(4), cls(), cls());
        }
        else if (r < 70)
        {
          // copy-construct a new object, assign over another live one (of any size), or factorise another matrix
          std::vector<int> others;
          for (int x : ids)
            if (x != o) others.push_back(x);
          size_t k = rng.below(3);
          if (k == 0 && !others.empty()) copy(o, others[rng.below(others.size())]);
          else if (next < 5 && k <= 1) copy(o, next++);
          else if (next < 5) factor(next++, genMatrix(1 + rng.below(maxN)), cls());
          else inspect(o);
        }
        else if (r < 79) inverse(objs.at(o).a, cls(), cls());
        else if (r < 86)
        { // both determinant entry points on the same matrix: MatrixTools::det and LUDecomposition::det (inside Inspect)
          detWrapper(objs.at(o).a, cls());
          if (rng.coin()) inspect(o);
        }
        else if (r < 93) detTranspose(objs.at(o).a, cls(), cls());
        else
        {
          size_t m = 1 + rng.below(3);
          detProduct(genMatrix(m), genMatrix(m), cls(), cls(), cls());
        }
      }
    }
  }
  void exhaustive2()
  {
    long idx = 0;
    for (long code = 0; code < 625; ++code)
    {
      if (code % 25 == 0) reset();
      IM a(2, std::vector<long>(2));
      long x = code;
      for (size_t i = 0; i < 4; ++i)
      {
        a[i / 2][i % 2] = x % 5 - 2;
        x /= 5;
      }
      char c = "RCL"[idx++ % 3];
      factor(1, a, c);
      inspect(1);
      solve(1, 2, 1 + static_cast<size_t>(idx % 2), "RCL"[(idx / 3) % 3], "RCL"[(idx / 9) % 3]);
      inverse(a, c, "RCL"[(idx / 3) % 3]);
      objs.clear();
    }
  }
};

int main(int argc, char** argv)
{
  std::string out = argStr(argc, argv, "--out", "");
  std::string mode = argStr(argc, argv, "--mode", "random");
  long n = argInt(argc, argv, "--n", 100);
  if (out.empty() || !tracer().open(out))
  {
    fprintf(stderr, "drv_lu: cannot open --out\n");
    return 2;
  }
  installCrashHandlers();
  signal(SIGSEGV, onFatal);
  signal(SIGABRT, onFatal);
  signal(SIGBUS, onFatal);
  signal(SIGFPE, onFatal);
  Runner R(envSeed() * 1000003ULL + mode.size() * 7919ULL);
  if (mode == "random") R.random(n, static_cast<size_t>(argInt(argc, argv, "--maxn", 6)));
  else if (mode == "exh2") R.exhaustive2();
  tracer().close();
  printf("%s\n", Obj().kv("scenarios", R.scenarios).kv("events", tracer().count()).kv("solves", R.solves).kv("singular_refusals", R.singular).kv("other_refusals", R.refused).kv("skipped_big", R.skippedBig).kv("rhs_class_column_combos", R.rhsCombos.size()).j().dump().c_str());
  return 0;
}
