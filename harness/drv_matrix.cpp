// Conformance driver for C04 (src/Bpp/Numeric/Matrix/Matrix.h, MatrixTools.h).
// Header-only subsystem: compiled straight from $VERIF_REPO/src.
//
//   drv_matrix --out F --mode random --n N     N random histories on a heap of matrix objects
//   drv_matrix --out F --mode lapexh --dim D   linear assignment, every cost matrix over {0,1,2}^(n x n), n <= D
//   drv_matrix --out F --mode laprand --n N    linear assignment, random integer / dyadic costs up to 7x7
//   drv_matrix --out F --mode store --n N      the storage classes themselves, three classes in lock-step (see StoreRunner)
//
// A history works on a heap of matrix objects (id -> RowMatrix / ColMatrix /
// LinearMatrix<double>).  Every MatrixTools call is one event; operands and
// outputs are heap objects, so the result of one call is the operand (or the
// wrongly pre-sized, stale output argument) of a later one.  After each call
// the content of every object involved is read back through the public
// accessors and logged.  Entries are exact: integers (E2) or dyadic rationals
// logged as numerators at the object's scale 2^-k (E3); the driver only keeps
// track of the scale, it never computes an expected result.
#include "tracer.h"

#include <Bpp/Exceptions.h>
#include <Bpp/Exceptions.cpp> // the only compiled part of the library the matrix headers need (keeps the driver a single translation unit)
#include <Bpp/Numeric/Matrix/Matrix.h>
#include <Bpp/Numeric/Matrix/MatrixTools.h>

#include <algorithm>
#include <cmath>
#include <functional>
#include <map>
#include <memory>
#include <set>
#include <type_traits>

using namespace vt;
typedef double S;
typedef bpp::Matrix<S> BM;
typedef bpp::RowMatrix<S> RM;
typedef bpp::ColMatrix<S> CM;
typedef bpp::LinearMatrix<S> LM;

static const long long OFFSCALE = -999999999LL; // an entry that is not an exact numerator at the expected scale
static const double LIMIT = 4e8;                // every exact intermediate must stay below 2^31 in TLC

// name of the routine being executed, for the crash / sanitizer report event
static char g_cur[48] = "none";
static void setCur(const char* s)
{
  strncpy(g_cur, s, sizeof g_cur - 1);
  g_cur[sizeof g_cur - 1] = 0;
}
static void onFatal(int sig)
{
  Tracer& t = tracer();
  t.flush();
  char buf[200];
  int n = snprintf(buf, sizeof buf, "{\"e\":\"Crash\",\"what\":\"signal %d (memory error or sanitizer report)\",\"op\":\"%s\"}\n", sig, g_cur);
  if (t.fd() >= 0 && n > 0)
  {
    ssize_t w = write(t.fd(), buf, static_cast<size_t>(n));
    (void)w;
  }
  _exit(0);
}

static long long enc(double x, int k)
{
  bool ok = true;
  long long v = dyadic(x, k, ok);
  return ok ? v : OFFSCALE;
}
static double dec(long long num, int k) { return static_cast<double>(num) / static_cast<double>(1LL << k); }

static J matJ(const BM& m, int k)
{
  size_t r = m.getNumberOfRows(), c = m.getNumberOfColumns();
  Arr rows;
  for (size_t i = 0; i < r; ++i)
  {
    Arr row;
    for (size_t j = 0; j < c; ++j) row.add(enc(m(i, j), k));
    rows.add(row);
  }
  return Obj().kv("r", r).kv("c", c).kv("e", rows).j();
}
static Arr vecJ(const std::vector<S>& v, int k)
{
  Arr a;
  for (S x : v) a.add(enc(x, k));
  return a;
}

struct Ob
{
  std::unique_ptr<BM> m;
  char cls;
  int k; // entries are numerators / 2^k
};

static std::unique_ptr<BM> make(char cls, size_t r, size_t c)
{
  switch (cls)
  {
  case 'R': return std::unique_ptr<BM>(new RM(r, c));
  case 'C': return std::unique_ptr<BM>(new CM(r, c));
  default: return std::unique_ptr<BM>(new LM(r, c));
  }
}

// dispatch on the concrete storage class (for the routines templated on the matrix type)
template<class F> static void with1(Ob& o, F f)
{
  switch (o.cls)
  {
  case 'R': f(static_cast<RM&>(*o.m)); break;
  case 'C': f(static_cast<CM&>(*o.m)); break;
  default: f(static_cast<LM&>(*o.m)); break;
  }
}
template<class F> static void with2(Ob& a, Ob& b, F f)
{
  with1(a, [&](auto& x) { with1(b, [&](auto& y) { f(x, y); }); });
}

class Runner
{
public:
  Rng rng;
  std::map<int, Ob> heap;
  int nextId = 1;
  int kb = 0; // base scale of the scenario
  long scenarios = 0;
  long skipped = 0;
  std::map<std::string, std::set<std::string>> combos; // op -> class combinations seen
  std::map<std::string, long> counter;                 // op -> calls (drives the class stratification)
  std::map<std::string, long> raised;
  int maxDim = 7;
  long kronCells = 150;
  bool degenerateShapes = true;

  explicit Runner(uint64_t seed) : rng(seed), heap(), combos(), counter(), raised() {}

  // ------------------------------------------------------------ generators
  size_t dim()
  {
    static const int w[] = {1, 1, 1, 2, 2, 2, 2, 3, 3, 3, 4, 4, 5, 6, 7, 7};
    size_t d = static_cast<size_t>(w[rng.below(16)]);
    return d > static_cast<size_t>(maxDim) ? static_cast<size_t>(maxDim) : d;
  }
  // 0 x 0 now and then; r x 0 / 0 x c ("degenerate": exists only in the classes that can report it, see need())
  std::pair<size_t, size_t> shape()
  {
    if (rng.chance(1, 14)) return std::make_pair<size_t, size_t>(0, 0);
    if (degenerateShapes && rng.chance(1, 9)) return rng.coin() ? std::make_pair<size_t, size_t>(dim(), 0) : std::make_pair<size_t, size_t>(0, dim());
    return std::make_pair(dim(), dim());
  }
  std::pair<size_t, size_t> properShape()
  {
    std::pair<size_t, size_t> s;
    do s = shape();
    while ((s.first == 0) != (s.second == 0));
    return s;
  }
  // RowMatrix reports 0 x c as 0 x 0 and ColMatrix r x 0 as 0 x 0: a degenerate operand lives in a class that can hold it
  char classFor(char cls, size_t r, size_t c)
  {
    if (r > 0 && c == 0 && cls == 'C') return rng.coin() ? 'R' : 'L';
    if (r == 0 && c > 0 && cls == 'R') return rng.coin() ? 'C' : 'L';
    return cls;
  }
  // a dimension different from d (near miss: one off when possible); never 0 (0 x c does not exist)
  size_t other(size_t d)
  {
    if (d <= 1) return d + 1 + rng.below(2);
    if (rng.chance(3, 4)) return rng.coin() ? d - 1 : d + 1;
    size_t x;
    do x = dim();
    while (x == d);
    return x;
  }
  long small() { return rng.range(-4, 4); }
  std::vector<S> vec(size_t n, int k)
  {
    std::vector<S> v(n);
    for (auto& x : v) x = dec(small(), k);
    return v;
  }
  double maxAbsNum(int id)
  {
    Ob& o = heap.at(id);
    double m = 0;
    for (size_t i = 0; i < o.m->getNumberOfRows(); ++i)
      for (size_t j = 0; j < o.m->getNumberOfColumns(); ++j) m = std::max(m, std::fabs((*o.m)(i, j)) * static_cast<double>(1LL << o.k));
    return m;
  }
  static double maxAbsVec(const std::vector<S>& v, int k)
  {
    double m = 0;
    for (S x : v) m = std::max(m, std::fabs(x) * static_cast<double>(1LL << k));
    return m;
  }

  // class stratification: the c-th call of an op uses the c-th combination (base 3) of its slots
  std::string classesFor(const std::string& op, size_t slots)
  {
    setCur(op.c_str());
    long c = counter[op]++;
    // a fixed per-op permutation of the combinations so that different ops do not march in step
    size_t total = 1;
    for (size_t i = 0; i < slots; ++i) total *= 3;
    size_t idx = static_cast<size_t>((c * 7 + static_cast<long>(op.size()) * 5) % static_cast<long>(total));
    if (slots > 4) idx = rng.below(total);
    std::string s;
    for (size_t i = 0; i < slots; ++i)
    {
      s += "RCL"[idx % 3];
      idx /= 3;
    }
    return s;
  }

  int fresh(char cls, size_t r, size_t c, int k, bool sentinel)
  {
    int id = nextId++;
    Ob o;
    o.m = make(cls, r, c);
    o.cls = cls;
    o.k = k;
    for (size_t i = 0; i < r; ++i)
      for (size_t j = 0; j < c; ++j) (*o.m)(i, j) = sentinel ? dec(77, k) : dec(small(), k);
    heap[id] = std::move(o);
    Ob& h = heap[id];
    tracer().emit(Obj().kv("e", "New").kv("o", id).kv("cls", std::string(1, cls)).kv("k", k).kv("m", matJ(*h.m, k)));
    return id;
  }
  // an operand of the wanted class, shape and scale whose entries are small: an existing object or a new one
  int need(char cls, size_t r, size_t c, int k, double maxNum = 64)
  {
    cls = classFor(cls, r, c);
    if (rng.chance(2, 5))
    {
      std::vector<int> cand;
      for (auto& kv : heap)
        if (kv.second.cls == cls && kv.second.k == k && kv.second.m->getNumberOfRows() == r && kv.second.m->getNumberOfColumns() == c && maxAbsNum(kv.first) <= maxNum)
          cand.push_back(kv.first);
      if (!cand.empty()) return cand[rng.below(cand.size())];
    }
    return fresh(cls, r, c, k, false);
  }
  // an output argument of the wanted class: an existing object (stale content, any size) that is not an
  // operand, or a new one filled with a sentinel and sized wrongly / rightly / 0 x 0
  int output(char cls, const std::set<int>& operands, size_t rr, size_t rc)
  {
    if (rng.chance(1, 3))
    {
      // a live object (result of an earlier call), preferably one that already has an operand's or the result's shape
      std::vector<int> cand, same;
      for (auto& kv : heap)
        if (kv.second.cls == cls && !operands.count(kv.first))
        {
          cand.push_back(kv.first);
          bool like = R(kv.first) == rr && C(kv.first) == rc;
          for (int id : operands) like = like || (R(kv.first) == R(id) && C(kv.first) == C(id));
          if (like) same.push_back(kv.first);
        }
      if (!same.empty() && rng.chance(2, 3)) return same[rng.below(same.size())];
      if (!cand.empty()) return cand[rng.below(cand.size())];
    }
    size_t r, c;
    switch (operands.empty() ? rng.below(4) : rng.below(7))
    {
    case 0: r = 0; c = 0; break;
    case 1: r = rr; c = rc; break;                                   // already the right size
    case 2: r = rr + 1; c = rc + 1; break;                           // too large
    case 3: r = rr > 1 ? rr - 1 : 1; c = rc > 1 ? rc - 1 : 1; break; // too small
    case 4:
    case 5:
    { // exactly the shape of one of the operands (a "resize only when needed" test must look at the RESULT's shape)
      std::vector<int> ops(operands.begin(), operands.end());
      int id = ops[rng.below(ops.size())];
      r = R(id);
      c = C(id);
      break;
    }
    default: r = dim(); c = dim(); break;
    }
    if (r == 0 || c == 0) r = c = 0;
    return fresh(cls, r, c, kb, true);
  }

  // ------------------------------------------------------------ event emission
  void emitOp(const std::string& op, Obj& e, const std::vector<int>& in, const std::vector<int>& out, const std::string& res)
  {
    Arr ai, ao, w;
    std::string cl;
    std::set<int> seen;
    for (int id : in)
    {
      ai.add(id);
      cl += heap.at(id).cls;
    }
    for (int id : out)
    {
      ao.add(id);
      cl += heap.at(id).cls;
    }
    for (int id : in)
      if (seen.insert(id).second) w.add(Arr().add(id).add(matJ(*heap.at(id).m, heap.at(id).k)));
    for (int id : out)
      if (seen.insert(id).second) w.add(Arr().add(id).add(matJ(*heap.at(id).m, heap.at(id).k)));
    Obj full;
    Arr oc;
    for (int id : out) oc.add(std::string(1, heap.at(id).cls));
    full.kv("e", op).kv("in", ai).kv("out", ao).kv("cls", cl).kv("ocls", oc).kv("r", res).kv("p", e).kv("w", w);
    tracer().emit(full);
    combos[op].insert(cl);
    if (res != "ok") raised[op]++;
  }
  BM& M(int id) { return *heap.at(id).m; }
  int K(int id) { return heap.at(id).k; }
  size_t R(int id) { return heap.at(id).m->getNumberOfRows(); }
  size_t C(int id) { return heap.at(id).m->getNumberOfColumns(); }

  // shapes for a product A(r x n) . B(n' x c): conformable or near miss
  void productShapes(bool conf, size_t& r, size_t& n, size_t& n2, size_t& c)
  {
    if (rng.chance(1, 16))
    {
      r = n = n2 = c = 0; // 0x0 . 0x0
      if (!conf)
      {
        n2 = dim();
        c = dim();
      }
      return;
    }
    r = dim();
    n = dim();
    c = dim();
    n2 = conf ? n : other(n);
    if (degenerateShapes && rng.chance(1, 9))
    { // (r x 0).(0 x c) = r x c zeros ; (0 x n).(n x c) = 0 x c ; (r x n).(n x 0) = r x 0
      switch (rng.below(3))
      {
      case 0: n = 0; n2 = conf ? 0 : dim(); break;
      case 1: r = 0; break;
      default: c = 0; break;
      }
    }
  }

  // ------------------------------------------------------------ the operations
  void opMul(bool conf)
  {
    std::string cl = classesFor("Mul", 3);
    size_t r, n, n2, c;
    productShapes(conf, r, n, n2, c);
    int a = need(cl[0], r, n, kb);
    bool alias = conf && r == n && n == c && rng.chance(1, 3); // mult(A, A, O)
    int b = alias ? a : need(cl[1], n2, c, kb);
    if (n * maxAbsNum(a) * maxAbsNum(b) > LIMIT) { ++skipped; return; }
    int o = output(cl[2], {a, b}, r, c);
    std::string res = outcome<bpp::Exception>([&]() { bpp::MatrixTools::mult(M(a), M(b), M(o)); });
    if (res == "ok") heap.at(o).k = K(a) + K(b);
    Obj p;
    p.kv("alias", alias);
    emitOp("Mul", p, {a, b}, {o}, res);
  }

  // variant: 0 conformable, 1 A/B inner dimension off, 2 an imaginary part of another shape,
  // 3 both imaginary parts of another shape, consistent with each other
  void opMulC(int variant)
  {
    std::string cl = classesFor("MulC", 6);
    size_t r, n, n2, c;
    productShapes(variant != 1, r, n, n2, c);
    int a = need(cl[0], r, n, kb), ia, b = need(cl[2], n2, c, kb), ib;
    if (variant == 2 && rng.coin())
    {
      std::pair<size_t, size_t> s(r == 0 ? 1 : other(r), n == 0 ? 1 : (rng.coin() ? n : other(n)));
      ia = need(cl[1], s.first, s.second, kb);
      ib = need(cl[3], n2, c, kb);
    }
    else if (variant == 2)
    {
      std::pair<size_t, size_t> s(n2 == 0 ? 1 : (rng.coin() ? n2 : other(n2)), c == 0 ? 1 : other(c));
      ia = need(cl[1], r, n, kb);
      ib = need(cl[3], s.first, s.second, kb);
    }
    else if (variant == 3)
    { // BOTH imaginary parts wrong, but consistent with each other: another inner dimension, or another outer shape
      if (rng.coin())
      {
        size_t m = n == 0 ? 1 + rng.below(2) : other(n);
        ia = need(cl[1], r == 0 ? 1 : r, m, kb);
        ib = need(cl[3], m, c == 0 ? 1 : c, kb);
      }
      else
      {
        ia = need(cl[1], r == 0 ? 1 : other(r), n == 0 ? 1 : n, kb);
        ib = need(cl[3], n2 == 0 ? 1 : n2, c == 0 ? 1 : other(c), kb);
      }
    }
    else
    {
      ia = need(cl[1], r, n, kb);
      ib = need(cl[3], n2, c, kb);
    }
    double ma = std::max(maxAbsNum(a), maxAbsNum(ia)), mb = std::max(maxAbsNum(b), maxAbsNum(ib));
    if (2 * n * ma * mb > LIMIT) { ++skipped; return; }
    int o = output(cl[4], {a, ia, b, ib}, r, c);
    int io = output(cl[5], {a, ia, b, ib, o}, r, c);
    std::string res = outcome<bpp::Exception>([&]() { bpp::MatrixTools::mult(M(a), M(ia), M(b), M(ib), M(o), M(io)); });
    if (res == "ok") heap.at(o).k = heap.at(io).k = K(a) + K(b);
    Obj p;
    p.kv("variant", variant);
    emitOp("MulC", p, {a, ia, b, ib}, {o, io}, res);
  }

  // variant: 0 conformable, 1 inner dimension off, 2 vector length off
  void opMulDiag(int variant)
  {
    std::string cl = classesFor("MulDiag", 3);
    size_t r, n, n2, c;
    productShapes(variant != 1, r, n, n2, c);
    int a = need(cl[0], r, n, kb), b = need(cl[1], n2, c, kb);
    std::vector<S> d = vec(variant == 2 ? (n == 0 ? 1 : other(n)) : n, kb);
    if (variant == 1 && rng.coin()) d = vec(n2, kb); // the vector agrees with B instead of A: two operands wrong together
    if (n * maxAbsNum(a) * maxAbsNum(b) * 4 > LIMIT) { ++skipped; return; }
    int o = output(cl[2], {a, b}, r, c);
    std::string res = outcome<bpp::Exception>([&]() { bpp::MatrixTools::mult(M(a), d, M(b), M(o)); });
    if (res == "ok") heap.at(o).k = K(a) + K(b) + kb;
    Obj p;
    p.kv("d", vecJ(d, kb));
    emitOp("MulDiag", p, {a, b}, {o}, res);
  }

  // variant: 0 conformable, 1 inner dimension off, 2 a vector length off, 3 an imaginary part of another shape
  void opMulDiagC(int variant)
  {
    std::string cl = classesFor("MulDiagC", 6);
    size_t r, n, n2, c;
    productShapes(variant != 1, r, n, n2, c);
    int a = need(cl[0], r, n, kb), b = need(cl[2], n2, c, kb), ia, ib;
    if (variant == 3 && rng.coin())
    {
      ia = need(cl[1], r == 0 ? 1 : other(r), n == 0 ? 1 : n, kb);
      ib = need(cl[3], n2, c, kb);
    }
    else if (variant == 3)
    {
      ia = need(cl[1], r, n, kb);
      ib = need(cl[3], n2 == 0 ? 1 : n2, c == 0 ? 1 : other(c), kb);
    }
    else
    {
      ia = need(cl[1], r, n, kb);
      ib = need(cl[3], n2, c, kb);
    }
    bool which = rng.coin();
    std::vector<S> d = vec(variant == 2 && which ? (n == 0 ? 1 : other(n)) : n, kb);
    std::vector<S> id = vec(variant == 2 && !which ? (n == 0 ? 1 : other(n)) : n, kb);
    if (variant == 4)
    { // several operands wrong together, consistently: the whole imaginary triple (iA, iD, iB) on another inner
      // dimension, or both vectors of the same wrong length
      size_t m = n == 0 ? 1 + rng.below(2) : other(n);
      if (which)
      {
        ia = need(cl[1], r == 0 ? 1 : r, m, kb);
        ib = need(cl[3], m, c == 0 ? 1 : c, kb);
        id = vec(m, kb);
      }
      else
      {
        d = vec(m, kb);
        id = vec(m, kb);
      }
    }
    if (variant == 1 && which)
    { // vectors agree with B's height instead of A's width
      d = vec(n2, kb);
      id = vec(n2, kb);
    }
    double ma = std::max(maxAbsNum(a), maxAbsNum(ia)), mb = std::max(maxAbsNum(b), maxAbsNum(ib));
    if (4 * n * ma * mb * 4 > LIMIT) { ++skipped; return; }
    int o = output(cl[4], {a, ia, b, ib}, r, c);
    int io = output(cl[5], {a, ia, b, ib, o}, r, c);
    std::string res = outcome<bpp::Exception>([&]() { bpp::MatrixTools::mult(M(a), M(ia), d, id, M(b), M(ib), M(o), M(io)); });
    if (res == "ok") heap.at(o).k = heap.at(io).k = K(a) + K(b) + kb;
    Obj p;
    p.kv("d", vecJ(d, kb)).kv("id", vecJ(id, kb)).kv("variant", variant);
    emitOp("MulDiagC", p, {a, ia, b, ib}, {o, io}, res);
  }

  // variant: 0 conformable, 1 inner dimension off, 2 one of the three vectors of the wrong length
  void opMulTri(int variant)
  {
    std::string cl = classesFor("MulTri", 3);
    size_t r, n, n2, c;
    do productShapes(variant != 1, r, n, n2, c);
    while (n == 0); // an empty middle factor has no off-diagonals of length -1
    int a = need(cl[0], r, n, kb), b = need(cl[1], n2, c, kb);
    size_t ld = n, lu = n - 1, ll = n - 1;
    if (variant == 2)
    {
      switch (rng.below(3))
      {
      case 0: ld = other(n); break;
      case 1: lu = rng.coin() ? n : (n >= 2 ? n - 2 : n + 1); break;
      default: ll = rng.coin() ? n : (n >= 2 ? n - 2 : n + 1); break;
      }
    }
    if (variant == 1 && n2 >= 1 && rng.coin()) { ld = n2; lu = ll = n2 - 1; } // the band agrees with B instead of A
    else if (variant == 2 && rng.chance(1, 3)) { ld = n + 1; lu = ll = n; }        // all three vectors one too long, consistently
    std::vector<S> d = vec(ld, kb), u = vec(lu, kb), l = vec(ll, kb);
    if (3 * n * maxAbsNum(a) * maxAbsNum(b) * 4 > LIMIT) { ++skipped; return; }
    int o = output(cl[2], {a, b}, r, c);
    std::string res = outcome<bpp::Exception>([&]() { bpp::MatrixTools::mult(M(a), d, u, l, M(b), M(o)); });
    if (res == "ok") heap.at(o).k = K(a) + K(b) + kb;
    Obj p;
    p.kv("d", vecJ(d, kb)).kv("u", vecJ(u, kb)).kv("l", vecJ(l, kb));
    emitOp("MulTri", p, {a, b}, {o}, res);
  }

  // variant: 0 same shape, 1 A larger in one direction, 2 A strictly inside B (either outcome), 3 A += A
  void opAdd(int variant, bool scaled)
  {
    const char* nm = scaled ? "AddScaled" : "Add";
    std::string cl = classesFor(nm, 2);
    std::pair<size_t, size_t> sa = shape(), sb = sa;
    if (variant == 1)
    {
      if (sa.first == 0) sa = std::make_pair(dim(), dim());
      sb = sa;
      if (rng.coin()) sb.first = sa.first > 1 ? sa.first - 1 : (sa.first = 2, 1);
      else sb.second = sa.second > 1 ? sa.second - 1 : (sa.second = 2, 1);
      if (rng.chance(1, 5)) sb = std::make_pair<size_t, size_t>(0, 0);
    }
    else if (variant == 2)
    {
      if (sa.first == 0) sa = std::make_pair(dim(), dim());
      sb = sa;
      if (rng.coin()) sb.first += 1;
      else sb.second += 1;
      if (rng.chance(1, 4)) sb = std::make_pair(sa.first + 1, sa.second + 1);
    }
    int a = need(cl[0], sa.first, sa.second, kb, 1e6);
    int b = variant == 3 ? a : need(cl[1], sb.first, sb.second, K(a), 1e6);
    if (K(b) != K(a)) { ++skipped; return; }
    S x = static_cast<S>(rng.range(-3, 3));
    Obj p;
    std::string res;
    if (scaled)
    {
      with2(heap.at(a), heap.at(b), [&](auto& A, auto& B) { res = outcome<bpp::Exception>([&]() { bpp::MatrixTools::add(A, x, B); }); });
      p.kv("x", enc(x, 0));
    }
    else
    {
      with2(heap.at(a), heap.at(b), [&](auto& A, auto& B) { res = outcome<bpp::Exception>([&]() { bpp::MatrixTools::add(A, B); }); });
      p.kv("variant", variant);
    }
    emitOp(nm, p, {a, b}, {a}, res);
  }

  void opScale()
  {
    std::string cl = classesFor("Scale", 1);
    std::pair<size_t, size_t> s = shape();
    int a = need(cl[0], s.first, s.second, kb, 1e6);
    S x = rng.chance(1, 5) ? 1 : static_cast<S>(rng.range(-3, 3));
    long nb = rng.chance(1, 3) ? 0 : small();
    S b = dec(nb, K(a));
    std::string res;
    with1(heap.at(a), [&](auto& A) { res = outcome<bpp::Exception>([&]() { bpp::MatrixTools::scale(A, x, b); }); });
    Obj p;
    p.kv("a", enc(x, 0)).kv("b", nb);
    emitOp("Scale", p, {a}, {a}, res);
  }

  void opTranspose()
  {
    std::string cl = classesFor("Transpose", 2);
    std::pair<size_t, size_t> s = shape();
    int a = need(cl[0], s.first, s.second, kb, 1e8);
    int o = output(cl[1], {a}, s.second, s.first);
    std::string res;
    with2(heap.at(a), heap.at(o), [&](auto& A, auto& O) { res = outcome<bpp::Exception>([&]() { bpp::MatrixTools::transpose(A, O); }); });
    if (res == "ok") heap.at(o).k = K(a);
    Obj p;
    p.kv("x", 0);
    emitOp("Transpose", p, {a}, {o}, res);
  }

  // pow(A, p, O): A and O must have the same concrete class (the routine declares a temporary of that type)
  void opPow(bool square)
  {
    std::string cl = classesFor("Pow", 1);
    size_t n = rng.chance(1, 12) ? 0 : dim();
    size_t c = square ? n : (n == 0 ? dim() : other(n));
    size_t r = n;
    if (!square && n == 0) r = dim();
    int a = need(cl[0], r, c, kb, 4);
    size_t p = rng.below(9);
    double m = std::max(1.0, maxAbsNum(a));
    while (p > 0 && std::pow(static_cast<double>(std::max<size_t>(n, 1)) * m, static_cast<double>(p)) > LIMIT) --p;
    int o = output(cl[0], {a}, n, n);
    std::string res;
    with1(heap.at(a), [&](auto& A) {
      typedef typename std::remove_reference<decltype(A)>::type MT;
      MT& O = static_cast<MT&>(M(o));
      res = outcome<bpp::Exception>([&]() { bpp::MatrixTools::pow(A, p, O); });
    });
    if (res == "ok") heap.at(o).k = static_cast<int>(p) * K(a);
    Obj pp;
    pp.kv("p", p);
    emitOp("Pow", pp, {a}, {o}, res);
  }

  // Taylor(A, p, vO): only instantiable for RowMatrix operands; vO is a vector of RowMatrix, pre-filled with stale matrices
  void opTaylor(bool square)
  {
    counter["Taylor"]++;
    setCur("Taylor");
    size_t n = rng.chance(1, 12) ? 0 : dim();
    size_t c = square ? n : (n == 0 ? dim() : other(n));
    size_t r = n;
    if (!square && n == 0) r = dim();
    int a = need('R', r, c, kb, 4);
    size_t p = rng.below(6);
    double m = std::max(1.0, maxAbsNum(a));
    while (p > 0 && std::pow(static_cast<double>(std::max<size_t>(n, 1)) * m, static_cast<double>(p)) > LIMIT) --p;
    std::vector<RM> vO(rng.below(4));
    for (auto& x : vO)
    {
      x.resize(2, 3);
      bpp::MatrixTools::fill(x, 77.);
    }
    std::string res = outcome<bpp::Exception>([&]() { bpp::MatrixTools::Taylor<RM, S>(static_cast<RM&>(M(a)), p, vO); });
    Obj pp;
    pp.kv("p", p);
    Arr vs;
    if (res == "ok")
      for (size_t i = 0; i < vO.size(); ++i) vs.add(matJ(vO[i], static_cast<int>(i) * K(a)));
    pp.kv("vO", vs);
    emitOp("Taylor", pp, {a}, {}, res);
  }

  // form 0: A (x) B ; 1: A (x) v.I_dim ; 2: diagonals replaced by dA / dB.  check=false needs O of the exact size.
  void opKron(int form)
  {
    const char* nm = form == 0 ? "Kron" : form == 1 ? "KronDiag" : "KronRepl";
    std::string cl = classesFor(nm, form == 1 ? 2 : 3);
    std::pair<size_t, size_t> sa = shape(), sb = shape();
    size_t dm = rng.below(4);
    if (form == 1) sb = std::make_pair(dm, dm);
    while (static_cast<long>(sa.first * sa.second * sb.first * sb.second) > kronCells)
    {
      if (sa.first * sa.second >= sb.first * sb.second) sa = std::make_pair((sa.first + 1) / 2, (sa.second + 1) / 2);
      else sb = std::make_pair((sb.first + 1) / 2, (sb.second + 1) / 2);
      if (form == 1) sb.second = sb.first, dm = sb.first;
    }
    int a = need(cl[0], sa.first, sa.second, kb, 1000);
    bool alias = form != 1 && rng.chance(1, 6);
    int b = form == 1 ? a : (alias ? a : need(cl[1], sb.first, sb.second, kb, 1000));
    if (alias) sb = sa;
    size_t rr = R(a) * (form == 1 ? dm : R(b)), rc = C(a) * (form == 1 ? dm : C(b));
    bool check = !rng.chance(1, 5);
    char ocl = cl[form == 1 ? 1 : 2];
    std::set<int> ops = {a, b};
    // without the resize the caller supplies an output of exactly the result's size, in a class that can have it
    int o = check ? output(ocl, ops, (rr == 0 || rc == 0) ? 0 : rr, (rr == 0 || rc == 0) ? 0 : rc) : fresh(classFor(ocl, rr, rc), rr, rc, kb, true);
    long nv = small(), ndA = small(), ndB = small();
    std::string res;
    Obj p;
    p.kv("check", check);
    if (form == 0)
    {
      res = outcome<bpp::Exception>([&]() { bpp::MatrixTools::kroneckerMult(M(a), M(b), M(o), check); });
      if (res == "ok") heap.at(o).k = K(a) + K(b);
      emitOp(nm, p, {a, b}, {o}, res);
    }
    else if (form == 1)
    {
      S v = dec(nv, kb);
      res = outcome<bpp::Exception>([&]() { bpp::MatrixTools::kroneckerMult(M(a), dm, v, M(o), check); });
      if (res == "ok") heap.at(o).k = K(a) + kb;
      p.kv("dim", dm).kv("v", nv);
      emitOp(nm, p, {a}, {o}, res);
    }
    else
    {
      S dA = dec(ndA, K(a)), dB = dec(ndB, K(b));
      res = outcome<bpp::Exception>([&]() { bpp::MatrixTools::kroneckerMult(M(a), M(b), dA, dB, M(o), check); });
      if (res == "ok") heap.at(o).k = K(a) + K(b);
      p.kv("dA", ndA).kv("dB", ndB);
      emitOp(nm, p, {a, b}, {o}, res);
    }
  }

  void opHad(bool conf)
  {
    std::string cl = classesFor("Had", 3);
    std::pair<size_t, size_t> sa = shape(), sb = sa;
    if (!conf)
    {
      if (sa.first == 0) sb = std::make_pair(dim(), dim());
      else if (rng.coin()) sb.first = other(sa.first);
      else sb.second = other(sa.second);
    }
    int a = need(cl[0], sa.first, sa.second, kb, 1000);
    int b = (conf && rng.chance(1, 6)) ? a : need(cl[1], sb.first, sb.second, kb, 1000);
    int o = output(cl[2], {a, b}, sa.first, sa.second);
    std::string res = outcome<bpp::Exception>([&]() { bpp::MatrixTools::hadamardMult(M(a), M(b), M(o)); });
    if (res == "ok") heap.at(o).k = K(a) + K(b);
    Obj p;
    p.kv("x", 0);
    emitOp("Had", p, {a, b}, {o}, res);
  }

  // variant: 0 conformable, 1 A/B differ, 2 an imaginary part of another shape
  void opHadC(int variant)
  {
    std::string cl = classesFor("HadC", 6);
    std::pair<size_t, size_t> sa = shape(), sb = sa, sia = sa, sib = sa;
    auto differ = [&](std::pair<size_t, size_t> s) {
      if (s.first == 0) return std::make_pair(dim(), dim());
      if (rng.coin()) s.first = other(s.first);
      else s.second = other(s.second);
      return s;
    };
    if (variant == 1) sib = sb = differ(sa);
    if (variant == 2)
    {
      if (rng.coin()) sia = differ(sa);
      else sib = differ(sa);
    }
    if (variant == 3) sib = sia = differ(sa); // both imaginary parts wrong in the same way
    int a = need(cl[0], sa.first, sa.second, kb, 1000), ia = need(cl[1], sia.first, sia.second, kb, 1000);
    int b = need(cl[2], sb.first, sb.second, kb, 1000), ib = need(cl[3], sib.first, sib.second, kb, 1000);
    int o = output(cl[4], {a, ia, b, ib}, sa.first, sa.second);
    int io = output(cl[5], {a, ia, b, ib, o}, sa.first, sa.second);
    std::string res = outcome<bpp::Exception>([&]() { bpp::MatrixTools::hadamardMult(M(a), M(ia), M(b), M(ib), M(o), M(io)); });
    if (res == "ok") heap.at(o).k = heap.at(io).k = K(a) + K(b);
    Obj p;
    p.kv("variant", variant);
    emitOp("HadC", p, {a, ia, b, ib}, {o, io}, res);
  }

  void opHadVec(bool conf)
  {
    std::string cl = classesFor("HadVec", 2);
    std::pair<size_t, size_t> sa = shape();
    bool byRow = rng.coin();
    size_t want = byRow ? sa.first : sa.second;
    std::vector<S> v = vec(conf ? want : (want == 0 ? 1 + rng.below(2) : (rng.chance(1, 3) && sa.first != sa.second ? (byRow ? sa.second : sa.first) : other(want))), kb);
    int a = need(cl[0], sa.first, sa.second, kb, 1000);
    int o = output(cl[1], {a}, sa.first, sa.second);
    std::string res = outcome<bpp::Exception>([&]() { bpp::MatrixTools::hadamardMult(M(a), v, M(o), byRow); });
    if (res == "ok") heap.at(o).k = K(a) + kb;
    Obj p;
    p.kv("v", vecJ(v, kb)).kv("byRow", byRow);
    emitOp("HadVec", p, {a}, {o}, res);
  }

  void opDSum()
  {
    std::string cl = classesFor("DSum", 3);
    std::pair<size_t, size_t> sa = shape(), sb = shape();
    int a = need(cl[0], sa.first, sa.second, kb, 1e6);
    int b = rng.chance(1, 6) ? a : need(cl[1], sb.first, sb.second, K(a), 1e6);
    if (K(a) != K(b)) { ++skipped; return; }
    int o = output(cl[2], {a, b}, R(a) + R(b), C(a) + C(b));
    std::string res = outcome<bpp::Exception>([&]() { bpp::MatrixTools::directSum(M(a), M(b), M(o)); });
    if (res == "ok") heap.at(o).k = K(a);
    Obj p;
    p.kv("x", 0);
    emitOp("DSum", p, {a, b}, {o}, res);
  }

  void opDSumN()
  {
    size_t cnt = rng.below(5);
    std::string cl = classesFor("DSumN", cnt + 1);
    std::vector<int> in;
    std::vector<BM*> ptr;
    size_t rr = 0, rc = 0;
    for (size_t i = 0; i < cnt; ++i)
    {
      std::pair<size_t, size_t> s = shape();
      if (s.first > 4) s.first -= 3;
      if (s.second > 4) s.second -= 3;
      if (degenerateShapes && rng.chance(1, 5)) (rng.coin() ? s.first : s.second) = 0; // an r x 0 / 0 x c (or 0 x 0) block: only the offsets move
      int id = (i > 0 && rng.chance(1, 6)) ? in[0] : need(cl[i], s.first, s.second, kb, 1e6);
      if (K(id) != kb) { id = fresh(cl[i], s.first, s.second, kb, false); }
      in.push_back(id);
      ptr.push_back(&M(id));
      rr += R(id);
      rc += C(id);
    }
    std::set<int> ops(in.begin(), in.end());
    int o = output(cl[cnt], ops, rr, rc);
    std::string res = outcome<bpp::Exception>([&]() { bpp::MatrixTools::directSum(ptr, M(o)); });
    if (res == "ok") heap.at(o).k = kb;
    Obj p;
    p.kv("n", cnt);
    emitOp("DSumN", p, in, {o}, res);
  }

  // covar: rows = variables, columns = observations; logged as round(n^2 . 4^k . cov) with the distance to the integer
  void opCovar()
  {
    std::string cl = classesFor("Covar", 2);
    std::pair<size_t, size_t> s = properShape(); // no observation (r x 0) has no covariance
    int a = need(cl[0], s.first, s.second, kb, 64);
    int o = output(cl[1], {a}, s.first, s.first);
    std::string res = outcome<bpp::Exception>([&]() { bpp::MatrixTools::covar(M(a), M(o)); });
    // the result is not on a dyadic scale unless n is a power of two: keep the output object out of later
    // exact operations by rewriting it with its rounded numerators (a legal "user" write through operator())
    Obj p;
    double n = static_cast<double>(s.second), sc = n * n * static_cast<double>(1LL << (2 * K(a)));
    Arr rows;
    double dev = 0;
    BM& O = M(o);
    if (res == "ok")
    {
      for (size_t i = 0; i < O.getNumberOfRows(); ++i)
      {
        Arr row;
        for (size_t j = 0; j < O.getNumberOfColumns(); ++j)
        {
          double y = O(i, j) * sc, ry = std::floor(y + 0.5);
          if (!(std::fabs(y) < 1e9)) ry = static_cast<double>(OFFSCALE), dev = 1;
          else dev = std::max(dev, std::fabs(y - ry));
          row.add(static_cast<long long>(ry));
          O(i, j) = std::fabs(ry) < 1e6 ? dec(static_cast<long long>(ry), 0) : 0;
        }
        rows.add(row);
      }
      heap.at(o).k = 0;
    }
    p.kv("n2cov", Obj().kv("r", O.getNumberOfRows()).kv("c", O.getNumberOfColumns()).kv("e", rows));
    p.kv("close", dev < 1e-6);
    emitOp("Covar", p, {a}, {o}, res);
  }

  void opExtrema()
  {
    std::string cl = classesFor("Extrema", 1);
    std::pair<size_t, size_t> s = properShape();
    int a = need(cl[0], s.first, s.second, kb, 1e8);
    if (rng.chance(1, 3) && s.first > 0)
    { // force ties
      long v = small();
      for (int t = 0; t < 3; ++t) M(a)(rng.below(s.first), rng.below(s.second)) = dec(v, K(a));
      tracer().emit(Obj().kv("e", "Poke").kv("o", a).kv("m", matJ(M(a), K(a))));
    }
    // positions are asked of the object itself and of copies held by the two other storage classes
    std::vector<std::vector<size_t>> wmax, wmin;
    S mx = 0, mn = 0, sum = 0;
    std::string res = outcome<bpp::Exception>([&]() {
      with1(heap.at(a), [&](auto& A) {
        wmax.push_back(bpp::MatrixTools::whichMax(A));
        wmin.push_back(bpp::MatrixTools::whichMin(A));
      });
      RM r1(M(a));
      CM c1(M(a));
      LM l1(M(a));
      if (cl[0] != 'R') { wmax.push_back(bpp::MatrixTools::whichMax(r1)); wmin.push_back(bpp::MatrixTools::whichMin(r1)); }
      if (cl[0] != 'C') { wmax.push_back(bpp::MatrixTools::whichMax(c1)); wmin.push_back(bpp::MatrixTools::whichMin(c1)); }
      if (cl[0] != 'L') { wmax.push_back(bpp::MatrixTools::whichMax(l1)); wmin.push_back(bpp::MatrixTools::whichMin(l1)); }
      mx = bpp::MatrixTools::max(M(a));
      mn = bpp::MatrixTools::min(M(a));
      sum = bpp::MatrixTools::sumElements(M(a));
    });
    Obj p;
    Arr jmax, jmin;
    for (auto& x : wmax) jmax.add(arrOf(x));
    for (auto& x : wmin) jmin.add(arrOf(x));
    p.kv("wmax", jmax).kv("wmin", jmin).kv("sum", enc(sum, K(a)));
    if (s.first > 0) p.kv("max", enc(mx, K(a))).kv("min", enc(mn, K(a)));
    emitOp("Extrema", p, {a}, {}, res);
  }

  // ------------------------------------------------------------ histories
  void reset()
  {
    heap.clear();
    nextId = 1;
    kb = rng.chance(3, 5) ? 0 : (rng.coin() ? 1 : 2);
    tracer().emit(Obj().kv("e", "Reset").kv("k", kb));
    ++scenarios;
  }
  void oneOp()
  {
    size_t r = rng.below(100);
    bool conf = !rng.chance(1, 4);
    if (r < 9) opMul(conf);
    else if (r < 15) opMulC(conf ? 0 : 1 + static_cast<int>(rng.below(3)));
    else if (r < 21) opMulDiag(conf ? 0 : 1 + static_cast<int>(rng.below(2)));
    else if (r < 26) opMulDiagC(conf ? 0 : 1 + static_cast<int>(rng.below(4)));
    else if (r < 33) opMulTri(conf ? 0 : 1 + static_cast<int>(rng.below(2)));
    else if (r < 38) opAdd(conf ? (rng.chance(1, 5) ? 3 : 0) : 1 + static_cast<int>(rng.below(2)), false);
    else if (r < 43) opAdd(conf ? (rng.chance(1, 5) ? 3 : 0) : 1 + static_cast<int>(rng.below(2)), true);
    else if (r < 46) opScale();
    else if (r < 51) opTranspose();
    else if (r < 57) opPow(conf);
    else if (r < 61) opTaylor(conf);
    else if (r < 66) opKron(0);
    else if (r < 69) opKron(1);
    else if (r < 73) opKron(2);
    else if (r < 77) opHad(conf);
    else if (r < 81) opHadC(conf ? 0 : 1 + static_cast<int>(rng.below(3)));
    else if (r < 85) opHadVec(conf);
    else if (r < 91) opDSum();
    else if (r < 94) opDSumN();
    else if (r < 97) opCovar();
    else opExtrema();
  }
  void random(long n)
  {
    for (long s = 0; s < n; ++s)
    {
      reset();
      long len = rng.range(3, 9);
      for (long i = 0; i < len; ++i) oneOp();
    }
  }

  // ------------------------------------------------------------ linear assignment
  void lapCall(char cls, size_t r, size_t c, const std::vector<long>& cost, int k)
  {
    setCur("Lap");
    std::unique_ptr<BM> m = make(cls, r, c);
    for (size_t i = 0; i < r; ++i)
      for (size_t j = 0; j < c; ++j) (*m)(i, j) = dec(cost[i * c + j], k);
    std::vector<int> rowSol(r, -7), colSol(r, -7);
    std::vector<S> u(r, 0), v(r, 0);
    S total = 0;
    std::string res = outcome<bpp::Exception>([&]() { total = bpp::MatrixTools::lap(*m, rowSol, colSol, u, v); });
    Obj e;
    e.kv("e", "Lap").kv("cls", std::string(1, cls)).kv("k", k).kv("C", matJ(*m, k)).kv("r", res);
    if (res == "ok") e.kv("cost", enc(total, k)).kv("rowSol", arrOf(rowSol)).kv("colSol", arrOf(colSol)).kv("u", vecJ(u, k)).kv("v", vecJ(v, k));
    tracer().emit(e);
    tracer().flush();
    combos["Lap"].insert(std::string(1, cls));
    if (res != "ok") raised["Lap"]++;
  }
  void lapExhaustive(size_t maxN, long stride)
  {
    long idx = 0;
    for (size_t n = 0; n <= maxN; ++n)
    {
      reset();
      size_t cells = n * n;
      long total = 1;
      for (size_t i = 0; i < cells; ++i) total *= 3;
      long start = stride > 1 ? static_cast<long>(rng.below(static_cast<size_t>(stride))) : 0;
      for (long code = (total > 200 ? start : 0); code < total; code += (total > 200 ? stride : 1))
      {
        std::vector<long> cost(cells);
        long x = code;
        for (size_t i = 0; i < cells; ++i)
        {
          cost[i] = x % 3;
          x /= 3;
        }
        lapCall("RCL"[idx++ % 3], n, n, cost, 0);
        if (idx % 400 == 0) reset();
      }
    }
  }
  void lapRandom(long cnt)
  {
    reset();
    for (long t = 0; t < cnt; ++t)
    {
      if (t % 200 == 199) reset();
      size_t n = 1 + rng.below(7);
      size_t c = n;
      if (rng.chance(1, 12)) c = other(n); // not square: refused
      int k = rng.chance(1, 2) ? 0 : static_cast<int>(1 + rng.below(2));
      long hi = rng.chance(1, 3) ? 3 : (rng.chance(1, 2) ? 20 : 9);
      long lo = rng.chance(1, 4) ? -hi : 0;
      std::vector<long> cost(n * c);
      for (auto& x : cost) x = rng.range(lo, hi);
      if (rng.chance(1, 5))
        for (size_t i = 0; i < n && c == n; ++i) cost[i * c + rng.below(c)] = lo; // many ties at the minimum
      lapCall("RCL"[rng.below(3)], n, c, cost, k);
    }
  }
};


// ------------------------------------------------------------------------------------------------
// --mode store : the storage classes themselves.  Histories of constructors, converting copies,
// operator=, clone, resize (grow / shrink / grow), resize(r,c,false), operator() writes, addRow /
// addCol, equals / operator==, destruction on RowMatrix, ColMatrix and LinearMatrix objects.  Most
// calls are applied in lock-step to a group of three objects (one per class); after every call the
// view of EVERY live object is logged (dimensions, all cells through operator(), every row(i) and
// col(j)): the specification compares contents, the driver never does.
class StoreRunner
{
public:
  struct SOb
  {
    std::unique_ptr<BM> m;
    char cls;
    bool deg; // a degenerate shape (r x 0 / 0 x c) was requested: only precondition bookkeeping (no addRow / writes)
  };
  Rng rng;
  std::map<int, SOb> objs;
  std::vector<std::vector<int>> groups; // objects that received the same history
  int nextId = 1;
  long scenarios = 0, calls = 0;
  int maxDim = 4;
  std::vector<int> busy; // group in the middle of a lock-step round: its members differ until the round ends

  // applies f to every member of g; the group is claimed to agree again only after the last member
  template<class F> void round(const std::vector<int>& g, F f)
  {
    for (size_t k = 0; k < g.size(); ++k)
    {
      busy = (k + 1 < g.size()) ? g : std::vector<int>();
      f(g[k], k);
    }
    busy.clear();
  }

  explicit StoreRunner(uint64_t seed) : rng(seed), objs(), groups() {}

  static J viewJ(int id, const SOb& o)
  {
    const BM& m = *o.m;
    size_t nr = m.getNumberOfRows(), nc = m.getNumberOfColumns();
    Arr cells, rows, cols;
    for (size_t i = 0; i < nr; ++i)
    {
      Arr row;
      for (size_t j = 0; j < nc; ++j) row.add(enc(m(i, j), 0));
      cells.add(row);
      rows.add(vecJ(m.row(i), 0));
    }
    for (size_t j = 0; j < nc; ++j) cols.add(vecJ(m.col(j), 0));
    return Arr().add(id).add(std::string(1, o.cls)).add(nr).add(nc).add(cells).add(rows).add(cols).j();
  }
  void emit(Obj& e, const std::string& res)
  {
    Arr w, lock;
    for (auto& kv : objs) w.add(viewJ(kv.first, kv.second));
    for (auto& g : groups)
    {
      if (g == busy) continue;
      Arr a;
      for (int id : g) a.add(id);
      lock.add(a);
    }
    e.kv("r", res).kv("lock", lock).kv("w", w);
    tracer().emit(e);
    ++calls;
  }
  void unlock(int id)
  {
    for (auto& g : groups) g.erase(std::remove(g.begin(), g.end(), id), g.end());
    groups.erase(std::remove_if(groups.begin(), groups.end(), [](const std::vector<int>& g) { return g.size() < 2; }), groups.end());
  }
  size_t dimv() { return rng.chance(1, 9) ? 0 : 1 + rng.below(static_cast<size_t>(maxDim)); }
  static bool degenerate(size_t r, size_t c) { return (r == 0) != (c == 0); }

  int doNew(char cls, size_t r, size_t c, bool dflt)
  {
    setCur("SNew");
    int id = nextId++;
    SOb o;
    o.cls = cls;
    o.deg = degenerate(r, c);
    std::string res = outcome<bpp::Exception>([&]() {
      if (dflt) o.m.reset(cls == 'R' ? static_cast<BM*>(new RM()) : cls == 'C' ? static_cast<BM*>(new CM()) : static_cast<BM*>(new LM()));
      else o.m = make(cls, r, c);
    });
    objs[id] = std::move(o);
    Obj e;
    e.kv("e", "SNew").kv("o", id).kv("cls", std::string(1, cls)).kv("a", Arr().add(r).add(c)).kv("how", dflt ? "default" : "dims");
    emit(e, res);
    return id;
  }
  // how: 0 converting / copy constructor, 1 clone()
  int doCopy(int from, char cls, int how)
  {
    setCur("SConvert");
    int id = nextId++;
    SOb o;
    const BM& src = *objs.at(from).m;
    o.deg = objs.at(from).deg;
    std::string res = outcome<bpp::Exception>([&]() {
      if (how == 1)
      {
        cls = objs.at(from).cls;
        o.m.reset(dynamic_cast<BM*>(src.clone()));
      }
      else if (cls == objs.at(from).cls && rng.coin())
      { // the implicit same-class copy constructor
        if (cls == 'R') o.m.reset(new RM(static_cast<const RM&>(src)));
        else if (cls == 'C') o.m.reset(new CM(static_cast<const CM&>(src)));
        else o.m.reset(new LM(static_cast<const LM&>(src)));
      }
      else
      {
        if (cls == 'R') o.m.reset(new RM(src));
        else if (cls == 'C') o.m.reset(new CM(src));
        else o.m.reset(new LM(src));
      }
    });
    o.cls = cls;
    objs[id] = std::move(o);
    Obj e;
    e.kv("e", "SConvert").kv("o", from).kv("o2", id).kv("cls", std::string(1, cls)).kv("how", how == 1 ? "clone" : "ctor");
    emit(e, res);
    return id;
  }
  void doAssign(int from, int to)
  {
    setCur("SAssign");
    SOb& d = objs.at(to);
    const BM& src = *objs.at(from).m;
    bool same = d.cls == objs.at(from).cls && rng.coin();
    std::string res = outcome<bpp::Exception>([&]() {
      if (d.cls == 'R')
      {
        if (same) static_cast<RM&>(*d.m) = static_cast<const RM&>(src);
        else static_cast<RM&>(*d.m) = src;
      }
      else if (d.cls == 'C')
      {
        if (same) static_cast<CM&>(*d.m) = static_cast<const CM&>(src);
        else static_cast<CM&>(*d.m) = src;
      }
      else
      {
        if (same) static_cast<LM&>(*d.m) = static_cast<const LM&>(src);
        else static_cast<LM&>(*d.m) = src;
      }
    });
    d.deg = objs.at(from).deg;
    Obj e;
    e.kv("e", "SConvert").kv("o", from).kv("o2", to).kv("cls", std::string(1, d.cls)).kv("how", same ? "assign-same" : "assign-base");
    emit(e, res);
  }
  void doResize(int id, size_t r, size_t c, bool flat)
  {
    setCur("SResize");
    SOb& o = objs.at(id);
    std::string res = outcome<bpp::Exception>([&]() {
      if (flat) static_cast<LM&>(*o.m).resize(r, c, false);
      else o.m->resize(r, c);
    });
    o.deg = degenerate(r, c);
    Obj e;
    e.kv("e", "SResize").kv("o", id).kv("a", Arr().add(r).add(c)).kv("flat", flat);
    emit(e, res);
  }
  void doWrite(int id, size_t i, size_t j, long v)
  {
    setCur("SWrite");
    SOb& o = objs.at(id);
    std::string res = outcome<bpp::Exception>([&]() { (*o.m)(i, j) = static_cast<S>(v); });
    Obj e;
    e.kv("e", "SWrite").kv("o", id).kv("a", Arr().add(i).add(j).add(v));
    emit(e, res);
  }
  void doAdd(int id, const std::vector<S>& v)
  {
    SOb& o = objs.at(id);
    setCur(o.cls == 'R' ? "SAddRow" : "SAddCol");
    std::string res = outcome<bpp::Exception>([&]() {
      if (o.cls == 'R') static_cast<RM&>(*o.m).addRow(v);
      else static_cast<CM&>(*o.m).addCol(v);
    });
    Obj e;
    e.kv("e", o.cls == 'R' ? "SAddRow" : "SAddCol").kv("o", id).kv("v", vecJ(v, 0));
    emit(e, res);
  }
  void doEquals(int a, int b)
  {
    setCur("SEquals");
    bool eq = false, eq2 = false;
    std::string res = outcome<bpp::Exception>([&]() {
      eq = objs.at(a).m->equals(*objs.at(b).m);
      eq2 = (*objs.at(a).m == *objs.at(b).m);
    });
    Obj e;
    e.kv("e", "SEquals").kv("o", a).kv("o2", b).kv("eq", eq).kv("eq2", eq2);
    emit(e, res);
  }
  void doDrop(int id)
  {
    setCur("SDrop");
    unlock(id);
    objs.erase(id);
    Obj e;
    e.kv("e", "SDrop").kv("o", id);
    emit(e, "ok");
  }

  std::vector<int> newGroup(size_t r, size_t c)
  {
    std::vector<int> g;
    bool dflt = r == 0 && c == 0 && rng.coin();
    for (char cl : {'R', 'C', 'L'}) g.push_back(doNew(cl, r, c, dflt));
    groups.push_back(g);
    return g;
  }
  int anyLive() const
  {
    size_t k = const_cast<StoreRunner*>(this)->rng.below(objs.size());
    auto it = objs.begin();
    std::advance(it, static_cast<long>(k));
    return it->first;
  }
  void fillGroup(const std::vector<int>& g)
  {
    SOb& o = objs.at(g[0]);
    if (o.deg) return;
    size_t nr = o.m->getNumberOfRows(), nc = o.m->getNumberOfColumns();
    for (size_t i = 0; i < nr; ++i)
      for (size_t j = 0; j < nc; ++j)
        if (rng.chance(2, 3))
        {
          long v = rng.range(-4, 4);
          round(g, [&](int id, size_t) { doWrite(id, i, j, v); });
        }
  }

  void history()
  {
    objs.clear();
    groups.clear();
    nextId = 1;
    tracer().emit(Obj().kv("e", "Reset").kv("k", 0));
    ++scenarios;
    std::vector<int> g0 = newGroup(dimv(), dimv());
    fillGroup(g0);
    long len = rng.range(6, 16);
    for (long step = 0; step < len; ++step)
    {
      if (objs.empty())
      {
        fillGroup(newGroup(dimv(), dimv()));
        continue;
      }
      size_t r = rng.below(100);
      bool haveGroup = !groups.empty();
      std::vector<int> g = haveGroup ? groups[rng.below(groups.size())] : std::vector<int>();
      if (r < 30 && haveGroup)
      { // lock-step resize; grow / shrink / grow sequences come from repeating this
        size_t nr = dimv(), nc = dimv();
        if (rng.chance(1, 3) && !objs.at(g[0]).deg)
        { // shrink one direction, keep the other
          nr = objs.at(g[0]).m->getNumberOfRows();
          nc = objs.at(g[0]).m->getNumberOfColumns();
          if (rng.coin()) nr = nr > 1 ? nr - 1 : nr + 1;
          else nc = nc > 1 ? nc - 1 : nc + 1;
        }
        round(g, [&](int id, size_t) { doResize(id, nr, nc, false); });
      }
      else if (r < 42 && haveGroup && !objs.at(g[0]).deg && objs.at(g[0]).m->getNumberOfRows() > 0)
      {
        size_t i = rng.below(objs.at(g[0]).m->getNumberOfRows()), j = rng.below(objs.at(g[0]).m->getNumberOfColumns());
        long v = rng.range(-4, 4);
        round(g, [&](int id, size_t) { doWrite(id, i, j, v); });
      }
      else if (r < 52 && haveGroup && objs.size() <= 9)
      { // converting copies of a whole group, every member into the next class; the copies form a new group
        std::vector<int> ng;
        int rot = static_cast<int>(rng.below(3));
        int how = rng.chance(1, 4) ? 1 : 0;
        for (size_t k = 0; k < g.size(); ++k)
        {
          const char* order = "RCL";
          char from = objs.at(g[k]).cls;
          char to = order[(std::string(order).find(from) + static_cast<size_t>(rot)) % 3];
          ng.push_back(doCopy(g[k], to, how));
        }
        groups.push_back(ng);
        // copy-then-write: the originals must not move
        if (!objs.at(ng[0]).deg && objs.at(ng[0]).m->getNumberOfRows() > 0 && rng.chance(2, 3))
        {
          size_t i = rng.below(objs.at(ng[0]).m->getNumberOfRows()), j = rng.below(objs.at(ng[0]).m->getNumberOfColumns());
          long v = rng.range(5, 9);
          round(ng, [&](int id, size_t) { doWrite(id, i, j, v); });
        }
      }
      else if (r < 60 && groups.size() >= 2)
      { // group := group, member by member (classes may differ): operator=
        std::vector<int> src = groups[rng.below(groups.size())];
        if (src != g && src.size() == g.size())
        {
          round(g, [&](int id, size_t k) { doAssign(src[(k + 1) % src.size()], id); });
          // the two groups now hold the same content; a later write to one must not show in the other
        }
      }
      else if (r < 68)
      {
        int a = anyLive(), b = anyLive();
        doEquals(a, b);
      }
      else if (r < 80)
      { // class-specific members leave the lock-step group
        int id = anyLive();
        SOb& o = objs.at(id);
        if (o.cls == 'L')
        {
          unlock(id);
          doResize(id, dimv(), dimv(), true);
        }
        else if (!o.deg)
        {
          size_t want = o.cls == 'R' ? o.m->getNumberOfColumns() : o.m->getNumberOfRows();
          size_t have = o.cls == 'R' ? o.m->getNumberOfRows() : o.m->getNumberOfColumns();
          size_t n = want;
          if (have == 0 || want == 0) n = 1 + rng.below(3);
          else if (rng.chance(1, 3)) n = rng.coin() ? want + 1 : (want > 1 ? want - 1 : want + 2);
          std::vector<S> v(n);
          for (auto& x : v) x = static_cast<S>(rng.range(-4, 4));
          unlock(id);
          doAdd(id, v);
        }
      }
      else if (r < 88)
      {
        int id = anyLive();
        unlock(id);
        if (rng.coin() && !objs.at(id).deg && objs.at(id).m->getNumberOfRows() > 0)
          doWrite(id, rng.below(objs.at(id).m->getNumberOfRows()), rng.below(objs.at(id).m->getNumberOfColumns()), rng.range(-4, 4));
        else doResize(id, dimv(), dimv(), false);
      }
      else if (r < 94 && objs.size() > 1) doDrop(anyLive());
      else if (objs.size() <= 9) fillGroup(newGroup(dimv(), dimv()));
    }
  }
  void run(long n)
  {
    for (long s = 0; s < n; ++s) history();
  }
};

int main(int argc, char** argv)
{
  std::string out = argStr(argc, argv, "--out", "");
  std::string mode = argStr(argc, argv, "--mode", "random");
  long n = argInt(argc, argv, "--n", 100);
  if (out.empty() || !tracer().open(out))
  {
    fprintf(stderr, "drv_matrix: cannot open --out\n");
    return 2;
  }
  installCrashHandlers();
  signal(SIGSEGV, onFatal);
  signal(SIGABRT, onFatal);
  signal(SIGBUS, onFatal);
  signal(SIGFPE, onFatal);
  Runner R(envSeed() * 1000003ULL + mode.size() * 7919ULL + static_cast<uint64_t>(argInt(argc, argv, "--salt", 0)));
  R.maxDim = static_cast<int>(argInt(argc, argv, "--maxdim", 7));
  R.kronCells = argInt(argc, argv, "--kroncells", 150);
  R.degenerateShapes = argInt(argc, argv, "--degenerate", 1) != 0;
  if (mode == "store")
  {
    StoreRunner SR(envSeed() * 1000003ULL + 4241ULL);
    SR.maxDim = static_cast<int>(argInt(argc, argv, "--maxdim", 4));
    SR.run(n);
    tracer().close();
    printf("%s\n", Obj().kv("scenarios", SR.scenarios).kv("events", tracer().count()).kv("calls", SR.calls).j().dump().c_str());
    return 0;
  }
  if (mode == "random") R.random(n);
  else if (mode == "lapexh") R.lapExhaustive(static_cast<size_t>(argInt(argc, argv, "--dim", 3)), argInt(argc, argv, "--stride", 1));
  else if (mode == "laprand") R.lapRandom(n);
  tracer().close();
  Obj cov;
  for (auto& kv : R.combos) cov.kv(kv.first, kv.second.size());
  Obj calls, rs;
  for (auto& kv : R.counter) calls.kv(kv.first, kv.second);
  for (auto& kv : R.raised) rs.kv(kv.first, kv.second);
  calls.kv("_", 0);
  rs.kv("_", 0);
  cov.kv("_", 0);
  printf("%s\n", Obj().kv("scenarios", R.scenarios).kv("events", tracer().count()).kv("skipped", R.skipped).kv("class_combos", cov).kv("calls", calls).kv("raised", rs).j().dump().c_str());
  return 0;
}
