// Conformance driver for C03 (src/Bpp/Numeric/AbstractParameterAliasable.{h,cpp}).
// A minimal concrete subclass of bpp::AbstractParameterAliasable is driven through
// histories of alias / unalias / bulk alias / set-by-name / bulk set / match /
// copy-construct / assign / setNamespace / destroy; after every call the state of
// ALL live owners is read back through public const queries and logged.
//
//   drv_alias --out F --mode random --n N       seeded random histories (2..6 parameters, <=3 owners)
//   drv_alias --out F --mode maps --k K         every name map over K names (+1 unknown) on a fresh owner
//                                               and on owners with one earlier link
//   drv_alias --out F --mode scripted           short fixed histories (chains, cycles, assignment into a
//                                               non-empty owner, copies, renaming)
//   drv_alias --out F --mode probe              chain whose middle already holds the written value (alone)
//
// Encoding: values are indices (1-based) into a per-scenario sorted pool of
// random doubles; parameter k is named "p<k>"; namespaces are numbered.
// The driver never judges: it only stays inside the property's quantifier
// (steering, computed from the same public queries) and encodes observations.
#include "tracer.h"
#include "param_audit.h"

#include <Bpp/App/ApplicationTools.h>
#include <Bpp/Exceptions.h>
#include <Bpp/Numeric/AbstractParameterAliasable.h>
#include <Bpp/Numeric/Constraints.h>
#include <Bpp/Numeric/Parameter.h>
#include <Bpp/Numeric/ParameterList.h>

#include <algorithm>
#include <map>
#include <memory>
#include <set>

using namespace vt;

static const char* NSTR[] = {"", "n1.", "p", "ns2."};
static const int NNS = 4;
static const long UNK = -1000000;

static std::string bare(int k) { return "p" + std::to_string(k); }
static int nameId(const std::string& b)
{
  if (b.size() == 2 && b[0] == 'p' && b[1] >= '0' && b[1] <= '9') return b[1] - '0';
  return -1;
}

class Owner : public bpp::AbstractParameterAliasable
{
public:
  explicit Owner(const std::string& ns) : bpp::AbstractParameterAliasable(ns) {}
  Owner* clone() const override { return new Owner(*this); }
  void add(const std::string& b, double v, std::shared_ptr<bpp::ConstraintInterface> c)
  {
    addParameter_(new bpp::Parameter(getNamespace() + b, v, c));
  }
};

struct Con
{
  long lo = 0, hi = 0; // pool indices (1-based); lo == 0: unconstrained
  bool il = true, iu = true;
  bool some() const { return lo > 0; }
  bool accepts(long x) const { return !some() || ((il ? x >= lo : x > lo) && (iu ? x <= hi : x < hi)); }
};

// name returned by a query -> parameter number, whether or not it carries the namespace
static int normId(const std::string& name, const std::string& ns)
{
  if (name.empty()) return 0;
  if (!ns.empty() && name.compare(0, ns.size(), ns) == 0)
  {
    std::string b = name.substr(ns.size());
    if (b.size() == 2 && b[0] == 'p' && b[1] >= '0' && b[1] <= '9') return b[1] - '0';
  }
  if (name.size() == 2 && name[0] == 'p' && name[1] >= '0' && name[1] <= '9') return name[1] - '0';
  return -1;
}

// What the public queries say about one owner (used for logging and for steering).
struct View
{
  int ns = -1;
  std::vector<int> names;
  std::map<int, long> val;
  std::map<int, Con> con;                   // absent = unconstrained
  std::map<int, int> from;                  // 0 = not aliased
  std::set<int> indep;
  bool hasp(int k) const { return val.count(k) != 0; }
};

struct Scn
{
  Pool pool;
  std::map<int, std::unique_ptr<Owner>> own;
  explicit Scn(const std::vector<double>& p) : pool(p), own() {}

  long vidx(double x) const
  {
    long i = pool.indexOf(x);
    return i < 0 ? UNK : i + 1;
  }
  double dv(long v) const { return pool.at(static_cast<size_t>(v - 1)); }
  long V() const { return static_cast<long>(pool.size()); }

  static int nsId(const std::string& s)
  {
    for (int i = 0; i < NNS; ++i)
      if (s == NSTR[i]) return i;
    return -1;
  }
  static std::string strip(const std::string& full, const std::string& ns)
  {
    if (full.compare(0, ns.size(), ns) == 0) return full.substr(ns.size());
    return "?" + full;
  }

  // getFrom asked with both spellings of the name; the answer with the namespace removed
  static int fromOf(const Owner& w, const std::string& ns, const std::string& b)
  {
    int f1 = normId(w.getFrom(ns + b), ns);
    int f2 = ns.empty() ? 0 : normId(w.getFrom(b), ns);
    if (f1 != 0 && f2 != 0 && f1 != f2) return -1;
    return f1 != 0 ? f1 : f2;
  }

  View view(int o) const
  {
    const Owner& w = *own.at(o);
    View v;
    std::string ns = w.getNamespace();
    v.ns = nsId(ns);
    const bpp::ParameterList& pl = w.getParameters();
    for (size_t i = 0; i < pl.size(); ++i)
    {
      int k = nameId(strip(pl[i].getName(), ns));
      v.names.push_back(k);
      v.val[k] = vidx(pl[i].getValue());
      if (pl[i].hasConstraint())
      {
        auto ic = std::dynamic_pointer_cast<const bpp::IntervalConstraint>(pl[i].getConstraint());
        Con c;
        c.lo = ic ? vidx(ic->getLowerBound()) : UNK;
        c.hi = ic ? vidx(ic->getUpperBound()) : UNK;
        c.il = ic ? !ic->strictLowerBound() : true;
        c.iu = ic ? !ic->strictUpperBound() : true;
        v.con[k] = c;
      }
      v.from[k] = fromOf(w, ns, strip(pl[i].getName(), ns));
    }
    const bpp::ParameterList& ip = w.getIndependentParameters();
    for (size_t i = 0; i < ip.size(); ++i) v.indep.insert(nameId(strip(ip[i].getName(), ns)));
    return v;
  }

  // ---- observation written to the trace
  Arr obs(int o) const
  {
    const Owner& w = *own.at(o);
    std::string ns = w.getNamespace();
    Arr pars, ind, from, als, direct, hasind;
    const bpp::ParameterList& pl = w.getParameters();
    std::map<int, int> fr;
    std::vector<std::pair<int, std::string>> names;
    for (size_t i = 0; i < pl.size(); ++i)
    {
      std::string b = strip(pl[i].getName(), ns);
      int k = nameId(b);
      names.push_back(std::make_pair(k, b));
      Arr c;
      if (pl[i].hasConstraint())
      {
        auto ic = std::dynamic_pointer_cast<const bpp::IntervalConstraint>(pl[i].getConstraint());
        if (!ic) c.add(UNK);
        else c.add(vidx(ic->getLowerBound())).add(vidx(ic->getUpperBound())).add(!ic->strictLowerBound()).add(!ic->strictUpperBound());
      }
      pars.add(Arr().add(k).add(vidx(pl[i].getValue())).add(c));
      int fk = fromOf(w, ns, b);
      fr[k] = fk;
      from.add(Arr().add(k).add(fk));
      if (w.hasIndependentParameter(b) || (!ns.empty() && w.hasIndependentParameter(ns + b))) hasind.add(k);
    }
    const bpp::ParameterList& ip = w.getIndependentParameters();
    for (size_t i = 0; i < ip.size(); ++i)
      ind.add(Arr().add(nameId(strip(ip[i].getName(), ns))).add(vidx(ip[i].getValue())));
    // getAliases / getAlias recurse along chains: only ask when the direct links are acyclic
    bool cyc = false;
    for (auto& kv : fr)
    {
      int c = kv.first, steps = 0;
      while (c > 0 && fr.count(c) && fr[c] != 0 && steps <= 8)
      {
        c = fr[c];
        ++steps;
      }
      if (steps > 8) cyc = true;
    }
    if (cyc)
    {
      als.add(Arr().add(-1).add(-1));
      direct.add(Arr().add(-1).add(Arr()));
    }
    else
    {
      std::map<std::string, std::string> m = w.getAliases();
      for (auto& kv : m) als.add(Arr().add(normId(kv.first, ns)).add(normId(kv.second, ns)));
      for (auto& nb : names)
      {
        std::set<int> f;
        for (auto& x : w.getAlias(nb.second)) f.insert(normId(x, ns));
        if (!ns.empty())
          for (auto& x : w.getAlias(ns + nb.second)) f.insert(normId(x, ns));
        Arr fl;
        for (int x : f) fl.add(x);
        direct.add(Arr().add(nb.first).add(fl));
      }
    }
    return Arr().add(o).add(nsId(ns)).add(pars).add(ind).add(from).add(als).add(direct).add(hasind);
  }
  Arr state() const
  {
    Arr s;
    for (auto& kv : own) s.add(obs(kv.first));
    return s;
  }

  // ---- event helpers
  void emit(Obj& e, const std::string& oc)
  {
    bool ok = oc == "ok";
    // only a library exception is a refusal; anything else is a fault no action explains
    bool fault = oc.compare(0, 10, "raise:std:") == 0 || oc == "raise:other";
    e.kv("r", ok ? "ok" : fault ? "fault" : "raise");
    if (!ok) e.kv("x", oc.substr(oc.find(':') + 1));
    e.kv("s", state());
    tracer().emit(e);
    tracer().flush(); // a crash must never leave half an event behind
  }

  void opNew(int o, int ns, const std::vector<int>& names, const std::vector<long>& vals, const std::vector<Con>& cons)
  {
    Arr pars;
    std::string oc = outcome<bpp::Exception>([&]() {
      std::unique_ptr<Owner> w(new Owner(NSTR[ns]));
      for (size_t i = 0; i < names.size(); ++i)
      {
        std::shared_ptr<bpp::ConstraintInterface> c;
        if (cons[i].some()) c.reset(new bpp::IntervalConstraint(dv(cons[i].lo), dv(cons[i].hi), cons[i].il, cons[i].iu));
        w->add(bare(names[i]), dv(vals[i]), c);
      }
      own[o] = std::move(w);
    });
    for (size_t i = 0; i < names.size(); ++i)
    {
      Arr c;
      if (cons[i].some()) c.add(cons[i].lo).add(cons[i].hi).add(cons[i].il).add(cons[i].iu);
      pars.add(Arr().add(names[i]).add(vals[i]).add(c));
    }
    Obj e;
    e.kv("e", "New").kv("o", o).kv("n", ns).kv("pars", pars);
    emit(e, oc);
  }
  void opAlias(int o, int a, int b)
  {
    Owner& w = *own.at(o);
    std::string oc = outcome<bpp::Exception>([&]() { w.aliasParameters(bare(a), bare(b)); }, 1);
    Obj e;
    e.kv("e", "Alias").kv("o", o).kv("a", Arr().add(a).add(b));
    emit(e, oc);
  }
  void opUnalias(int o, int a, int b)
  {
    Owner& w = *own.at(o);
    std::string oc = outcome<bpp::Exception>([&]() { w.unaliasParameters(bare(a), bare(b)); }, 2);
    Obj e;
    e.kv("e", "Unalias").kv("o", o).kv("a", Arr().add(a).add(b));
    emit(e, oc);
  }
  // qualified: the names of the map carry the owner's namespace (as getParameters() spells them)
  void opBulkAlias(int o, const std::map<int, int>& m, bool qualified = true)
  {
    Owner& w = *own.at(o);
    std::string q = qualified ? w.getNamespace() : "";
    std::map<std::string, std::string> sm;
    Arr ml;
    for (auto& kv : m)
    {
      sm[q + bare(kv.first)] = q + bare(kv.second);
      ml.add(Arr().add(kv.first).add(kv.second));
    }
    std::string oc = outcome<bpp::Exception>([&]() { w.aliasParameters(sm, false); }, 3);
    Obj e;
    e.kv("e", "BulkAlias").kv("o", o).kv("m", ml).kv("sp", qualified ? "qualified" : "bare");
    emit(e, oc);
  }
  void opSet(int o, int a, long v)
  {
    Owner& w = *own.at(o);
    std::string oc = outcome<bpp::Exception>([&]() { w.setParameterValue(bare(a), dv(v)); }, 4);
    Obj e;
    e.kv("e", "Set").kv("o", o).kv("a", Arr().add(a).add(v));
    emit(e, oc);
  }
  void opWrites(int o, const std::vector<std::pair<int, long>>& ws, bool match)
  {
    Owner& w = *own.at(o);
    bpp::ParameterList pl;
    Arr wl;
    for (auto& x : ws)
    {
      pl.addParameter(bpp::Parameter(w.getNamespace() + bare(x.first), dv(x.second)));
      wl.add(Arr().add(x.first).add(x.second));
    }
    bool ret = false;
    std::string oc = outcome<bpp::Exception>([&]() {
      if (match) ret = w.matchParametersValues(pl);
      else w.setParametersValues(pl);
    }, 5);
    Obj e;
    e.kv("e", match ? "Match" : "BulkSet").kv("o", o).kv("w", wl);
    if (match) e.kv("ret", ret);
    emit(e, oc);
  }
  void opCopy(int s, int t)
  {
    std::string oc = outcome<bpp::Exception>([&]() {
      std::unique_ptr<Owner> c(new Owner(*own.at(s)));
      own[t] = std::move(c);
    }, 6);
    Obj e;
    e.kv("e", "Copy").kv("o", s).kv("t", t);
    emit(e, oc);
  }
  void opAssign(int s, int t)
  {
    std::string oc = outcome<bpp::Exception>([&]() { *own.at(t) = *own.at(s); }, 7);
    Obj e;
    e.kv("e", "Assign").kv("o", s).kv("t", t);
    emit(e, oc);
  }
  void opSetNs(int o, int n)
  {
    std::string oc = outcome<bpp::Exception>([&]() { own.at(o)->setNamespace(NSTR[n]); }, 8);
    Obj e;
    e.kv("e", "SetNs").kv("o", o).kv("a", Arr().add(n));
    emit(e, oc);
  }
  void opDrop(int o)
  {
    std::string oc = outcome<bpp::Exception>([&]() { own.erase(o); }, 9);
    Obj e;
    e.kv("e", "Drop").kv("o", o);
    emit(e, oc);
  }
};

// ---------------------------------------------------------------- steering (derived from the View only)
static bool accepts(const View& v, int p, long x)
{
  auto it = v.con.find(p);
  return it == v.con.end() || it->second.accepts(x);
}
static std::set<int> anc(const View& v, int b)
{
  std::set<int> s;
  int c = b;
  for (int i = 0; i < 8; ++i)
  {
    auto it = v.from.find(c);
    if (it == v.from.end() || it->second == 0) break;
    c = it->second;
    if (!s.insert(c).second) break;
  }
  return s;
}
static std::set<int> followers(const View& v, int a)
{
  std::set<int> s;
  for (int p : v.names)
    if (anc(v, p).count(a)) s.insert(p);
  return s;
}
static bool setAcceptable(const View& v, int a, long x)
{
  if (!accepts(v, a, x)) return false;
  for (int p : followers(v, a))
    if (!accepts(v, p, x)) return false;
  return true;
}
// the write a := x applied to vals; alg = the listener cascade that stops at an equal value
static void simSet(const View& v, std::map<int, long>& vals, int a, long x, bool alg)
{
  if (!vals.count(a) || vals[a] == x) return;
  if (!alg)
  {
    vals[a] = x;
    for (int p : followers(v, a)) vals[p] = x;
    return;
  }
  std::set<int> reach;
  reach.insert(a);
  for (int round = 0; round < 8; ++round)
    for (int p : v.names)
    {
      auto it = v.from.find(p);
      if (it != v.from.end() && it->second != 0 && reach.count(it->second) && vals[p] != x) reach.insert(p);
    }
  for (int p : reach) vals[p] = x;
}
static bool writesDiverge(const View& v, const std::vector<std::pair<int, long>>& ws)
{
  std::map<int, long> d = v.val, g = v.val;
  for (auto& w : ws)
  {
    simSet(v, d, w.first, w.second, false);
    simSet(v, g, w.first, w.second, true);
  }
  return d != g;
}
static bool aliasRefused(const View& v, int a, int b)
{
  if (!v.hasp(a) || !v.hasp(b)) return true;
  if (a == b) return true;
  if (v.from.at(b) != 0 || !v.indep.count(b)) return true;
  return anc(v, a).count(b) != 0;
}
static bool coherent(const View& v)
{
  for (int p : v.names)
  {
    int f = v.from.at(p);
    if (f != 0 && v.val.count(f) && v.val.at(f) != v.val.at(p)) return false;
  }
  return true;
}

// ---------------------------------------------------------------- scenarios
static long g_scen = 0, g_skipped = 0, g_calls = 0;
static bool g_allowSC = true; // false: keep clear of chains whose middle already holds the written value (--steer-sc 1)

static void reset(const std::string& kind, long id)
{
  Obj e;
  e.kv("e", "Reset").kv("kind", kind).kv("id", id);
  tracer().emit(e);
  ++g_scen;
}

static std::vector<double> makePool(Rng& r, size_t n)
{
  // distinct increasing doubles.  Usually >= 1 apart; sometimes two neighbours agree in
  // their first six significant digits (their textual descriptions are identical).
  std::vector<double> p;
  double x = -900.0 + 50.0 * r.unit();
  size_t close = r.chance(1, 3) ? 1 + r.below(n - 1) : n + 1;
  for (size_t i = 0; i < n; ++i)
  {
    x += (i == close) ? 1e-7 * (1.0 + r.unit()) : 1.0 + 300.0 * r.unit();
    p.push_back(x);
  }
  return p;
}

static Con noCon() { return Con(); }
static Con mkCon(long lo, long hi, bool il = true, bool iu = true)
{
  Con c;
  c.lo = lo;
  c.hi = hi;
  c.il = il;
  c.iu = iu;
  return c;
}

// a random constraint over the pool that accepts at least one pool value
static Con randomCon(Rng& r, long V)
{
  for (;;)
  {
    long lo = r.range(1, V), hi = r.range(lo, V);
    if (r.chance(1, 2))
    {
      lo = r.range(1, 2);
      hi = r.range(V - 1, V);
    }
    Con c = mkCon(lo, hi, !r.chance(1, 4), !r.chance(1, 4));
    for (long x = 1; x <= V; ++x)
      if (c.accepts(x)) return c;
  }
}

// profile: 0 no constraints, 1 few, 2 many;   nsMode: 0 mostly empty namespace, 1 mostly non-empty
static void makeOwner(Scn& sc, Rng& r, int o, int profile, int nsMode)
{
  int n = static_cast<int>(r.range(2, 6));
  std::vector<int> all = {1, 2, 3, 4, 5, 6}, names;
  for (int i = 0; i < n; ++i)
  {
    size_t j = r.below(all.size());
    names.push_back(all[j]);
    all.erase(all.begin() + static_cast<long>(j));
  }
  if (r.coin()) std::sort(names.begin(), names.end());
  std::vector<long> vals;
  std::vector<Con> cons;
  long V = sc.V();
  for (int i = 0; i < n; ++i)
  {
    bool c = profile == 0 ? false : profile == 1 ? r.chance(1, 3) : r.chance(2, 3);
    Con k = c ? randomCon(r, V) : noCon();
    std::vector<long> ok;
    for (long x = 1; x <= V; ++x)
      if (k.accepts(x)) ok.push_back(x);
    cons.push_back(k);
    vals.push_back(ok[r.below(ok.size())]);
  }
  int ns = (nsMode == 1 ? r.chance(4, 5) : r.chance(1, 5)) ? static_cast<int>(r.range(1, NNS - 1)) : 0;
  sc.opNew(o, ns, names, vals, cons);
}

static int pickName(Rng& r, const View& v, bool allowUnknown)
{
  if (allowUnknown && r.chance(1, 12)) return static_cast<int>(r.range(1, 7));
  return v.names[r.below(v.names.size())];
}

// make every follower equal to its source again: write a fresh common value to every root
static bool normalise(Scn& sc, Rng& r, int o)
{
  View v = sc.view(o);
  std::vector<long> cand;
  for (long g = 1; g <= sc.V(); ++g)
  {
    bool ok = true;
    for (int p : v.names)
      if (!accepts(v, p, g) || v.val.at(p) == g) ok = false;
    if (ok) cand.push_back(g);
  }
  if (cand.empty()) return false;
  long g = cand[r.below(cand.size())];
  std::vector<int> all = v.names;
  for (int p : all)
  {
    View w = sc.view(o);
    if (w.from.at(p) != 0) continue;
    std::vector<std::pair<int, long>> ws = {std::make_pair(p, g)};
    if (!g_allowSC && writesDiverge(w, ws)) return false;
    sc.opSet(o, p, g);
  }
  return coherent(sc.view(o));
}

static void randomOp(Scn& sc, Rng& r, int nsMode)
{
  std::vector<int> live;
  for (auto& kv : sc.own) live.push_back(kv.first);
  if (live.empty())
  {
    makeOwner(sc, r, 1, static_cast<int>(r.below(3)), nsMode);
    return;
  }
  int o = live[r.below(live.size())];
  View v = sc.view(o);
  size_t dice = r.below(100);
  ++g_calls;
  if (dice < 20)
  { // alias: any pair; two thirds of the time a pair the relation allows (constraints may still refuse)
    for (int t = 0; t < 6; ++t)
    {
      int a = pickName(r, v, true), b = pickName(r, v, true);
      if (r.chance(2, 3) && aliasRefused(v, a, b)) continue;
      sc.opAlias(o, a, b);
      return;
    }
    ++g_skipped;
  }
  else if (dice < 28)
  { // unalias
    std::vector<int> al;
    for (int p : v.names)
      if (v.from.at(p) != 0) al.push_back(p);
    if (!al.empty() && r.chance(3, 4))
    {
      int b = al[r.below(al.size())];
      sc.opUnalias(o, v.from.at(b), b);
    }
    else sc.opUnalias(o, pickName(r, v, true), pickName(r, v, true));
  }
  else if (dice < 38)
  { // bulk alias; every follower equals its source beforehand (keeps clear of the known short-circuit divergence)
    if (!g_allowSC && !coherent(v))
    {
      if (!r.chance(3, 4) || !normalise(sc, r, o))
      {
        ++g_skipped;
        return;
      }
      v = sc.view(o);
    }
    std::map<int, int> m;
    size_t style = r.below(4);
    std::vector<int> ind(v.indep.begin(), v.indep.end());
    if (style == 0 && ind.size() >= 2)
    { // a chain / star over independent parameters, random direction
      for (size_t i = ind.size() - 1; i > 0; --i) std::swap(ind[i], ind[r.below(i + 1)]);
      size_t len = 1 + r.below(ind.size() - 1);
      for (size_t i = 0; i < len; ++i) m[ind[i]] = r.chance(3, 4) ? ind[i + 1] : ind[r.below(ind.size())];
    }
    else
    {
      size_t len = r.below(std::min<size_t>(v.names.size(), 4) + 1);
      for (size_t i = 0; i < len; ++i) m[pickName(r, v, true)] = pickName(r, v, true);
    }
    sc.opBulkAlias(o, m, r.chance(2, 3));
  }
  else if (dice < 58)
  { // set by name: any value (the parameter's or a follower's constraint may refuse it)
    for (int t = 0; t < 8; ++t)
    {
      int a = pickName(r, v, true);
      long x = r.range(1, sc.V());
      std::vector<std::pair<int, long>> ws = {std::make_pair(a, x)};
      if (v.hasp(a) && setAcceptable(v, a, x) && !g_allowSC && writesDiverge(v, ws)) continue;
      sc.opSet(o, a, x);
      return;
    }
    ++g_skipped;
  }
  else if (dice < 78)
  { // bulk set / match
    bool match = dice >= 68;
    for (int t = 0; t < 8; ++t)
    {
      size_t len = 1 + r.below(std::min<size_t>(v.names.size(), 4));
      std::vector<std::pair<int, long>> ws;
      std::set<int> used;
      bool refused = false;
      for (size_t i = 0; i < len; ++i)
      {
        int a = pickName(r, v, true);
        if (!used.insert(a).second) continue;
        long x = r.range(1, sc.V());
        // a listed parameter and a listed ancestor of it get the same value; a name that
        // cannot satisfy this (two relatives already listed with different values) is left out
        std::set<long> need;
        for (auto& w : ws)
          if (v.hasp(a) && v.hasp(w.first) && (anc(v, a).count(w.first) || anc(v, w.first).count(a))) need.insert(w.second);
        if (need.size() > 1) continue;
        if (need.size() == 1) x = *need.begin();
        ws.push_back(std::make_pair(a, x));
        if (v.hasp(a) && !setAcceptable(v, a, x)) refused = true;
      }
      if (ws.empty()) continue;
      if (!refused && !g_allowSC && writesDiverge(v, ws)) continue;
      sc.opWrites(o, ws, match);
      return;
    }
    ++g_skipped;
  }
  else if (dice < 84)
  { // copy-construct into a free id
    for (int t = 1; t <= 3; ++t)
      if (!sc.own.count(t))
      {
        sc.opCopy(o, t);
        return;
      }
    sc.opDrop(live[r.below(live.size())]);
  }
  else if (dice < 90)
  { // assign (also into itself)
    int t = live[r.below(live.size())];
    sc.opAssign(o, t);
  }
  else if (dice < (nsMode == 1 ? 97u : 95u)) sc.opSetNs(o, static_cast<int>(r.below(NNS)));
  else if (dice < 98)
  {
    for (int t = 1; t <= 3; ++t)
      if (!sc.own.count(t))
      {
        makeOwner(sc, r, t, static_cast<int>(r.below(3)), nsMode);
        return;
      }
    ++g_skipped;
  }
  else if (live.size() > 1) sc.opDrop(o);
  else ++g_skipped;
}

static void modeRandom(Rng& r, long n)
{
  for (long i = 0; i < n; ++i)
  {
    reset("random", i);
    int nsMode = (i % 2 == 1) ? 1 : 0; // every other history lives under non-empty namespaces
    Scn sc(makePool(r, static_cast<size_t>(r.range(4, 6))));
    makeOwner(sc, r, 1, static_cast<int>(r.below(3)), nsMode);
    long len = r.range(12, 40);
    for (long k = 0; k < len; ++k) randomOp(sc, r, nsMode);
  }
}

// every map over the names 1..k plus the unknown name k+1 as a possible source
static void modeMaps(Rng& r, int k)
{
  std::vector<int> names;
  for (int i = 1; i <= k; ++i) names.push_back(i);
  long nmaps = 1;
  for (int i = 0; i < k; ++i) nmaps *= (k + 2); // per key: absent, or one of k+1 sources
  std::vector<std::pair<int, int>> pre;
  pre.push_back(std::make_pair(0, 0));
  for (int a = 1; a <= k; ++a)
    for (int b = 1; b <= k; ++b)
      if (a != b) pre.push_back(std::make_pair(a, b));
  long id = 0;
  for (auto& pl : pre)
    for (long code = 0; code < nmaps; ++code)
    {
      std::map<int, int> m;
      long c = code;
      for (int key = 1; key <= k; ++key)
      {
        int s = static_cast<int>(c % (k + 2));
        c /= (k + 2);
        if (s != 0) m[key] = s;
      }
      reset("maps", id++);
      Scn sc(makePool(r, 4));
      std::vector<long> vals;
      std::vector<Con> cons;
      for (int i = 0; i < k; ++i)
      {
        vals.push_back(r.range(1, 4));
        cons.push_back(noCon());
      }
      sc.opNew(1, 0, names, vals, cons);
      if (pl.first != 0)
      {
        sc.opAlias(1, pl.first, pl.second);
        sc.opSet(1, pl.first, 1 + (sc.view(1).val.at(pl.first) % 4)); // makes the follower equal to its source
      }
      sc.opBulkAlias(1, m);
      // the links that exist now must propagate
      View v = sc.view(1);
      std::vector<int> all = v.names;
      for (int p : all)
        if (v.from.at(p) == 0)
        {
          long x = 1 + (v.val.at(p) % 4);
          std::vector<std::pair<int, long>> ws = {std::make_pair(p, x)};
          if (!writesDiverge(v, ws)) sc.opSet(1, p, x);
          v = sc.view(1);
        }
    }
}

static void newPlain(Scn& sc, int o, const std::vector<int>& names, const std::vector<long>& vals, int ns = 0)
{
  std::vector<Con> cons(names.size(), noCon());
  sc.opNew(o, ns, names, vals, cons);
}

static std::vector<double> plainPool(size_t n)
{
  std::vector<double> p;
  for (size_t i = 0; i < n; ++i) p.push_back(-3.5 + 2.25 * static_cast<double>(i));
  return p;
}

struct Scn;
static void probeHistory(Scn& sc);

static void modeScripted(Rng& r, long only)
{
  long id = 0;
  auto want = [&](long k) { return only < 0 || only == k; };
  if (want(0))
  { // chain given in non-topological key order, then propagation through the chain
    reset("scripted", id++);
    Scn sc(makePool(r, 5));
    newPlain(sc, 1, {1, 2, 3}, {1, 1, 1});
    sc.opBulkAlias(1, {{1, 2}, {2, 3}});
    sc.opSet(1, 3, 4);
    sc.opSet(1, 3, 2);
  }
  if (want(1))
  { // two-cycle in a map
    reset("scripted", id++);
    Scn sc(makePool(r, 5));
    newPlain(sc, 1, {1, 2, 3}, {1, 2, 3});
    sc.opBulkAlias(1, {{1, 2}, {2, 1}});
    sc.opSet(1, 1, 5);
  }
  if (want(2))
  { // self alias, reverse link, three-cycle
    reset("scripted", id++);
    Scn sc(makePool(r, 5));
    newPlain(sc, 1, {1, 2, 3}, {1, 2, 3});
    sc.opAlias(1, 1, 1);
    sc.opAlias(1, 1, 2);
    sc.opAlias(1, 2, 1);
    sc.opAlias(1, 2, 3);
    sc.opAlias(1, 3, 1);
    sc.opSet(1, 1, 4);
    sc.opUnalias(1, 1, 2);
    sc.opSet(1, 1, 5);
    sc.opSet(1, 2, 1);
  }
  if (want(3))
  { // assignment into a non-empty owner with its own links, then updates on both sides
    reset("scripted", id++);
    Scn sc(makePool(r, 6));
    newPlain(sc, 1, {1, 2, 3}, {1, 2, 3});
    newPlain(sc, 2, {1, 2, 3, 4}, {4, 4, 4, 4});
    sc.opAlias(1, 1, 2);
    sc.opAlias(2, 3, 1);
    sc.opAlias(2, 3, 4);
    sc.opAssign(1, 2);
    sc.opSet(2, 1, 5);
    sc.opSet(2, 3, 6);
    sc.opSet(1, 1, 6);
    sc.opUnalias(2, 1, 2);
    sc.opAssign(2, 2);
    sc.opSet(2, 1, 1);
  }
  if (want(4))
  { // copy under a namespace, rename, destroy the original, update the copy
    reset("scripted", id++);
    Scn sc(makePool(r, 6));
    newPlain(sc, 1, {2, 4, 5}, {1, 2, 3});
    sc.opAlias(1, 4, 2);
    sc.opSetNs(1, 1);
    sc.opAlias(1, 2, 5);
    sc.opCopy(1, 2);
    sc.opSetNs(2, 2);
    sc.opSet(2, 4, 6);
    sc.opDrop(1);
    sc.opSet(2, 4, 5);
    sc.opUnalias(2, 4, 2);
    sc.opSetNs(2, 0);
    sc.opSet(2, 2, 1);
  }
  if (want(5))
  { // constraints: adopt, intersect, refuse a value outside
    reset("scripted", id++);
    Scn sc(plainPool(6));
    sc.opNew(1, 0, {1, 2, 3}, {3, 3, 3}, {noCon(), mkCon(2, 5), mkCon(1, 4)});
    sc.opAlias(1, 1, 2);
    sc.opSet(1, 1, 6);
    sc.opAlias(1, 2, 3);
    sc.opSet(1, 1, 5); // p1 follows nothing, p3's constraint reaches it through p2: refused, nothing moves
    sc.opSet(1, 1, 4);
    sc.opSet(1, 1, 2);
  }
  if (want(6))
  { // born under a namespace; links, cycle refusals, renames non-empty -> non-empty -> empty -> non-empty
    reset("scripted", id++);
    Scn sc(plainPool(6));
    newPlain(sc, 1, {1, 2, 3, 4}, {1, 2, 3, 4}, 1);
    sc.opAlias(1, 1, 2);
    sc.opAlias(1, 2, 3);
    sc.opAlias(1, 3, 1); // three-cycle under a namespace
    sc.opAlias(1, 2, 2);
    sc.opSet(1, 1, 5);
    sc.opSetNs(1, 3);
    sc.opSet(1, 1, 6);
    sc.opAlias(1, 3, 4);
    sc.opAlias(1, 4, 1); // four-cycle after a rename
    sc.opSetNs(1, 2);
    sc.opUnalias(1, 2, 3);
    sc.opSet(1, 1, 1);
    sc.opSet(1, 3, 2);
    sc.opSetNs(1, 0);
    sc.opSet(1, 1, 3);
    sc.opSetNs(1, 1);
    sc.opAlias(1, 2, 3);
    sc.opSet(1, 1, 4);
    sc.opUnalias(1, 1, 2);
    sc.opSet(1, 2, 6);
    sc.opSet(1, 1, 5);
  }
  if (want(7))
  { // copy, assignment and bulk alias (both spellings of the map) under non-empty namespaces
    reset("scripted", id++);
    Scn sc(plainPool(6));
    newPlain(sc, 1, {1, 2, 3}, {1, 1, 1}, 2);
    newPlain(sc, 2, {1, 2, 3, 4}, {2, 2, 2, 2}, 3);
    sc.opAlias(2, 4, 1);
    sc.opBulkAlias(1, {{1, 2}, {2, 3}}, true);
    sc.opBulkAlias(1, {{1, 2}, {2, 3}}, false);
    sc.opBulkAlias(1, {}, true);
    sc.opAlias(1, 3, 2);
    sc.opCopy(1, 3);
    sc.opSetNs(3, 1);
    sc.opAlias(3, 2, 1);
    sc.opSet(3, 3, 4);
    sc.opSet(1, 3, 5);
    sc.opAssign(3, 2); // owner 2 (other namespace, other parameters, own link) := owner 3
    sc.opSet(2, 3, 6);
    sc.opSet(3, 3, 2);
    sc.opSetNs(2, 2);
    sc.opUnalias(2, 2, 1);
    sc.opSet(2, 3, 1);
    sc.opAssign(2, 1);
    sc.opSet(1, 3, 3);
  }
  if (want(8))
  { // a current value outside the constraint it would get: the link is refused and nothing changes
    reset("scripted", id++);
    Scn sc(plainPool(6));
    sc.opNew(1, 0, {1, 2, 3}, {5, 3, 2}, {mkCon(2, 6), mkCon(1, 4), noCon()});
    sc.opAlias(1, 1, 2); // p2 fits [2,4], p1 = 5 does not
    sc.opAlias(1, 3, 2); // p3 unconstrained would adopt [1,4]: 2 fits
    sc.opSet(1, 3, 5);   // p3 now [1,4]: refused
    sc.opSet(1, 3, 4);
  }
  if (want(9))
  { // the chain above the source is restricted too; a write a follower would reject is refused as a whole
    reset("scripted", id++);
    Scn sc(plainPool(6));
    sc.opNew(1, 0, {1, 2, 3, 4}, {3, 3, 3, 6}, {noCon(), mkCon(1, 6), mkCon(2, 4), noCon()});
    sc.opAlias(1, 1, 2); // p2 follows p1
    sc.opAlias(1, 2, 3); // p3 follows p2: p2, p3 share [2,4] and p1 must not push 5 down
    sc.opSet(1, 1, 5);
    sc.opWrites(1, {{4, 1}, {1, 6}}, false);
    sc.opWrites(1, {{4, 2}, {1, 1}}, true);
    sc.opSet(1, 1, 4);
    sc.opNew(2, 0, {1, 2, 3}, {6, 3, 3}, {noCon(), noCon(), mkCon(2, 4)});
    sc.opAlias(2, 1, 2);
    sc.opAlias(2, 2, 3); // p1 = 6 could never be handed down: refused
    sc.opSet(2, 1, 3);
    sc.opAlias(2, 2, 3);
  }
  if (want(10))
  { // open bounds, equal bounds with different flags, bounds that agree in six digits
    reset("scripted", id++);
    std::vector<double> p = {-2.0, 1.0, 123.4567891, 123.4567892, 400.0, 512.5};
    Scn sc(p);
    sc.opNew(1, 0, {1, 2, 3, 4}, {3, 4, 5, 4}, {mkCon(2, 5, false, true), mkCon(2, 5, true, false), mkCon(3, 6), mkCon(4, 6)});
    sc.opAlias(1, 1, 2); // ]p2;p5] & [p2;p5[ = ]p2;p5[
    sc.opSet(1, 1, 2);
    sc.opSet(1, 1, 5);
    sc.opAlias(1, 3, 4); // [p3;p6] and [p4;p6] have the same description but p3 < p4
    sc.opSet(1, 3, 3);   // 123.4567891 is below the shared lower bound 123.4567892: refused
    sc.opSet(1, 3, 6);
  }
  if (want(11))
  { // chains whose middle already holds the written value
    reset("scripted", id++);
    Scn sc(plainPool(6));
    probeHistory(sc);
  }
}

static void probeHistory(Scn& sc)
{
  newPlain(sc, 1, {1, 2, 3, 4}, {1, 2, 3, 4});
  sc.opAlias(1, 1, 2);
  sc.opAlias(1, 2, 3);
  sc.opAlias(1, 3, 4);
  sc.opSet(1, 1, 2); // p2 already holds the value: p3 and p4 must follow nevertheless
  sc.opSet(1, 3, 5);
  sc.opSet(1, 4, 6);
  sc.opWrites(1, {{1, 5}}, true); // p2 moves, p3 holds 5 already, p4 = 6 must become 5
  sc.opSet(1, 2, 1);
  sc.opWrites(1, {{1, 1}}, false); // p2, p3, p4 hold 1 already
}

static void modeProbe(Rng& r)
{
  reset("probe", 0);
  Scn sc(makePool(r, 6));
  probeHistory(sc);
}

// runaway recursion in the library exhausts the stack: the SIGSEGV handler needs its own
static void installAltStack()
{
  static char stack[1 << 16];
  stack_t ss;
  ss.ss_sp = stack;
  ss.ss_size = sizeof stack;
  ss.ss_flags = 0;
  sigaltstack(&ss, nullptr);
  struct sigaction sa;
  memset(&sa, 0, sizeof sa);
  sa.sa_handler = vt::onSignal;
  sa.sa_flags = SA_ONSTACK;
  sigemptyset(&sa.sa_mask);
  sigaction(SIGSEGV, &sa, nullptr);
  sigaction(SIGBUS, &sa, nullptr);
}

int main(int argc, char** argv)
{
  vt::installParamAudit(); // C01: audit of every Parameter of the process when VERIF_PARAM_AUDIT=<file> is set
  installCrashHandlers();
  installAltStack();
  bpp::ApplicationTools::warning = nullptr;
  bpp::ApplicationTools::message = nullptr;
  std::string out = argStr(argc, argv, "--out", "");
  std::string mode = argStr(argc, argv, "--mode", "random");
  if (out.empty() || !tracer().open(out))
  {
    fprintf(stderr, "cannot open --out\n");
    return 2;
  }
  g_allowSC = argInt(argc, argv, "--steer-sc", 0) == 0;
  Rng r(envSeed() * 7919ULL + 31ULL * static_cast<uint64_t>(argInt(argc, argv, "--stream", 0)));
  if (mode == "random") modeRandom(r, argInt(argc, argv, "--n", 100));
  else if (mode == "maps") modeMaps(r, static_cast<int>(argInt(argc, argv, "--k", 3)));
  else if (mode == "scripted") modeScripted(r, argInt(argc, argv, "--only", -1));
  else if (mode == "probe") modeProbe(r);
  tracer().close();
  printf("{\"scenarios\":%ld,\"calls\":%ld,\"skipped\":%ld,\"events\":%ld}\n", g_scen, g_calls, g_skipped, tracer().count());
  return 0;
}
