// Conformance driver for C20 (src/Bpp/Numeric/Range.h): Range<T>, RangeSet<T>,
// MultiRange<T> for T = int, unsigned, double.  Header-only subsystem: compiled
// straight from $VERIF_REPO/src.
//
//   drv_range --out F --mode random --n N          random histories (<=12 ops, 0..24)
//   drv_range --out F --mode bfs --u U              every transition of the reachable
//                                                   state graph over 0..U (via copies)
//   drv_range --out F --mode prims --u U            Range primitives on all pairs over 0..U
#include "tracer.h"

#include <Bpp/Exceptions.h>
#include <Bpp/Numeric/Range.h>

#include <deque>
#include <map>
#include <memory>
#include <set>

using namespace vt;

template<class T> struct Codec
{
  long scale; // coordinate k is the value k / scale
  T enc(long k) const { return static_cast<T>(static_cast<double>(k) / static_cast<double>(scale)); }
  long dec(T x) const
  {
    double s = static_cast<double>(x) * static_cast<double>(scale);
    if (s != static_cast<double>(static_cast<long>(s)) || s > 1e8 || s < -1e8) return -999999; // not on the grid
    return static_cast<long>(s);
  }
};

template<class T> class Runner
{
public:
  Codec<T> cd;
  std::string tname;
  std::map<int, std::unique_ptr<bpp::RangeCollection<T>>> objs;
  std::map<int, std::string> kind;
  long scenarios = 0;

  Runner(long scale, const std::string& tn) : cd{scale}, tname(tn), objs(), kind() {}

  bpp::Range<T> mk(long a, long b) const { return bpp::Range<T>(cd.enc(a), cd.enc(b)); }

  Arr proj(int id) const
  {
    const bpp::RangeCollection<T>& c = *objs.at(id);
    Arr rs, bd;
    for (size_t i = 0; i < c.size(); ++i)
    {
      const bpp::Range<T>& r = c.getRange(i);
      rs.add(Arr().add(cd.dec(r.begin())).add(cd.dec(r.end())));
    }
    if (kind.at(id) == "mr")
    {
      const auto* m = dynamic_cast<const bpp::MultiRange<T>*>(&c);
      for (T x : m->getBounds()) bd.add(cd.dec(x));
    }
    else
    {
      const auto* s = dynamic_cast<const bpp::RangeSet<T>*>(&c);
      for (const auto* r : s->getSet())
      {
        bd.add(cd.dec(r->begin()));
        bd.add(cd.dec(r->end()));
      }
    }
    long tl = cd.scale == 1 ? static_cast<long>(c.totalLength()) : -1;
    return Arr().add(id).add(rs).add(bd).add(tl).add(c.isEmpty()).add(c.size());
  }
  std::string key(int id) const
  {
    const bpp::RangeCollection<T>& c = *objs.at(id);
    std::string k;
    for (size_t i = 0; i < c.size(); ++i)
      k += std::to_string(cd.dec(c.getRange(i).begin())) + "," + std::to_string(cd.dec(c.getRange(i).end())) + ";";
    return k;
  }
  Arr watch(const std::vector<int>& ids) const
  {
    Arr w;
    for (int id : ids)
      if (objs.count(id)) w.add(proj(id));
    return w;
  }
  std::vector<int> all() const
  {
    std::vector<int> v;
    for (const auto& kv : objs) v.push_back(kv.first);
    return v;
  }

  void reset()
  {
    objs.clear();
    kind.clear();
    tracer().emit(Obj().kv("e", "Reset").kv("t", tname));
    ++scenarios;
  }
  void doNew(int id, const std::string& k, const std::vector<int>& w)
  {
    if (k == "mr") objs[id].reset(new bpp::MultiRange<T>());
    else objs[id].reset(new bpp::RangeSet<T>());
    kind[id] = k;
    tracer().emit(Obj().kv("e", "New").kv("o", id).kv("k", k).kv("w", watch(w)));
  }
  void doCopy(int from, int to, bool assign, const std::vector<int>& w)
  {
    Guard g;
    if (kind[from] == "mr")
    {
      auto* src = dynamic_cast<bpp::MultiRange<T>*>(objs[from].get());
      if (assign && objs.count(to)) *dynamic_cast<bpp::MultiRange<T>*>(objs[to].get()) = *src;
      else objs[to].reset(new bpp::MultiRange<T>(*src));
    }
    else
    {
      auto* src = dynamic_cast<bpp::RangeSet<T>*>(objs[from].get());
      if (assign && objs.count(to)) *dynamic_cast<bpp::RangeSet<T>*>(objs[to].get()) = *src;
      else objs[to].reset(new bpp::RangeSet<T>(*src));
    }
    kind[to] = kind[from];
    tracer().emit(Obj().kv("e", "Copy").kv("o", from).kv("o2", to).kv("how", assign ? "assign" : "ctor").kv("w", watch(w)));
  }
  void doDrop(int id, const std::vector<int>& w)
  {
    {
      Guard g;
      objs.erase(id);
    }
    kind.erase(id);
    tracer().emit(Obj().kv("e", "Drop").kv("o", id).kv("w", watch(w)));
  }
  // op: 0 add, 1 restrict, 2 filter, 3 clear
  void doOp(int id, int op, long a, long b, const std::vector<int>& w)
  {
    bpp::RangeCollection<T>& c = *objs.at(id);
    bool mr = kind[id] == "mr";
    const char* nm = "";
    {
      Guard g;
      switch (op)
      {
      case 0: c.addRange(mk(a, b)); nm = mr ? "Add" : "AddS"; break;
      case 1: c.restrictTo(mk(a, b)); nm = mr ? "Restrict" : "RestrictS"; break;
      case 2: c.filterWithin(mk(a, b)); nm = mr ? "Filter" : "FilterS"; break;
      default: c.clear(); nm = "Clear"; break;
      }
    }
    Obj e;
    e.kv("e", nm).kv("o", id);
    if (op != 3) e.kv("a", a).kv("b", b);
    e.kv("w", watch(w));
    tracer().emit(e);
  }

  // ------------------------------------------------------------ random histories
  void random(Rng& rng, long n, long umax)
  {
    for (long s = 0; s < n; ++s)
    {
      reset();
      std::string k = rng.chance(2, 3) ? "mr" : "rs";
      int next = 1;
      doNew(next++, k, {1});
      long len = rng.range(1, 12);
      // a few anchor coordinates make touching / nested / equal end points frequent
      std::vector<long> anchors;
      for (int i = 0; i < 5; ++i) anchors.push_back(rng.range(0, umax));
      auto coord = [&]() { return rng.chance(3, 5) ? anchors[rng.below(anchors.size())] : rng.range(0, umax); };
      for (long i = 0; i < len; ++i)
      {
        std::vector<int> ids = all();
        int id = ids[rng.below(ids.size())];
        size_t r = rng.below(100);
        if (r < 45) doOp(id, 0, coord(), coord(), all());
        else if (r < 62) doOp(id, 1, coord(), coord(), all());
        else if (r < 74) doOp(id, 2, coord(), coord(), all());
        else if (r < 78) doOp(id, 3, 0, 0, all());
        else if (r < 92)
        {
          bool assign = ids.size() > 1 && rng.coin();
          int to = next;
          if (assign)
          {
            do to = ids[rng.below(ids.size())];
            while (to == id);
          }
          else if (ids.size() >= 3) { doOp(id, 0, coord(), coord(), all()); continue; }
          else ++next;
          std::vector<int> w = all();
          if (!assign) w.push_back(to);
          doCopy(id, to, assign, w);
        }
        else if (ids.size() > 1)
        {
          std::vector<int> w;
          for (int x : ids) if (x != id) w.push_back(x);
          doDrop(id, w);
        }
        else doOp(id, 0, coord(), coord(), all());
      }
    }
  }

  // ------------------------------------------------------------ exhaustive: every transition over 0..u
  // Each reachable state is rebuilt in its own scenario (by adding its ranges,
  // itself a legal history) and every operation instance over 0..u is applied
  // to a copy of it; new states join the queue.
  void bfs(const std::string& k, long u, size_t maxSize)
  {
    typedef std::vector<std::pair<long, long>> St;
    auto stateOf = [&](int id) {
      St st;
      const bpp::RangeCollection<T>& c = *objs.at(id);
      for (size_t i = 0; i < c.size(); ++i) st.push_back(std::make_pair(cd.dec(c.getRange(i).begin()), cd.dec(c.getRange(i).end())));
      return st;
    };
    std::set<St> seen;
    std::deque<St> queue;
    seen.insert(St());
    queue.push_back(St());
    while (!queue.empty())
    {
      // The canonical states over 0..u number a few hundred (Fibonacci-like); an implementation whose
      // reachable state set explodes is not behaving as a point set: report it instead of running on.
      if (seen.size() > 3000)
      {
        tracer().emit(Obj().kv("e", "StateExplosion").kv("k", k).kv("states", seen.size()));
        return;
      }
      St st = queue.front();
      queue.pop_front();
      reset();
      doNew(1, k, {1});
      for (const auto& r : st) doOp(1, 0, r.first, r.second, {1});
      for (int op = 0; op < 4; ++op)
        for (long a = 0; a <= u; ++a)
          for (long b = 0; b <= u; ++b)
          {
            if (op == 3 && (a != 0 || b != 0)) continue;
            // reversed arguments only on a diagonal band (the constructor swaps them)
            if (a > b && (a + b) % 3 != 0) continue;
            doCopy(1, 2, false, {1, 2});
            doOp(2, op, a, b, {1, 2});
            St nx = stateOf(2);
            if (!seen.count(nx) && nx.size() <= maxSize)
            {
              seen.insert(nx);
              queue.push_back(nx);
            }
            doDrop(2, {1});
          }
    }
  }

  // ------------------------------------------------------------ Range primitives
  void prims(long u)
  {
    reset();
    long step = 1;
    long kk = 0;
    for (long a = 0; a <= u; ++a)
      for (long b = 0; b <= u; ++b)
        for (long c = 0; c <= u; ++c)
          for (long d = 0; d <= u; ++d)
          {
            long k = (kk++ % 5) * step;
            bpp::Range<T> r = mk(a * step, b * step), q = mk(c * step, d * step);
            auto pr = [&](const bpp::Range<T>& x) { return Arr().add(cd.dec(x.begin())).add(cd.dec(x.end())); };
            Obj e;
            e.kv("e", "Prim").kv("t", tname).kv("a", a * step).kv("b", b * step).kv("c", c * step).kv("d", d * step).kv("k", k);
            e.kv("mk", pr(r)).kv("mq", pr(q));
            e.kv("len", cd.dec(r.length())).kv("emp", r.isEmpty());
            bpp::Range<T> sh = r + cd.enc(k);
            e.kv("sh", pr(sh));
            bpp::Range<T> ush(sh);
            ush -= cd.enc(k);
            e.kv("ush", pr(ush));
            // shifts by the range's own end points (the argument may alias the object)
            bpp::Range<T> sb(r);
            sb -= sb.begin();
            e.kv("sb", pr(sb));
            bpp::Range<T> ab(r);
            ab += ab.begin();
            e.kv("ab", pr(ab));
            bpp::Range<T> ae(r);
            ae += ae.end();
            e.kv("ae", pr(ae));
            // shift below the origin (wraps for unsigned coordinates): the length must still be preserved
            bpp::Range<T> dn = r - cd.enc(b * step + 1 > a * step + 1 ? (a < b ? a : b) * step + 1 : 1);
            e.kv("dnlen", cd.dec(dn.length()));
            bpp::Range<T> dn2(r);
            dn2 -= cd.enc((a < b ? a : b) * step + 1);
            e.kv("dn2len", cd.dec(dn2.length()));
            e.kv("ov", r.overlap(q)).kv("ct", r.contains(q)).kv("cg", r.isContiguous(q));
            bpp::Range<T> ex(r);
            ex.expandWith(q);
            e.kv("ex", pr(ex));
            bpp::Range<T> sl(r);
            sl.sliceWith(q);
            e.kv("sl", pr(sl));
            e.kv("eq", r == q && !(r != q));
            tracer().emit(e);
          }
  }
};

template<class T> long runAll(const std::string& mode, long scale, const std::string& tn, uint64_t seed, long n, long u)
{
  Runner<T> R(scale, tn);
  Rng rng(seed * 1000003ULL + static_cast<uint64_t>(scale) * 7919ULL + tn.size());
  if (mode == "random") R.random(rng, n, 24 * scale);
  else if (mode == "bfs")
  {
    R.bfs("mr", u, static_cast<size_t>(u) + 2); // states with more ranges than cells are reported, not expanded
    R.bfs("rs", u > 3 ? 3 : u, 2);
  }
  else if (mode == "prims") R.prims(u);
  return R.scenarios;
}

int main(int argc, char** argv)
{
  std::string out = argStr(argc, argv, "--out", "");
  std::string mode = argStr(argc, argv, "--mode", "random");
  std::string types = argStr(argc, argv, "--types", "int,unsigned,double,double4");
  long n = argInt(argc, argv, "--n", 100);
  long u = argInt(argc, argv, "--u", 5);
  if (out.empty() || !tracer().open(out))
  {
    fprintf(stderr, "drv_range: cannot open --out\n");
    return 2;
  }
  installCrashHandlers();
  uint64_t seed = envSeed();
  long sc = 0;
  std::set<std::string> ts;
  {
    std::stringstream ss(types);
    std::string t;
    while (std::getline(ss, t, ',')) ts.insert(t);
  }
  if (ts.count("int")) sc += runAll<int>(mode, 1, "int", seed, n, u);
  if (ts.count("unsigned")) sc += runAll<unsigned>(mode, 1, "unsigned", seed, n, u);
  if (ts.count("double")) sc += runAll<double>(mode, 1, "double", seed, n, u);
  if (ts.count("double4")) sc += runAll<double>(mode, 4, "double4", seed, n, u);
  tracer().close();
  printf("{\"scenarios\":%ld,\"events\":%ld}\n", sc, tracer().count());
  return 0;
}
