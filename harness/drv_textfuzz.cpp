// Driver for C16 (reduced form): every text / option parsing entry point is
// called on (a) every string over a small per-entry alphabet up to a length
// bound x every option variant and (b) seeded grammar-aware strings (up to
// 4 KiB) with random corruption.  One process per entry point and batch; the
// library and this driver are built with ASan + UBSan.
//
// Trace: {"e":"Begin","entry":E,"v":variant,"i":index,"in":[bytes]} is written
// and flushed before the call, {"e":"End","entry":E,"out":"value"|"raise"|
// "raise_std"|"raise_other","x":class} after it returned or raised.  A
// sanitizer report / signal becomes {"e":"Crash"}, a call that exceeds its
// budget {"e":"Hang"} (tracer.h); the process then ends and the orchestrator
// restarts the batch after the offending input.  A completed batch ends with
// {"e":"Done"}.  ParserOutcome.tla accepts only Begin -> End(value | raise).
//
//   drv_textfuzz --list 1
//   drv_textfuzz --out F --entry E --batch exh    --budget B [--start K]
//   drv_textfuzz --out F --entry E --batch seeded --n N     [--start K]
//   drv_textfuzz --out F --entry E --batch dict             [--start K]   systematic extreme / degenerate arguments
#include "drv_text_gen.h"

#include <Bpp/App/ApplicationTools.h>
#include <Bpp/App/NumCalcApplicationTools.h>
#include <Bpp/Exceptions.h>
#include <Bpp/Io/BppODiscreteDistributionFormat.h>
#include <Bpp/Io/FileTools.h>
#include <Bpp/Numeric/Constraints.h>
#include <Bpp/Numeric/DataTable.h>
#include <Bpp/Numeric/Function/Operators/ComputationTree.h>
#include <Bpp/Numeric/Matrix/Matrix.h>
#include <Bpp/Numeric/Parameter.h>
#include <Bpp/Numeric/ParameterList.h>
#include <Bpp/Numeric/Prob/DiscreteDistribution.h>
#include <Bpp/Text/KeyvalTools.h>
#include <Bpp/Text/NestedStringTokenizer.h>
#include <Bpp/Text/StringTokenizer.h>
#include <Bpp/Text/TextTools.h>
#include <Bpp/Utils/AttributesTools.h>

#include <cmath>
#include <functional>
#include <sstream>

using namespace vt;
using namespace tg;

static const char decs_[] = {'.', ',', ',', '.', ';'};
static const char scis_[] = {'e', 'E', 'e', 'd', 'x'};
static volatile size_t g_sink = 0;
// results are consumed the way a caller would: strings are copied and read through
static void sink(const std::string& s)
{
  std::string c(s);
  size_t h = c.size();
  for (unsigned char ch : c) h = h * 31 + ch;
  g_sink += h;
}
static void sink(size_t n) { g_sink += n; }
static void sink(unsigned n) { g_sink += n; }
static void sink(double d) { g_sink += d > 0 ? 1 : 2; }
template<class C> static void sinkAll(const C& c)
{
  for (const auto& s : c) sink(s);
}

enum Kind { K_NUMBER, K_WORDS, K_TOKENS, K_PROC, K_OPTIONS, K_VARS, K_VECTOR, K_EDIT, K_GLOB, K_PATH, K_TABLE, K_DIST, K_INTERVAL, K_FORMULA, K_SEQ };

struct Entry
{
  std::string name;
  std::string alpha;
  int variants;
  Kind kind;
  std::function<void(const std::string&, int)> run;
};

static std::vector<std::string> linesOf(const std::string& s)
{
  std::vector<std::string> v;
  std::string cur;
  for (char c : s)
  {
    if (c == '\n')
    {
      v.push_back(cur);
      cur.clear();
    }
    else cur += c;
  }
  v.push_back(cur);
  return v;
}
static std::map<std::string, std::string> mapOf(const std::string& s)
{
  std::map<std::string, std::string> m;
  for (const auto& ln : linesOf(s))
  {
    size_t p = ln.find('=');
    if (p == std::string::npos) continue;
    m[ln.substr(0, p)] = ln.substr(p + 1);
  }
  return m;
}

static void walkTokens(bpp::StringTokenizer& st, bool plain)
{
  if (plain) sink(st.unparseRemainingTokens());
  sink(st.numberOfRemainingTokens());
  size_t guard = 0;
  while (st.hasMoreToken() && ++guard < 100000)
  {
    sink(st.nextToken());
    if (plain && guard < 4) sink(st.unparseRemainingTokens());
  }
  st.removeEmptyTokens();
  if (plain) sink(st.unparseRemainingTokens());
  try
  {
    sink(st.nextToken());
  }
  catch (bpp::Exception&)
  {}
}

static std::vector<Entry> entries()
{
  namespace TT = bpp::TextTools;
  using namespace bpp;
  std::vector<Entry> e;
  static const char decs[] = {'.', ',', ',', '.', ';'};
  static const char scis[] = {'e', 'E', 'e', 'd', 'x'};

  e.push_back({"tt.spaces", "a \t\n\r", 1, K_WORDS, [](const std::string& s, int) {
                 sink(TT::isEmpty(s) ? 1u : 0u);
                 sink(TT::toUpper(s));
                 sink(TT::toLower(s));
                 sink(TT::removeWhiteSpaces(s));
                 sink(TT::removeFirstWhiteSpaces(s));
                 sink(TT::removeLastWhiteSpaces(s));
                 sink(TT::removeSurroundingWhiteSpaces(s));
                 sink(TT::removeNewLines(s));
                 sink(TT::removeLastNewLines(s));
                 sink(TT::removeChar(s, s.empty() ? 'a' : s[0]));
               }});
  e.push_back({"tt.isDecimalNumber", "01-+.,eE x", 5, K_NUMBER, [](const std::string& s, int v) { sink(TT::isDecimalNumber(s, decs[v], scis[v]) ? 1u : 0u); }});
  e.push_back({"tt.isDecimalInteger", "01-+.eE x", 5, K_NUMBER, [](const std::string& s, int v) { sink(TT::isDecimalInteger(s, scis[v]) ? 1u : 0u); }});
  e.push_back({"tt.toDouble", "019-+.,eE", 5, K_NUMBER, [](const std::string& s, int v) { sink(TT::toDouble(s, decs[v], scis[v])); }});
  e.push_back({"tt.toInt", "019-+.eE", 5, K_NUMBER, [](const std::string& s, int v) { sink(static_cast<size_t>(TT::toInt(s, scis[v]))); }});
  e.push_back({"tt.fromString", "019-+.e x", 3, K_NUMBER, [](const std::string& s, int v) {
                 if (v == 0) sink(static_cast<size_t>(TT::to<int>(s)));
                 else if (v == 1) sink(TT::to<double>(s));
                 else sink(static_cast<size_t>(TT::fromString<unsigned int>(s)));
               }});
  e.push_back({"tt.resize", "ab ", 4, K_WORDS, [](const std::string& s, int v) {
                 static const size_t sizes[] = {0, 1, 3, 100};
                 sink(TT::resizeRight(s, sizes[v], '.'));
                 sink(TT::resizeLeft(s, sizes[v], '.'));
               }});
  e.push_back({"tt.split", "ab ", 4, K_WORDS, [](const std::string& s, int v) {
                 static const size_t ns[] = {0, 1, 2, 5};
                 sinkAll(TT::split(s, ns[v]));
               }});
  e.push_back({"tt.removeSubstrings", "a()b", 2, K_PROC, [](const std::string& s, int v) {
                 if (v == 0) sink(TT::removeSubstrings(s, '(', ')'));
                 else
                 {
                   std::vector<std::string> b = {"a(", "(b"}, en = {")a", "b)"};
                   sink(TT::removeSubstrings(s, '(', ')', b, en));
                 }
               }});
  e.push_back({"tt.search", "ab", 3, K_WORDS, [](const std::string& s, int v) {
                 size_t k = std::min(static_cast<size_t>(v), s.size());
                 std::string pat = s.substr(0, k), rest = s.substr(k);
                 sink(TT::count(rest, pat));
                 sink(TT::startsWith(rest, pat) ? 1u : 0u);
                 sink(TT::endsWith(rest, pat) ? 1u : 0u);
                 sink(TT::hasSubstring(rest, pat) ? 1u : 0u);
                 std::string t = rest;
                 TT::replaceAll(t, pat, "xy");
                 sink(t);
                 t = rest;
                 TT::replaceAll(t, pat, pat + pat);
                 sink(t);
               }});
  e.push_back({"tok.plain", "a,; ", 16, K_TOKENS, [](const std::string& s, int v) {
                 static const char* ds[] = {",", ",;", " \t\n\f\r", ""};
                 StringTokenizer st(s, ds[v & 3], (v & 4) != 0, (v & 8) != 0);
                 walkTokens(st, true);
               }});
  e.push_back({"tok.nested", "a,;()", 6, K_PROC, [](const std::string& s, int v) {
                 static const char* ds[] = {",", ",;", ""};
                 NestedStringTokenizer st(s, "(", ")", ds[v % 3], v >= 3);
                 walkTokens(st, false);
               }});
  e.push_back({"kv.singleKeyval", "a=: ", 3, K_PROC, [](const std::string& s, int v) {
                 static const char* sp[] = {"=", ":=", ""};
                 std::string k, val;
                 KeyvalTools::singleKeyval(s, k, val, sp[v]);
                 sink(k);
                 sink(val);
               }});
  e.push_back({"kv.multipleKeyvals", "a=,() ", 4, K_PROC, [](const std::string& s, int v) {
                 std::map<std::string, std::string> m;
                 KeyvalTools::multipleKeyvals(s, m, (v & 1) ? " " : ",", (v & 2) != 0);
                 for (const auto& kv : m) sink(kv.first + kv.second);
               }});
  e.push_back({"kv.changeKeyvals", "a=,() ", 2, K_PROC, [](const std::string& s, int v) {
                 std::map<std::string, std::string> nw;
                 nw["a"] = "b";
                 nw["x"] = "f(y=z)";
                 sink(KeyvalTools::changeKeyvals(s, nw, ",", v != 0));
               }});
  e.push_back({"kv.parseProcedure", "a=,() ", 1, K_PROC, [](const std::string& s, int) {
                 std::string name;
                 std::map<std::string, std::string> m;
                 KeyvalTools::parseProcedure(s, name, m);
                 sink(name);
                 for (const auto& kv : m) sink(kv.first + kv.second);
               }});
  e.push_back({"at.getAttributesMap", "a=\\\n#/* ", 2, K_OPTIONS, [](const std::string& s, int v) {
                 std::map<std::string, std::string> m;
                 AttributesTools::getAttributesMap(linesOf(s), m, v ? ":" : "=");
                 for (const auto& kv : m) sink(kv.first + kv.second);
               }});
  e.push_back({"at.resolveVariables", "ab=$()\n", 1, K_VARS, [](const std::string& s, int) {
                 std::map<std::string, std::string> m = mapOf(s);
                 AttributesTools::resolveVariables(m);
                 for (const auto& kv : m) sink(kv.first + kv.second);
               }});
  e.push_back({"app.matchingParameters", "ab*", 2, K_GLOB, [](const std::string& s, int v) {
                 std::map<std::string, std::string> m = {{"", "0"}, {"a", "1"}, {"ab", "2"}, {"aba", "3"}, {"b", "4"}, {"ba*", "5"}};
                 if (v == 0) sinkAll(ApplicationTools::matchingParameters(s, m));
                 else
                 {
                   std::vector<std::string> names = {"", "a", "ab", "aba", "b", "ba*"};
                   sinkAll(ApplicationTools::matchingParameters(s, names));
                 }
               }});
  e.push_back({"app.getParameter", "01-.etrue ", 4, K_NUMBER, [](const std::string& s, int v) {
                 std::map<std::string, std::string> m = {{"p", s}, {"p.suffix", s}};
                 if (v == 0) sink(ApplicationTools::getDoubleParameter("p", m, 1.5, "", true, 5));
                 else if (v == 1) sink(static_cast<size_t>(ApplicationTools::getIntParameter("p", m, 2, ".suffix", false, 5)));
                 else if (v == 2) sink(ApplicationTools::getBooleanParameter("p", m, true, "", true, 5) ? 1u : 0u);
                 else sink(ApplicationTools::getStringParameter("p", m, "d", ".suffix", true, 5));
               }});
  // header-only templates of ApplicationTools.h, as the option parser uses them
  e.push_back({"app.getParameterT", "01-.e x", 3, K_NUMBER, [](const std::string& s, int v) {
                 std::map<std::string, std::string> m = {{"p", s}};
                 if (v == 0) sink(static_cast<size_t>(ApplicationTools::getParameter<int>("p", m, 1, "", true, 5)));
                 else if (v == 1) sink(ApplicationTools::getParameter<double>("p", m, 1.5, "", true, 5));
                 else sink(ApplicationTools::getParameter<std::string>("p", m, "d", "", true, 5));
               }});
  e.push_back({"app.getVectorParameter", "01,-() ", 5, K_VECTOR, [](const std::string& s, int v) {
                 std::map<std::string, std::string> m = {{"p", s}};
                 if (v == 0) sink(ApplicationTools::getVectorParameter<int>("p", m, ',', "", "", true, 5).size());
                 else if (v == 1) sink(ApplicationTools::getVectorParameter<double>("p", m, ',', "", "", true, 5).size());
                 else if (v == 2) sink(ApplicationTools::getVectorParameter<std::string>("p", m, ';', "", "", true, 5).size());
                 else if (v == 3) sink(ApplicationTools::getVectorParameter<int>("p", m, ',', '-', "", "", true, false).size());
                 else sink(ApplicationTools::getVectorParameter<int>("p", m, ' ', "", "", true, 5).size());
               }});
  e.push_back({"app.getVectorOfVectorsParameter", "01,() ", 2, K_VECTOR, [](const std::string& s, int v) {
                 std::map<std::string, std::string> m = {{"p", s}};
                 if (v == 0) sink(ApplicationTools::getVectorOfVectorsParameter<int>("p", m, ',', "", "", true, 5).size());
                 else sink(ApplicationTools::getVectorOfVectorsParameter<double>("p", m, ',', "", "", true, 5).size());
               }});
  e.push_back({"app.getMatrixParameter", "01,() ", 2, K_VECTOR, [](const std::string& s, int v) {
                 std::map<std::string, std::string> m = {{"p", s}};
                 if (v == 0) sink(ApplicationTools::getMatrixParameter<int>("p", m, ',', "", "", true, false).getNumberOfRows());
                 else sink(ApplicationTools::getMatrixParameter<double>("p", m, ',', "", "", true, false).getNumberOfRows());
               }});
  e.push_back({"ft.paths", "a/.\\", 4, K_PATH, [](const std::string& s, int v) {
                 if (v == 0) sink(FileTools::getFileName(s, '/'));
                 else if (v == 1) sink(FileTools::getParent(s, '/'));
                 else if (v == 2) sink(FileTools::getExtension(s));
                 else
                 {
                   sink(FileTools::getFileName(s, '\\'));
                   sink(FileTools::getParent(s, '\\'));
                 }
               }});
  e.push_back({"ft.lines", "a \n\r", 2, K_OPTIONS, [](const std::string& s, int v) {
                 std::istringstream in(s);
                 if (v == 0)
                 {
                   size_t guard = 0;
                   while (!in.eof() && ++guard < 100000) sink(FileTools::getNextLine(in));
                   sink(FileTools::getNextLine(in));
                 }
                 else sinkAll(FileTools::putStreamIntoVectorOfStrings(in));
               }});
  e.push_back({"dt.read", "ab,\n ", 12, K_TABLE, [](const std::string& s, int v) {
                 static const char* seps[] = {",", "\t", " "};
                 static const int rn[] = {-1, 0, 1, 7};
                 std::istringstream in(s);
                 auto t = DataTable::read(in, seps[v % 3], (v / 3) % 2 != 0, rn[(v / 6) % 2 + (v % 3 == 2 ? 2 : 0)]);
                 std::ostringstream os;
                 DataTable::write(*t, os, seps[v % 3], v % 2 != 0);
                 sink(os.str());
                 // a few editing calls on what was read
                 try
                 {
                   if (t->hasRowNames()) sink(t->getRowName(0));
                   if (t->hasColumnNames()) sink(t->getColumnName(0));
                   if (t->getNumberOfRows() > 0) sinkAll(t->getRow(0));
                   t->deleteRow(0);
                   t->deleteColumn(0);
                   std::ostringstream os2;
                   DataTable::write(*t, os2, ",", true);
                   sink(os2.str());
                 }
                 catch (bpp::Exception&)
                 {}
               }});
  // a program of editing calls (one letter each) on a table with two columns; a refused call is caught, as a caller
  // would, and the table is used afterwards through its names (a refusal must leave a consistent object)
  e.push_back({"dt.edit", "aAnNcKrRhdDxsg", 1, K_EDIT, [](const std::string& input, int) {
                 const std::string prog = input.substr(0, 64); // the name-keyed sweep below is cubic in the table size
                 DataTable t(2);
                 size_t serial = 0;
                 auto cells = [&](size_t n) {
                   std::vector<std::string> v;
                   for (size_t i = 0; i < n; ++i) v.push_back("v" + std::to_string(++serial));
                   return v;
                 };
                 auto names = [&](size_t n, const char* stem) {
                   std::vector<std::string> v;
                   for (size_t i = 0; i < n; ++i) v.push_back(stem + std::to_string(++serial));
                   return v;
                 };
                 auto use = [&]() {
                   // every name-keyed and index-keyed query, then write
                   if (t.hasRowNames())
                     for (const auto& n : t.getRowNames()) sinkAll(t.getRow(n));
                   if (t.hasColumnNames())
                     for (const auto& n : t.getColumnNames()) sinkAll(t.getColumn(n));
                   for (size_t i = 0; i < t.getNumberOfRows(); ++i) sinkAll(t.getRow(i));
                   for (size_t j = 0; j < t.getNumberOfColumns(); ++j) sinkAll(t.getColumn(j));
                   if (t.hasRowNames() && t.hasColumnNames())
                     for (const auto& r : t.getRowNames())
                       for (const auto& c : t.getColumnNames()) sink(t(r, c));
                   std::ostringstream os;
                   DataTable::write(t, os, ",", true);
                   sink(os.str());
                 };
                 for (char op : prog)
                 {
                   size_t nr = t.getNumberOfRows(), nc = t.getNumberOfColumns();
                   try
                   {
                     switch (op)
                     {
                     case 'a': t.addRow(cells(nc)); break;
                     case 'A': t.addRow(cells(nc + 1)); break;
                     case 'n': t.addRow("r" + std::to_string(++serial), cells(nc)); break;
                     case 'N': t.addRow("r" + std::to_string(++serial), cells(nc + 1)); break;
                     case 'c': t.addColumn(cells(nr)); break;
                     case 'K': t.addColumn("c" + std::to_string(++serial), cells(nr + 1)); break;
                     case 'r': t.setRowNames(names(nr, "r")); break;
                     case 'R': t.setRowNames(names(nr + 1, "r")); break;
                     case 'h': t.setColumnNames(names(nc, "c")); break;
                     case 'd': t.deleteRow(0); break;
                     case 'D': if (t.hasRowNames()) t.deleteRow(t.getRowNames().back()); else t.deleteRow("none"); break;
                     case 'x': t.deleteColumn(0); break;
                     case 's': t.setRow(nr ? nr - 1 : 0, cells(nc + (serial % 2))); break;
                     case 'g': use(); break;
                     default: break;
                     }
                   }
                   catch (bpp::Exception&)
                   {}
                 }
                 use();
                 DataTable copy(t);
                 t = copy;
                 use();
               }});
  e.push_back({"dist.read", "Ga(n=1,)", 2, K_DIST, [](const std::string& s, int v) {
                 BppODiscreteDistributionFormat f(false);
                 auto d = f.readDiscreteDistribution(s, v != 0);
                 sink(d->getNumberOfCategories());
                 for (size_t i = 0; i < d->getNumberOfCategories() && i < 64; ++i) sink(d->getCategory(i) + d->getProbability(i));
               }});
  e.push_back({"iv.readDescription", "[];1-.inf", 1, K_INTERVAL, [](const std::string& s, int) {
                 std::string d(s);
                 IntervalConstraint ic(d);
                 sink(ic.getLowerBound() + ic.getUpperBound());
                 sink(ic.getDescription());
               }});
  e.push_back({"ct.formula", "1x+-*/()e", 1, K_FORMULA, [](const std::string& s, int) {
                 std::map<std::string, std::shared_ptr<FunctionInterface>> fn;
                 ComputationTree ct(s, fn);
                 sink(ct.isAllSum() ? 1u : 0u);
               }});
  e.push_back({"pl.getMatchingParameterNames", "ab*", 1, K_GLOB, [](const std::string& s, int) {
                 ParameterList pl;
                 static const char* names[] = {"", "a", "ab", "aba", "b", "ba*"};
                 for (const char* n : names) pl.addParameter(Parameter(n, 0.));
                 sinkAll(pl.getMatchingParameterNames(s));
               }});
  e.push_back({"nc.seqFromString", "01,-a", 1, K_SEQ, [](const std::string& s, int) {
                 auto v = NumCalcApplicationTools::seqFromString(s, ",", "-");
                 sink(v.size());
               }});
  e.push_back({"nc.getVector", "seq(1,=)", 1, K_SEQ, [](const std::string& s, int) {
                 auto v = NumCalcApplicationTools::getVector(s);
                 sink(v.size());
               }});
  return e;
}

static std::string seedFor(Kind k, Rng& r)
{
  switch (k)
  {
  case K_NUMBER: return numberLike(r, r.chance(1, 5) ? ',' : '.', r.chance(1, 5) ? 'E' : 'e');
  case K_WORDS: return randomString(r, "ab \t\n\r.", 0, 12);
  case K_TOKENS: return randomString(r, "ab,; \t()=", 0, 24);
  case K_PROC: return seedProcedure(r, 2);
  case K_OPTIONS: return seedOptions(r);
  case K_VARS:
  {
    // small variable maps: every value is a few literals and references, so cycles of every shape occur
    static const char* names[] = {"a", "b", "c", "d"};
    size_t nv = 1 + r.below(4);
    std::string s;
    for (size_t i = 0; i < nv; ++i)
    {
      s += std::string(names[i]) + "=";
      size_t k = r.below(4);
      for (size_t j = 0; j < k; ++j)
      {
        if (r.chance(1, 3)) s += "x";
        else s += std::string("$(") + names[r.below(5) % 4] + ")";
      }
      s += "\n";
    }
    return s;
  }
  case K_VECTOR:
  {
    // "(1,2,3)", "1,2-5,7", "((1,2),(3,4))" with extreme / missing elements
    auto el = [&]() { return r.chance(1, 5) ? extremeNumber(r) : std::to_string(r.range(-3, 40)); };
    std::string s;
    size_t n = r.below(5);
    bool nested = r.chance(1, 3);
    for (size_t i = 0; i < n; ++i)
    {
      if (i) s += r.chance(1, 8) ? ", " : ",";
      if (nested)
      {
        s += "(";
        size_t k = r.below(4);
        for (size_t j = 0; j < k; ++j) s += (j ? "," : "") + el();
        s += ")";
      }
      else
      {
        s += el();
        if (r.chance(1, 4)) s += "-" + el();
      }
    }
    if (r.chance(2, 3)) s = "(" + s + ")";
    return s;
  }
  case K_EDIT: return randomString(r, "aAnNcKrRhdDxsg", 0, 40);
  case K_GLOB: return randomString(r, "ab*", 0, 10);
  case K_PATH: return seedPath(r);
  case K_TABLE: return seedTableText(r, ",\t "[r.below(3)]);
  case K_DIST: return seedDistribution(r, 2);
  case K_INTERVAL: return seedInterval(r);
  case K_FORMULA: return seedFormula(r, 4);
  default:
  {
    // sequences "1-3,5" and "seq(from=..,to=..,step=..)" with small magnitudes
    if (r.coin())
    {
      std::string s;
      size_t n = 1 + r.below(4);
      for (size_t i = 0; i < n; ++i)
      {
        s += (i ? "," : "") + (r.chance(1, 6) ? extremeNumber(r) : std::to_string(r.range(0, 30)));
        if (r.coin()) s += "-" + (r.chance(1, 6) ? extremeNumber(r) : std::to_string(r.range(0, 40)));
      }
      return s;
    }
    auto val = [&](long lo, long hi) { return r.chance(1, 4) ? extremeNumber(r) : std::to_string(r.range(lo, hi)); };
    std::string s = "seq(from=" + val(0, 5) + ",to=" + val(0, 9);
    if (r.coin()) s += ",step=" + val(-1, 3);
    else s += ",size=" + val(-1, 6);
    if (r.chance(1, 3)) s += std::string(",scale=") + (r.coin() ? "log" : "10^");
    return s + ")";
  }
  }
}

// Inputs that trigger a *known finding* (findings.d/C16.json) are left out of the main batches when the
// orchestrator passes --avoid 1, so that the rest of the batch is still explored; a dedicated probe run
// (--batch probe) reproduces each known finding.
static bool knownTrigger(const std::string& entry, const std::string& s)
{
  if (entry == "dist.read")
  {
    // C16-dist-extreme-parameters: a parameter of extreme magnitude (or a non positive rate / shape / scale)
    // makes the discretisation loops of the distribution classes run for ever
    for (size_t p = s.find('='); p != std::string::npos; p = s.find('=', p + 1))
    {
      const char* b = s.c_str() + p + 1;
      char* e = nullptr;
      double v = strtod(b, &e);
      if (e == b) continue;
      size_t k = p;
      while (k > 0 && (isalnum(static_cast<unsigned char>(s[k - 1])) || s[k - 1] == '_')) --k;
      std::string key = s.substr(k, p - k);
      if (key == "n" || key == "p") continue;
      double a = std::fabs(v);
      if (!(a <= 1e6) || (a != 0 && a < 1e-6)) return true;
      if (v <= 0 && (key == "lambda" || key == "tp" || key == "alpha" || key == "beta" || key == "sigma")) return true;
    }
  }
  return false;
}

static const char* corruptionAlphabet = "ab01 ,;=()[]$\\#/*\n\t.-+e\"";

int main(int argc, char** argv)
{
  std::vector<Entry> all = entries();
  if (argInt(argc, argv, "--list", 0))
  {
    printf("[");
    for (size_t i = 0; i < all.size(); ++i)
      printf("%s{\"entry\":\"%s\",\"alphabet\":%zu,\"variants\":%d}", i ? "," : "", all[i].name.c_str(), all[i].alpha.size(), all[i].variants);
    printf("]\n");
    return 0;
  }
  std::string out = argStr(argc, argv, "--out", "");
  std::string name = argStr(argc, argv, "--entry", "");
  std::string batch = argStr(argc, argv, "--batch", "exh");
  long start = argInt(argc, argv, "--start", 0);
  long budget = argInt(argc, argv, "--budget", 2000);
  long n = argInt(argc, argv, "--n", 50);
  const Entry* en = nullptr;
  for (const auto& x : all)
    if (x.name == name) en = &x;
  if (!en || out.empty() || !tracer().open(out))
  {
    fprintf(stderr, "bad arguments\n");
    return 2;
  }
#if defined(__SANITIZE_ADDRESS__)
  // the sanitizer runtime reports SIGSEGV / SIGFPE / SIGBUS itself (with a stack) and then aborts
  std::set_terminate(vt::onTerminate);
  signal(SIGABRT, vt::onSignal);
#else
  installCrashHandlers();
#endif
  bpp::ApplicationTools::message = nullptr;
  bpp::ApplicationTools::warning = nullptr;
  bpp::ApplicationTools::error = nullptr;

  const bool avoid = argInt(argc, argv, "--avoid", 0) != 0;
  long index = 0, done = 0, sinceReset = 1000000, avoided = 0;
  auto one = [&](const std::string& s, int v) {
    long i = index++;
    if (i < start) return;
    if (avoid && knownTrigger(en->name, s))
    {
      ++avoided;
      return;
    }
    if (sinceReset >= 250)
    {
      tracer().emit(Obj().kv("e", "Reset").kv("what", "fuzz").kv("entry", en->name).kv("batch", batch));
      sinceReset = 0;
    }
    ++sinceReset;
    Obj b = Obj().kv("e", "Begin").kv("entry", en->name).kv("v", v).kv("i", i).kv("len", s.size());
    if (s.size() <= 200)
    {
      Arr a;
      for (unsigned char c : s) a.add(static_cast<int>(c));
      b.kv("in", a);
      if (en->name == "at.resolveVariables")
      {
        // the map the entry point is called with (so that the C17 specification can predict the outcome)
        Arr m;
        for (const auto& kv : mapOf(s))
        {
          Arr k, val;
          for (unsigned char c : kv.first) k.add(static_cast<int>(c));
          for (unsigned char c : kv.second) val.add(static_cast<int>(c));
          m.add(Arr().add(k).add(val));
        }
        b.kv("m", m);
      }
    }
    tracer().emit(b);
    tracer().flush();
    std::string o = vt::outcome<bpp::Exception>([&]() { en->run(s, v); }, i);
    std::string outc = "value", cls;
    if (o == "ok") outc = "value";
    else if (o.compare(0, 10, "raise:std:") == 0)
    {
      outc = "raise_std";
      cls = o.substr(10);
    }
    else if (o == "raise:other") outc = "raise_other";
    else
    {
      outc = "raise";
      cls = o.substr(6);
    }
    tracer().emit(Obj().kv("e", "End").kv("entry", en->name).kv("i", i).kv("out", outc).kv("x", cls));
    ++done;
  };

  size_t usedLen = 0;
  if (batch == "exh")
  {
    // the longest length whose enumeration (x variants) fits the budget
    size_t a = en->alpha.size();
    double total = 1, pw = 1;
    for (size_t L = 1; L <= 7; ++L)
    {
      pw *= static_cast<double>(a);
      if ((total + pw) * en->variants > static_cast<double>(budget) && L > 2) break;
      total += pw;
      usedLen = L;
    }
    forAllStrings(en->alpha, usedLen, [&](const std::string& s) {
      for (int v = 0; v < en->variants; ++v) one(s, v);
    });
  }
  else if (batch == "dict")
  {
    std::vector<std::string> d;
    if (en->name == "dist.read") d = dictDistributions();
    else if (en->name == "nc.getVector") d = dictVectors();
    else if (en->name == "nc.seqFromString") d = dictSequences();
    else if (en->name == "iv.readDescription") d = dictIntervals();
    else if (en->name == "dt.read")
      for (char sep : {',', '\t', ' '})
        for (const auto& t : dictTableTexts(sep)) d.push_back(t);
    else if (en->kind == K_VECTOR)
    {
      for (const auto& v : vectorValues()) d.push_back(v);
      for (const auto& a : extremeValues())
      {
        d.push_back(a);
        d.push_back("(" + a + ")");
        d.push_back("(1," + a + ")");
        d.push_back("((" + a + "),(1))");
        for (const auto& b : extremeValues()) d.push_back(a + "-" + b);
      }
      for (const char* x : {"(", ")", "((", "))", "()", "(())", "((),())", "(1,(2)", "1-", "-1", "1--2", "5-1", "1-5", "0-100000", "(1-3,7)", ",", ",,", "(,)", " ", "( )", "(1 2)", "1 2"}) d.push_back(x);
    }
    else if (en->kind == K_NUMBER)
    {
      for (const auto& v : longDigitNumbers()) d.push_back(v);
      // extreme magnitudes spelled in every (decimal separator, exponent character) style of the variants
      for (size_t k = 0; k < 5; ++k)
        for (const auto& v : dictStyledNumbers(decs_[k], scis_[k])) d.push_back(v);
      for (const auto& v : extremeValues())
      {
        d.push_back(v);
        d.push_back("-" + v);
        d.push_back(v + "e" + v);
      }
    }
    for (const auto& s : d)
      for (int v = 0; v < en->variants; ++v) one(s, v);
  }
  else if (batch == "probe")
  {
    one(argStr(argc, argv, "--input", ""), static_cast<int>(argInt(argc, argv, "--variant", 0)));
  }
  else
  {
    uint64_t h = 1469598103934665603ULL;
    for (unsigned char c : en->name) h = (h ^ c) * 1099511628211ULL;
    for (long k = 0; k < n; ++k)
    {
      Rng r(envSeed() * 7919ULL + h + static_cast<uint64_t>(k) * 0x9e3779b97f4a7c15ULL); // input k does not depend on --start
      std::string s = seedFor(en->kind, r);
      if (r.chance(1, 2)) s = corrupt(r, s, corruptionAlphabet, 1 + static_cast<int>(r.below(3)));
      if (r.chance(1, 6)) s = inflate(r, s, 4096);
      if (s.size() > 4096) s.resize(4096);
      one(s, static_cast<int>(r.below(static_cast<size_t>(en->variants))));
    }
  }
  tracer().emit(Obj().kv("e", "Done").kv("entry", en->name).kv("batch", batch));
  tracer().close();
  printf("{\"entry\":\"%s\",\"batch\":\"%s\",\"inputs\":%ld,\"len\":%zu,\"avoided\":%ld}\n", en->name.c_str(), batch.c_str(), done, usedLen, avoided);
  return 0;
}
