// Shared helpers of the text drivers (C17: drv_text.cpp, C16: drv_textfuzz.cpp):
// string <-> character-code encodings, exhaustive small-alphabet enumeration,
// seeded grammar-aware string generators.
#ifndef VERIF_DRV_TEXT_GEN_H
#define VERIF_DRV_TEXT_GEN_H

#include "tracer.h"

#include <cmath>
#include <functional>
#include <map>
#include <string>
#include <vector>

namespace tg
{
using vt::Arr;
using vt::Obj;
using vt::Rng;

// ---------------------------------------------------------------- encodings
// A string is logged as the array of the codes of its characters.  The map is
// per module (see the TLA+ modules); characters outside the map get `other`.
struct Codec
{
  std::map<char, int> m;
  int other;
  Codec() : m(), other(0) {}
  Codec(const std::map<char, int>& mm, int o) : m(mm), other(o) {}
  int code(char c) const
  {
    auto it = m.find(c);
    return it == m.end() ? other : it->second;
  }
  Arr enc(const std::string& s) const
  {
    Arr a;
    for (char c : s) a.add(code(c));
    return a;
  }
  Arr encList(const std::vector<std::string>& v) const
  {
    Arr a;
    for (const auto& s : v) a.add(enc(s));
    return a;
  }
  template<class It> Arr encRange(It b, It e) const
  {
    Arr a;
    for (; b != e; ++b) a.add(enc(*b));
    return a;
  }
  // every character of s is in the map (so the encoding is injective on s)
  bool covers(const std::string& s) const
  {
    for (char c : s)
      if (!m.count(c)) return false;
    return true;
  }
};

// number alphabet of NumberGrammar.tla
inline Codec numberCodec(char dec, char sci)
{
  std::map<char, int> m;
  for (int d = 0; d < 10; ++d) m[static_cast<char>('0' + d)] = d;
  m['-'] = 10;
  m['+'] = 11;
  m[' '] = 15;
  m['\t'] = 15;
  m['\n'] = 15;
  m[dec] = 12;
  m[sci] = 13;
  return Codec(m, 14);
}

// ---------------------------------------------------------------- enumeration
// every string over `alpha` with length <= maxLen, shortest first
inline void forAllStrings(const std::string& alpha, size_t maxLen, const std::function<void(const std::string&)>& f)
{
  std::vector<std::string> level(1, "");
  f("");
  for (size_t n = 1; n <= maxLen; ++n)
  {
    std::vector<std::string> next;
    next.reserve(level.size() * alpha.size());
    for (const auto& s : level)
      for (char c : alpha)
      {
        next.push_back(s + c);
        f(next.back());
      }
    level.swap(next);
  }
}

inline std::string randomString(Rng& r, const std::string& alpha, size_t minLen, size_t maxLen)
{
  size_t n = static_cast<size_t>(r.range(static_cast<long>(minLen), static_cast<long>(maxLen)));
  std::string s;
  for (size_t i = 0; i < n; ++i) s += alpha[r.below(alpha.size())];
  return s;
}

// random corruption: delete / duplicate / replace / insert / swap
inline std::string corrupt(Rng& r, std::string s, const std::string& alpha, int edits)
{
  for (int k = 0; k < edits; ++k)
  {
    size_t n = s.size();
    switch (r.below(5))
    {
    case 0:
      if (n) s.erase(r.below(n), 1);
      break;
    case 1:
      if (n)
      {
        size_t p = r.below(n);
        s.insert(p, 1, s[p]);
      }
      break;
    case 2:
      if (n) s[r.below(n)] = alpha[r.below(alpha.size())];
      break;
    case 3:
      s.insert(r.below(n + 1), 1, alpha[r.below(alpha.size())]);
      break;
    default:
      if (n > 1)
      {
        size_t p = r.below(n - 1);
        std::swap(s[p], s[p + 1]);
      }
    }
  }
  return s;
}

// a number-like string (strict, lax or slightly broken)
inline std::string numberLike(Rng& r, char dec, char sci)
{
  std::string s;
  if (r.chance(1, 3)) s += r.chance(4, 5) ? '-' : '+';
  size_t ni = r.below(4);
  for (size_t i = 0; i < ni; ++i) s += static_cast<char>('0' + r.below(10));
  if (r.chance(1, 2))
  {
    s += dec;
    size_t nf = r.below(4);
    for (size_t i = 0; i < nf; ++i) s += static_cast<char>('0' + r.below(10));
  }
  if (r.chance(1, 3))
  {
    s += sci;
    if (r.chance(1, 2)) s += r.coin() ? '-' : '+';
    size_t ne = r.below(3);
    for (size_t i = 0; i < ne; ++i) s += static_cast<char>('0' + r.below(10));
  }
  return s;
}
// ---------------------------------------------------------------- grammar-aware seeds (C16)
// numeric arguments of extreme magnitude and degenerate spellings (dictionary)
inline const std::vector<std::string>& extremeValues()
{
  static const std::vector<std::string> v = {"", "0", "-0", "1", "-1", "0.5", "1e20", "-1e20", "1e308", "-1e308", "1e-320", "1e-308",
                                             "1e999", "inf", "-inf", "nan", "0.0000001", "123456789012345678901234567890", "2147483648", "x"};
  return v;
}
// vector arguments with missing / empty / unbalanced parentheses
inline const std::vector<std::string>& vectorValues()
{
  static const std::vector<std::string> v = {"", "(", ")", "()", "(1", "1)", "1", "(1)", "(1,2)", "(,)", "(1,)", "((1))", ")(", "(0.5,0.5)", "(1e308,1e308)", "(nan)", "(-1)", "(0)"};
  return v;
}
// long digit strings (10..25 digits) with small exponents: mantissas that do not fit an int / a long long
inline std::vector<std::string> longDigitNumbers()
{
  std::vector<std::string> out;
  static const char* stems[] = {"1844674407370955161599999999", "9223372036854775807999999999", "9999999999999999999999999999",
                                "1000000000000000000000000000", "2147483647214748364721474836", "0000000000000000000000000001"};
  static const char* exps[] = {"", "e0", "e1", "e2", "e3", "e+2", "e9", "e00001"};
  for (const char* st : stems)
    for (size_t nd = 10; nd <= 25; ++nd)
      for (const char* ex : exps)
      {
        std::string m(st, nd);
        out.push_back(m + ex);
        out.push_back("-" + m + ex);
      }
  return out;
}
inline std::string extremeNumber(Rng& r) { return extremeValues()[r.below(extremeValues().size())]; }
inline std::string seedWord(Rng& r)
{
  static const std::string a = "abcxyz012._-";
  return randomString(r, a, 1, 4);
}
inline std::string seedProcedure(Rng& r, int depth)
{
  std::string s = seedWord(r) + "(";
  size_t n = r.below(5);
  for (size_t i = 0; i < n; ++i)
  {
    if (i) s += r.chance(1, 6) ? ", " : ",";
    s += seedWord(r) + "=";
    if (depth > 0 && r.chance(1, 3)) s += seedProcedure(r, depth - 1);
    else if (r.chance(1, 4)) s += numberLike(r, '.', 'e');
    else s += seedWord(r);
  }
  return s + ")";
}
inline std::string seedDistribution(Rng& r, int depth)
{
  static const char* fams[] = {"Gamma", "Gaussian", "Beta", "Exponential", "TruncExponential", "Uniform", "Constant", "Simple", "Invariant", "Mixture", "Foo"};
  std::string f = fams[r.below(11)];
  auto num = [&]() -> std::string {
    if (r.chance(1, 6)) return extremeNumber(r);
    return std::to_string(r.range(0, 40)) + (r.coin() ? "." + std::to_string(r.range(0, 99)) : "");
  };
  if (f == "Constant") return f + "(value=" + num() + ")";
  if (f == "Simple")
  {
    size_t n = 1 + r.below(4);
    std::string v = "(", p = "(";
    for (size_t i = 0; i < n; ++i)
    {
      v += (i ? "," : "") + num();
      p += (i ? "," : "") + std::string("0.") + std::to_string(r.range(1, 9));
    }
    v += ")";
    p += ")";
    if (r.chance(1, 4)) v = vectorValues()[r.below(vectorValues().size())];
    if (r.chance(1, 4)) p = vectorValues()[r.below(vectorValues().size())];
    std::string s = f + "(values=" + v + ",probas=" + p;
    if (r.chance(1, 3)) s += ",ranges=(V1[" + num() + ";" + num() + "])";
    return s + ")";
  }
  if (f == "Invariant" && depth > 0) return f + "(dist=" + seedDistribution(r, depth - 1) + ",p=0." + std::to_string(r.range(1, 9)) + ")";
  if (f == "Mixture" && r.chance(1, 5)) return r.coin() ? "Mixture(probas=())" : "Mixture(probas=(1),dist1=" + seedDistribution(r, depth > 0 ? depth - 1 : 0) + ")";
  if (f == "Mixture" && depth > 0)
    return f + "(probas=" + (r.chance(1, 3) ? vectorValues()[r.below(vectorValues().size())] : std::string("(0.5,0.5)")) + ",dist1=" + seedDistribution(r, depth - 1) + ",dist2=" + seedDistribution(r, depth - 1) + ")";
  std::string s = f + "(n=" + std::to_string(r.range(0, 9));
  static const char* keys[] = {"alpha", "beta", "mu", "sigma", "lambda", "tp", "begin", "end", "offset", "median"};
  size_t k = r.below(4);
  for (size_t i = 0; i < k; ++i) s += std::string(",") + keys[r.below(10)] + "=" + num();
  return s + ")";
}
inline std::string seedFormula(Rng& r, int depth)
{
  if (depth <= 0 || r.chance(1, 3))
  {
    if (r.coin()) return numberLike(r, '.', 'e');
    return r.coin() ? "f" : "x1";
  }
  switch (r.below(6))
  {
  case 0: return "(" + seedFormula(r, depth - 1) + ")";
  case 1: return "exp(" + seedFormula(r, depth - 1) + ")";
  case 2: return "log(" + seedFormula(r, depth - 1) + ")";
  case 3: return "-" + seedFormula(r, depth - 1);
  default:
  {
    static const char ops[] = "+-*/";
    return seedFormula(r, depth - 1) + ops[r.below(4)] + seedFormula(r, depth - 1);
  }
  }
}
inline std::string seedInterval(Rng& r)
{
  std::string s;
  s += r.coin() ? '[' : ']';
  s += r.chance(1, 5) ? "-inf" : (r.chance(1, 4) ? extremeNumber(r) : numberLike(r, '.', 'e'));
  s += ';';
  s += r.chance(1, 5) ? "inf" : (r.chance(1, 4) ? extremeNumber(r) : numberLike(r, '.', 'e'));
  s += r.coin() ? ']' : '[';
  return s;
}
inline std::string seedTableText(Rng& r, char sep)
{
  size_t nc = 1 + r.below(4), nr = r.below(5);
  bool header = r.coin(), rn = r.chance(1, 3);
  std::string s;
  if (header)
  {
    for (size_t j = 0; j < nc; ++j) s += (j ? std::string(1, sep) : "") + "c" + std::to_string(j);
    s += "\n";
  }
  for (size_t i = 0; i < nr; ++i)
  {
    if (rn) s += "r" + std::to_string(r.chance(1, 8) ? 0 : i) + sep;
    if (i >= 1 && r.chance(1, 6))
    {
      // degenerate later line: only separators / only blanks
      s += r.coin() ? std::string(1 + r.below(3), sep) : std::string(1 + r.below(2), ' ');
      s += "\n";
      continue;
    }
    size_t m = r.chance(1, 8) ? r.below(6) : nc;
    for (size_t j = 0; j < m; ++j) s += (j ? std::string(1, sep) : "") + (r.chance(1, 8) ? "" : seedWord(r));
    s += r.chance(1, 10) ? "\n\n" : "\n";
  }
  return s;
}
inline std::string seedOptions(Rng& r)
{
  std::string s;
  size_t n = 1 + r.below(6);
  static const char* names[] = {"a", "b", "c", "param", "x.y"};
  for (size_t i = 0; i < n; ++i)
  {
    std::string v;
    size_t k = r.below(4);
    for (size_t j = 0; j < k; ++j)
    {
      switch (r.below(6))
      {
      case 0: v += std::string("$(") + names[r.below(5)] + ")"; break;
      case 1: v += "$(" ; break;
      case 2: v += " # comment"; break;
      case 3: v += "/* c */"; break;
      case 4: v += "// c"; break;
      default: v += seedWord(r);
      }
    }
    s += std::string(names[r.below(5)]) + (r.chance(1, 10) ? "" : "=") + v;
    if (r.chance(1, 5)) s += "\\";
    s += "\n";
  }
  return s;
}
inline std::string seedPath(Rng& r)
{
  std::string s;
  size_t n = r.below(5);
  for (size_t i = 0; i < n; ++i)
  {
    if (r.chance(2, 3)) s += "/";
    s += seedWord(r);
  }
  if (r.coin()) s += "." + seedWord(r);
  return s;
}

// ---------------------------------------------------------------- dictionaries (C16, batch "dict")
// Systematic (not random) descriptions: every argument of every distribution family takes every extreme /
// degenerate value in turn, the other arguments keeping a plain value; likewise for sequence, vector and
// interval descriptions.
inline std::vector<std::string> dictDistributions()
{
  struct Fam
  {
    const char* name;
    std::vector<std::pair<const char*, const char*>> args; // key, plain value
    std::vector<const char*> vectorKeys;
  };
  static const std::vector<Fam> fams = {
      {"Gamma", {{"n", "3"}, {"alpha", "1"}, {"beta", "1"}, {"offset", "0"}, {"ParamOffset", "1"}}, {}},
      {"Gaussian", {{"n", "3"}, {"mu", "0"}, {"sigma", "1"}}, {}},
      {"Beta", {{"n", "3"}, {"alpha", "1"}, {"beta", "1"}}, {}},
      {"Exponential", {{"n", "3"}, {"lambda", "1"}, {"median", "1"}}, {}},
      {"TruncExponential", {{"n", "3"}, {"lambda", "1"}, {"tp", "4"}, {"median", "1"}}, {}},
      {"Uniform", {{"n", "3"}, {"begin", "0"}, {"end", "1"}}, {}},
      {"Constant", {{"value", "1"}}, {}},
      {"Simple", {{"values", "(1,2)"}, {"probas", "(0.5,0.5)"}, {"ranges", "(V1[0;3])"}}, {"values", "probas", "ranges"}},
      {"Invariant", {{"dist", "Gamma(n=2)"}, {"p", "0.1"}}, {}},
      {"Mixture", {{"probas", "(0.5,0.5)"}, {"dist1", "Constant(value=1)"}, {"dist2", "Gamma(n=2)"}}, {"probas"}},
  };
  std::vector<std::string> out;
  for (const auto& f : fams)
  {
    auto render = [&](size_t which, const std::string& val, bool drop) {
      std::string s = std::string(f.name) + "(";
      bool first = true;
      for (size_t i = 0; i < f.args.size(); ++i)
      {
        if (i == which && drop) continue;
        if (std::string(f.args[i].first) == "ranges" && i != which) continue; // optional argument
        if (!first) s += ",";
        first = false;
        s += std::string(f.args[i].first) + "=" + (i == which ? val : std::string(f.args[i].second));
      }
      return s + ")";
    };
    out.push_back(render(f.args.size(), "", false));
    for (size_t i = 0; i < f.args.size(); ++i)
    {
      out.push_back(render(i, "", true)); // argument missing
      for (const auto& v : extremeValues()) out.push_back(render(i, v, false));
      for (const auto& v : vectorValues()) out.push_back(render(i, v, false));
      if (std::string(f.args[i].first) == "ranges")
        for (const char* v : {"(V1)", "(V1[)", "(V1[;])", "(V[0;1])", "(V0[0;1])", "(V9[1;0])", "(V1[0;1],V1[0;1])", "(Vx[0;1])", "(V1[nan;inf])", "V1[0;1]", "([;])"})
          out.push_back(render(i, v, false));
    }
  }
  // every item of every list argument of Simple replaced in turn by an empty / blanks-only / bracket-less / odd item
  {
    static const std::vector<std::string> odd = {"", " ", "  ", "\t", "V1", "V1[", "V1]", "[0;9]", "V1[0;9]", "V1[;]", "V1[0]", "V[0;9]", " V1[0;9] ", "1", " 1 ", "x", "()", "V2[0;9"};
    for (size_t n = 1; n <= 3; ++n)
      for (size_t pos = 0; pos < n; ++pos)
        for (const auto& o : odd)
          for (int which = 0; which < 3; ++which)
          {
            std::string lists[3];
            for (size_t i = 0; i < n; ++i)
            {
              std::string item[3] = {std::to_string(i + 1), n == 1 ? "1" : (n == 2 ? "0.5" : (i == 2 ? "0.5" : "0.25")), "V" + std::to_string(i + 1) + "[0;9]"};
              for (int w = 0; w < 3; ++w) lists[w] += (i ? "," : "") + ((w == which && i == pos) ? o : item[w]);
            }
            out.push_back("Simple(values=(" + lists[0] + "),probas=(" + lists[1] + "),ranges=(" + lists[2] + "))");
            if (which == 2 && pos + 1 == n) out.push_back("Simple(values=(" + lists[0] + "),probas=(" + lists[1] + "),ranges=(" + lists[2] + ", ))");
          }
  }
  // list-taking families with mutually consistent lists of length 0, 1, 2 (zero components, one component, ...),
  // alone and nested in Invariant / Mixture
  std::vector<std::string> cores;
  for (size_t n = 0; n <= 2; ++n)
  {
    std::string vals, probs, dists;
    for (size_t i = 0; i < n; ++i)
    {
      vals += (i ? "," : "") + std::to_string(i + 1);
      probs += (i ? "," : "") + std::string(n == 1 ? "1" : "0.5");
      dists += ",dist" + std::to_string(i + 1) + "=Constant(value=" + std::to_string(i + 1) + ")";
    }
    cores.push_back("Simple(values=(" + vals + "),probas=(" + probs + "))");
    cores.push_back("Simple(values=(" + vals + "),probas=(" + probs + "),ranges=())");
    if (n >= 1) cores.push_back("Simple(values=(" + vals + "),probas=(" + probs + "),ranges=(V1[0;9]))");
    cores.push_back("Mixture(probas=(" + probs + ")" + dists + ")");
    cores.push_back("Mixture(" + (dists.empty() ? std::string() : dists.substr(1) + ",") + "probas=(" + probs + "))");
  }
  cores.push_back("Mixture()");
  cores.push_back("Simple()");
  cores.push_back("Mixture(probas=(1),dist1=Simple(values=(),probas=()))");
  for (const auto& c : cores)
  {
    out.push_back(c);
    out.push_back("Invariant(dist=" + c + ",p=0.1)");
    out.push_back("Invariant(dist=" + c + ")");
    out.push_back("Mixture(probas=(1),dist1=" + c + ")");
    out.push_back("Mixture(probas=(0.5,0.5),dist1=" + c + ",dist2=Constant(value=7))");
    out.push_back("Mixture(probas=(0.5,0.5),dist1=Constant(value=7),dist2=" + c + ")");
    out.push_back("Invariant(dist=Mixture(probas=(1),dist1=" + c + "),p=0.1)");
  }
  return out;
}
// exact decimal spelling of a double (glibc prints every digit)
inline std::string exactDecimal(double x)
{
  char buf[1200];
  snprintf(buf, sizeof buf, "%.1100f", x);
  std::string s(buf);
  if (s.find('.') != std::string::npos)
  {
    while (!s.empty() && s[s.size() - 1] == '0') s.erase(s.size() - 1);
    if (!s.empty() && s[s.size() - 1] == '.') s.erase(s.size() - 1);
  }
  return s;
}
// sequences whose values cross a power of two 2^m with a step that is exact below 2^m and absorbed from 2^m on
// (step = 2^(m-53), half the spacing of the doubles above 2^m)
inline std::vector<std::string> dictAbsorbedSteps()
{
  std::vector<std::string> out;
  for (int m : {1, 8, 16, 23, 24, 30, 40, 52, 53, 60, 100})
  {
    double T = std::ldexp(1.0, m), st = std::ldexp(1.0, m - 53);
    for (int k : {2, 4, 10})
    {
      out.push_back("seq(from=" + exactDecimal(T - k * st) + ",to=" + exactDecimal(T + 2 * k * st) + ",step=" + exactDecimal(st) + ")");
      out.push_back("seq(from=" + exactDecimal(T - k * st) + ",to=" + exactDecimal(T + 2 * k * st) + ",step=" + exactDecimal(st) + ",scale=log)");
    }
    // a step of one spacing below 2^m is fine on both sides, 3/4 of it is absorbed above: both must end
    out.push_back("seq(from=" + exactDecimal(T - 4 * st) + ",to=" + exactDecimal(T + 16 * st) + ",step=" + exactDecimal(2 * st) + ")");
    out.push_back("seq(from=" + exactDecimal(T - 3 * st) + ",to=" + exactDecimal(T + 16 * st) + ",step=" + exactDecimal(1.5 * st) + ")");
  }
  for (const char* x : {"seq(from=9007199254740990,to=9007199254741000,step=1)", "seq(from=9007199254740990,to=9007199254741000,step=0.5)",
                        "seq(from=16777214,to=16777220,step=0.000000001)", "seq(from=-9007199254741000,to=-9007199254740990,step=1)"})
    out.push_back(x);
  return out;
}
// number spellings of extreme magnitude in a given (decimal separator, exponent character) style
inline std::vector<std::string> dictStyledNumbers(char dec, char sci)
{
  std::vector<std::string> base = {"1.5e999", "1.5e-999", "-1.5e999", "7e400", "1e-400", "1.5e308", "2e308", "1.7976931348623157e308", "1.7976931348623159e308",
                                   "4.9e-324", "2e-324", "1e" + std::string(400, '9'), "1e-" + std::string(400, '9'), "0.5", "1.5e10", "1e+5", ".5", "5.",
                                   std::string(400, '9') + ".5", "0." + std::string(400, '0') + "1"};
  for (auto& b : base)
    for (auto& c : b)
    {
      if (c == '.') c = dec;
      else if (c == 'e') c = sci;
    }
  return base;
}
inline std::vector<std::string> dictVectors()
{
  // getVector: "seq(from=..,to=..,step=..|size=..[,scale=..])" with every combination of extreme values, and plain lists
  std::vector<std::string> out;
  static const std::vector<std::string> b = {"", "0", "-0", "1", "-1", "7", "1e20", "-1e20", "1e308", "-1e308", "1e-320", "inf", "nan", "x"};
  static const std::vector<std::string> st = {"", "0", "-0", "1", "-1", "0.5", "1e-320", "1e-20", "1e20", "1e308", "inf", "nan", "x"};
  for (const auto& f : b)
    for (const auto& t : b)
    {
      for (const auto& x : st) out.push_back("seq(from=" + f + ",to=" + t + ",step=" + x + ")");
      for (const char* z : {"", "0", "-1", "1", "3", "1e9", "2147483648", "x"}) out.push_back("seq(from=" + f + ",to=" + t + ",size=" + std::string(z) + ")");
    }
  for (const char* sc : {"log", "exp", "10^", "", "foo"})
    for (const char* f : {"0", "-1", "1e308", "710"}) out.push_back(std::string("seq(from=") + f + ",to=1e308,size=3,scale=" + sc + ")");
  for (const char* s : {"seq", "seq(", "seq()", "seq)", "seq(from=1)", "seq(from=1,to=2)", "seq(to=2,step=1)", "seq(from=1,to=2,step=1", "seqfrom=1,to=2,step=1)",
                        "seq((from=1,to=2,step=1))", "seq(from=(1),to=2,step=1)", "seq(from=1,from=2,to=3,step=1)"})
    out.push_back(s);
  for (const auto& v : extremeValues())
  {
    out.push_back(v);
    out.push_back("1," + v);
    out.push_back(v + "," + v);
  }
  for (const auto& v : vectorValues()) out.push_back(v);
  for (const auto& v : dictAbsorbedSteps()) out.push_back(v);
  return out;
}
inline std::vector<std::string> dictSequences()
{
  // seqFromString(s, ",", "-")
  std::vector<std::string> out;
  static const std::vector<std::string> b = {"", "0", "1", "7", "2147483647", "2147483648", "99999999999999999999", "1e9", "1e2", "x", "+3", " 4"};
  for (const auto& f : b)
  {
    out.push_back(f);
    for (const auto& t : b)
    {
      out.push_back(f + "-" + t);
      out.push_back("-" + f + "-" + t);
      out.push_back(f + "--" + t);
      out.push_back("1," + f + "-" + t);
    }
  }
  for (const char* s : {",", "-", "--", ",,", "1-2-3", "1,,2", "-,-", "3-1", "1-1"}) out.push_back(s);
  return out;
}
inline std::vector<std::string> dictIntervals()
{
  std::vector<std::string> out;
  static const std::vector<std::string> b = {"", "0", "-0", "1", "-1", "1e20", "1e308", "-1e308", "1e-320", "1e999", "inf", "+inf", "-inf", "nan", "x", " 1", "1 "};
  for (const char* o : {"[", "]", "", "("})
    for (const char* c : {"[", "]", "", ")"})
      for (const auto& lo : b)
        for (const auto& hi : b) out.push_back(std::string(o) + lo + ";" + hi + c);
  for (const char* s : {"", "[", "]", ";", "[;", ";]", "[]", "[1]", "[1;2;3]", "[[1;2]]", "[1,2]", "];[", "[;]x"}) out.push_back(s);
  return out;
}

// line-structured table texts: a first line, a second line and one or two later lines, each drawn from a small
// set of line kinds (well formed, only separators, only blanks, one field too few / too many, empty fields)
inline std::vector<std::string> dictTableTexts(char sep)
{
  const std::string S(1, sep);
  const std::vector<std::string> first = {"a" + S + "b", S + "a" + S + "b", "a", S + S, "a" + S + "a"};
  const std::vector<std::string> second = {"r1" + S + "1" + S + "2", "1" + S + "2", "x", S + S, "r1" + S + "1" + S + "2" + S + "3"};
  const std::vector<std::string> later = {"r2" + S + "3" + S + "4", "3" + S + "4", S + S, S, " ", "", "r2" + S + "3", "r2" + S + "3" + S + "4" + S + "5",
                                          "r1" + S + "5" + S + "6", S + "3" + S + "4", "r2" + S + S + "4"};
  std::vector<std::string> out;
  for (const auto& a : first)
    for (const auto& b : second)
    {
      out.push_back(a + "\n" + b + "\n");
      for (const auto& c : later)
      {
        out.push_back(a + "\n" + b + "\n" + c + "\n");
        out.push_back(a + "\n" + b + "\n" + c); // no final newline
        for (const auto& d : later) out.push_back(a + "\n" + b + "\n" + c + "\n" + d + "\n");
      }
    }
  return out;
}

// grow a seed up to maxLen bytes by repeating / nesting pieces of itself
inline std::string inflate(Rng& r, std::string s, size_t maxLen)
{
  if (s.empty()) return s;
  size_t target = 1 + r.below(maxLen);
  while (s.size() < target && s.size() < maxLen)
  {
    size_t a = r.below(s.size()), l = 1 + r.below(s.size() - a);
    std::string piece = s.substr(a, l);
    size_t at = r.below(s.size() + 1);
    if (s.size() + piece.size() > maxLen) break;
    s.insert(at, piece);
  }
  return s;
}
} // namespace tg
#endif
