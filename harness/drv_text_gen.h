// Shared helpers of the text drivers (C17: drv_text.cpp, C16: drv_textfuzz.cpp):
// string <-> character-code encodings, exhaustive small-alphabet enumeration,
// seeded grammar-aware string generators.
#ifndef VERIF_DRV_TEXT_GEN_H
#define VERIF_DRV_TEXT_GEN_H

#include "tracer.h"

#include <functional>
#include <map>
#include <string>
#include <vector>

namespace tg
{
using vt::Arr;
using vt::Obj;
using vt::Rng;

// ---------------------------------------------------------------- encodings
// A string is logged as the array of the codes of its characters.  The map is
// per module (see the TLA+ modules); characters outside the map get `other`.
struct Codec
{
  std::map<char, int> m;
  int other;
  Codec() : m(), other(0) {}
  Codec(const std::map<char, int>& mm, int o) : m(mm), other(o) {}
  int code(char c) const
  {
    auto it = m.find(c);
    return it == m.end() ? other : it->second;
  }
  Arr enc(const std::string& s) const
  {
    Arr a;
    for (char c : s) a.add(code(c));
    return a;
  }
  Arr encList(const std::vector<std::string>& v) const
  {
    Arr a;
    for (const auto& s : v) a.add(enc(s));
    return a;
  }
  template<class It> Arr encRange(It b, It e) const
  {
    Arr a;
    for (; b != e; ++b) a.add(enc(*b));
    return a;
  }
  // every character of s is in the map (so the encoding is injective on s)
  bool covers(const std::string& s) const
  {
    for (char c : s)
      if (!m.count(c)) return false;
    return true;
  }
};

// number alphabet of NumberGrammar.tla
inline Codec numberCodec(char dec, char sci)
{
  std::map<char, int> m;
  for (int d = 0; d < 10; ++d) m[static_cast<char>('0' + d)] = d;
  m['-'] = 10;
  m['+'] = 11;
  m[' '] = 15;
  m['\t'] = 15;
  m['\n'] = 15;
  m[dec] = 12;
  m[sci] = 13;
  return Codec(m, 14);
}

// ---------------------------------------------------------------- enumeration
// every string over `alpha` with length <= maxLen, shortest first
inline void forAllStrings(const std::string& alpha, size_t maxLen, const std::function<void(const std::string&)>& f)
{
  std::vector<std::string> level(1, "");
  f("");
  for (size_t n = 1; n <= maxLen; ++n)
  {
    std::vector<std::string> next;
    next.reserve(level.size() * alpha.size());
    for (const auto& s : level)
      for (char c : alpha)
      {
        next.push_back(s + c);
        f(next.back());
      }
    level.swap(next);
  }
}

inline std::string randomString(Rng& r, const std::string& alpha, size_t minLen, size_t maxLen)
{
  size_t n = static_cast<size_t>(r.range(static_cast<long>(minLen), static_cast<long>(maxLen)));
  std::string s;
  for (size_t i = 0; i < n; ++i) s += alpha[r.below(alpha.size())];
  return s;
}

// random corruption: delete / duplicate / replace / insert / swap
inline std::string corrupt(Rng& r, std::string s, const std::string& alpha, int edits)
{
  for (int k = 0; k < edits; ++k)
  {
    size_t n = s.size();
    switch (r.below(5))
    {
    case 0:
      if (n) s.erase(r.below(n), 1);
      break;
    case 1:
      if (n)
      {
        size_t p = r.below(n);
        s.insert(p, 1, s[p]);
      }
      break;
    case 2:
      if (n) s[r.below(n)] = alpha[r.below(alpha.size())];
      break;
    case 3:
      s.insert(r.below(n + 1), 1, alpha[r.below(alpha.size())]);
      break;
    default:
      if (n > 1)
      {
        size_t p = r.below(n - 1);
        std::swap(s[p], s[p + 1]);
      }
    }
  }
  return s;
}

// a number-like string (strict, lax or slightly broken)
inline std::string numberLike(Rng& r, char dec, char sci)
{
  std::string s;
  if (r.chance(1, 3)) s += r.chance(4, 5) ? '-' : '+';
  size_t ni = r.below(4);
  for (size_t i = 0; i < ni; ++i) s += static_cast<char>('0' + r.below(10));
  if (r.chance(1, 2))
  {
    s += dec;
    size_t nf = r.below(4);
    for (size_t i = 0; i < nf; ++i) s += static_cast<char>('0' + r.below(10));
  }
  if (r.chance(1, 3))
  {
    s += sci;
    if (r.chance(1, 2)) s += r.coin() ? '-' : '+';
    size_t ne = r.below(3);
    for (size_t i = 0; i < ne; ++i) s += static_cast<char>('0' + r.below(10));
  }
  return s;
}
// ---------------------------------------------------------------- grammar-aware seeds (C16)
inline std::string seedWord(Rng& r)
{
  static const std::string a = "abcxyz012._-";
  return randomString(r, a, 1, 4);
}
inline std::string seedProcedure(Rng& r, int depth)
{
  std::string s = seedWord(r) + "(";
  size_t n = r.below(5);
  for (size_t i = 0; i < n; ++i)
  {
    if (i) s += r.chance(1, 6) ? ", " : ",";
    s += seedWord(r) + "=";
    if (depth > 0 && r.chance(1, 3)) s += seedProcedure(r, depth - 1);
    else if (r.chance(1, 4)) s += numberLike(r, '.', 'e');
    else s += seedWord(r);
  }
  return s + ")";
}
inline std::string seedDistribution(Rng& r, int depth)
{
  static const char* fams[] = {"Gamma", "Gaussian", "Beta", "Exponential", "TruncExponential", "Uniform", "Constant", "Simple", "Invariant", "Mixture", "Foo"};
  std::string f = fams[r.below(11)];
  auto num = [&]() { return std::to_string(r.range(0, 40)) + (r.coin() ? "." + std::to_string(r.range(0, 99)) : ""); };
  if (f == "Constant") return f + "(value=" + num() + ")";
  if (f == "Simple")
  {
    size_t n = 1 + r.below(4);
    std::string v = "(", p = "(";
    for (size_t i = 0; i < n; ++i)
    {
      v += (i ? "," : "") + num();
      p += (i ? "," : "") + std::string("0.") + std::to_string(r.range(1, 9));
    }
    std::string s = f + "(values=" + v + "),probas=" + p + ")";
    if (r.chance(1, 3)) s += ",ranges=(V1[" + num() + ";" + num() + "])";
    return s + ")";
  }
  if (f == "Invariant" && depth > 0) return f + "(dist=" + seedDistribution(r, depth - 1) + ",p=0." + std::to_string(r.range(1, 9)) + ")";
  if (f == "Mixture" && depth > 0)
    return f + "(probas=(0.5,0.5),dist1=" + seedDistribution(r, depth - 1) + ",dist2=" + seedDistribution(r, depth - 1) + ")";
  std::string s = f + "(n=" + std::to_string(r.range(0, 9));
  static const char* keys[] = {"alpha", "beta", "mu", "sigma", "lambda", "tp", "begin", "end", "offset", "median"};
  size_t k = r.below(4);
  for (size_t i = 0; i < k; ++i) s += std::string(",") + keys[r.below(10)] + "=" + num();
  return s + ")";
}
inline std::string seedFormula(Rng& r, int depth)
{
  if (depth <= 0 || r.chance(1, 3))
  {
    if (r.coin()) return numberLike(r, '.', 'e');
    return r.coin() ? "f" : "x1";
  }
  switch (r.below(6))
  {
  case 0: return "(" + seedFormula(r, depth - 1) + ")";
  case 1: return "exp(" + seedFormula(r, depth - 1) + ")";
  case 2: return "log(" + seedFormula(r, depth - 1) + ")";
  case 3: return "-" + seedFormula(r, depth - 1);
  default:
  {
    static const char ops[] = "+-*/";
    return seedFormula(r, depth - 1) + ops[r.below(4)] + seedFormula(r, depth - 1);
  }
  }
}
inline std::string seedInterval(Rng& r)
{
  std::string s;
  s += r.coin() ? '[' : ']';
  s += r.chance(1, 5) ? "-inf" : numberLike(r, '.', 'e');
  s += ';';
  s += r.chance(1, 5) ? "inf" : numberLike(r, '.', 'e');
  s += r.coin() ? ']' : '[';
  return s;
}
inline std::string seedTableText(Rng& r, char sep)
{
  size_t nc = 1 + r.below(4), nr = r.below(5);
  bool header = r.coin(), rn = r.chance(1, 3);
  std::string s;
  if (header)
  {
    for (size_t j = 0; j < nc; ++j) s += (j ? std::string(1, sep) : "") + "c" + std::to_string(j);
    s += "\n";
  }
  for (size_t i = 0; i < nr; ++i)
  {
    if (rn) s += "r" + std::to_string(r.chance(1, 8) ? 0 : i) + sep;
    size_t m = r.chance(1, 8) ? r.below(6) : nc;
    for (size_t j = 0; j < m; ++j) s += (j ? std::string(1, sep) : "") + (r.chance(1, 8) ? "" : seedWord(r));
    s += r.chance(1, 10) ? "\n\n" : "\n";
  }
  return s;
}
inline std::string seedOptions(Rng& r)
{
  std::string s;
  size_t n = 1 + r.below(6);
  static const char* names[] = {"a", "b", "c", "param", "x.y"};
  for (size_t i = 0; i < n; ++i)
  {
    std::string v;
    size_t k = r.below(4);
    for (size_t j = 0; j < k; ++j)
    {
      switch (r.below(6))
      {
      case 0: v += std::string("$(") + names[r.below(5)] + ")"; break;
      case 1: v += "$(" ; break;
      case 2: v += " # comment"; break;
      case 3: v += "/* c */"; break;
      case 4: v += "// c"; break;
      default: v += seedWord(r);
      }
    }
    s += std::string(names[r.below(5)]) + (r.chance(1, 10) ? "" : "=") + v;
    if (r.chance(1, 5)) s += "\\";
    s += "\n";
  }
  return s;
}
inline std::string seedPath(Rng& r)
{
  std::string s;
  size_t n = r.below(5);
  for (size_t i = 0; i < n; ++i)
  {
    if (r.chance(2, 3)) s += "/";
    s += seedWord(r);
  }
  if (r.coin()) s += "." + seedWord(r);
  return s;
}

// grow a seed up to maxLen bytes by repeating / nesting pieces of itself
inline std::string inflate(Rng& r, std::string s, size_t maxLen)
{
  if (s.empty()) return s;
  size_t target = 1 + r.below(maxLen);
  while (s.size() < target && s.size() < maxLen)
  {
    size_t a = r.below(s.size()), l = 1 + r.below(s.size() - a);
    std::string piece = s.substr(a, l);
    size_t at = r.below(s.size() + 1);
    if (s.size() + piece.size() > maxLen) break;
    s.insert(at, piece);
  }
  return s;
}
} // namespace tg
#endif
