// Shared helpers of the text drivers (C17: drv_text.cpp, C16: drv_textfuzz.cpp):
// string <-> character-code encodings, exhaustive small-alphabet enumeration,
// seeded grammar-aware string generators.
#ifndef VERIF_DRV_TEXT_GEN_H
#define VERIF_DRV_TEXT_GEN_H

#include "tracer.h"

#include <functional>
#include <map>
#include <string>
#include <vector>

namespace tg
{
using vt::Arr;
using vt::Obj;
using vt::Rng;

// ---------------------------------------------------------------- encodings
// A string is logged as the array of the codes of its characters.  The map is
// per module (see the TLA+ modules); characters outside the map get `other`.
struct Codec
{
  std::map<char, int> m;
  int other;
  Codec() : m(), other(0) {}
  Codec(const std::map<char, int>& mm, int o) : m(mm), other(o) {}
  int code(char c) const
  {
    auto it = m.find(c);
    return it == m.end() ? other : it->second;
  }
  Arr enc(const std::string& s) const
  {
    Arr a;
    for (char c : s) a.add(code(c));
    return a;
  }
  Arr encList(const std::vector<std::string>& v) const
  {
    Arr a;
    for (const auto& s : v) a.add(enc(s));
    return a;
  }
  template<class It> Arr encRange(It b, It e) const
  {
    Arr a;
    for (; b != e; ++b) a.add(enc(*b));
    return a;
  }
  // every character of s is in the map (so the encoding is injective on s)
  bool covers(const std::string& s) const
  {
    for (char c : s)
      if (!m.count(c)) return false;
    return true;
  }
};

// number alphabet of NumberGrammar.tla
inline Codec numberCodec(char dec, char sci)
{
  std::map<char, int> m;
  for (int d = 0; d < 10; ++d) m[static_cast<char>('0' + d)] = d;
  m['-'] = 10;
  m['+'] = 11;
  m[' '] = 15;
  m['\t'] = 15;
  m['\n'] = 15;
  m[dec] = 12;
  m[sci] = 13;
  return Codec(m, 14);
}

// ---------------------------------------------------------------- enumeration
// every string over `alpha` with length <= maxLen, shortest first
inline void forAllStrings(const std::string& alpha, size_t maxLen, const std::function<void(const std::string&)>& f)
{
  std::vector<std::string> level(1, "");
  f("");
  for (size_t n = 1; n <= maxLen; ++n)
  {
    std::vector<std::string> next;
    next.reserve(level.size() * alpha.size());
    for (const auto& s : level)
      for (char c : alpha)
      {
        next.push_back(s + c);
        f(next.back());
      }
    level.swap(next);
  }
}

inline std::string randomString(Rng& r, const std::string& alpha, size_t minLen, size_t maxLen)
{
  size_t n = static_cast<size_t>(r.range(static_cast<long>(minLen), static_cast<long>(maxLen)));
  std::string s;
  for (size_t i = 0; i < n; ++i) s += alpha[r.below(alpha.size())];
  return s;
}

// random corruption: delete / duplicate / replace / insert / swap
inline std::string corrupt(Rng& r, std::string s, const std::string& alpha, int edits)
{
  for (int k = 0; k < edits; ++k)
  {
    size_t n = s.size();
    switch (r.below(5))
    {
    case 0:
      if (n) s.erase(r.below(n), 1);
      break;
    case 1:
      if (n)
      {
        size_t p = r.below(n);
        s.insert(p, 1, s[p]);
      }
      break;
    case 2:
      if (n) s[r.below(n)] = alpha[r.below(alpha.size())];
      break;
    case 3:
      s.insert(r.below(n + 1), 1, alpha[r.below(alpha.size())]);
      break;
    default:
      if (n > 1)
      {
        size_t p = r.below(n - 1);
        std::swap(s[p], s[p + 1]);
      }
    }
  }
  return s;
}

// a number-like string (strict, lax or slightly broken)
inline std::string numberLike(Rng& r, char dec, char sci)
{
  std::string s;
  if (r.chance(1, 3)) s += r.chance(4, 5) ? '-' : '+';
  size_t ni = r.below(4);
  for (size_t i = 0; i < ni; ++i) s += static_cast<char>('0' + r.below(10));
  if (r.chance(1, 2))
  {
    s += dec;
    size_t nf = r.below(4);
    for (size_t i = 0; i < nf; ++i) s += static_cast<char>('0' + r.below(10));
  }
  if (r.chance(1, 3))
  {
    s += sci;
    if (r.chance(1, 2)) s += r.coin() ? '-' : '+';
    size_t ne = r.below(3);
    for (size_t i = 0; i < ne; ++i) s += static_cast<char>('0' + r.below(10));
  }
  return s;
}
} // namespace tg
#endif
