"""C12 - numerical-derivative wrappers are transparent and exact on low-degree polynomials.
Design model: spec/NumDeriv/NumDeriv.tla (+NumDerivMC, NumDerivLemmas);
binding: harness/drv_numderiv.cpp traces validated by NumDerivTrace.tla."""
import glob
import json
import os
from concurrent.futures import ThreadPoolExecutor
import vcommon as vc

SPEC = os.path.join(vc.VERIF, "spec", "NumDeriv")
INV = "Transparent ProbeShape Delegates QueryGood OutcomeOK"


def _cfg(path, nv, pts, boxes, schemes, kinds, d1s, bug="none"):
    with open(path, "w") as f:
        f.write("SPECIFICATION Spec\nCONSTANTS\n  NV = %d\n  Pts = %s\n  Boxes <- %s\n  Schemes = %s\n  Kinds = %s\n"
                "  H = 2\n  D1s = %s\n  Bug = \"%s\"\nINVARIANTS %s\nCHECK_DEADLOCK FALSE\n"
                % (nv, pts, boxes, schemes, kinds, d1s, bug, INV))
    return "NV=%d Pts=%s Boxes=%s Schemes=%s Kinds=%s H=2 D1s=%s Bug=%s" % (nv, pts, boxes, schemes, kinds, d1s, bug)


# (name, NV, Pts, Boxes, Schemes, Kinds, D1s)
QUICK = [("two-vars", 2, "{0, 1, 3, 6, 12}", "BoxesFull", "{2, 3, 5}", "{2}", "{TRUE}"),
         ("three-vars-cross", 3, "{1, 6}", "BoxesWide", "{3}", "{2}", "{TRUE}"),
         ("d1-off", 2, "{1, 6}", "BoxesWideNarrow", "{2, 3, 5}", "{0, 2}", "{TRUE, FALSE}")]
THOROUGH = [("two-vars", 2, "{0, 1, 3, 6, 12}", "BoxesFull", "{2, 3, 5}", "{0, 2}", "{TRUE}"),
            ("two-vars-d1", 2, "{0, 1, 6}", "BoxesFull", "{2, 3, 5}", "{2}", "{TRUE, FALSE}"),
            ("three-vars", 3, "{1, 6}", "BoxesFull", "{2, 3, 5}", "{2}", "{TRUE}"),
            ("three-vars-cross", 3, "{0, 1, 6}", "BoxesWide", "{3}", "{2}", "{TRUE}")]
# seeded design defects the invariants must reject (the first one is the defect found in the code)
BUGS = [("lastonly", 2, "{1, 6}", "BoxesWide", "{3}", "{2}", "{TRUE}"),
        ("chainbreak", 3, "{6}", "BoxesFull", "{2}", "{2}", "{TRUE}"),
        ("escape", 2, "{6}", "BoxesWideNarrow", "{5}", "{2}", "{TRUE}"),
        ("partial", 2, "{1, 6}", "BoxesWide", "{3}", "{2}", "{TRUE}")]


def _sig(rj):
    ev = rj.event or {}
    scheme = ""
    for ln in reversed(rj.prefix or []):
        if ln.startswith('{"e":"Reset"'):
            try:
                scheme = json.loads(ln).get("scheme", "")
            except Exception:
                pass
            break
    act = ev.get("e", "")
    if act == "Query":
        act += ":" + str(ev.get("k", ""))
    return {"action": act, "invariant": rj.invariant or "step", "scheme": scheme, "stale": ev.get("stale", False),
            "entry": ev.get("entry", ""), "out": str(ev.get("out", ""))[:5]}


def _cleanup():
    # TLC drops a *_TTrace_* specification next to the module for every violated invariant
    for f in glob.glob(os.path.join(SPEC, "*_TTrace_*")):
        try:
            os.remove(f)
        except OSError:
            pass


def _validate(ck, trace, tag):
    n_ev, rej, st = vc.validate_trace(SPEC, "NumDerivTrace", os.path.join(SPEC, "NumDerivTrace.cfg"), trace)
    ck.events += n_ev
    ck.traces += vc.count_scenarios(trace)
    ck.handle_rejections(rej, _sig, tag=tag)
    return rej


def _corrupted(ck, wd, trace):
    """Binding sanity: flipping one logged field of an accepted trace must make TLC reject it."""
    lines = []
    resets = 0
    for ln in open(trace):
        if ln.startswith('{"e":"Reset"'):
            resets += 1
            if resets > 3:
                break
        lines.append(ln.rstrip("\n"))

    def flip(pred, mut):
        out, done = [], False
        for ln in lines:
            ev = json.loads(ln)
            if not done and pred(ev):
                mut(ev)
                done = True
            out.append(json.dumps(ev, separators=(",", ":")))
        return out if done else None

    def bump(key, idx=None):
        def m(ev):
            if idx is None:
                ev[key] += 1
            else:
                ev[key][idx] += 1
        return m
    variants = [("wrapper value", flip(lambda e: e["e"] == "Return" and e["out"] == "ok", bump("wv"))),
                ("wrapped position at return", flip(lambda e: e["e"] == "Return" and e["out"] == "ok", bump("fp", 0))),
                ("derivative value", flip(lambda e: e["e"] == "Query" and e["vok"] and e["deleg"], bump("val"))),
                ("delegation flag", flip(lambda e: e["e"] == "Query" and e["deleg"], lambda ev: ev.__setitem__("deleg", False))),
                ("outcome", flip(lambda e: e["e"] == "Return" and e["out"] == "ok", lambda ev: ev.__setitem__("out", "raise:Exception")))]
    rejected = []
    for name, v in variants:
        if v is None:
            continue
        pth = os.path.join(wd, "corrupt.ndjson")
        open(pth, "w").write("\n".join(v) + "\n")
        n_ev, rej, st = vc.validate_trace(SPEC, "NumDerivTrace", os.path.join(SPEC, "NumDerivTrace.cfg"), pth, parallel=1)
        os.remove(pth)
        if not rej:
            raise vc.MachineryError("a trace with a corrupted %s is accepted by NumDerivTrace" % name)
        rejected.append(name)
    ck.extra["corrupted_traces_rejected"] = rejected


def run(tier, seed):
    ck = vc.Check("C12", tier, seed)
    quick = tier == "quick"
    wd = vc.workdir("c12")
    # 1. lemmas: the degree each difference formula differentiates exactly
    lem = os.path.join(wd, "lemmas.cfg")
    nl = 4 if quick else 6
    open(lem, "w").write("SPECIFICATION Spec\nCONSTANT N = %d\n" % nl)
    r = vc.tlc(SPEC, "NumDerivLemmas", lem, workers=2)
    if r.assumption_failed or not r.completed:
        ck.violation("NumDerivLemmas: a difference formula is not exact up to the degree the specification uses\n" + r.out[-1500:], [r.out], tag="lemma")
    ck.add_model("NumDerivLemmas", r, "N=%d" % nl)
    # 2. design model: every history inside the bound, all selections/orders/boxes/points
    plan = QUICK if quick else THOROUGH
    nw = max(2, vc.NCPU // len(plan))

    def one(c):
        cfg = os.path.join(wd, "design_%s.cfg" % c[0])
        consts = _cfg(cfg, *c[1:])
        return c[0], consts, vc.model_check(SPEC, "NumDerivMC", cfg, coverage=True, workers=nw, timeout=3000, heap="6g")

    with ThreadPoolExecutor(max_workers=len(plan)) as ex:
        res = list(ex.map(one, plan))
    taken = {}
    for name, consts, r in res:
        ck.models.append({"model": "NumDeriv/" + name, "constants": consts, "distinct_states": r.distinct,
                          "states_generated": r.generated, "depth": r.depth, "wall_s": round(r.wall, 1)})
        ck.states += r.distinct
        ck.transitions += r.generated
        for a, (t, g) in r.coverage().items():
            taken[a] = taken.get(a, 0) + t + g
        if r.invariant or not r.completed:
            ck.violation("design model NumDeriv/%s: %s" % (name, r.invariant or "did not complete"), [r.out[-6000:]], tag="model")
    ck.untaken += ["NumDeriv:" + a for a, n in sorted(taken.items()) if n == 0]
    # 2b. the invariants are not vacuous: each seeded design defect is rejected
    caught = {}
    for b in BUGS:
        cfg = os.path.join(wd, "bug_%s.cfg" % b[0])
        _cfg(cfg, *b[1:], bug=b[0])
        r = vc.model_check(SPEC, "NumDerivMC", cfg, workers=4, timeout=1200, heap="4g", extra=("-noGenerateSpecTE",))
        caught[b[0]] = r.invariant
        if not r.invariant:
            raise vc.MachineryError("seeded design defect '%s' is not rejected by the invariants" % b[0])
    ck.extra["seeded_design_defects_rejected_by"] = caught
    # 3. implementation traces
    exe = vc.build_driver("drv_numderiv", link_lib=True)
    runs = [("random", ["--mode", "random", "--n", 250 if quick else 6000]),
            ("grid", ["--mode", "grid", "--nvmax", 2 if quick else 3]),
            ("stale", ["--mode", "stale"])]
    stats = {}
    for name, args in runs:
        tr = os.path.join(wd, "trace-%s.ndjson" % name)
        s = vc.run_driver(exe, args, tr)
        stats[name] = {k: v for k, v in s.items() if not k.startswith("_")}
        _validate(ck, tr, name[0])
        if name == "random":
            ck.samples += vc.sample_scenarios(tr, 3)
        if name == "grid" and not ck.violations:
            _corrupted(ck, wd, tr)
        os.remove(tr)
    ck.extra["driver"] = stats
    ck.exhaustive = True
    ck.rule = ("random scenarios: scheme 2/3/5, 1-4 variables, polynomial degree 0-5 with integer coefficients, dyadic interval "
               "2^-5..2^-20, boxes with bounds on / next to the point (0, h/16, h/2, 3h/4, h, 3h/2, 2h, 5h/2), pinned variables, "
               "inclusive/exclusive bounds, any selection subset/order, cross on/off, all five entry points, refused updates; "
               "grid: every scheme x ordered selection x cross x 12 bound situations, all entry points per scenario; "
               "non-trivial = scenario with at least one update that probes")
    ck.distinct = ck.traces
    ck.assumptions = ["TLC; CommunityModules Json", "harness Function logs every fireParameterChanged/getValue/enable call it receives",
                      "E3: value comparisons only for updates whose evaluations were all exact in binary64 (driver re-evaluates in exact dyadic arithmetic)",
                      "probe step rule h*(1+|x|) is part of the model (Hof)"]
    _cleanup()
    return ck.finish()


def replay(path):
    n_ev, rej, st = vc.validate_trace(SPEC, "NumDerivTrace", os.path.join(SPEC, "NumDerivTrace.cfg"), path, parallel=1)
    _cleanup()
    for rj in rej:
        vc.log("VIOLATION property=C12 replay=%s" % path)
        vc.log("  %s at event #%d: %s" % (rj.reason, rj.index, rj.event))
    return 1 if rej else 0
