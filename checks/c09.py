"""C09 - a discretised distribution is always a valid partition of its continuous parent.
Design model: spec/Discretised/Discretised.tla (+ DiscObs = the property on one observation);
binding: harness/drv_discrete.cpp traces validated by DiscretisedTrace.tla."""
import glob
import json
import os
import vcommon as vc

SPEC = os.path.join(vc.VERIF, "spec", "Discretised")
INVS = ("WellFormed InvCount InvBoundsMonotone InvValuesStrict InvValueInOwnClass InvProbsNonNeg InvProbsSumOne "
        "InvEqualMass InvDomainInside InvDomainMass InvMassMatchesCdf InvCdfMonotone InvMeanMatches InvLookup "
        "InvCumulative CacheFresh")
# defective designs the design model must reject: (constant override, some invariant expected to fire)
VARIANTS = (("Forget", '"SetParam"'), ("Forget", '"SetN"'), ("Forget", '"SetMedian"'), ("Forget", '"Restrict"'),
            ("Forget", '"Copy"'), ("Forget", '"Rename"'), ("LookupStart", "1"))


def _cfg(path, nmax, g, forget='"none"', lookup="0", invs=INVS):
    with open(path, "w") as f:
        f.write("SPECIFICATION Spec\nSYMMETRY Sym\nCONSTANTS\n  Objs = {o1, o2}\n  Fams = {\"fixed\", \"shift\"}\n  NMax = %d\n  G = %d\n"
                "  PMax = 2\n  Forget = %s\n  LookupStart = %s\nINVARIANTS %s\nPROPERTY RefusalKeeps\nCHECK_DEADLOCK FALSE\n"
                % (nmax, g, forget, lookup, invs))


def _sig(rj):
    ev = rj.event or {}
    st = ev.get("st", {})
    rb = ev.get("o", {}).get("rb", [])
    empty = any(rb[i] == rb[i + 1] for i in range(len(rb) - 1))      # some class interval is a single point
    refused_calls = set()                                                # entry points refused earlier in the history
    for ln in (rj.prefix or [])[:-1]:
        if '"rk":"bpp"' in ln:
            try:
                refused_calls.add(json.loads(ln).get("e", "?"))
            except ValueError:
                refused_calls.add("?")
    refused = bool(refused_calls)
    tw = ev.get("o", {}).get("tw", {})                                   # what differs from the freshly built twin
    stale = "+".join(sorted(k for k, v in tw.items() if k != "built" and v is False)) if tw.get("built") else "twin-not-built"
    # narrow: the values that are out of their class are ALL in classes narrower than 100 x the 1e-12 resolution of
    # the class map (computed by the driver from the raw doubles); rescaled_median: the class values are medians
    # multiplied by mean/sum(medians) (median flag on, equal-probability discretisation)
    narrow = bool(ev.get("o", {}).get("narrow", False))
    rescaled = bool(st.get("median")) and st.get("scheme", 1) in (1, 3)
    return {"action": ev.get("e"), "invariant": rj.invariant or "step", "kind": st.get("kind", ""), "fam": st.get("fam", ""),
            "narrow": narrow, "rescaled_median": rescaled, "merged_into_invariant": bool(ev.get("o", {}).get("mii", False)), "median_rescale_only": bool(ev.get("o", {}).get("mro", False)), "scheme": st.get("scheme", ""),
            "median": st.get("median", ""), "outcome": ev.get("rk", ""), "emptyclass": empty,
            "compound": st.get("kind", "") in ("invariant", "mixture"), "after_refusal": refused,
            "refused_calls": "+".join(sorted(refused_calls)), "stale_fields": stale}


def _validate(ck, trace, tag="t"):
    n_ev, rej, st = vc.validate_trace(SPEC, "DiscretisedTrace", os.path.join(SPEC, "DiscretisedTrace.cfg"), trace)
    ck.events += n_ev
    ck.traces += vc.count_scenarios(trace)
    ck.handle_rejections(rej, _sig, tag=tag)
    return rej


def _cleanup():
    """TLC writes <Module>_TTrace_* files next to the module whenever it reports a violation (the rejected
    design variants, the probes of the known findings): remove them."""
    for p in glob.glob(os.path.join(SPEC, "*_TTrace_*")):
        try:
            os.remove(p)
        except OSError:
            pass


_orig_load = vc.load_findings


def _load_findings():
    """An entry of findings.d/C09.json REPLACES the entry of known_findings.json with the same id (a fragment
    that narrows a match must not be shadowed by the older, broader entry until the coordinator has merged it)."""
    f = _orig_load()
    last = {}
    for n, k in enumerate(f.get("known", [])):
        if k.get("property") == "C09" and k.get("id"):
            last[k["id"]] = n
    f["known"] = [k for n, k in enumerate(f.get("known", []))
                  if not (k.get("property") == "C09" and k.get("id") and last[k["id"]] != n)]
    return f


vc.load_findings = _load_findings


def _known_ids():
    return [k["id"] for k in vc.load_findings().get("known", []) if k.get("property") == "C09" and k.get("id")]


def run(tier, seed):
    ck = vc.Check("C09", tier, seed)
    quick = tier == "quick"
    wd = vc.workdir("c09")
    # 1. design model: every interleaving of the six entry points on two objects
    nmax, g = (3, 2) if quick else (4, 3)
    cfg = os.path.join(wd, "design.cfg")
    _cfg(cfg, nmax, g, invs="CacheFresh AllObsInv")     # AllObsInv = the DiscObs predicates, observation expanded once
    r = vc.model_check(SPEC, "Discretised", cfg, coverage=True, timeout=2400, heap="8g")
    if r.invariant == "AllObsInv":                      # name the predicate
        _cfg(cfg, nmax, g)
        r = vc.model_check(SPEC, "Discretised", cfg, timeout=2400, heap="8g")
    consts = "Objs={1,2} Fams={fixed,shift} NMax=%d G=%d PMax=2" % (nmax, g)
    ck.add_model("Discretised", r, consts)
    if r.invariant:
        ck.violation("design model Discretised violates %s" % r.invariant, [r.out[-6000:]], tag="model")
    # 1b. the invariants are not vacuous: designs that forget to recompute in one entry point, and the
    # lookup scan that skips the first interior bound, must be rejected by TLC
    caught = {}
    for const, val in VARIANTS:
        vcfg = os.path.join(wd, "variant.cfg")
        _cfg(vcfg, 3, 2, forget=val if const == "Forget" else '"none"', lookup=val if const == "LookupStart" else "0")
        rv = vc.tlc(SPEC, "Discretised", vcfg, workers=4, timeout=1200, extra=("-noGenerateSpecTE",))
        caught["%s=%s" % (const, val.strip('"'))] = rv.invariant
        if not rv.invariant:
            raise vc.MachineryError("design variant %s=%s is not rejected by any invariant: the specification is too weak" % (const, val))
    ck.extra["defective_designs_rejected_by"] = caught
    # 2. implementation traces
    exe = vc.build_driver("drv_discrete")
    known = _known_ids()
    avoid = ["--avoid", ",".join(known)] if known else []
    runs = [("grid", ["--mode", "grid", "--ns", "1,2,3,4,7,16,32" if quick else ",".join(str(i) for i in range(1, 33)),
                      "--steps", 3 if quick else 4] + avoid)]
    nrand, per = (300, 300) if quick else (10000, 1250)
    for k in range(nrand // per):
        runs.append(("random%d" % k, ["--mode", "random", "--n", per, "--stream", k] + avoid))
    steered = 0
    for name, args in runs:
        tr = os.path.join(wd, "trace-%s.ndjson" % name)
        s = vc.run_driver(exe, args, tr, timeout=3000)
        steered += s.get("steered", 0)
        if s.get("twin_failures", 0):
            ck.extra["twin_failures"] = ck.extra.get("twin_failures", 0) + s["twin_failures"]
        _validate(ck, tr)
        if name == "random0":
            ck.samples += _small_samples(tr)
        os.remove(tr)
    ck.extra["states_not_entered_because_of_known_findings"] = steered
    # 3. one dedicated scenario per known finding: does it still reproduce?
    reproduced = {}
    for kid in known:
        tr = os.path.join(wd, "probe-%s.ndjson" % kid)
        vc.run_driver(exe, ["--mode", "probe", "--id", kid], tr)
        nv = len(ck.violations)
        rej = _validate(ck, tr, tag="p")
        reproduced[kid] = bool(rej) and len(ck.violations) == nv
        os.remove(tr)
    ck.extra["known_findings_reproduced"] = reproduced
    ck.exhaustive = True
    ck.rule = ("random histories (Construct + <=11 of SetParam accepted/refused via 3 entry points, SetN 1..32, SetMedian, "
               "RestrictTo sub-interval, clone/assign/clone-then-disturb) over gamma, gamma+offset, beta (3 schemes), gaussian, "
               "exponential, truncated exponential, uniform, simple, constant, invariant-mixed, mixture; parameters on a log grid "
               "over 3 decades; plus the grid families x n x scheme x median x parameter grid with a there-and-back parameter "
               "change; non-trivial = scenario with at least one state-changing call after construction")
    ck.distinct = ck.traces
    ck.assumptions = ["TLC 1.8.0; CommunityModules Json",
                      "harness/drv_discrete.cpp: observation through public const queries only; E1 ranks by exact comparison; E4 = round(x*1e6)",
                      "parent cdf / partial expectation are the object's own pProb / Expectation (their accuracy is C08, not decided here)",
                      "regular range: every continuous (component) parent keeps >= 1% of its mass inside the accepted restrictions"]
    _cleanup()
    return ck.finish()


def _small_samples(tr, k=3):
    """sample scenarios with small class counts (the evidence file stays readable)"""
    out = []
    for sc in vc.sample_scenarios(tr, 40, maxlines=6):
        if all(isinstance(e, dict) and (e.get("o", {}).get("n", 0) <= 3) for e in sc):
            out.append(sc)
        if len(out) >= k:
            break
    return out


def replay(path):
    n_ev, rej, st = vc.validate_trace(SPEC, "DiscretisedTrace", os.path.join(SPEC, "DiscretisedTrace.cfg"), path, parallel=1)
    _cleanup()
    for rj in rej:
        vc.log("VIOLATION property=C09 replay=%s" % path)
        vc.log("  %s at event #%d: %s" % (rj.reason, rj.index, json.dumps(rj.event)[:400]))
    return 1 if rej else 0
