"""C02 - bulk parameter updates are atomic; names stay unique; copies are independent.
Design model: spec/Params/ParamList.tla (SpecL); binding: harness/drv_params.cpp (modes list, bulk)
validated by spec/Params/ParamsTrace.tla."""
import os
import vcommon as vc
from checks import params_common as pc

SPEC = pc.SPEC
PROPS = "RaiseKeepsL BulkAtomic Untouched FlagExact AddRefused CopyIndependent ShareSame AddressExact"


def _design_cfg(path, lids, names, vals, cons, kinds, maxlen):
    with open(path, "w") as f:
        f.write("SPECIFICATION SpecL\nCONSTANTS\n  K = 3\n  PIds = {}\n  Precs = {0}\n  LIds = {%s}\n  NameIds = {%s}\n"
                "  DVals = {%s}\n  DCons <- %s\n  DKinds = {%s}\n  MaxLen = %d\nVIEW ViewL\nCONSTRAINT BoundL\n"
                "INVARIANTS TypeOKL ParamOK NamesUnique\nPROPERTIES %s\nCHECK_DEADLOCK FALSE\n"
                % (", ".join(map(str, lids)), ", ".join(map(str, names)), ", ".join(map(str, vals)), cons,
                   ", ".join(map(str, kinds)), maxlen, PROPS))


def _flip(ev):
    # alter the order of a logged list (or a logged value when no list has two entries)
    s = ev.get("s")
    if ev.get("e") == "Reset" or not s:
        return False
    for entry in s.get("L", []):
        if len(entry[1]) >= 2:
            entry[1][0], entry[1][1] = entry[1][1], entry[1][0]
            return True
    return False


def run(tier, seed):
    ck = vc.Check("C02", tier, seed)
    quick = tier == "quick"
    wd = vc.workdir("c02")
    # 1. design model: every history of list operations inside the bound
    designs = [("small", [1, 2], [0, 1], [0, 4], "DConsSmall", [0], 2)]
    if not quick:
        designs.append(("auto", [1, 2], [0, 1], [0, 4], "DConsSmall", [1], 2))          # auto-correcting entries
        designs.append(("three", [1, 2, 3], [0, 1], [0, 4], "DConsSmall", [0], 1))      # three lists of one entry
        designs.append(("vals3", [1, 2], [0, 1], [0, 4, 8], "DConsBig", [0], 2))        # three values, two constraints
    for name, lids, names, vals, cons, kinds, maxlen in designs:
        cfg = os.path.join(wd, "design_%s.cfg" % name)
        _design_cfg(cfg, lids, names, vals, cons, kinds, maxlen)
        r = vc.model_check(SPEC, "ParamList", cfg, coverage=True, timeout=12000, heap="10g")
        pc.add_design(ck, "ParamList/" + name, r, "LIds=%s NameIds=%s DVals=%s DCons=%s DKinds=%s MaxLen=%d" % (lids, names, vals, cons, kinds, maxlen))
    # 2. implementation traces
    exe = vc.build_driver("drv_params")
    runs = [("list", ["--mode", "list", "--n", 250 if quick else 4000]),
            ("bulk", ["--mode", "bulk", "--nmax", 2 if quick else 3])]
    for name, args in runs:
        tr = os.path.join(wd, "trace-%s.ndjson" % name)
        s = vc.run_driver(exe, args, tr)
        pc.validate(ck, tr, tag=name)
        if name == "list":
            ck.samples += vc.sample_scenarios(tr, 2, maxlines=6)
            pc.corruption_selftest(ck, tr, wd, _flip)
        ck.extra["events_" + name] = s.get("events", 0)
        os.remove(tr)
    ck.exhaustive = True
    ck.rule = ("random histories (6-22 calls after set-up) on 2-5 lists (one may be an owning object) of 0-8 parameters over a "
               "universe of 2-6 names, constrained and unconstrained, plain and auto-correcting, values inside and outside the "
               "targets' constraints: add / share / include / addParameters / shareParameters / setParameterValue / set(All)"
               "ParametersValues / match / test / setParameters / matchParameters / deletions by name, name vector, index, "
               "index set / sub-lists by names and indices (cloned and shared) / common parameters / copy / assign / reset / "
               "setParameter(i,.) / look-ups; exhaustive bulk updates: every non-empty subset of %d target names (+ a foreign "
               "name), both orders, every assignment of {same, different, rejected} source values, 4 operations, list and owner; "
               "non-trivial = scenario with at least one state-changing call" % (2 if quick else 3))
    ck.distinct = ck.traces
    ck.assumptions = ["TLC; CommunityModules Json", "parameters inside lists have zero precision",
                      "harness/drv_params.cpp: object identity = address of the Parameter object, every observed object is kept alive",
                      "setParameter(i,.) and repeated index sets are outside the statement: modelled, uniqueness not asserted after them"]
    return ck.finish()


def replay(path):
    return pc.replay("C02", path)
