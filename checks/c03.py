"""C03 - aliased parameters track their source through every update, copy and renaming.
Design model: spec/Aliasing/Aliasing.tla (configurations generated below, constants in MCAliasing.tla);
binding: harness/drv_alias.cpp traces validated by spec/Aliasing/AliasingTrace.tla."""
import json
import os
from concurrent.futures import ThreadPoolExecutor

import vcommon as vc

SPEC = os.path.join(vc.VERIF, "spec", "Aliasing")
TCFG = os.path.join(SPEC, "AliasingTrace.cfg")
INV = "TypeOK IndepComplement Acyclic ParamOK SharedConstraint ConWithinHad ChainTight WriteAllOrNothing CascadeLemma"
PROPS = "Follows SharedIntersection CopyCarries OwnerLocal RefusalKeeps UnaliasLocal RenameKeeps"


def _set(xs):
    return "{" + ", ".join(str(x) for x in xs) + "}"


def _cfg(path, spec, names, owners, vals, cons, nss, parsets, maxw, maps, live=False):
    with open(path, "w") as f:
        f.write("SPECIFICATION %s\nCONSTANTS\n  Names = %s\n  Owners = %s\n  Vals = %s\n  Cons <- %s\n  NSs = %s\n"
                "  ParSets <- %s\n  MaxWrites = %d\n  Maps <- %s\nINVARIANTS %s\nPROPERTIES %s%s\nCHECK_DEADLOCK FALSE\n"
                % (spec, _set(range(1, names + 1)), _set(range(1, owners + 1)), _set(range(1, vals + 1)), cons, _set(nss),
                   parsets, maxw, maps, INV, PROPS, " BulkTerminates" if live else ""))
    return "Names=1..%d Owners=1..%d Vals=1..%d Cons=%s NSs=%s ParSets=%s MaxWrites=%d Maps=%s%s" % (
        names, owners, vals, cons, _set(nss), parsets, maxw, maps, " +liveness(WF)" if live else "")


# name, spec, names, owners, vals, cons, namespaces, parameter sets, max writes, maps, liveness
DESIGN = {
    "quick": [
        ("one", "Spec", 3, 1, 2, "ConsNone", (0, 1, 2), "ParAll", 2, "MapsNone", False),
        ("two", "Spec", 2, 2, 2, "ConsNone", (0, 1), "ParAll", 1, "MapsNone", False),
        ("con", "Spec", 3, 1, 3, "ConsTwo", (0,), "ParAll", 0, "MapsNone", False),
        ("bulk", "FairSpec", 3, 1, 2, "ConsNone", (0, 1), "ParAll", 0, "MapsAll", True),
    ],
    "thorough": [
        ("one", "Spec", 4, 1, 2, "ConsNone", (0, 1, 2), "ParSome", 2, "MapsNone", False),
        ("two", "Spec", 3, 2, 2, "ConsNone", (0,), "ParAll", 1, "MapsNone", False),
        ("con", "Spec", 3, 1, 3, "ConsThree", (0,), "ParAll", 1, "MapsNone", False),
        ("open", "Spec", 3, 1, 3, "ConsOpen", (0,), "ParAll", 0, "MapsNone", False),
        ("bulk", "FairSpec", 3, 1, 2, "ConsTwoV2", (0, 1), "ParSome", 0, "MapsAll", True),
        ("bulk4", "FairSpec", 4, 1, 1, "ConsNone", (0,), "ParAll", 0, "MapsAll", True),
    ],
}


def _sig(rj):
    ev = rj.event or {}
    return {"action": ev.get("e"), "outcome": ev.get("r", ""), "invariant": rj.invariant or "step"}


def _seal(trace):
    """A driver that died mid-line must yield a rejected event, not an unreadable trace."""
    lines = open(trace).read().splitlines()
    if lines:
        try:
            json.loads(lines[-1])
        except ValueError:
            lines[-1] = '{"e":"Crash","what":"truncated"}'
            open(trace, "w").write("\n".join(lines) + "\n")


def _tidy():
    """TLC drops trace-explorer modules next to the specification whenever it reports an error."""
    import glob
    for f in glob.glob(os.path.join(SPEC, "*_TTrace_*")):
        try:
            os.remove(f)
        except OSError:
            pass


def _validate(ck, trace, tag="t"):
    _seal(trace)
    n_ev, rej, st = vc.validate_trace(SPEC, "AliasingTrace", TCFG, trace)
    if rej:
        _tidy()
    ck.events += n_ev
    ck.traces += vc.count_scenarios(trace)
    ck.handle_rejections(rej, _sig, tag=tag)
    return rej


def _corruptions(lines):
    """Three corrupted copies of an accepted trace: (description, index of the corrupted event, lines)."""
    evs = [json.loads(x) for x in lines]
    out = []

    def first(pred):
        for i, e in enumerate(evs):
            if pred(e):
                return i
        return None

    i = first(lambda e: e.get("e") == "Set" and e.get("r") == "ok")
    if i is not None:
        e = json.loads(lines[i])
        e["s"][0][2][-1][1] = e["s"][0][2][-1][1] % 6 + 1          # value of the last parameter of the first owner
        out.append(("one logged value changed", i, lines[:i] + [json.dumps(e)] + lines[i + 1:]))
    i = first(lambda e: e.get("e") == "Alias" and e.get("r") == "ok")
    if i is not None:
        e = json.loads(lines[i])
        e["s"][0][3].append([e["a"][1], e["s"][0][2][0][1]])       # the new follower still listed as independent
        out.append(("follower still in the independent list", i, lines[:i] + [json.dumps(e)] + lines[i + 1:]))
    i = first(lambda e: e.get("e") == "Alias" and e.get("r") == "raise")
    if i is not None:
        e = json.loads(lines[i])
        e["r"] = "ok"
        out.append(("refusal reported as success", i, lines[:i] + [json.dumps(e)] + lines[i + 1:]))
    i = first(lambda e: e.get("e") == "Unalias" and e.get("r") == "ok")
    if i is not None:
        out.append(("one event dropped", i, lines[:i] + lines[i + 1:]))
    return out


def _selfcheck_corrupted(ck, trace, wd):
    """The trace specification must reject corrupted copies of a trace it accepts (at the corrupted event)."""
    lines = open(trace).read().splitlines()
    starts = [i for i, ln in enumerate(lines) if ln.startswith('{"e":"Reset"')] + [len(lines)]
    rejected = 0
    cases = []
    for a, b in zip(starts, starts[1:]):          # one scenario at a time, first three that offer a corruption
        for c in _corruptions(lines[a:b]):
            if c[0] not in [x[0] for x in cases]:
                cases.append(c)
    for n, (what, idx, ls) in enumerate(cases):
        p = os.path.join(wd, "corrupt-%d.ndjson" % n)
        open(p, "w").write("\n".join(ls) + "\n")
        n_ev, rej, st = vc.validate_trace(SPEC, "AliasingTrace", TCFG, p, parallel=1)
        os.remove(p)
        _tidy()
        if not rej or rej[0].index > idx:
            raise vc.MachineryError("trace specification accepted a corrupted trace (%s at event %d)" % (what, idx))
        rejected += 1
    ck.extra["corrupted_traces_rejected"] = rejected
    if rejected < 3:
        raise vc.MachineryError("corruption self-check could not be set up (%d cases)" % rejected)


def _design_run(tier, wd):
    rows = DESIGN[tier]
    per = max(2, vc.NCPU // 2)

    def one(row):
        name = row[0]
        cfg = os.path.join(wd, "design_%s.cfg" % name)
        consts = _cfg(cfg, *row[1:])
        r = vc.tlc(SPEC, "MCAliasing", cfg, coverage=True, workers=per, timeout=3000 if tier == "quick" else 7200,
                   heap="6g" if tier == "quick" else "12g")
        return name, consts, r

    with ThreadPoolExecutor(max_workers=2) as ex:
        res = list(ex.map(one, rows))
    # self-check of the property: with the code's listener cascade in place of the definition, Follows must fail
    cfg = os.path.join(wd, "design_selfcheck.cfg")
    with open(cfg, "w") as f:
        f.write("SPECIFICATION SpecSC\nCONSTANTS\n  Names = {1, 2, 3}\n  Owners = {1}\n  Vals = {1, 2, 3}\n  Cons <- ConsNone\n"
                "  NSs = {0}\n  ParSets <- ParAll\n  MaxWrites = 0\n  Maps <- MapsNone\nINVARIANTS TypeOK Acyclic\n"
                "PROPERTIES Follows\nCHECK_DEADLOCK FALSE\n")
    r = vc.tlc(SPEC, "MCAliasing", cfg, workers=2, timeout=900, heap="2g")
    _tidy()
    if r.invariant != "Follows":
        raise vc.MachineryError("self-check: the short-circuit cascade does not violate Follows in the model\n" + r.out[-2000:])
    # ... and with the loop as it was before the repair (retry without advancing), BulkTerminates must fail
    with open(cfg, "w") as f:
        f.write("SPECIFICATION SpecStuck\nCONSTANTS\n  Names = {1, 2, 3}\n  Owners = {1}\n  Vals = {1}\n  Cons <- ConsNone\n"
                "  NSs = {0}\n  ParSets <- ParAll\n  MaxWrites = 0\n  Maps <- MapsAll\nINVARIANTS TypeOK\n"
                "PROPERTIES BulkTerminates\nCHECK_DEADLOCK FALSE\n")
    r = vc.tlc(SPEC, "MCAliasing", cfg, workers=2, timeout=900, heap="2g")
    _tidy()
    if _temporal(r) != "BulkTerminates":
        raise vc.MachineryError("self-check: the non-advancing loop does not violate BulkTerminates in the model\n" + r.out[-2000:])
    return res


def _temporal(r):
    import re
    m = re.search(r"Temporal property (\S+) was violated", r.out)
    if m:
        return m.group(1)
    return "temporal" if "Temporal properties were violated" in r.out else None


def _design_report(ck, res):
    taken, seen = set(), set()
    for name, consts, r in res:
        ck.add_model("Aliasing/" + name, r, consts)
        for a, (t, g) in r.coverage().items():
            seen.add(a)
            if t or g:
                taken.add(a)
        bad = r.invariant or _temporal(r)
        if bad:
            ck.violation("design model Aliasing/%s violates %s" % (name, bad), [r.out[-6000:]], tag="model")
        elif not r.completed:
            raise vc.MachineryError("TLC failed on design model Aliasing/%s: %s\n%s" % (name, r.other_error, r.out[-3000:]))
    # an action counts as untaken only if no configuration takes it (copy needs two owners, the bulk call its own configuration)
    ck.untaken = sorted(seen - taken)
    if ck.untaken:
        vc.log("design model: actions never taken: %s" % ck.untaken)


def run(tier, seed):
    ck = vc.Check("C03", tier, seed)
    quick = tier == "quick"
    wd = vc.workdir("c03")
    # 1. design models: every history inside the bounds, all maps for the bulk call (termination as liveness);
    #    they run in the background while the implementation traces are produced and validated
    import time
    t0 = time.time()
    bg = ThreadPoolExecutor(max_workers=1)
    design = None
    if os.environ.get("C03_SKIP_DESIGN") != "1":        # development aid only (mutant runs); never set by bin/check users
        design = bg.submit(_design_run, tier, wd)
    # 2. implementation traces
    exe = vc.build_driver("drv_alias", link_lib=True)
    budget = {"VERIF_CALL_BUDGET_MS": "5000" if quick else "20000"}
    runs = [("scripted", ["--mode", "scripted"])]
    nrand = 6 if quick else 16
    for k in range(nrand):
        runs.append(("random%d" % k, ["--mode", "random", "--n", 100 if quick else 400, "--stream", k]))
    runs.append(("maps", ["--mode", "maps", "--k", 3 if quick else 4]))
    skipped = calls = 0

    def drive(item):
        name, args = item
        tr = os.path.join(wd, "trace-%s.ndjson" % name)
        s = vc.run_driver(exe, args, tr, timeout=600 if quick else 3000, env=budget)
        return name, tr, s

    with ThreadPoolExecutor(max_workers=8) as ex:
        produced = list(ex.map(drive, runs))
    for name, tr, s in produced:
        skipped += s.get("skipped", 0)
        calls += s.get("calls", 0)
        if not os.path.exists(tr):
            raise vc.MachineryError("driver produced no trace for " + name)
        if name == "random0":
            ck.samples += vc.sample_scenarios(tr, 3)
        if name == "maps":
            ck.extra["maps_scenarios"] = s.get("scenarios", 0)
    # one TLC batch per trace family keeps the JVM count low
    mix = {}
    for name, tr, s in produced:
        with open(tr) as f:
            for ln in f:
                try:
                    e = json.loads(ln)
                    k = "%s:%s" % (e.get("e"), e.get("r", ""))
                    mix[k] = mix.get(k, 0) + 1
                except ValueError:
                    pass
        rej = _validate(ck, tr)
        if name == "scripted" and not rej:
            _selfcheck_corrupted(ck, tr, wd)
        os.remove(tr)
    ck.extra["event_mix"] = mix
    vc.log("C03: traces validated after %.0fs" % (time.time() - t0))
    if design is not None:
        _design_report(ck, design.result())
        ck.extra["model_selfcheck"] = ("Follows is violated (as it must be) when set-by-name uses the code's listener cascade SetAlg; "
                                       "BulkTerminates is violated (as it must be) by the loop that retries without advancing")
        vc.log("C03: design models done after %.0fs" % (time.time() - t0))
    bg.shutdown()
    ck.extra["driver_calls"] = calls
    ck.extra["driver_skipped_outside_quantifier"] = skipped
    ck.exhaustive = True
    ck.rule = ("seeded random histories (12-40 calls, 2..6 parameters, up to 3 owners incl. copies, assignments into "
               "non-empty owners, destruction; every other history is born and lives under non-empty namespaces with repeated "
               "renames; open/closed interval constraints over a pool of 4-6 reals, sometimes with two bounds that agree in "
               "6 digits; values any pool point, so refusals by the parameter's or a follower's constraint occur) of alias / "
               "unalias / bulk alias (map spelled with or without the namespace) / set-by-name / bulk set / match / copy / "
               "assign / setNamespace; every name map over %d names (+ an unknown source) on a fresh owner and after each "
               "possible earlier link; 12 fixed histories (chains, cycles, assignment, namespaces, constraint refusals, open "
               "bounds); non-trivial = scenario with at least one state-changing call" % (3 if quick else 4))
    ck.distinct = ck.traces
    ck.assumptions = ["TLC; CommunityModules Json", "harness/drv_alias.cpp observes through public const queries only "
                      "(name queries asked with and without the namespace, namespace stripped from the answers)",
                      "values and bounds are compared by pool index (order type)",
                      "bulk-set lists giving a parameter and one of its listed ancestors different values are outside the "
                      "quantifier (not generated); under a non-empty namespace a bulk alias may refuse any non-empty map"]
    return ck.finish()


def replay(path):
    _seal(path)
    n_ev, rej, st = vc.validate_trace(SPEC, "AliasingTrace", TCFG, path, parallel=1)
    _tidy()
    bad = 0
    for rj in rej:
        k = vc.match_known("C03", _sig(rj))
        if k:
            vc.log("KNOWN-FINDING: property=C03 %s [event %d]" % (k.get("what", k.get("id", "")), rj.index))
            continue
        bad += 1
        vc.log("VIOLATION property=C03 replay=%s" % path)
        vc.log("  %s at event #%d: %s" % (rj.reason, rj.index, json.dumps(rj.event)[:800]))
    return 1 if bad else 0
