"""C01 - a constrained parameter never holds a value its constraint rejects; interval algebra; AutoParameter.
Lemmas: spec/Params/IntervalLemmas.tla; design model: spec/Params/Params.tla (SpecP);
binding: harness/drv_params.cpp (modes alg, param, prec) validated by spec/Params/ParamsTrace.tla."""
import os
import vcommon as vc
from checks import params_common as pc

SPEC = pc.SPEC


def _design_cfg(path, k, pids, precs):
    with open(path, "w") as f:
        f.write("SPECIFICATION SpecP\nCONSTANTS\n  K = %d\n  PIds = {%s}\n  Precs = {%s}\nVIEW ViewP\n"
                "INVARIANTS TypeOK ParamOK\nPROPERTIES RaiseKeepsP RejectRaises AutoNearest\nCHECK_DEADLOCK FALSE\n"
                % (k, ", ".join(map(str, pids)), ", ".join(map(str, precs))))


def _flip_value(ev):
    # alter the logged value of the first parameter of the projected state
    s = ev.get("s")
    if ev.get("e") in ("Reset",) or not s or not s.get("P"):
        return False
    s["P"][0][2] += 4
    return True


def _audit(ck, tier, quick, wd, finish=True):
    # 4. the parameters the library creates internally in the other subsystems (hook h1 + harness/param_audit.h):
    #    monitor model (with the lemma that the relative encoding preserves acceptance), then the audit files
    mcfg = os.path.join(wd, "audit_monitor.cfg")
    open(mcfg, "w").write("SPECIFICATION Spec\nCONSTANTS\n  Objs = {1%s}\n  K = %d\nINVARIANTS WellCoded AuditParamOK IsCorrectAgrees RemoveRemoves\nCHECK_DEADLOCK FALSE\n"
                          % ("" if quick else ", 2", 3 if quick else 4))
    r = vc.model_check(SPEC, "ParamAudit", mcfg, coverage=True, timeout=3000, workers=4 if quick else None)
    if r.assumption_failed:
        ck.violation("ParamAudit: the relative order encoding does not preserve acceptance (RelLemma)", [r.out[-3000:]], tag="lemma")
    pc.add_design(ck, "ParamAudit/monitor", r, "Objs=%s K=%d" % ("{1}" if quick else "{1,2}", 3 if quick else 4))
    pc.audit_phase(ck, tier, wd)
    if finish:
        ck.rule = "audit of the Parameter objects of the other subsystems' drivers only (VERIF_C01_ONLY=audit)"
        ck.distinct = ck.traces
        return ck.finish()


def run(tier, seed):
    ck = vc.Check("C01", tier, seed)
    quick = tier == "quick"
    wd = vc.workdir("c01")
    # VERIF_C01_ONLY=audit runs the audit of internally created parameters alone (used to show that this part of the
    # check detects a seeded change by itself)
    only_audit = os.environ.get("VERIF_C01_ONLY", "") == "audit"
    if only_audit:
        return _audit(ck, tier, quick, wd)
    # 1. interval algebra lemmas, every interval / pair of intervals on a K-point grid
    kl = 3 if quick else 4
    lem = os.path.join(wd, "lemmas.cfg")
    open(lem, "w").write("SPECIFICATION Spec\nCONSTANT K = %d\n" % kl)
    r = vc.tlc(SPEC, "IntervalLemmas", lem, workers=4, timeout=1500)
    if r.assumption_failed or not r.completed:
        ck.violation("interval algebra lemma fails (Inter / IsEmpty / AcceptedLimit / Includes against their definitions)\n" + r.out[-1500:], [r.out], tag="lemma")
    ck.add_model("IntervalLemmas", r, "K=%d" % kl)
    # 2. design model: every history of construct / copy / assign / setValue / setConstraint / removeConstraint
    # (quick: two parameters on a one-point pool + one parameter on a two-point pool + precisions; thorough adds
    #  two parameters on a two-point pool and one on a three-point pool)
    designs = [("two-k1", 1, [1, 2], [0]), ("one-k2", 2, [1], [0]), ("precision", 2, [1], [0, 1, 2])]
    if not quick:
        designs += [("two-k2", 2, [1, 2], [0]), ("one-k3", 3, [1], [0, 1, 2])]
    for name, k, pids, precs in designs:
        cfg = os.path.join(wd, "design_%s.cfg" % name)
        _design_cfg(cfg, k, pids, precs)
        r = vc.model_check(SPEC, "Params", cfg, coverage=True, timeout=6000, heap="10g")
        pc.add_design(ck, "Params/" + name, r, "K=%d PIds=%s Precs=%s" % (k, pids, precs))
    # 3. implementation traces
    exe = vc.build_driver("drv_params")
    runs = [("alg", ["--mode", "alg", "--k", 3 if quick else 4, "--n", 150 if quick else 3000]),
            ("cross", ["--mode", "cross", "--k", 2 if quick else 3]),
            ("param", ["--mode", "param", "--n", 250 if quick else 5000]),
            ("prec", ["--mode", "prec", "--n", 80 if quick else 1500]),
            # list-level and owner-level routes of the same writes (a rejected bulk update raises and changes nothing):
            # random list histories and the exhaustive bulk mode (offending entry at every position, list and owner)
            ("list", ["--mode", "list", "--n", 100 if quick else 1500]),
            ("bulk", ["--mode", "bulk", "--nmax", 2])]
    for name, args in runs:
        tr = os.path.join(wd, "trace-%s.ndjson" % name)
        s = vc.run_driver(exe, args, tr)
        pc.validate(ck, tr, tag=name)
        if name == "param":
            ck.samples += vc.sample_scenarios(tr, 3, maxlines=8)
            pc.corruption_selftest(ck, tr, wd, _flip_value)
        ck.extra["events_" + name] = s.get("events", 0)
        os.remove(tr)
    _audit(ck, tier, quick, wd, finish=False)
    ck.exhaustive = True
    ck.rule = ("every interval and pair of intervals on a %d-point grid with every code as test value (isCorrect, includes, "
               "isEmpty, getLimit, getAcceptedLimit, operator&, operator&=, ==, !=, <= between intervals, < > <= >= against values, readDescription); every interval x initial value x "
               "request x new constraint on a %d-point grid through the constructor / setValue / setConstraint of plain and "
               "auto-correcting parameters; random pools of 3-8 reals "
               "(|x|<=1e3, 0 and 1 frequent); random histories (8-30 calls) of construct / copy / conversion / assign / "
               "setValue / setConstraint / removeConstraint / setPrecision on plain and auto-correcting parameters and "
               "through lists and owning objects, values at, next to and outside the bounds, calls that raise included; random list "
               "histories and every bulk update of <= 2 targets with the offending entry at every position (list and owner); "
               "non-trivial = scenario with at least one state-changing call" % (3 if quick else 4, 2 if quick else 3))
    ck.distinct = ck.traces
    ck.assumptions = ["TLC; CommunityModules Json", "E1: only the order type of {bounds, values} matters for the calls exercised",
                      "harness/drv_params.cpp projection uses public const queries only; objects are kept alive so identities are never reused",
                      "parameter precision != 0 only on integer pools",
                      "audit: hook h1 call-outs + periodic re-reading of live objects (harness/param_audit.h); bounds and value are encoded "
                      "relative to the constraint's own bounds, acceptance decided by Accepts on the TLA+ side"]
    return ck.finish()


def replay(path):
    return pc.replay("C01", path)
