"""Shared helpers of the C01 / C02 checks (one spec family: spec/Params, one driver: harness/drv_params.cpp)."""
import json
import os
import re
import vcommon as vc

SPEC = os.path.join(vc.VERIF, "spec", "Params")
TRACE_CFG = os.path.join(SPEC, "ParamsTrace.cfg")
AUDIT_CFG = os.path.join(SPEC, "ParamAuditTrace.cfg")


def signature(rj):
    ev = rj.event or {}
    sig = {"action": ev.get("e"), "invariant": rj.invariant or "step", "outcome": ev.get("r", "")}
    if ev.get("own") == 1:
        sig["via"] = "owner"
    return sig


_COV = re.compile(r"<(\w+) line (\d+), col \d+ to line \d+, col \d+ of module (\w+)(?: \((\d+) \d+ \d+ \d+\))?>: (\d+):(\d+)")


def add_design(ck, name, r, constants):
    """Register a design-model run; sub-actions of the next-state relation that generated no state at all are
    listed as untaken (TLC -coverage reports <distinct>:<generated> per disjunct of Next)."""
    ck.add_model(name, r, constants)
    taken = 0
    for m in _COV.finditer(r.out):
        if m.group(1) in ("Init", "InitP", "InitL"):
            continue
        if int(m.group(6)) == 0:
            ck.untaken.append("%s:%s@line%s" % (name, m.group(1), m.group(4) or m.group(2)))
        else:
            taken += 1
    ck.extra.setdefault("design_subactions_taken", {})[name] = taken
    if r.invariant:
        ck.violation("design model %s violates %s" % (name, r.invariant), [r.out[-6000:]], tag="model")


def _clean():
    # TLC leaves a trace-exploration spec next to the module when an invariant / property fails
    import glob
    for f in glob.glob(os.path.join(SPEC, "*_TTrace_*")):
        try:
            os.remove(f)
        except OSError:
            pass


def validate(ck, trace, tag="t"):
    n_ev, rej, st = vc.validate_trace(SPEC, "ParamsTrace", TRACE_CFG, trace)
    _clean()
    ck.events += n_ev
    ck.traces += vc.count_scenarios(trace)
    ck.handle_rejections(rej, signature, tag=tag)
    return rej


def first_scenarios(trace, out, k):
    """Copy the first k scenarios of a trace (used by the corruption self-test)."""
    n = 0
    with open(trace) as f, open(out, "w") as g:
        for ln in f:
            if ln.startswith('{"e":"Reset"'):
                n += 1
                if n > k:
                    break
            g.write(ln)


def corruption_selftest(ck, trace, wd, mutate):
    """The trace specification must reject a trace in which one logged field was altered:
    guards against a binding that only constrains the length of the trace.
    mutate(event dict) -> True when it changed the event."""
    small = os.path.join(wd, "corrupt-base.ndjson")
    first_scenarios(trace, small, 12)
    lines = open(small).read().splitlines()
    n_ok, rej, _ = vc.validate_trace(SPEC, "ParamsTrace", TRACE_CFG, small, parallel=1)
    if rej:
        return  # the base itself is rejected: reported by the main validation
    done = False
    for i in range(len(lines) // 2, len(lines)):
        ev = json.loads(lines[i])
        if mutate(ev):
            lines[i] = json.dumps(ev, separators=(",", ":"))
            done = True
            break
    if not done:
        raise vc.MachineryError("corruption self-test: no event to corrupt")
    bad = os.path.join(wd, "corrupt.ndjson")
    open(bad, "w").write("\n".join(lines) + "\n")
    _, rej, _ = vc.validate_trace(SPEC, "ParamsTrace", TRACE_CFG, bad, parallel=1)
    _clean()
    ck.extra["corrupted_trace_rejected"] = bool(rej)
    if not rej:
        raise vc.MachineryError("corruption self-test: a trace with an altered field at event %d was accepted" % i)
    for p in (small, bad):
        try:
            os.remove(p)
        except OSError:
            pass


def replay(prop, path):
    head = open(path).read(20000)
    if '"e":"Audit"' in head or '"e":"Note"' in head:      # a file written by harness/param_audit.h
        module, cfg = "ParamAuditTrace", AUDIT_CFG
    else:
        module, cfg = "ParamsTrace", TRACE_CFG
    n_ev, rej, st = vc.validate_trace(SPEC, module, cfg, path, parallel=1)
    _clean()
    for rj in rej:
        vc.log("VIOLATION property=%s replay=%s" % (prop, path))
        vc.log("  %s at event #%d: %s" % (rj.reason, rj.index, json.dumps(rj.event)[:600]))
    if not rej:
        vc.log("%s replay: %d events accepted" % (prop, n_ev))
    return 1 if rej else 0


# ----------------------------------------------------------------------------- audit of internally created parameters
def audit_signature(driver):
    def sig(rj):
        ev = rj.event or {}
        return {"action": "Audit", "invariant": rj.invariant or "step", "driver": driver, "member": ev.get("m", ev.get("e", "")),
                "parameter": ev.get("n", ""), "constraint": ev.get("k", "")}
    return sig


def audit_runs(tier):
    """(label, driver, arguments, extra environment): the other subsystems' drivers in their random modes, at small
    sizes in quick; what they do is judged by their own checks - here only their Parameter objects are watched."""
    q = tier == "quick"
    avoid = []
    try:
        known = [k["id"] for k in vc.load_findings().get("known", []) if k.get("property") == "C09" and k.get("id")]
        avoid = ["--avoid", ",".join(known)] if known else []
    except Exception:
        pass
    budget = {"VERIF_CALL_BUDGET_MS": "20000" if q else "60000"}
    return [("internal%d" % k, "drv_params_internal", ["--n", 100 if q else 600, "--stream", k], {}) for k in range(4 if q else 8)] + [
        ("discrete", "drv_discrete", ["--mode", "random", "--n", 100 if q else 1000, "--stream", 0] + avoid, {}),
        ("optim", "drv_optim", ["--n", 15 if q else 100, "--sub", 0], budget),
        ("alias", "drv_alias", ["--mode", "random", "--n", 50 if q else 400, "--stream", 0], budget),
        ("alias-scripted", "drv_alias", ["--mode", "scripted"], budget),
        ("numderiv", "drv_numderiv", ["--mode", "random", "--n", 50 if q else 500], {}),
        ("hmm", "drv_hmm", ["--mode", "cache", "--n", 2 if q else 20, "--depth", 3], {}),
        ("text-dist", "drv_text", ["--mode", "dist", "--rand", 40 if q else 400], {}),
        ("params", "drv_params", ["--mode", "param", "--n", 60 if q else 500], {}),
        ("lists", "drv_params", ["--mode", "list", "--n", 60 if q else 500], {}),
    ]


def _flip_audit(lines):
    """Corrupt one audited value (make it a NaN code) of an event that carries an interval."""
    for i in range(len(lines) // 2, len(lines)):
        ev = json.loads(lines[i])
        if ev.get("e") == "Audit" and ev.get("k") == "interval":
            ev["v"] = -999999
            lines[i] = json.dumps(ev, separators=(",", ":"))
            return i
    return -1


def audit_phase(ck, tier, wd):
    """Run the drivers with VERIF_PARAM_AUDIT set and validate what every Parameter of those processes looked like
    after each state-changing member (hook h1) against ParamAuditTrace."""
    from concurrent.futures import ThreadPoolExecutor
    q = tier == "quick"
    runs = audit_runs(tier)
    vc.build_lib()
    exes, skipped = {}, {}

    def build(name):
        try:
            return name, vc.build_driver(name), None
        except vc.MachineryError as e:
            return name, None, str(e)[-400:]

    with ThreadPoolExecutor(max_workers=4) as ex:
        for name, exe, err in ex.map(build, sorted(set(r[1] for r in runs))):
            if exe:
                exes[name] = exe
            elif name.startswith("drv_params"):
                raise vc.MachineryError("driver %s does not build: %s" % (name, err))
            else:
                skipped[name] = "does not build: " + err      # another property's driver, possibly being edited

    cap = "30000" if q else "250000"

    def one(run):
        label, drv, args, env = run
        if drv not in exes:
            return label, None, {}
        audit = os.path.join(wd, "audit-%s.ndjson" % label)
        out = os.path.join(wd, "audit-out-%s.ndjson" % label)
        for f in (audit, out):
            if os.path.exists(f):
                os.remove(f)
        e = dict(env)
        e.update({"VERIF_PARAM_AUDIT": audit, "VERIF_PARAM_AUDIT_MAX": cap})
        try:
            s = vc.run_driver(exes[drv], args, out, timeout=900 if q else 3000, env=e)
        except Exception as ex_:
            return label, None, {"error": str(ex_)[-300:]}
        if os.path.exists(out):
            os.remove(out)
        return label, audit if os.path.exists(audit) and os.path.getsize(audit) > 0 else None, s

    with ThreadPoolExecutor(max_workers=4) as ex:
        results = list(ex.map(one, runs))
    # one trace: the files one after the other (each starts with a Reset line; ids restart, the monitor forgets at Reset)
    joined = os.path.join(wd, "audit-all.ndjson")
    spans, stats, pos = [], {}, 0
    with open(joined, "w") as g:
        for (label, drv, args, env), (_, audit, summ) in zip(runs, results):
            if not audit:
                skipped[label] = summ.get("error", "no audit file (driver not built or did not start)") if isinstance(summ, dict) else "no audit file"
                continue
            lines = open(audit).read().splitlines()
            end = [json.loads(l) for l in lines[-1:] if l.startswith('{"e":"End"')]
            stats[label] = {"driver": drv, "events": len(lines), "callouts": end[0]["calls"] if end else None,
                            "objects": end[0]["objects"] if end else None,
                            "audits_with_constraint": sum(1 for l in lines if '"k":"interval"' in l),
                            "silent_changes_seen_by_sweep": sum(1 for l in lines if '"m":"sweep"' in l),
                            "driver_ended": "normally" if end else "early (crash or hang inside the library: the other property's matter)"}
            g.write("\n".join(lines) + "\n")
            spans.append((pos, pos + len(lines), label, drv))
            pos += len(lines)
            if label == "internal0":
                head = lines[:400]
                base = os.path.join(wd, "audit-corrupt.ndjson")
                i = _flip_audit(head)
                if i >= 0:
                    open(base, "w").write("\n".join(head) + "\n")
                    _, rj, _ = vc.validate_trace(SPEC, "ParamAuditTrace", AUDIT_CFG, base, parallel=1)
                    _clean()
                    ck.extra["corrupted_audit_rejected"] = bool(rj)
                    if not rj:
                        raise vc.MachineryError("audit self-test: a NaN value under an interval constraint was accepted")
                    os.remove(base)
            os.remove(audit)
    n_ev, rej, st = vc.validate_trace(SPEC, "ParamAuditTrace", AUDIT_CFG, joined, timeout=3000)
    _clean()
    ck.events += n_ev
    ck.traces += vc.count_scenarios(joined)
    by = {}
    for rj in rej:
        lab = next((l for a, b, l, d in spans if a <= rj.index < b), "?")
        by.setdefault(lab, []).append(rj)
    for lab, rjs in by.items():
        ck.handle_rejections(rjs, audit_signature(lab), tag="audit-" + lab, cap=8)
    ck.extra["param_audit"] = stats
    if skipped:
        ck.extra["param_audit_skipped"] = skipped
        vc.log("C01 audit: skipped %s" % skipped)
    os.remove(joined)
    return rej
