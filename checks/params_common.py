"""Shared helpers of the C01 / C02 checks (one spec family: spec/Params, one driver: harness/drv_params.cpp)."""
import json
import os
import re
import vcommon as vc

SPEC = os.path.join(vc.VERIF, "spec", "Params")
TRACE_CFG = os.path.join(SPEC, "ParamsTrace.cfg")


def signature(rj):
    ev = rj.event or {}
    sig = {"action": ev.get("e"), "invariant": rj.invariant or "step", "outcome": ev.get("r", "")}
    if ev.get("own") == 1:
        sig["via"] = "owner"
    return sig


_COV = re.compile(r"<(\w+) line (\d+), col \d+ to line \d+, col \d+ of module (\w+)(?: \((\d+) \d+ \d+ \d+\))?>: (\d+):(\d+)")


def add_design(ck, name, r, constants):
    """Register a design-model run; sub-actions of the next-state relation that generated no state at all are
    listed as untaken (TLC -coverage reports <distinct>:<generated> per disjunct of Next)."""
    ck.add_model(name, r, constants)
    taken = 0
    for m in _COV.finditer(r.out):
        if m.group(1) in ("Init", "InitP", "InitL"):
            continue
        if int(m.group(6)) == 0:
            ck.untaken.append("%s:%s@line%s" % (name, m.group(1), m.group(4) or m.group(2)))
        else:
            taken += 1
    ck.extra.setdefault("design_subactions_taken", {})[name] = taken
    if r.invariant:
        ck.violation("design model %s violates %s" % (name, r.invariant), [r.out[-6000:]], tag="model")


def _clean():
    # TLC leaves a trace-exploration spec next to the module when an invariant / property fails
    import glob
    for f in glob.glob(os.path.join(SPEC, "*_TTrace_*")):
        try:
            os.remove(f)
        except OSError:
            pass


def validate(ck, trace, tag="t"):
    n_ev, rej, st = vc.validate_trace(SPEC, "ParamsTrace", TRACE_CFG, trace)
    _clean()
    ck.events += n_ev
    ck.traces += vc.count_scenarios(trace)
    ck.handle_rejections(rej, signature, tag=tag)
    return rej


def first_scenarios(trace, out, k):
    """Copy the first k scenarios of a trace (used by the corruption self-test)."""
    n = 0
    with open(trace) as f, open(out, "w") as g:
        for ln in f:
            if ln.startswith('{"e":"Reset"'):
                n += 1
                if n > k:
                    break
            g.write(ln)


def corruption_selftest(ck, trace, wd, mutate):
    """The trace specification must reject a trace in which one logged field was altered:
    guards against a binding that only constrains the length of the trace.
    mutate(event dict) -> True when it changed the event."""
    small = os.path.join(wd, "corrupt-base.ndjson")
    first_scenarios(trace, small, 12)
    lines = open(small).read().splitlines()
    n_ok, rej, _ = vc.validate_trace(SPEC, "ParamsTrace", TRACE_CFG, small, parallel=1)
    if rej:
        return  # the base itself is rejected: reported by the main validation
    done = False
    for i in range(len(lines) // 2, len(lines)):
        ev = json.loads(lines[i])
        if mutate(ev):
            lines[i] = json.dumps(ev, separators=(",", ":"))
            done = True
            break
    if not done:
        raise vc.MachineryError("corruption self-test: no event to corrupt")
    bad = os.path.join(wd, "corrupt.ndjson")
    open(bad, "w").write("\n".join(lines) + "\n")
    _, rej, _ = vc.validate_trace(SPEC, "ParamsTrace", TRACE_CFG, bad, parallel=1)
    _clean()
    ck.extra["corrupted_trace_rejected"] = bool(rej)
    if not rej:
        raise vc.MachineryError("corruption self-test: a trace with an altered field at event %d was accepted" % i)
    for p in (small, bad):
        try:
            os.remove(p)
        except OSError:
            pass


def replay(prop, path):
    n_ev, rej, st = vc.validate_trace(SPEC, "ParamsTrace", TRACE_CFG, path, parallel=1)
    _clean()
    for rj in rej:
        vc.log("VIOLATION property=%s replay=%s" % (prop, path))
        vc.log("  %s at event #%d: %s" % (rj.reason, rj.index, json.dumps(rj.event)[:600]))
    if not rej:
        vc.log("%s replay: %d events accepted" % (prop, n_ev))
    return 1 if rej else 0
