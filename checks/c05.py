"""C05 - LU solve / inverse / determinant meet their equations or report singularity.
Definitions + design model: spec/Matrix/LuInt.tla (checked by LuLemmas); binding: harness/drv_lu.cpp traces
validated by LuIntTrace.tla."""
import json
import os
from concurrent.futures import ThreadPoolExecutor

import vcommon as vc
from checks import c04

SPEC = os.path.join(vc.VERIF, "spec", "Matrix")
INV = "OutcomeAsRequired ResultsMeetEquations FactoredSquare"
TRACE_CFG = os.path.join(SPEC, "LuIntTrace.cfg")


def _sig(rj):
    ev = rj.event or {}
    sig = {"action": ev.get("e"), "invariant": rj.invariant or "step", "outcome": ev.get("r", "")}
    if ev.get("e") == "Crash":
        sig["op"] = ev.get("op", "")
    return sig


def _pick_solved(ev):
    # an accepted solve of a regular matrix whose scaled solution is logged: A.Xs = d.B is asserted on every entry
    return ev.get("e") == "Solve" and ev.get("r") == "ok" and not ev.get("big") and ev.get("d") != 0 and "Xs" in ev


def _flip_solved(ev):
    ev["Xs"]["e"][-1][-1] += 1


def _pick_singular(ev):
    return ev.get("e") == "Solve" and ev.get("r") == "raise:ZeroDivisionException" and ev.get("d") == 0


def _flip_singular(ev):
    ev["r"] = "ok"          # a singular system reported as solved
    ev["big"] = True
    ev["ind"] = 0


LU_CONTROLS = [("solution entry + 1", _pick_solved, _flip_solved), ("singular reported as solved", _pick_singular, _flip_singular)]


def build_driver():
    return vc.build_driver("drv_lu", link_lib=False, sanitize=True)


def _validate(ck, trace):
    n_ev, rej, st = vc.validate_trace(SPEC, "LuIntTrace", TRACE_CFG, trace)
    ck.events += n_ev
    ck.traces += vc.count_scenarios(trace)
    ck.handle_rejections(rej, _sig)
    return rej


def run(tier, seed):
    ck = vc.Check("C05", tier, seed)
    quick = tier == "quick"
    wd = vc.workdir("c05")
    lem = c04._write(os.path.join(wd, "lemmas.cfg"),
                     "SPECIFICATION LSpec\nCONSTANTS\n  Objs = {}\n  NMax = 0\n  EMax = 0\n  MaxCalls = 1\n  E2 = %d\n  E3 = 1\n" % (2 if quick else 3))
    d2 = c04._write(os.path.join(wd, "design2.cfg"),
                    "SPECIFICATION Spec\nCONSTANTS\n  Objs = {1, 2}\n  NMax = 2\n  EMax = 1\n  MaxCalls = 3\nINVARIANTS %s\nCHECK_DEADLOCK FALSE\n" % INV)
    jobs = [("LuLemmas", "LuLemmas", lem, 2, False), ("LuInt/two-objects-2x2", "LuInt", d2, 6, True)]
    if not quick:
        d3 = c04._write(os.path.join(wd, "design3.cfg"),
                        "SPECIFICATION Spec\nCONSTANTS\n  Objs = {1}\n  NMax = 3\n  EMax = 1\n  MaxCalls = 2\nINVARIANTS %s\nCHECK_DEADLOCK FALSE\n" % INV)
        jobs.append(("LuInt/one-object-3x3", "LuInt", d3, 6, False))
        d4 = c04._write(os.path.join(wd, "design4.cfg"),
                        "SPECIFICATION Spec\nCONSTANTS\n  Objs = {1}\n  NMax = 2\n  EMax = 3\n  MaxCalls = 2\nINVARIANTS %s\nCHECK_DEADLOCK FALSE\n" % INV)
        jobs.append(("LuInt/one-object-2x2-wide", "LuInt", d4, 4, False))
    with ThreadPoolExecutor(max_workers=4) as ex:
        futs = [(j, ex.submit(vc.tlc, SPEC, j[1], j[2], workers=j[3], coverage=j[4], timeout=6000, heap="6g")) for j in jobs]
        results = [(j, f.result()) for j, f in futs]
    for (name, module, cfg, w, cov), r in results:
        consts = open(cfg).read().split("CONSTANTS")[1].split("INVARIANTS")[0].split()
        ck.add_model(name, r, " ".join(consts))
        if cov:
            ac, all_actions = c04.action_coverage(r.out, module)
            ck.extra["design_action_coverage"] = {k: "%d:%d" % v for k, v in sorted(ac.items())}
            ck.untaken += [name + ":" + a for a in all_actions if ac.get(a, (0, 0))[1] == 0]
        if r.assumption_failed:
            ck.violation("oracle lemma of %s fails\n%s" % (module, r.out[-1500:]), [r.out[-3000:]], tag="lemma")
        elif r.invariant:
            ck.violation("design model %s violates %s" % (name, r.invariant), [r.out[-6000:]], tag="model")
        elif not r.completed:
            raise vc.MachineryError("TLC did not complete on %s: %s\n%s" % (name, r.other_error, r.out[-2000:]))

    exe = build_driver()
    runs = [("exh2", ["--mode", "exh2"]), ("random", ["--mode", "random", "--n", 800 if quick else 9000])]
    for name, args in runs:
        tr = os.path.join(wd, "trace-%s.ndjson" % name)
        s = c04.run_driver(exe, args, tr)
        _validate(ck, tr)
        if name == "random":
            c04.corruption_control(ck, tr, "LuIntTrace", TRACE_CFG, LU_CONTROLS, wd)
            ck.samples += vc.sample_scenarios(tr, 3, maxlines=6)
            for k in ("solves", "singular_refusals", "other_refusals", "skipped_big", "rhs_class_column_combos"):
                ck.extra[k] = s.get(k, 0)
            # vacuity guard (only meaningful on a run without violations: a wrong answer is not a magnitude skip)
            if not ck.violations and s.get("solves", 0) and s.get("skipped_big", 0) > 0.05 * s["solves"]:
                raise vc.MachineryError("too many solves skipped for magnitude: %s of %s" % (s["skipped_big"], s["solves"]))
        os.remove(tr)
    ck.exhaustive = True
    ck.rule = ("every 2x2 matrix over -2..2 (factor, inspect, solve, invert); random histories on LUDecomposition objects of "
               "integer matrices n = 1..6 with |a_ij| <= 9 and (one in six) n = 7..10 with |a_ij| <= 2 (random, permuted triangular, rank deficient, zero diagonal, many ties): "
               "inspect / solve with 1..4 right-hand sides in every storage class (some of the wrong height) / copies / "
               "MatrixTools::inv, det, det of transpose, det of product (n <= 3); non-trivial = scenario with a factorisation")
    ck.distinct = ck.traces
    ck.assumptions = ["TLC 1.8.0; CommunityModules Json",
                      "X is logged as round(d.X) with the flag max|d.X - round| < 0.25 (d = exact determinant, recomputed by TLC)",
                      "L.U is formed by the driver in extended precision and rounded (flag: within 1e-6)",
                      "integer matrices only; entry bounds chosen per size so that every exact minor stays below 2^31 (solves whose scaled solution would exceed it are counted in skipped_big and only their outcome is judged)"]
    c04.cleanup_tlc_droppings(["LuInt", "LuLemmas"])
    return ck.finish()


def replay(path):
    n_ev, rej, st = vc.validate_trace(SPEC, "LuIntTrace", TRACE_CFG, path, parallel=1)
    c04.cleanup_tlc_droppings(["LuInt"])
    for rj in rej:
        vc.log("VIOLATION property=C05 replay=%s" % path)
        vc.log("  %s at event #%d: %s" % (rj.reason, rj.index, json.dumps(rj.event)[:800]))
    return 1 if rej else 0
