"""C13 - all HMM likelihood algorithms compute the same, correct probability of the data;
answers depend only on the current parameter values; transition models are row-stochastic
with a genuine stationary distribution.

Design models : spec/Hmm/HmmCache.tla (memoisation / history part, with negative-control variants)
                spec/Hmm/HmmExact.tla (path-enumeration definition vs transcription of the
                forward / chunked / backward algorithms, with a negative-control variant)
Binding       : harness/drv_hmm.cpp traces validated by HmmCacheTrace.tla and HmmExactTrace.tla."""
import glob
import json
import os
from concurrent.futures import ThreadPoolExecutor

import vcommon as vc

SPEC = os.path.join(vc.VERIF, "spec", "Hmm")
NOTE = ("-noGenerateSpecTE",)
CACHE_VARIANTS = ["KeepD1", "KeepD2", "KeepBack", "BpsKeepD", "D2NoD1", "RaiseKeepsName", "SharedFlag", "ShareTm"]


def _cache_cfg(path, variant, maxver, vars_, invariants, objs=(1,)):
    with open(path, "w") as f:
        f.write('SPECIFICATION Spec\nCONSTANTS\n  Vars = {%s}\n  BadVars = {"zz"}\n  MaxVer = %d\n'
                '  Kinds = {"rescaled", "logsum", "lowmem", "full", "auto"}\n  Objs = {%s}\n  Variant = "%s"\n'
                'INVARIANTS %s\nCHECK_DEADLOCK FALSE\n' % (", ".join('"%s"' % v for v in vars_), maxver,
                                                          ", ".join(str(o) for o in objs), variant, invariants))


def _exact_cfg(path, n, maxlen, dp, evals, variant, invariants):
    with open(path, "w") as f:
        f.write('SPECIFICATION Spec\nCONSTANTS\n  N = %d\n  MaxLen = %d\n  DP = %d\n  EVals = {%s}\n  ChunkVariant = "%s"\n'
                'INVARIANTS %s\nCHECK_DEADLOCK FALSE\n' % (n, maxlen, dp, ", ".join(str(e) for e in evals), variant, invariants))


def _scenario_head(rj):
    try:
        return json.loads(rj.prefix[0]) if rj.prefix else {}
    except Exception:
        return {}


def _sig(rj):
    ev = rj.event or {}
    hd = _scenario_head(rj)
    sig = {"action": ev.get("e"), "class": hd.get("k", ""), "tm": hd.get("tm", ""), "invariant": rj.invariant or "step"}
    sig["after_copy"] = any('"e":"Copy"' in ln for ln in (rj.prefix or []))
    if "same" in ev:
        sig["stale"] = bool(ev["same"]) and ev.get("ver") not in ev["same"]
        sig["outcome"] = ev.get("r")
    if "var" in ev:
        sig["var"] = ev["var"]
    if ev.get("e") == "Exact":
        sig["class"] = ev.get("cls", sig["class"])
        sig["n"] = hd.get("n")
    return sig


def _clean():
    for p in glob.glob(os.path.join(SPEC, "*_TTrace_*")):
        try:
            os.remove(p)
        except OSError:
            pass


def _validate(ck, module, trace, tag):
    n_ev, rej, st = vc.validate_trace(SPEC, module, os.path.join(SPEC, module + ".cfg"), trace)
    ck.events += n_ev
    ck.traces += vc.count_scenarios(trace)
    ck.handle_rejections(rej, _sig, tag=tag)
    _clean()
    return rej


def _corrupt(trace, out, kind):
    """One accepted scenario with one logged field flipped: the validator must reject it."""
    lines = open(trace).read().splitlines()
    starts = [i for i, ln in enumerate(lines) if ln.startswith('{"e":"Reset"')] + [len(lines)]
    for a, b in zip(starts, starts[1:]):
        chunk = [json.loads(x) for x in lines[a:b]]
        for k, ev in enumerate(chunk):
            if kind == "cache" and ev.get("e", "").startswith("Q") and ev.get("ver", 0) >= 1 and ev.get("ver") in ev.get("same", []):
                ev["same"] = [v for v in ev["same"] if v != ev["ver"]]          # "only a stale version explains the answer"
            elif kind == "exact" and ev.get("e") == "Exact" and ev.get("Pr") == "ok" and len(ev["T"]) >= 2 and len(ev["T"][0]) >= 2:
                ev["T"][1][0] += 1
                ev["T"][1][1] -= 1                                              # posterior mass moved between two states
            else:
                continue
            with open(out, "w") as f:
                f.write("\n".join(json.dumps(x, separators=(",", ":")) for x in chunk) + "\n")
            return True
    return False


def _must_reject(ck, module, trace, kind, wd):
    bad = os.path.join(wd, "corrupt-%s.ndjson" % kind)
    if not _corrupt(trace, bad, kind):
        raise vc.MachineryError("no event to corrupt in " + trace)
    n_ev, rej, st = vc.validate_trace(SPEC, module, os.path.join(SPEC, module + ".cfg"), bad, parallel=1)
    _clean()
    if not rej:
        raise vc.MachineryError("corrupted %s trace was accepted by %s: the binding is vacuous" % (kind, module))
    ck.extra.setdefault("corrupted_traces_rejected", []).append(kind)


def run(tier, seed):
    ck = vc.Check("C13", tier, seed)
    quick = tier == "quick"
    wd = vc.workdir("c13")

    # 1. design model of the memoisation: the design keeps Fresh in every interleaving ...
    cfg = os.path.join(wd, "cache_ok.cfg")
    vars_ = ["a", "b"] if quick else ["a", "b", "c"]
    maxver = 2 if quick else 3
    cinv = "TypeOK Fresh CachesCurrent CopyIndependent"
    _cache_cfg(cfg, "ok", maxver, vars_, cinv)
    r = vc.model_check(SPEC, "HmmCache", cfg, coverage=True, workers=4, extra=NOTE)
    ck.add_model("HmmCache/one-object", r, "Objs={1} Vars=%s BadVars={zz} MaxVer=%d all kinds" % (vars_, maxver))
    if r.invariant:
        ck.violation("design model HmmCache violates %s" % r.invariant, [r.out[-6000:]], tag="model")
    # two objects: copies (clone / copy constructor / operator=) interleaved with calls on either object
    cfg = os.path.join(wd, "cache_ok2.cfg")
    vars2 = ["a"] if quick else ["a", "b"]
    _cache_cfg(cfg, "ok", 2, vars2, cinv, objs=(1, 2))
    r = vc.model_check(SPEC, "HmmCache", cfg, coverage=True, extra=NOTE, timeout=3000, heap="12g")
    ck.add_model("HmmCache/two-objects", r, "Objs={1,2} Vars=%s BadVars={zz} MaxVer=2 all kinds" % vars2)
    if r.invariant:
        ck.violation("design model HmmCache (two objects) violates %s" % r.invariant, [r.out[-6000:]], tag="model")

    # ... and each memoisation defect is caught by TLC (negative controls)
    def neg(v):
        c = os.path.join(wd, "cache_%s.cfg" % v)
        _cache_cfg(c, v, 2, ["a"], "Fresh", objs=(1, 2) if v == "ShareTm" else (1,))
        return v, vc.model_check(SPEC, "HmmCache", c, workers=1, extra=NOTE)

    with ThreadPoolExecutor(max_workers=4) as ex:
        for v, rr in ex.map(neg, CACHE_VARIANTS):
            if rr.invariant != "Fresh":
                raise vc.MachineryError("negative control HmmCache/%s was not rejected by TLC (model insensitive)" % v)
    ck.extra["negative_controls_rejected"] = ["HmmCache/" + v for v in CACHE_VARIANTS]

    # 2. design model of the algorithms against the path-enumeration definition
    inv = "ModelOk InRange ForwardIsDefinition DerivativesAreDefinition ExponentFactorsOut UninformativeIsOne ChunksCoverSites PosteriorIsDefinition PosteriorsSumToOne"
    configs = [("n2", 2, 3, 2, [1, 2])] if quick else [("n2q", 2, 3, 4, [1, 2]), ("n3", 3, 2, 2, [1, 2]), ("n2len4", 2, 4, 2, [1, 2])]
    for name, n, ml, dp, ev in configs:
        cfg = os.path.join(wd, "exact_%s.cfg" % name)
        _exact_cfg(cfg, n, ml, dp, ev, "fixed", inv)
        r = vc.model_check(SPEC, "HmmExact", cfg, coverage=True, timeout=3000, heap="12g", extra=NOTE)
        ck.add_model("HmmExact/" + name, r, "N=%d MaxLen=%d DP=%d EVals=%s every stationary (P,pi), every break point set, every chunk size" % (n, ml, dp, ev))
        if r.invariant:
            ck.violation("design model HmmExact/%s violates %s" % (name, r.invariant), [r.out[-6000:]], tag="model")
    cfg = os.path.join(wd, "exact_asis.cfg")
    _exact_cfg(cfg, 2, 2, 2, [1], "asis", "InRange")
    rr = vc.model_check(SPEC, "HmmExact", cfg, workers=2, extra=NOTE)
    if rr.invariant != "InRange":
        raise vc.MachineryError("negative control HmmExact/asis (write-then-flush chunking) was not rejected by TLC")
    ck.extra["negative_controls_rejected"].append("HmmExact/asis")
    _clean()

    # 3. implementation traces
    exe = vc.build_driver("drv_hmm", link_lib=True)
    tr = os.path.join(wd, "trace-cache.ndjson")
    s = vc.run_driver(exe, ["--mode", "cache", "--n", 200 if quick else 5000, "--depth", 3 if quick else 4], tr)
    ck.extra["cache_histories"] = s.get("scenarios", 0)
    rej = _validate(ck, "HmmCacheTrace", tr, "c")
    ck.samples += vc.sample_scenarios(tr, 2, maxlines=8)
    if not rej:
        _must_reject(ck, "HmmCacheTrace", tr, "cache", wd)
    os.remove(tr)

    tr = os.path.join(wd, "trace-exact.ndjson")
    s = vc.run_driver(exe, ["--mode", "exact", "--n", 1 if quick else 6], tr)
    ck.extra["exact_scenarios"] = s.get("scenarios", 0)
    ck.extra["exact_skipped_out_of_int_range"] = s.get("skipped", 0)
    if s.get("skipped", 0) * 20 > max(1, s.get("events", 0)):
        raise vc.MachineryError("more than 5%% of the exact cases were skipped (32-bit scale): %s" % s)
    rej = _validate(ck, "HmmExactTrace", tr, "x")
    ck.samples += vc.sample_scenarios(tr, 1, maxlines=3)
    if not rej:
        _must_reject(ck, "HmmExactTrace", tr, "exact", wd)
    os.remove(tr)

    ck.exhaustive = True
    ck.rule = ("history part: every history of length <= %d over {update, set break points, logLik, posterior (all/one site), site "
               "likelihood, d1(a), d1(b), d2(a), d2(b), d1(unknown), copy current->other (clone/copy-ctor/operator=), assign other->current, "
               "update other, switch object} on each likelihood class and every history of length <= %d over {update, (full: "
               "setTransitionProbabilities,) Pij, getPij, getEquilibriumFrequencies, copy, assign back, update other, switch} on each "
               "transition model, plus random histories on up to two objects (1-5 states, 1-52 sites, emissions down to 1e-200, "
               "auto/full/table transitions, all chunk sizes, random break points, 4 update styles, destruction of copies); "
               "exact part: states 1-4 x sites 1-4 x {auto, full, table} x every subset of break points x {rescaled, logsum, lowmem with "
               "chunk 1..len+1}, dyadic parameters, 1-3 observations per scenario separated by updates, each with likelihood, posteriors, "
               "site likelihoods and first/second derivatives w.r.t. both emission parameters against path enumeration; non-trivial = "
               "scenario with at least one query after a configuration change" % (3 if quick else 4, 4 if quick else 5))
    ck.distinct = ck.traces
    ck.assumptions = ["TLC; CommunityModules Json", "harness/drv_hmm.cpp: harness alphabet/emission/table-transition classes, reference answers from fresh objects",
                      "agreement at length 5000, emissions 1e-200 (values), derivatives of non-polynomial emissions / w.r.t. transition parameters are numeric and NOT decided"]
    return ck.finish()


def replay(path):
    first = open(path).readline()
    module = "HmmExactTrace" if '"c0"' in first else "HmmCacheTrace"
    n_ev, rej, st = vc.validate_trace(SPEC, module, os.path.join(SPEC, module + ".cfg"), path, parallel=1)
    _clean()
    for rj in rej:
        vc.log("VIOLATION property=C13 replay=%s" % path)
        vc.log("  %s at event #%d: %s" % (rj.reason, rj.index, json.dumps(rj.event)[:800]))
    return 1 if rej else 0
