"""C15 - tree / DAG validity predicates, re-rooting and structural queries follow the
graph-theoretic definitions.
Design models: spec/Tree/Tree.tla, Dag.tla (definitions in TreeDefs.tla);
binding: harness/drv_tree.cpp traces validated by TreeTrace.tla / DagTrace.tla."""
import json
import os
import vcommon as vc

SPEC = os.path.join(vc.VERIF, "spec", "Tree")
# TLC evaluates the nested / recursive reference operators on deep Java stacks; with the default
# thread stack a StackOverflowError was seen once under load (a machinery error, not a verdict)
os.environ.setdefault("JAVA_TOOL_OPTIONS", "-Xss64m")
TREE_INV = "TypeOK GhostIsDef ValidExact CacheSound RefCoherent"
TREE_PROP = "RerootKeeps OutGroupKeeps EdgeObjectStays RaiseKeeps"
DAG_INV = "TypeOK GhostIsDef ValidExact RootedExact CacheVSound CacheRSound RefCoherent"
DAG_PROP = "RaiseKeeps RootAtHangs"

# Steering of the main scenarios (DESIGN section 5): a trigger is switched off only while the
# corresponding defect is a *known finding*; each has a probe scenario that still runs it.
#   dups   second link on an existing relation            (C14: GlobalGraph::link)
#   uedit  unlink / deleteNode in un-rooted mode           (C14: GlobalGraph::unlink)
#   unroot unRoot followed by rootAt                       (C15 #15 + C14 makeDirected)
STEER = {"dups": 1, "uedit": 1, "unroot": 1, "eobj": 1, "anc": 1, "onechild": 1, "outgroup": 1, "dagroot": 1}


def _steer():
    """Triggers named by the known findings of this property are left out of the main scenarios."""
    st = dict(STEER)
    for k in vc.load_findings().get("known", []):
        if k.get("property") == "C15":
            for f in k.get("steer", []):
                st[f] = 0
    for kv in os.environ.get("VERIF_C15_STEER", "").split(","):       # development aid: dups=0,uedit=0
        if "=" in kv:
            a, b = kv.split("=")
            st[a.strip()] = int(b)
    return st


def _cfg(path, maxn, maxe, eobjs, forget, inv, prop, view=False):
    """view=True: states differing only in the record of the last call (res, op) are merged (VIEW StateView);
    the validity answer is then judged on the transition (ValidExactA) instead of in the state."""
    if view:
        inv = " ".join(x for x in inv.split() if x != "ValidExact")
        prop = "ValidExactA " + prop
    with open(path, "w") as f:
        f.write("SPECIFICATION Spec\nCONSTANTS\n  MaxN = %d\n  MaxE = %d\n  EObjs = {%s}\n  Forget = {%s}\n%s"
                "INVARIANTS %s\nPROPERTIES %s\nCHECK_DEADLOCK FALSE\n" % (
                    maxn, maxe, ", ".join(str(x) for x in eobjs), ", ".join('"%s"' % x for x in forget),
                    "VIEW StateView\n" if view else "", inv, prop))


def _sig(kind):
    def f(rj):
        ev = rj.event or {}
        sig = {"kind": kind, "action": ev.get("e"), "invariant": rj.invariant or "step"}
        if kind == "tree" and len(rj.prefix) >= 2:           # was the tree rooted before the offending call?
            try:
                sig["rooted_before"] = bool(json.loads(rj.prefix[-2]).get("s", {}).get("d"))
            except Exception:
                pass
        return sig
    return f


def _module(kind):
    return ("TreeTrace", os.path.join(SPEC, "TreeTrace.cfg")) if kind == "tree" else ("DagTrace", os.path.join(SPEC, "DagTrace.cfg"))


def _account(ck, kind, trace, summary, tag, n_ev, rej):
    """Book one validated trace; a driver that died before its summary line is itself a finding
    (crash / hang of a public call) unless the trace already shows the Crash / Hang event."""
    ck.events += n_ev
    ck.traces += vc.count_scenarios(trace)
    ck.handle_rejections(rej, _sig(kind), tag=tag)
    if not summary.get("done") and not rej:
        ck.violation("driver ended without its summary line (crash of a public call?) rc=%s\n%s" % (
            summary.get("_rc"), summary.get("_out", "")[-800:]), open(trace).read().splitlines()[-40:], tag=tag + "x")
    return rej


def _validate(ck, kind, trace, summary, tag):
    mod, cfg = _module(kind)
    n_ev, rej, st = vc.validate_trace(SPEC, mod, cfg, trace, parallel=2)
    return _account(ck, kind, trace, summary, tag, n_ev, rej)


def _design(ck, quick, wd):
    """Exhaustive design models: every history inside the bound (constants listed in the evidence)."""
    if quick:
        tree = [(3, 2, [1], True), (3, 3, [], "view")]
        dag = [(3, 2, [1], True), (3, 3, [], False)]
    else:
        tree = [(3, 2, [1], True), (3, 3, [1, 2], False), (4, 4, [], "view")]
        dag = [(3, 2, [1], True), (3, 4, [1], False), (4, 3, [], False)]
    for mod, cfgs, inv, prop in (("Tree", tree, TREE_INV, TREE_PROP), ("Dag", dag, DAG_INV, DAG_PROP)):
        for n, e, objs, cov in cfgs:
            cfg = os.path.join(wd, "%s_design_%d_%d_%d.cfg" % (mod, n, e, len(objs)))
            _cfg(cfg, n, e, objs, [], inv, prop, view=(cov == "view"))
            r = vc.model_check(SPEC, mod, cfg, coverage=(cov is True), timeout=6000, heap="12g")
            name = "%s/N%dE%dO%d%s" % (mod, n, e, len(objs), "-view" if cov == "view" else "")
            ck.add_model(name, r, "MaxN=%d MaxE=%d EObjs={%s} Forget={}" % (n, e, ",".join(map(str, objs))))
            if r.invariant:
                ck.violation("design model %s violates %s" % (name, r.invariant), [r.out[-6000:]], tag="model")
    # copies: several containers, copy / assign, edits and queries on either side
    def copycfg(path, objs, nodes, bug):
        with open(path, "w") as f:
            f.write("SPECIFICATION Spec\nCONSTANTS\n  Objs = {%s}\n  NodesC = {%s}\n  Bug = \"%s\"\n"
                    "INVARIANTS ValidExact CacheSound\nPROPERTIES CopyIndependent CopyEqual\nCHECK_DEADLOCK FALSE\n" % (
                        ", ".join(map(str, objs)), ", ".join(map(str, nodes)), bug))
    for objs, nodes in ([([1, 2], [0, 1])] if quick else [([1, 2], [0, 1]), ([1, 2, 3], [0, 1])]):
        cfg = os.path.join(wd, "copy_design_%d_%d.cfg" % (len(objs), len(nodes)))
        copycfg(cfg, objs, nodes, "none")
        r = vc.model_check(SPEC, "TreeCopy", cfg, coverage=(len(objs) == 2), timeout=6000, heap="12g")
        name = "TreeCopy/O%dN%d" % (len(objs), len(nodes))
        ck.add_model(name, r, "Objs=%s NodesC=%s Bug=none" % (objs, nodes))
        if r.invariant:
            ck.violation("design model %s violates %s" % (name, r.invariant), [r.out[-6000:]], tag="model")
    # negative control: a design that forgets ONE invalidation must be caught by TLC
    caught = []
    for bug in ("keepflag", "sharedflag"):
        cfg = os.path.join(wd, "copy_bug_%s.cfg" % bug)
        copycfg(cfg, [1, 2], [0, 1], bug)
        r = vc.tlc(SPEC, "TreeCopy", cfg, workers=4, timeout=900, extra=("-noGenerateSpecTE",))
        caught.append("TreeCopy/Bug=%s: %s" % (bug, r.invariant))
        if not r.invariant:
            raise vc.MachineryError("the copy model with the injected mistake '%s' was NOT rejected by TLC" % bug)
    for mod, name, inv, prop in (("Tree", "SetRoot", TREE_INV, TREE_PROP), ("Dag", "RemoveSon", DAG_INV, DAG_PROP)):
        cfg = os.path.join(wd, "forget_%s.cfg" % mod)
        _cfg(cfg, 3, 2, [1], [name], inv, prop)
        r = vc.tlc(SPEC, mod, cfg, workers=4, timeout=900, extra=("-noGenerateSpecTE",))
        caught.append("%s/Forget={%s}: %s" % (mod, name, r.invariant))
        if not r.invariant:
            raise vc.MachineryError("the design model %s with a forgotten invalidation (%s) was NOT rejected by TLC" % (mod, name))
    ck.extra["forgotten_invalidation_control"] = caught


def _corruption_control(ck, exe, wd):
    """An accepted trace with ONE logged field flipped must be rejected (guards against a trace
    spec that constrains nothing): validity answer, MRCA answer, edge orientation after rootAt,
    a dropped leaf, an attached object."""
    base = os.path.join(wd, "corrupt-base.ndjson")
    vc.run_driver(exe, ["--mode", "shapes", "--maxn", 4, "--dups", 0, "--uedit", 0, "--unroot", 0, "--eobj", 1, "--anc", 1, "--onechild", 1, "--outgroup", 1], base)
    lines = [json.loads(x) for x in open(base).read().splitlines()]

    def first(pred):
        for i, ev in enumerate(lines):
            if pred(ev):
                return i
        raise vc.MachineryError("corruption control: no event to corrupt")

    def flip_valid(ev):
        ev["r"] = "F" if ev["r"] == "T" else "T"

    def flip_mrca(ev):
        row = ev["rows"][-1]
        other = [n for n in ev["s"]["n"] if n != row[1]][0]
        row[1] = other
        row[2] = other

    def flip_edge(ev):
        e = ev["s"]["e"][0]
        e[1], e[2] = e[2], e[1]

    def drop_leaf(ev):
        ev["rows"][0][1] = ev["rows"][0][1][:-1]

    def flip_obj(ev):
        was = ev["s"]["eo"][0][1]
        ev["s"]["eo"][0][1] = 16
        ev["s"]["oe"] = [[16 if o == was else o, e] for o, e in ev["s"]["oe"]]       # both maps say "object 16"

    cases = [("validity answer", lambda ev: ev["e"] == "QValid" and ev["r"] in ("T", "F"), flip_valid),
             ("MRCA answer", lambda ev: ev["e"] == "QMrca" and len(ev["s"]["n"]) >= 3 and ev["rows"], flip_mrca),
             ("edge orientation after rootAt", lambda ev: ev["e"] == "RootAt" and ev["r"] == "ok" and ev["s"]["e"], flip_edge),
             ("dropped leaf", lambda ev: ev["e"] == "QLeaves" and ev["rows"], drop_leaf),
             ("attached object", lambda ev: ev["e"] in ("AddSon", "SetFather", "Link") and ev["s"]["eo"], flip_obj)]
    mod, cfg = _module("tree")
    n_ev, rej, st = vc.validate_trace(SPEC, mod, cfg, base, parallel=1)
    if rej:                      # the implementation itself misbehaves on the base scenarios: report that, skip the control
        ck.handle_rejections(rej, _sig("tree"), tag="cb")
        ck.extra["corrupted_trace_control"] = ["skipped: the uncorrupted base trace is already rejected"]
        return
    res = []
    for k, (what, pred, mut) in enumerate(cases):
        i = first(pred)
        cp = json.loads(json.dumps(lines))
        mut(cp[i])
        path = os.path.join(wd, "corrupt-%d.ndjson" % k)
        with open(path, "w") as f:
            for ev in cp:
                f.write(json.dumps(ev, separators=(",", ":")) + "\n")
        n_ev, rej, st = vc.validate_trace(SPEC, mod, cfg, path, parallel=1)
        os.remove(path)
        if not rej:
            raise vc.MachineryError("corruption control: a trace with a flipped %s (event %d) was accepted" % (what, i))
        res.append("%s at event %d: rejected at event %d (%s)" % (what, i, rej[0].index, rej[0].invariant or "no step"))
    os.remove(base)
    ck.extra["corrupted_trace_control"] = res


def _sweep():
    """TLC writes <Module>_TTrace_<time>.tla/.bin next to the spec whenever an invariant fails (the negative
    controls make one fail on purpose): keep the spec directory clean."""
    import glob
    for f in glob.glob(os.path.join(SPEC, "*_TTrace_*")):
        try:
            os.remove(f)
        except OSError:
            pass


def run(tier, seed):
    try:
        return _run(tier, seed)
    finally:
        _sweep()


def _run(tier, seed):
    ck = vc.Check("C15", tier, seed)
    quick = tier == "quick"
    wd = vc.workdir("c15")
    _design(ck, quick, wd)
    exe = vc.build_driver("drv_tree", link_lib=True)
    _corruption_control(ck, exe, wd)
    st = _steer()
    flags = []
    for k, v in sorted(st.items()):
        flags += ["--" + k, v]
    ck.extra["steering"] = st
    runs = [
        ("tree", "shapes", ["--mode", "shapes", "--maxn", 7]),
        ("tree", "rtrees", ["--mode", "rtrees", "--n", 40 if quick else 600, "--lo", 8, "--hi", 12]),
        ("tree", "hist", ["--mode", "hist", "--n", 300 if quick else 6000, "--len", 40, "--maxn", 6]),
        ("tree", "hist3", ["--mode", "hist", "--n", 200 if quick else 4000, "--len", 30, "--maxn", 3, "--salt", 7]),   # dense interleavings on <= 3 nodes
        ("tree", "cachewalk", ["--mode", "cachewalk", "--n", 20 if quick else 300]),   # query / one edit of every kind / query
        ("tree", "copies", ["--mode", "copies", "--n", 80 if quick else 2000]),   # copies of the container (independent) and of the observer (views)
        ("dag", "digraphs", ["--mode", "digraphs", "--maxn", 4, "--loops", 3, "--everyroot", 0 if quick else 1]),
        ("dag", "dcopies", ["--mode", "dcopies", "--n", 80 if quick else 2000]),
        ("dag", "dhist", ["--mode", "dhist", "--n", 200 if quick else 4000, "--len", 40, "--maxn", 6]),
    ]
    if not quick:   # the same enumerations once more with other labellings / edit orders / operation mixes
        runs += [("tree", "shapes2", ["--mode", "shapes", "--maxn", 7, "--salt", 11]),
                 ("dag", "digraphs2", ["--mode", "digraphs", "--maxn", 4, "--loops", 3, "--salt", 11, "--everyroot", 1])]
    jobs = []
    for kind, name, args in runs:
        tr = os.path.join(wd, "trace-%s.ndjson" % name)
        s = vc.run_driver(exe, args + flags, tr, timeout=3000)
        ck.extra["scenarios_" + name] = s.get("scenarios", 0)
        jobs.append((kind, name, tr, s))
    # validate the traces side by side (each one split into a few single-worker TLC runs)
    from concurrent.futures import ThreadPoolExecutor

    def one(job):
        kind, name, tr, s = job
        mod, cfg = _module(kind)
        big = os.path.getsize(tr) > 6000000
        return job, vc.validate_trace(SPEC, mod, cfg, tr, parallel=(8 if big else 3), timeout=6000)

    with ThreadPoolExecutor(max_workers=2 if quick else 3) as ex:
        results = list(ex.map(one, jobs))
    for (kind, name, tr, s), (n_ev, rej, st) in results:
        _account(ck, kind, tr, s, name[:2] + name[-1:], n_ev, rej)
        if name in ("hist", "dhist"):   # samples for the evidence
            ck.samples += vc.sample_scenarios(tr, 2, maxlines=10)
        os.remove(tr)
    # one probe scenario per known finding: does it still reproduce?
    for k in vc.load_findings().get("known", []):
        if k.get("property") != "C15" or not k.get("probe"):
            continue
        kind = k.get("match", {}).get("kind", "tree")
        tr = os.path.join(wd, "probe-%s.ndjson" % k["probe"])
        s = vc.run_driver(exe, ["--mode", "probe", "--which", k["probe"]], tr)
        rej = _validate(ck, kind, tr, s, "p")
        if not rej:
            vc.log("NOTE: known finding %s no longer reproduces (probe %s accepted)" % (k.get("id"), k["probe"]))
        os.remove(tr)
    ck.exhaustive = True
    ck.rule = ("trees: every rooted shape with 1..7 nodes (random labelling, random mix of addSon/setFather/link with and "
               "without edge objects) x every new root x all ordered node pairs (paths) x all non-empty node subsets (MRCA); "
               "random trees with 8..12 nodes (sampled pairs / subsets incl. ancestor arguments); random histories of 40 calls "
               "over <= 6 nodes and of 30 calls over <= 3 nodes mixing all edits (valid or not, rooted or un-rooted) and queries; from random valid trees: cache filled by isValid / getSubtreeNodes / "
               "left empty, then one edit of each of 25 kinds (incl. every refusal, setOutGroup, removeSons), then query; copies of the container "
               "(copy construction, assignment also through the graph base class) and of the observer (copy, clone, assignment = views), "
               "16 random steps on any of up to 3 containers with every other container read back after each step; object-level "
               "observer queries next to the graph-level ones; DAG rootAt from every orientable digraph; DAGs: every digraph on <= 4 labelled nodes "
               "(with self-loops up to 3 nodes, loop-free on 4), random digraphs and histories on <= 6 nodes; "
               "non-trivial = scenario with at least one edit followed by a query")
    ck.distinct = ck.traces
    ck.assumptions = ["TLC 1.8.0; CommunityModules Json", "harness/drv_tree.cpp reads the state back through public const queries only",
                      "node / edge ids are allocated in creation order and never re-used (checked at every CreateNode / new edge)",
                      "main scenarios leave out the triggers of the known findings listed in findings.d (steering in evidence)"]
    return ck.finish()


def replay(path):
    kind = "tree"
    with open(path) as f:
        first = f.readline()
    try:
        kind = json.loads(first).get("k", "tree")
    except Exception:
        pass
    mod, cfg = _module(kind)
    n_ev, rej, st = vc.validate_trace(SPEC, mod, cfg, path, parallel=1)
    _sweep()
    for rj in rej:
        vc.log("VIOLATION property=C15 replay=%s" % path)
        vc.log("  %s at event #%d: %s" % (rj.reason, rj.index, json.dumps(rj.event)[:400]))
    return 1 if rej else 0
