"""C16 (reduced form, level exploration) - text and option parsing never crashes, corrupts memory or hangs.
Spec: spec/Text/ParserOutcome.tla (+ the C17 definitions it instantiates for predicted outcomes);
binding: harness/drv_textfuzz.cpp built with ASan + UBSan, one process per entry point and batch; a sanitizer
report / signal is a Crash event, a call over its budget a Hang event, both unexplainable by the specification."""
import json
import os
import re
import resource
import subprocess
from concurrent.futures import ThreadPoolExecutor

import vcommon as vc

SPEC = os.path.join(vc.VERIF, "spec", "Text")
MODULE = "ParserOutcomeTrace"
CFG = os.path.join(SPEC, MODULE + ".cfg")
MAX_RESTARTS = 6      # crashes / hangs followed up per entry point and batch (dictionary batches: 10x)

SAN_ENV = {
    "ASAN_OPTIONS": "abort_on_error=1:detect_leaks=0:max_allocation_size_mb=1024:hard_rss_limit_mb=6144:handle_abort=0",
    "UBSAN_OPTIONS": "abort_on_error=1:print_stacktrace=1",
}


def _big_stack():
    # frames of the sanitizer build are several times larger than those of a normal build: recursion that is
    # linear in the input length (formula parser, nested descriptions) must not be reported for 4 KiB inputs
    soft, hard = resource.getrlimit(resource.RLIMIT_STACK)
    want = 512 * 1024 * 1024
    if hard != resource.RLIM_INFINITY:
        want = min(want, hard)
    resource.setrlimit(resource.RLIMIT_STACK, (want, hard))


def _entries(exe):
    rc, out = vc.run([exe, "--list", "1"], timeout=60, env=SAN_ENV)
    for ln in out.splitlines():
        if ln.startswith("["):
            return json.loads(ln)
    raise vc.MachineryError("cannot list entry points:\n" + out[-1000:])


def _kind(stderr):
    """(kind, where) of a sanitizer report"""
    kind, where = "signal", ""
    m = re.search(r"SUMMARY: \w+Sanitizer: (\S+)", stderr)
    if m:
        kind = m.group(1)
    else:
        m = re.search(r"runtime error: ([a-z ]+)", stderr)
        if m:
            kind = m.group(1).strip().replace(" ", "-")
    m = re.search(r"#\d+ 0x[0-9a-f]+ in (bpp::[\w:~<>]+)", stderr)
    if m:
        where = m.group(1)
    return kind, where


def _run_batch(exe, wd, entry, batch, budget, n, call_ms, avoid=False, probe=None):
    """Runs one entry point / batch to completion, restarting after every input that crashed or hung.
    Returns (list of trace part files, stats)."""
    parts, start, restarts, inputs = [], 0, 0, 0
    stats = {"entry": entry, "batch": batch, "inputs": 0, "crashes": 0, "hangs": 0, "abandoned": False, "len": 0, "avoided": 0}
    while True:
        p = os.path.join(wd, "%s-%s-%d.ndjson" % (entry, batch, len(parts)))
        cmd = [exe, "--out", p, "--entry", entry, "--batch", batch, "--budget", str(budget), "--n", str(n), "--start", str(start)]
        if avoid:
            cmd += ["--avoid", "1"]
        if probe is not None:
            cmd += ["--input", probe.get("input", ""), "--variant", str(probe.get("variant", 0))]
        env = dict(os.environ)
        env.update(SAN_ENV)
        env["VERIF_CALL_BUDGET_MS"] = str(call_ms)
        try:
            pr = subprocess.run(cmd, stdout=subprocess.PIPE, stderr=subprocess.PIPE, env=env, timeout=3000, preexec_fn=_big_stack)
        except subprocess.TimeoutExpired:
            raise vc.MachineryError("driver timed out on %s/%s" % (entry, batch))
        err = pr.stderr.decode("utf-8", "replace")
        if not os.path.exists(p):
            raise vc.MachineryError("driver wrote no trace for %s/%s:\n%s" % (entry, batch, err[-1500:]))
        lines = open(p).read().splitlines()
        for ln in pr.stdout.decode("utf-8", "replace").splitlines():
            if ln.startswith("{"):
                try:
                    stats["len"] = json.loads(ln).get("len", 0)
                    stats["avoided"] += json.loads(ln).get("avoided", 0)
                except Exception:
                    pass
        parts.append(p)
        last = json.loads(lines[-1]) if lines else {}
        stats["inputs"] += sum(1 for ln in lines if ln.startswith('{"e":"Begin"'))
        if last.get("e") == "Done":
            break
        # the process ended inside a call: name the input, annotate the event, go on after it
        begin = None
        for ln in reversed(lines):
            if ln.startswith('{"e":"Begin"'):
                begin = json.loads(ln)
                break
        if last.get("e") not in ("Crash", "Hang"):
            # killed without a handler (e.g. hard_rss_limit): record it as a crash line
            lines.append(json.dumps({"e": "Crash", "what": "killed rc=%d" % pr.returncode}, separators=(",", ":")))
            last = json.loads(lines[-1])
        if last.get("e") == "Crash":
            kind, where = _kind(err)
            last["kind"], last["where"] = kind, where
            stats["crashes"] += 1
        else:
            last["kind"], last["where"] = "hang", ""
            stats["hangs"] += 1
        last["entry"] = entry
        last["batch"] = batch
        lines[-1] = json.dumps(last, separators=(",", ":"))
        with open(p, "w") as f:
            f.write("\n".join(lines) + "\n")
        if begin is None:
            raise vc.MachineryError("driver died before its first call on %s/%s:\n%s" % (entry, batch, err[-1500:]))
        start = begin["i"] + 1
        restarts += 1
        if restarts > (MAX_RESTARTS * 10 if batch == "dict" else MAX_RESTARTS):
            stats["abandoned"] = True
            break
    return parts, stats


def _validate_all(files):
    """Validate every trace part completely: after a rejection the rest of that part is validated
    from the next scenario on.  Returns (events, rejections)."""
    events, rejections = 0, []

    def one(path):
        ev, rej = 0, []
        cur = path
        guard = 0
        while cur and guard < 40:
            guard += 1
            n_ev, rj, st = vc.validate_trace(SPEC, MODULE, CFG, cur, parallel=1, timeout=3000)
            ev += n_ev
            if not rj:
                break
            rej += rj
            lines = open(cur).read().splitlines()
            nxt = rj[0].index + 1
            while nxt < len(lines) and '"e":"Reset"' not in lines[nxt]:
                nxt += 1
            if nxt >= len(lines):
                break
            cur = path + ".rest%d" % guard
            with open(cur, "w") as f:
                f.write("\n".join(lines[nxt:]) + "\n")
        return ev, rej

    with ThreadPoolExecutor(max_workers=8) as ex:
        for ev, rej in ex.map(one, files):
            events += ev
            rejections += rej
    return events, rejections


def _sig(rj):
    ev = rj.event or {}
    entry = ev.get("entry", "")
    if ev.get("e") in ("Crash", "Hang"):
        return {"entry": entry, "event": ev.get("e"), "kind": ev.get("kind", ""), "where": ev.get("where", ""), "batch": ev.get("batch", "")}
    return {"entry": entry, "event": ev.get("e"), "kind": ev.get("out", ""), "where": ev.get("x", "")}


def _concat(wd, name, parts):
    """Completed parts of one entry are validated as one file (each part starts with Reset)."""
    p = os.path.join(wd, name)
    with open(p, "w") as f:
        for q in parts:
            f.write(open(q).read())
    return p


def _cleanup_tlc_artefacts():
    # TLC writes <Module>_TTrace_* next to the specification when a trace is rejected on an invariant
    for fn in os.listdir(SPEC):
        if "_TTrace_" in fn:
            try:
                os.remove(os.path.join(SPEC, fn))
            except OSError:
                pass


def run(tier, seed):
    ck = vc.Check("C16", tier, seed, level="exploration")
    quick = tier == "quick"
    wd = vc.workdir("c16")
    for fn in os.listdir(wd):
        if fn.endswith(".ndjson") or ".rest" in fn or ".chunk" in fn:
            os.remove(os.path.join(wd, fn))
    os.environ["JAVA_TOOL_OPTIONS"] = "-Xss256m"
    # 1. the outcome specification itself (two-step calls; liveness: every call ends)
    r = vc.tlc(SPEC, "ParserOutcome", os.path.join(SPEC, "ParserOutcome.cfg"), workers=2, coverage=True, timeout=600)
    if r.invariant or not r.completed:
        raise vc.MachineryError("ParserOutcome design model does not check:\n" + r.out[-2000:])
    ck.add_model("ParserOutcome", r, 'Entries={"a","b"}, calls<3; liveness EveryCallEnds')
    # 2. sanitizer build, one process per entry point and batch
    exe = vc.build_driver("drv_textfuzz", link_lib=True, sanitize=True)
    entries = _entries(exe)
    budget = 2500 if quick else 300000
    nseed = 80 if quick else 8000
    call_ms = 5000 if quick else 20000
    # known findings (findings.d/C16.json): their triggers are steered around in the main batches and each is
    # reproduced by one dedicated probe call
    known = [k for k in vc.load_findings().get("known", []) if k.get("property") == "C16"]
    avoid_entries = {k.get("match", {}).get("entry") for k in known}
    jobs = [(e["entry"], b, None) for e in entries for b in ("exh", "seeded", "dict")]
    jobs += [(k["probe"]["entry"], "probe", k["probe"]) for k in known if "probe" in k]

    def job(j):
        return _run_batch(exe, wd, j[0], j[1], budget, nseed, call_ms, avoid=(j[0] in avoid_entries and j[2] is None), probe=j[2])

    with ThreadPoolExecutor(max_workers=8) as ex:
        results = list(ex.map(job, jobs))
    files, per_entry, total_inputs = [], {}, 0
    for parts, st in results:
        files += parts
        d = per_entry.setdefault(st["entry"], {"inputs": 0, "crashes": 0, "hangs": 0, "exhaustive_len": 0, "abandoned": False, "avoided_known_triggers": 0})
        d["avoided_known_triggers"] += st["avoided"]
        d["inputs"] += st["inputs"]
        d["crashes"] += st["crashes"]
        d["hangs"] += st["hangs"]
        d["abandoned"] = d["abandoned"] or st["abandoned"]
        if st["batch"] == "exh":
            d["exhaustive_len"] = st["len"]
        total_inputs += st["inputs"]
    # 3. TLC decides: every Begin must be followed by End(value | raise)
    n_ev, rej = _validate_all(files)
    ck.events = n_ev
    ck.traces = len(files)
    distinct = set()
    for p in files:
        with open(p) as f:
            for ln in f:
                if ln.startswith('{"e":"Begin"'):
                    ev = json.loads(ln)
                    distinct.add((ev["entry"], ev["v"], ev["i"] if "in" not in ev else tuple(ev["in"])))
    sample = []
    for p in files[:3]:
        with open(p) as f:
            sample.append([json.loads(ln) for ln in f.readlines()[:5]])
    ck.samples = sample
    ck.handle_rejections(rej, _sig, tag="f", cap=40)
    ck.evaluations = total_inputs
    ck.distinct = len(distinct)
    ck.extra["per_entry"] = per_entry
    ck.extra["entry_points"] = len(entries)
    ck.exhaustive = False
    ck.rule = ("per entry point: every string over its alphabet up to the length whose enumeration x option variants fits the budget "
               "(%d inputs; lengths in per_entry.exhaustive_len) and %d seeded grammar-aware strings (<= 4 KiB, random corruption / inflation) with a random "
               "option variant, under ASan+UBSan with a %d ms per-call watchdog; distinct = different (entry point, variant, input); non-trivial = every input "
               "is a call whose outcome the specification constrains") % (budget, nseed, call_ms)
    ck.assumptions = ["TLC 2.x; CommunityModules Json/IOUtils", "g++ 12 AddressSanitizer + UndefinedBehaviorSanitizer; allocations above 1 GiB are reported",
                      "harness/drv_textfuzz.cpp consumes results the way a caller would (strings are copied and read)",
                      "driver processes run with a 512 MiB stack (sanitizer frames are several times larger than normal ones), so recursion linear in a 4 KiB input is not reported",
                      "no coverage feedback: plain enumeration and seeded mutation (reduced form of the property)"]
    for p in files:
        for q in [p] + [p + ".rest%d" % k for k in range(1, 41)]:
            try:
                os.remove(q)
            except OSError:
                pass
    _cleanup_tlc_artefacts()
    return ck.finish()


def replay(path):
    os.environ["JAVA_TOOL_OPTIONS"] = "-Xss256m"
    n_ev, rej, st = vc.validate_trace(SPEC, MODULE, CFG, path, parallel=1)
    for rj in rej:
        vc.log("VIOLATION property=C16 replay=%s" % path)
        vc.log("  %s at event #%d: %s" % (rj.reason, rj.index, json.dumps(rj.event)[:400]))
    return 1 if rej else 0
