"""C14 - graph and object-association views stay consistent with a reference multigraph.
Design models: spec/Graph/Graph.tla (graph core), spec/Graph/Observer.tla (association layer);
binding: harness/drv_graph.cpp traces validated by spec/Graph/GraphTrace.tla."""
import json
import os
import vcommon as vc

SPEC = os.path.join(vc.VERIF, "spec", "Graph")
TRACE_CFG = os.path.join(SPEC, "GraphTrace.cfg")
G_INV = "TypeOK OutcomeLegal EndpointsExist ListedByBoth NoDangling TablesMatchRef"
O_INV = "OTypeOK OneToOne BackAgain ForgetDeleted MapsMatchRef CopyIndependent"
O_PROP = "CopySame Independent RaiseKeepsState"


def _graph_cfg(path, maxn, maxe):
    with open(path, "w") as f:
        f.write("SPECIFICATION Spec\nCONSTANTS\n  MaxN = %d\n  MaxE = %d\nINVARIANTS %s\nCHECK_DEADLOCK FALSE\n" % (maxn, maxe, G_INV))


def _obs_cfg(path, maxn, maxe, nobjs, eobjs, idxs, maxobs, depth):
    """depth = 0: every history (module Observer); depth > 0: every history of at most `depth` calls
    (module ObserverMC: exact step counter, independent of the number of TLC workers)."""
    with open(path, "w") as f:
        f.write("SPECIFICATION %s\nCONSTANTS\n  MaxN = %d\n  MaxE = %d\n  NObjs = {%s}\n  EObjs = {%s}\n  Idxs = {%s}\n"
                "  MaxObs = %d\n  MaxDepth = %d\n%sINVARIANTS %s %s\nPROPERTIES %s\nCHECK_DEADLOCK FALSE\n" % (
                    "MCSpec" if depth > 0 else "OSpec",
                    maxn, maxe, ", ".join(map(str, nobjs)), ", ".join(map(str, eobjs)), ", ".join(map(str, idxs)), maxobs,
                    depth, "CONSTRAINT DepthBound\n" if depth > 0 else "", G_INV, O_INV, O_PROP))


def _merge_untaken(untaken):
    """Copy/Drop cannot happen with MaxObs=1; they are covered by the two-observer configuration."""
    return [u for u in untaken if not (u.startswith("Observer/obs1") and u.rsplit(":", 1)[1] in ("Copy", "Drop"))]


def _sig(rj):
    ev = rj.event or {}
    return {"action": ev.get("e"), "outcome": ev.get("r", ""), "observer": ev.get("k", ""),
            "invariant": rj.invariant or "step"}


def _known_ids():
    return [k.get("id") for k in vc.load_findings().get("known", []) if k.get("property") == "C14" and k.get("id")]


def _validate(ck, trace, parallel=None):
    n_ev, rej, st = vc.validate_trace(SPEC, "GraphTrace", TRACE_CFG, trace, parallel=parallel, heap="2g")
    ck.events += n_ev
    ck.traces += vc.count_scenarios(trace)
    ck.handle_rejections(rej, _sig)
    return rej


def _driver_ok(ck, name, s, trace):
    """A driver that did not reach its end (crash, hang) leaves a Crash/Hang line that the
    trace validation rejects; a driver that died without even that is a machinery failure."""
    if s.get("done"):
        return
    tail = ""
    try:
        with open(trace) as f:
            lines = f.read().splitlines()
        tail = lines[-1][:200] if lines else ""
    except OSError:
        pass
    if '"Crash"' in tail or '"Hang"' in tail:
        return
    raise vc.MachineryError("driver run %s ended without summary: %s" % (name, s.get("_out", "")[-800:]))


def _corruption_selftest(ck, trace, wd):
    """Flip one logged field of an accepted scenario: the validator must reject it."""
    lines = open(trace).read().splitlines()
    starts = [i for i, ln in enumerate(lines) if ln.startswith('{"e":"Reset"')]
    if len(starts) < 2:
        return
    scen = lines[starts[0]:starts[1]]
    target = None
    for i, ln in enumerate(scen):
        ev = json.loads(ln)
        if ev["s"]["et"]:
            target = i
    if target is None:
        return
    ev = json.loads(scen[target])
    ev["s"]["et"][0][2] += 1          # bottom node of the first edge
    bad = scen[:target] + [json.dumps(ev, separators=(",", ":"))] + scen[target + 1:]
    p = os.path.join(wd, "corrupt.ndjson")
    open(p, "w").write("\n".join(bad) + "\n")
    n_ev, rej, st = vc.validate_trace(SPEC, "GraphTrace", TRACE_CFG, p, parallel=1, heap="2g")
    ck.extra["corrupted_trace_rejected"] = bool(rej)
    if not rej:
        ck.violation("self-test: a trace with a corrupted edge table entry was accepted", bad, tag="corrupt")
    os.remove(p)


def run(tier, seed):
    ck = vc.Check("C14", tier, seed)
    quick = tier == "quick"
    wd = vc.workdir("c14")
    # 1. design models: every history inside the bounds
    #    (VERIF_C14_MODELS=0 skips them: they do not depend on the C++ tree, which is all a
    #     source-mutant self-test varies)
    models = os.environ.get("VERIF_C14_MODELS", "1") != "0"
    cfg = os.path.join(wd, "graph.cfg")
    gn, ge = (3, 4) if quick else (4, 4)
    _graph_cfg(cfg, gn, ge)
    if models:
        r = vc.model_check(SPEC, "Graph", cfg, coverage=True, timeout=3000, heap="12g")
        ck.add_model("Graph", r, "MaxN=%d MaxE=%d" % (gn, ge))
        if r.invariant:
            ck.violation("design model Graph violates %s" % r.invariant, [r.out[-6000:]], tag="model")
    obs_runs = [("obs1", (2, 2, [1, 2], [1], [0, 1], 1, 0)),
                ("obs2", (2, 2, [1, 2], [1], [0, 1], 2, 3 if quick else 5))]
    if not quick:
        obs_runs.append(("obs1-large", (3, 3, [1, 2, 3], [1, 2], [0, 1], 1, 4)))
    if not models:
        obs_runs = []
        ck.assumptions.append("design models skipped (VERIF_C14_MODELS=0)")
    for name, c in obs_runs:
        cfg = os.path.join(wd, name + ".cfg")
        _obs_cfg(cfg, *c)
        r = vc.model_check(SPEC, "ObserverMC" if c[-1] > 0 else "Observer", cfg, coverage=True, timeout=3000, heap="12g")
        ck.add_model("Observer/" + name, r, "MaxN=%d MaxE=%d NObjs=%s EObjs=%s Idxs=%s MaxObs=%d MaxDepth=%d" % c)
        if r.invariant:
            ck.violation("design model Observer/%s violates %s" % (name, r.invariant), [r.out[-6000:]], tag="model")
    # an action counts as untaken only if no Observer configuration took it
    ck.untaken = _merge_untaken(ck.untaken)
    # 2. implementation traces
    exe = vc.build_driver("drv_graph", link_lib=True)
    known = _known_ids()
    avoid = ["--avoid", ",".join(known)] if known else []
    runs = [("random", ["--mode", "random", "--n", 250 if quick else 3000, "--len", 40, "--maxnodes", 8] + avoid)]
    cfgs = [d + e + i for d in "ud" for e in "ne" for i in "012"]
    if quick:
        runs.append(("bfs", ["--mode", "bfs", "--depth", 3, "--maxnodes", 3] + avoid))
    else:
        # one driver run per configuration keeps every trace file small enough for the validator
        # length 5 complete for every configuration; length 6 complete for one undirected configuration
        # (edge objects, allocated indices) and capped for one directed configuration (reported as truncated)
        for c in cfgs:
            if c != "ue2":
                runs.append(("bfs-" + c, ["--mode", "bfs", "--depth", 5, "--maxnodes", 4, "--cfg", c] + avoid))
        runs.append(("bfs6-ue2", ["--mode", "bfs", "--depth", 6, "--maxnodes", 4, "--cfg", "ue2"] + avoid))
        runs.append(("bfs6-de1", ["--mode", "bfs", "--depth", 6, "--maxnodes", 4, "--cfg", "de1", "--cap", 25000] + avoid))
    for k in known:
        runs.append(("probe-" + k, ["--mode", "probe", "--name", k]))
    bfs_sum = {"states": 0, "transitions": 0, "truncated": [], "per_cfg": []}
    first = True
    for name, args in runs:
        tr = os.path.join(wd, "trace-%s.ndjson" % name)
        if os.path.exists(tr):
            os.remove(tr)
        s = vc.run_driver(exe, args, tr, timeout=3000)
        _driver_ok(ck, name, s, tr)
        rej = _validate(ck, tr)
        if name == "random":
            ck.samples += [[{k: v for k, v in ev.items() if k != "s"} for ev in sc if isinstance(ev, dict)]
                           for sc in vc.sample_scenarios(tr, 3, maxlines=14)]
            if not rej and first:
                _corruption_selftest(ck, tr, wd)
            first = False
        if name.startswith("bfs"):
            bfs_sum["states"] += s.get("states", 0)
            bfs_sum["transitions"] += s.get("transitions", 0)
            bfs_sum["per_cfg"] += [[name] + x for x in s.get("per_cfg", [])]
            if s.get("truncated"):
                bfs_sum["truncated"].append(name)
        os.remove(tr)
    ck.extra["bfs"] = bfs_sum
    ck.exhaustive = True
    ck.rule = ("random histories of 40 calls over <= 8 nodes (directed/undirected, with/without edge objects, explicit or "
               "allocated indices, one optional observer copy, ~15% absent operands); breadth-first enumeration of every call "
               "instance from every reached abstract state (<= maxnodes nodes, depth bound) for 12 configurations; "
               "non-trivial = scenario with at least one state-changing call")
    ck.distinct = ck.traces
    ck.assumptions += ["TLC; CommunityModules Json", "harness/drv_graph.cpp projection uses only public queries",
                      "self-loops only in directed mode; graph iterators are not built on absent nodes (undefined behaviour)",
                      "breadth-first states are identified up to order-preserving renaming of node ids"]
    return ck.finish()


def replay(path):
    n_ev, rej, st = vc.validate_trace(SPEC, "GraphTrace", TRACE_CFG, path, parallel=1)
    for rj in rej:
        vc.log("VIOLATION property=C14 replay=%s" % path)
        vc.log("  %s at event #%d: %s" % (rj.reason, rj.index, json.dumps({k: v for k, v in (rj.event or {}).items() if k != "s"})))
    return 1 if rej else 0
