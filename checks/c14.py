"""C14 - graph and object-association views stay consistent with a reference multigraph.
Design models: spec/Graph/Graph.tla (graph core), spec/Graph/Observer.tla (association layer);
binding: harness/drv_graph.cpp traces validated by spec/Graph/GraphTrace.tla."""
import json
import os
import vcommon as vc

SPEC = os.path.join(vc.VERIF, "spec", "Graph")
TRACE_CFG = os.path.join(SPEC, "GraphTrace.cfg")
G_INV = "TypeOK OutcomeLegal EndpointsExist ListedByBoth NoDangling TablesMatchRef"
O_INV = "OTypeOK OneToOne BackAgain ForgetDeleted MapsMatchRef CopyIndependent SidesIndependent"
O_PROP = "CopySame Independent RaiseKeepsState"


def _graph_cfg(path, maxn, maxe):
    with open(path, "w") as f:
        f.write("SPECIFICATION Spec\nCONSTANTS\n  MaxN = %d\n  MaxE = %d\nINVARIANTS %s\nCHECK_DEADLOCK FALSE\n" % (maxn, maxe, G_INV))


def _obs_cfg(path, maxn, maxe, nobjs, eobjs, idxs, maxobs, depth, clone=False):
    """depth = 0: every history (module Observer); depth > 0: every history of at most `depth` calls
    (module ObserverMC: exact step counter, independent of the number of TLC workers)."""
    with open(path, "w") as f:
        f.write("SPECIFICATION %s\nCONSTANTS\n  MaxN = %d\n  MaxE = %d\n  NObjs = {%s}\n  EObjs = {%s}\n  Idxs = {%s}\n"
                "  MaxObs = %d\n  MaxDepth = %d\n  WithClone = %s\n%sINVARIANTS %s %s\nPROPERTIES %s\nCHECK_DEADLOCK FALSE\n" % (
                    "MCSpec" if depth > 0 else "OSpec",
                    maxn, maxe, ", ".join(map(str, nobjs)), ", ".join(map(str, eobjs)), ", ".join(map(str, idxs)), maxobs,
                    depth, "TRUE" if clone else "FALSE", "CONSTRAINT DepthBound\n" if depth > 0 else "", G_INV, O_INV, O_PROP))


def _merge_untaken(untaken, models):
    """An action counts as untaken only if no configuration took it: Copy/Drop/Assign need two
    observers, Clone/Swap/... need WithClone, CreateNodeFromEdge needs more ids than the small
    Observer configurations have (the Graph configuration takes it)."""
    def base(a):
        a = a[2:] if a.startswith("S_") else a
        return a[1:] if a[:1] == "G" and a[1:2].isupper() else a
    taken = set()
    for name, r in models:
        for a, (t, g) in r.coverage().items():
            if g > 0:
                taken.add(base(a))
    return [u for u in untaken if base(u.rsplit(":", 1)[1]) not in taken]


def _sig(rj):
    ev = rj.event or {}
    return {"action": ev.get("e"), "outcome": ev.get("r", ""), "observer": ev.get("k", ""),
            "invariant": rj.invariant or "step"}


def _known_ids():
    return [k.get("id") for k in vc.load_findings().get("known", []) if k.get("property") == "C14" and k.get("id")]


def _validate(ck, trace, parallel=None):
    n_ev, rej, st = vc.validate_trace(SPEC, "GraphTrace", TRACE_CFG, trace, parallel=parallel, heap="2g")
    ck.events += n_ev
    ck.traces += vc.count_scenarios(trace)
    ck.handle_rejections(rej, _sig)
    return rej


def _driver_ok(ck, name, s, trace):
    """A driver that did not reach its end (crash, hang) leaves a Crash/Hang line that the
    trace validation rejects; a driver that died without even that is a machinery failure."""
    if s.get("done"):
        return
    tail = ""
    try:
        with open(trace) as f:
            lines = f.read().splitlines()
        tail = lines[-1][:200] if lines else ""
    except OSError:
        pass
    if '"Crash"' in tail or '"Hang"' in tail:
        return
    raise vc.MachineryError("driver run %s ended without summary: %s" % (name, s.get("_out", "")[-800:]))


def _corruption_selftest(ck, trace, wd):
    """Flip one logged field of an accepted scenario: the validator must reject it."""
    lines = open(trace).read().splitlines()
    starts = [i for i, ln in enumerate(lines) if ln.startswith('{"e":"Reset"')]
    if len(starts) < 2:
        return
    scen = lines[starts[0]:starts[1]]
    target = None
    for i, ln in enumerate(scen):
        ev = json.loads(ln)
        if ev["s"]["et"]:
            target = i
    if target is None:
        return
    ev = json.loads(scen[target])
    ev["s"]["et"][0][2] += 1          # bottom node of the first edge
    bad = scen[:target] + [json.dumps(ev, separators=(",", ":"))] + scen[target + 1:]
    p = os.path.join(wd, "corrupt.ndjson")
    open(p, "w").write("\n".join(bad) + "\n")
    n_ev, rej, st = vc.validate_trace(SPEC, "GraphTrace", TRACE_CFG, p, parallel=1, heap="2g")
    ck.extra["corrupted_trace_rejected"] = bool(rej)
    if not rej:
        ck.violation("self-test: a trace with a corrupted edge table entry was accepted", bad, tag="corrupt")
    os.remove(p)


def _bfs_runs(ck, exe, wd, cfgs, depth, maxnodes, avoid, bfs_sum, join):
    """Breadth-first traces: one driver process per configuration (four at a time); the traces are
    validated one by one, or joined into one file first (quick tier: fewer TLC start-ups)."""
    from concurrent.futures import ThreadPoolExecutor

    def drive(c):
        tr = os.path.join(wd, "trace-bfs-%s.ndjson" % c)
        if os.path.exists(tr):
            os.remove(tr)
        s = vc.run_driver(exe, ["--mode", "bfs", "--depth", depth, "--maxnodes", maxnodes, "--cfg", c] + avoid, tr, timeout=3000)
        return c, tr, s

    def account(res):
        for c, tr, s in res:
            _driver_ok(ck, "bfs-" + c, s, tr)
            bfs_sum["states"] += s.get("states", 0)
            bfs_sum["transitions"] += s.get("transitions", 0)
            bfs_sum["per_cfg"] += [[depth, maxnodes] + x for x in s.get("per_cfg", [])]
            if s.get("truncated"):
                bfs_sum["truncated"].append(c)

    if join:
        with ThreadPoolExecutor(max_workers=6) as ex:
            res = list(ex.map(drive, cfgs))
        account(res)
        joined = os.path.join(wd, "trace-bfs-joined.ndjson")
        with open(joined, "w") as out:
            for c, tr, s in res:
                with open(tr) as f:
                    for ln in f:
                        out.write(ln)
                os.remove(tr)
        _validate(ck, joined)
        os.remove(joined)
        return
    for g0 in range(0, len(cfgs), 4):
        group = cfgs[g0:g0 + 4]
        with ThreadPoolExecutor(max_workers=4) as ex:
            res = list(ex.map(drive, group))
        account(res)
        for c, tr, s in res:
            _validate(ck, tr)
            os.remove(tr)


def run(tier, seed):
    ck = vc.Check("C14", tier, seed)
    quick = tier == "quick"
    wd = vc.workdir("c14")
    # 1. design models: every history inside the bounds
    #    (VERIF_C14_MODELS=0 skips them: they do not depend on the C++ tree, which is all a
    #     source-mutant self-test varies)
    models = os.environ.get("VERIF_C14_MODELS", "1") != "0"
    done = []
    if models:
        cfg = os.path.join(wd, "graph.cfg")
        gn, ge = (3, 4) if quick else (4, 4)
        _graph_cfg(cfg, gn, ge)
        r = vc.model_check(SPEC, "Graph", cfg, coverage=True, timeout=3000, heap="12g")
        ck.add_model("Graph", r, "MaxN=%d MaxE=%d" % (gn, ge))
        done.append(("Graph", r))
        if r.invariant:
            ck.violation("design model Graph violates %s" % r.invariant, [r.out[-6000:]], tag="model")
        #            MaxN MaxE NObjs EObjs Idxs MaxObs MaxDepth clone
        obs_runs = [("obs1", (2, 2, [1, 2], [1], [0, 1] if not quick else [0], 1, 0, False)),
                    ("clone", (2, 2, [1, 2], [1], [0], 2, 3 if quick else 5, True))]      # two observers and a graph copy
        if not quick:
            obs_runs.append(("obs2", (2, 2, [1, 2], [1], [0, 1], 2, 4, False)))
            obs_runs.append(("obs1-large", (3, 3, [1, 2, 3], [1, 2], [0, 1], 1, 3, False)))
        for name, c in obs_runs:
            cfg = os.path.join(wd, name + ".cfg")
            _obs_cfg(cfg, *c)
            r = vc.model_check(SPEC, "ObserverMC" if c[6] > 0 else "Observer", cfg, coverage=True, timeout=3000, heap="12g")
            ck.add_model("Observer/" + name, r, "MaxN=%d MaxE=%d NObjs=%s EObjs=%s Idxs=%s MaxObs=%d MaxDepth=%d WithClone=%s" % c)
            done.append((name, r))
            if r.invariant:
                ck.violation("design model Observer/%s violates %s" % (name, r.invariant), [r.out[-6000:]], tag="model")
        ck.untaken = _merge_untaken(ck.untaken, done)
    else:
        ck.assumptions.append("design models skipped (VERIF_C14_MODELS=0)")
    # 2. implementation traces
    exe = vc.build_driver("drv_graph", link_lib=True)
    known = _known_ids()
    avoid = ["--avoid", ",".join(known)] if known else []
    tr = os.path.join(wd, "trace-random.ndjson")
    if os.path.exists(tr):
        os.remove(tr)
    s = vc.run_driver(exe, ["--mode", "random", "--n", 250 if quick else 3000, "--len", 40, "--maxnodes", 8] + avoid, tr, timeout=3000)
    _driver_ok(ck, "random", s, tr)
    rej = _validate(ck, tr, parallel=6 if quick else None)
    ck.samples += [[{k: v for k, v in ev.items() if k != "s"} for ev in sc if isinstance(ev, dict)]
                   for sc in vc.sample_scenarios(tr, 3, maxlines=14)]
    if not rej:
        _corruption_selftest(ck, tr, wd)
    os.remove(tr)
    cfgs = [d + e + i for d in "ud" for e in "ne" for i in "012"]
    bfs_sum = {"states": 0, "transitions": 0, "truncated": [], "per_cfg": []}
    # every call instance from every state reached by fewer than `depth` calls, <= 4 nodes, all 12 configurations
    _bfs_runs(ck, exe, wd, cfgs, 5 if quick else 6, 4, avoid, bfs_sum, join=quick)
    ck.extra["bfs"] = bfs_sum
    for k in known:
        tr = os.path.join(wd, "trace-probe.ndjson")
        s = vc.run_driver(exe, ["--mode", "probe", "--name", k], tr)
        _validate(ck, tr)
        os.remove(tr)
    ck.exhaustive = True
    ck.rule = ("random histories of 40 calls over <= 8 nodes (directed/undirected, self-loops, with/without edge objects, explicit "
               "or allocated indices, observer copies by copy constructor / converting constructor / operator=, a copy of the "
               "graph with its own observers, ~15% absent operands); breadth-first enumeration of every call instance from "
               "every abstract state reached by fewer than 5 (quick) / 6 (thorough) calls, <= 4 nodes, for 12 configurations; "
               "non-trivial = scenario with at least one state-changing call")
    ck.distinct = ck.traces
    ck.assumptions += ["TLC; CommunityModules Json", "harness/drv_graph.cpp projection uses only public queries",
                       "graph iterators are not built on absent nodes (undefined behaviour)",
                       "breadth-first states are identified up to order-preserving renaming of node ids",
                       "the driver interposes backtrace()/backtrace_symbols() (exception text is never compared)"]
    return ck.finish()


def replay(path):
    n_ev, rej, st = vc.validate_trace(SPEC, "GraphTrace", TRACE_CFG, path, parallel=1)
    for rj in rej:
        vc.log("VIOLATION property=C14 replay=%s" % path)
        vc.log("  %s at event #%d: %s" % (rj.reason, rj.index, json.dumps({k: v for k, v in (rj.event or {}).items() if k != "s"})))
    return 1 if rej else 0
