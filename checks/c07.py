"""C07 - vector reductions match their definitions; size mismatches / empty inputs are
reported by the documented exception and never lead to an out-of-range access;
log-domain reductions are bounded, finite and obey the log-zero rule.

Specification: spec/Vector/VectorDefs.tla (definitions + judge J / JLog),
VectorAlgo.tla (transcription of the library's loops), VectorOps.tla (design model: a
three-register machine, one action per public call), VectorLemmas.tla (closed lemmas);
binding: harness/drv_vector.cpp traces validated by VectorTrace.tla."""
import glob
import json
import os
import random
import vcommon as vc

SPEC = os.path.join(vc.VERIF, "spec", "Vector")
TRACE_CFG = os.path.join(SPEC, "VectorTrace.cfg")
# deep (not infinite) recursion of the fold definitions on vectors of a few hundred elements
os.environ.setdefault("JAVA_TOOL_OPTIONS", "-Xss64m")
SAN_ENV = {"ASAN_OPTIONS": "abort_on_error=1:detect_leaks=0",
           "UBSAN_OPTIONS": "halt_on_error=1:abort_on_error=1:print_stacktrace=1"}
DRV_FLAGS = ("-D_GLIBCXX_ASSERTIONS",)     # std::vector::operator[] out of range => abort => Crash event


def _cleanup():
    for f in glob.glob(os.path.join(SPEC, "*_TTrace_*")):
        try:
            os.remove(f)
        except OSError:
            pass


def _sig(rj):
    ev = rj.event or {}
    return {"action": ev.get("e"), "op": ev.get("op", ev.get("what", "")), "invariant": rj.invariant or "step"}


def _design_cfg(path, vals, maxlen, types):
    with open(path, "w") as f:
        f.write("SPECIFICATION Spec\nCONSTANTS\n  Vals <- %s\n  MaxLen = %d\n  Types = {%s}\n"
                "CONSTRAINT Bound\nVIEW View\nINVARIANTS TypeOK Laws\n"
                "PROPERTIES ConstCallsKeepRegisters SortingCallsPermute OneWriter\nCHECK_DEADLOCK FALSE\n"
                % (vals, maxlen, ", ".join('"%s"' % t for t in types)))


def _design(ck, wd, name, vals, maxlen, types, coverage=False, timeout=3000):
    cfg = os.path.join(wd, "design_%s.cfg" % name)
    _design_cfg(cfg, vals, maxlen, types)
    r = vc.tlc(SPEC, "VectorOps", cfg, coverage=coverage, timeout=timeout, heap="8g", extra=("-noGenerateSpecTE",))
    ck.add_model("VectorOps/" + name, r, "Vals=%s MaxLen=%d Types=%s%s" % (vals, maxlen, "+".join(types), " (coverage run)" if coverage else ""))
    if "transcription rejected by the definition" in r.out:
        i = r.out.find("transcription rejected by the definition")
        ck.violation("design model: a transcribed library loop is rejected by the definition: " + r.out[i - 200:i + 900], [r.out[-6000:]], tag="model")
    elif r.invariant:
        ck.violation("design model VectorOps/%s violates %s" % (name, r.invariant), [r.out[-6000:]], tag="model")
    elif r.other_error or not r.completed:
        raise vc.MachineryError("TLC failed on VectorOps/%s: %s\n%s" % (name, r.other_error, r.out[-3000:]))
    return r


def _coverage(ck, wd):
    """Non-vacuity of the design model: every named action of Next labels at least one transition of the
    state graph (dumped with action labels on a small configuration whose values stay inside the bound).
    TLC's -coverage statistics are not used: their cost explodes on the recursive fold definitions."""
    import re
    cfg = os.path.join(wd, "design_cov.cfg")
    _design_cfg(cfg, "ValsC", 2, ["double"])
    dot = os.path.join(wd, "design_cov.dot")
    r = vc.tlc(SPEC, "VectorOps", cfg, timeout=1800, heap="8g", extra=("-noGenerateSpecTE", "-dump", "dot,actionlabels", dot))
    ck.add_model("VectorOps/cov", r, "Vals={0,1} MaxLen=2 Types=double (state graph dumped with action labels)")
    if r.other_error or not r.completed or r.invariant:
        raise vc.MachineryError("TLC failed on VectorOps/cov: %s %s\n%s" % (r.other_error, r.invariant, r.out[-3000:]))
    src = open(os.path.join(SPEC, "VectorOps.tla")).read()
    nxt = src[src.index("Next =="):src.index("Spec ==")]
    names = set(re.findall(r"\bA[A-Z][A-Za-z0-9]*\b", nxt))
    graph = open(dot).read()
    counts = {}
    for m in re.finditer(r'label="(A[A-Za-z0-9]*)"', graph):
        counts[m.group(1)] = counts.get(m.group(1), 0) + 1
    os.remove(dot)
    untaken = sorted(names - set(counts))
    ck.untaken += ["VectorOps/cov:" + a for a in untaken]
    ck.extra["design_actions"] = len(names)
    ck.extra["design_actions_taken"] = len(names) - len(untaken)
    if untaken:
        vc.log("C07: design-model actions never taken: %s" % untaken)


def _lemmas(ck, wd, n1, n2, n3, timeout=3000):
    cfg = os.path.join(wd, "lemmas.cfg")
    open(cfg, "w").write("SPECIFICATION Spec\nCONSTANTS\n  Vals <- ValsB\n  N1 = %d\n  N2 = %d\n  N3 = %d\n" % (n1, n2, n3))
    r = vc.tlc(SPEC, "VectorLemmas", cfg, workers=2, timeout=timeout, heap="6g", extra=("-noGenerateSpecTE",))
    ck.add_model("VectorLemmas", r, "Vals={-1,0,1,2} N1=%d N2=%d N3=%d" % (n1, n2, n3))
    bad = [ln for ln in r.out.splitlines() if ln.startswith('<<"Lemma"') and "FALSE" in ln]
    fails = [ln for ln in r.out.splitlines() if ln.startswith('<<"lemma fails"')]
    if bad or fails or r.assumption_failed:
        ck.violation("closed lemma fails (transcription of a library loop vs its definition): %s %s" % (bad, fails[:3]), [r.out[-6000:]], tag="lemma")
    elif not r.completed:
        raise vc.MachineryError("TLC failed on VectorLemmas: %s\n%s" % (r.other_error, r.out[-3000:]))
    ck.extra["lemmas_checked"] = [ln for ln in r.out.splitlines() if ln.startswith('<<"Lemma"')]


def _validate(ck, trace, parallel=None):
    n_ev, rej, st = vc.validate_trace(SPEC, "VectorTrace", TRACE_CFG, trace, parallel=parallel)
    _cleanup()
    ck.events += n_ev
    ck.traces += max(0, vc.count_scenarios(trace) - 1)      # the closing Reset is not a scenario
    ck.handle_rejections(rej, _sig)
    return rej


def _last_scenario(path, maxlines=60):
    lines = open(path).read().splitlines()
    s = len(lines) - 1
    while s > 0 and not lines[s].startswith('{"e":"Reset"'):
        s -= 1
    return lines[s:][-maxlines:]


def _run(ck, exes, name, args, wd, totals):
    """Run the scenario set under the sanitizer build and under the plain build; the two
    traces must be the same observations; validate one of them."""
    traces = []
    for variant, exe in exes:
        tr = os.path.join(wd, "trace-%s-%s.ndjson" % (name, variant))
        s = vc.run_driver(exe, args, tr, env=SAN_ENV)
        if not s.get("complete"):
            # died without finishing: the Crash event (if the handler could write it) is rejected by
            # the specification below; a silent death is reported here.
            tail = _last_scenario(tr)
            if not any('"e":"Crash"' in ln or '"e":"Hang"' in ln for ln in tail[-2:]):
                ck.violation("driver (%s build) ended abnormally in %s without a Crash event (rc=%s): %s"
                             % (variant, name, s.get("_rc"), s.get("_out", "")[-1500:]), tail, tag="d")
        if variant == exes[0][0]:
            for k in ("calls", "skipped", "unfit"):
                totals[k] = totals.get(k, 0) + int(s.get(k, 0))
        traces.append(tr)
    same = len(traces) == 2 and open(traces[0], "rb").read() == open(traces[1], "rb").read()
    todo = traces[:1] if same or len(traces) == 1 else traces
    if len(traces) == 2 and not same:
        vc.log("C07: sanitizer and plain builds logged different traces for %s - validating both" % name)
    rej = []
    for tr in todo:
        rej += _validate(ck, tr)
    return traces, rej


def _corruption_selftest(ck, trace, wd):
    """A trace with one flipped result must be rejected (the trace spec is not vacuous)."""
    lines = open(trace).read().splitlines()
    cand = [i for i, ln in enumerate(lines) if '"op":"Sum"' in ln and '"o":"ok"' in ln]
    if not cand:
        raise vc.MachineryError("corruption self-test: no Sum event in " + trace)
    i = cand[len(cand) // 2]
    s = i
    while s > 0 and not lines[s].startswith('{"e":"Reset"'):
        s -= 1
    ev = json.loads(lines[i])
    ev["r"] = ev["r"] + 1
    p = os.path.join(wd, "corrupted.ndjson")
    with open(p, "w") as f:
        f.write("\n".join(lines[s:i] + [json.dumps(ev, separators=(",", ":"))] + ['{"e":"Reset","t":"int"}']) + "\n")
    n_ev, rej, st = vc.validate_trace(SPEC, "VectorTrace", TRACE_CFG, p, parallel=1)
    _cleanup()
    os.remove(p)
    if not rej or rej[0].index != i - s:
        raise vc.MachineryError("corruption self-test: a trace with a flipped Sum result was NOT rejected at the flipped event")
    ck.extra["corrupted_trace_rejected_at_event"] = rej[0].index


def run(tier, seed):
    ck = vc.Check("C07", tier, seed)
    quick = tier == "quick"
    wd = vc.workdir("c07")
    _cleanup()
    # 1. closed lemmas: transcription of every loop = definition, on all small vectors / pairs / triples
    if quick:
        _lemmas(ck, wd, 3, 2, 2)
    else:
        _lemmas(ck, wd, 4, 3, 2, timeout=6000)
    # 2. design model: every history of calls on three registers inside the bound
    if quick:
        _design(ck, wd, "hist", "ValsA", 2, ["double"])
    else:
        _design(ck, wd, "hist", "ValsB", 2, ["double"], timeout=12000)
        _design(ck, wd, "hist-int", "ValsA", 2, ["int"], timeout=6000)
    _coverage(ck, wd)
    # 3. implementation traces (plain build with bounds-checked operator[], and ASan + UBSan build)
    exes = [("asan", vc.build_driver("drv_vector", link_lib=False, sanitize=True, extra_flags=DRV_FLAGS)),
            ("plain", vc.build_driver("drv_vector", link_lib=False, extra_flags=DRV_FLAGS))]
    totals = {}
    runs = [("seq", ["--mode", "seq"]),
            ("exh1", ["--mode", "exh1", "--len", 4, "--kall", 0 if quick else 1]),
            ("exh2", ["--mode", "exh2", "--len", 2 if quick else 3]),
            ("random", ["--mode", "random", "--n", 60 if quick else 1500]),
            ("log", ["--mode", "log", "--n", 60 if quick else 1500])]
    if not quick:
        # the set-like / error-protocol calls on every pair of vectors of length <= 4: over {-1,0,1,2} for int (116,281 pairs,
        # in slices to bound the trace files), over {-1,0,2} for double (14,641 pairs)
        for i in range(8):
            runs.append(("exh2set%d" % i, ["--mode", "exh2", "--len", 4, "--types", "int", "--setlike", 1, "--slice", i, "--of", 8]))
        runs.append(("exh2setd", ["--mode", "exh2", "--len", 4, "--types", "double", "--setlike", 1, "--vals3", 1]))
    for name, args in runs:
        traces, rej = _run(ck, exes, name, args, wd, totals)
        if name == "random":
            ck.samples += vc.sample_scenarios(traces[0], 2, maxlines=8)
        if name == "log":
            ck.samples += vc.sample_scenarios(traces[0], 1, maxlines=6)
        if name == "exh1" and not rej and not ck.violations:
            _corruption_selftest(ck, traces[0], wd)
        for tr in traces:
            try:
                os.remove(tr)
            except OSError:
                pass
    calls = max(1, totals.get("calls", 0))
    ck.extra["driver_calls"] = totals.get("calls", 0)
    ck.extra["driver_calls_outside_quantifier_not_made"] = totals.get("skipped", 0)
    ck.extra["driver_calls_not_encodable_not_made"] = totals.get("unfit", 0)
    if totals.get("unfit", 0) > 0.05 * calls:
        raise vc.MachineryError("more than 5%% of the generated calls were not encodable as exact 32-bit integers (%d of %d)" % (totals["unfit"], calls))
    ck.exhaustive = True
    ck.rule = ("every call of the unary / scalar operations on every vector of length <= %d over {-1,0,1,2}, of the binary / ternary / "
               "list operations on every pair of length <= %d (int and double instantiations), seq(from,to,by) over -6..6 x 1..4, "
               "random histories of 15-40 calls on three registers (length <= 64, values -50..50 with ties, mutating calls included), "
               "log-domain reductions on every vector of length <= 3 over {-inf,-1e300,0.5,1e300,+inf} and random pools; "
               "non-trivial = scenario with at least one library call" % (4, 2 if quick else 3))
    ck.distinct = ck.traces
    ck.assumptions = ["TLC 1.8.0; CommunityModules Json", "harness/drv_vector.cpp only encodes observations (exact integers, dyadic numerators, order facts)",
                      "glibc log/exp are monotone and exp(x) <= 1 for x <= 0 (order facts of the log-domain reductions)",
                      "outside the quantifier, not generated: integer division by zero, extract() positions beyond the end, seq step <= 0 or >= 100, "
                      "moments on non-dyadic cases (judged only where every intermediate is exact)"]
    return ck.finish()


def replay(path):
    import shutil
    tmp = os.path.join(vc.workdir("c07"), "replay-%d.ndjson" % os.getpid())
    shutil.copyfile(os.path.abspath(path), tmp)
    try:
        n_ev, rej, st = vc.validate_trace(SPEC, "VectorTrace", TRACE_CFG, tmp, parallel=1)
    finally:
        os.remove(tmp)
    _cleanup()
    for rj in rej:
        vc.log("VIOLATION property=C07 replay=%s" % path)
        vc.log("  %s at event #%d: %s" % (rj.reason, rj.index, json.dumps(rj.event)[:600]))
    return 1 if rej else 0
