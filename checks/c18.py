"""C18 - random draws, discrete / structural part.
Design models: spec/Random/Rcont2.tla (AS 159 step by step: margins, non-negative
entries, log-factorial index safety, termination) and spec/Random/Sampling.tla
(sampling structure, refusals, seed reproducibility), spec/Random/ScaleLaw.tla
(meaning of the samplers' arguments as exact transformation laws under one seed,
picks by inverse cdf).
Binding: harness/drv_random.cpp traces (hook h2 per cell + public results)
validated by Rcont2Trace.tla / SamplingTrace.tla / ScaleLawTrace.tla.
Not decided here: goodness of fit of the draws to the named law (statistics)."""
import glob
import json
import os
import time
from concurrent.futures import ThreadPoolExecutor
import vcommon as vc

SPEC = os.path.join(vc.VERIF, "spec", "Random")
RC_INV = "EntriesNonNeg IndexSafe MarginsMet BookDef WalkInRange ChosenFeasible AtMostTwoPasses"
SA_INV = "StructOK Reproducible Enabledness Discriminating"


def _clean():
    for p in glob.glob(os.path.join(SPEC, "*_TTrace_*")):
        try:
            os.remove(p)
        except OSError:
            pass


def _rc_cfg(path, maxtot, dims, rule, live=True):
    with open(path, "w") as f:
        f.write("SPECIFICATION Spec\nCONSTANTS\n  MaxTot = %d\n  Dims = {%s}\n  StartRule = \"%s\"\nINVARIANTS %s\n%s"
                "CHECK_DEADLOCK FALSE\n" % (maxtot, ", ".join(str(d) for d in dims), rule, RC_INV,
                                            "PROPERTY Termination\n" if live else ""))


def _sa_cfg(path, seeds, calls, maxcalls, maxruns):
    with open(path, "w") as f:
        f.write("SPECIFICATION Spec\nCONSTANTS\n  Seeds = {%s}\n  CallSet <- %s\n  Foreign = 99\n  MaxCalls = %d\n  MaxRuns = %d\n"
                "INVARIANTS %s\nCHECK_DEADLOCK FALSE\n" % (seeds, calls, maxcalls, maxruns, SA_INV))


def _sl_cfg(path, impl):
    with open(path, "w") as f:
        f.write("SPECIFICATION Spec\nCONSTANTS\n  ZMag = {1, 3}\n  ExpMax = 2\n  Impl = \"%s\"\nINVARIANTS LawHolds PickHolds RestrictHolds\n"
                "CHECK_DEADLOCK FALSE\n" % impl)


def _hs_cfg(path, impl, quick=True):
    with open(path, "w") as f:
        f.write("SPECIFICATION Spec\nCONSTANTS\n  Objs = {%s}\n  Cfgs = {1, 2%s}\n  Seeds = {1}\n  Lens = {1, 2}\n  Impl = \"%s\"\n"
                "INVARIANTS UsesCurrent PrefixOK\nCHECK_DEADLOCK FALSE\n" % ("1, 2", "" if quick else ", 3", impl))


def _dh_cfg(path, impl):
    with open(path, "w") as f:
        f.write("SPECIFICATION Spec\nCONSTANTS\n  Objs = {1, 2}\n  Pars = {1, 2}\n  Doms = {1, 2}\n  Impl = \"%s\"\n"
                "INVARIANT DrawCurrent\nPROPERTY CopyIndependent\nCONSTRAINT HeapBound\nCHECK_DEADLOCK FALSE\n" % impl)


def _sig(rj):
    ev = rj.event or {}
    act = ev.get("e")
    if act == "Call":
        act = "Call:" + str((ev.get("c") or {}).get("op"))
    if act in ("Pair", "RandC"):
        act = "%s:%s" % (act, ev.get("s"))
    if act == "Sample":
        act = "Sample:n=%s" % ("1" if ev.get("n") == 1 else ">1")
    if act == "Inv":
        act = "Inv:" + str(ev.get("op"))
    return {"action": act, "invariant": rj.invariant or "step"}


def _module_for(path):
    with open(path) as f:
        for ln in f:
            if '"e":"Call"' in ln:
                return "SamplingTrace"
            if '"e":"Draw"' in ln or '"e":"SetPar"' in ln:
                return "DistHistoryTrace"
            if '"e":"Sample"' in ln:
                return "HmmSampleTrace"
            if '"e":"Pair"' in ln or '"e":"Inv"' in ln or '"e":"RandC"' in ln:
                return "ScaleLawTrace"
    return "Rcont2Trace"


def _validate(ck, trace, module, sample=0):
    n_ev, rej, st = vc.validate_trace(SPEC, module, os.path.join(SPEC, module + ".cfg"), trace)
    _clean()
    ck.events += n_ev
    ck.traces += vc.count_scenarios(trace)
    ck.handle_rejections(rej, _sig)
    if sample:
        ck.samples += vc.sample_scenarios(trace, sample, maxlines=10)
    return rej


def _expect(wd, name, module, lines, accepted):
    """Spec-level self-test of the trace specifications: a hand-made / corrupted
    trace must be accepted or rejected as stated, else the machinery is broken."""
    p = os.path.join(wd, "self-%s.ndjson" % name)
    with open(p, "w") as f:
        f.write("\n".join(json.dumps(x, separators=(",", ":")) if not isinstance(x, str) else x for x in lines) + "\n")
    n_ev, rej, st = vc.validate_trace(SPEC, module, os.path.join(SPEC, module + ".cfg"), p, parallel=1)
    os.remove(p)
    if accepted and rej:
        raise vc.MachineryError("self-test %s: a correct trace is rejected (%s at #%d)" % (name, rej[0].reason, rej[0].index))
    if not accepted and not rej:
        raise vc.MachineryError("self-test %s: a corrupted trace is accepted" % name)
    return (rej[0].invariant or "step") if rej else "accepted"


def _selftest_cases():
    cases = []
    tab = [{"e": "Reset"},
           {"e": "NewGen", "g": 0, "rows": [2, 1], "cols": [1, 2], "r": "ok", "bpp": False},
           {"e": "SetSeed", "seed": 1},
           {"e": "Begin", "g": 0},
           {"e": "Cell", "v": [0, 0, 2, 1, 2, 1, 3, 0, 1, 1]},
           {"e": "Table", "g": 0, "t": [[1, 1], [0, 1]], "r": "ok"}]
    cp = lambda x: json.loads(json.dumps(x))
    cases.append(("table-good", "Rcont2Trace", tab, True))
    bad = cp(tab)
    bad[5]["t"] = [[1, 1], [1, 0]]                  # returned matrix differs from the cells / breaks a column total
    cases.append(("table-flipped-entry", "Rcont2Trace", bad, False))
    bad = cp(tab)
    bad[4]["v"][8] = 2                              # start value 2 > id: fact_[id - nlm] out of range
    cases.append(("cell-start-out-of-support", "Rcont2Trace", bad, False))
    bad = cp(tab)
    bad[4]["v"][6] = 2                              # ie is not the remaining total
    cases.append(("cell-bookkeeping", "Rcont2Trace", bad, False))
    bad = cp(tab)
    del bad[4]                                      # a cell event dropped
    cases.append(("cell-dropped", "Rcont2Trace", bad, False))
    uni = {"op": "real", "kind": "uniform", "par": [10]}
    ok1 = {"st": "ok", "bpp": False, "fin": True, "geLo": True, "leHi": True, "bits": [1, 2, 3]}
    ok2 = dict(ok1, bits=[1, 2, 4])
    gs = {"op": "getSample", "src": [10, 11, 12], "k": 3, "repl": False}
    sam = [{"e": "Reset"}, {"e": "SetSeed", "seed": 5}, {"e": "Call", "c": uni, "r": ok1},
           {"e": "Call", "c": gs, "r": {"st": "ok", "bpp": False, "out": [12, 10, 11]}},
           {"e": "SetSeed", "seed": 6}, {"e": "Call", "c": uni, "r": ok2},
           {"e": "SetSeed", "seed": 5}, {"e": "Call", "c": uni, "r": ok1}]
    cases.append(("sampling-good", "SamplingTrace", sam, True))
    bad = cp(sam)
    bad[7]["r"] = ok2                               # same seed, same call, other stream
    cases.append(("sampling-not-reproducible", "SamplingTrace", bad, False))
    bad = cp(sam)
    bad[3]["r"]["out"] = [12, 10, 10]               # an element drawn twice without replacement
    cases.append(("sampling-duplicate", "SamplingTrace", bad, False))
    bad = cp(sam)
    bad[3]["c"]["k"] = 4
    bad[3]["r"]["out"] = [12, 10, 11, 12]           # over-long request served instead of refused
    cases.append(("sampling-overlong-served", "SamplingTrace", bad, False))
    law = [{"e": "Reset"},
           {"e": "Pair", "s": "rt.exp", "arg": 1, "f": 8, "seed": 1, "code": 8},
           {"e": "Pair", "s": "dd.exp", "arg": 1, "f": 8, "seed": 1, "code": 2},
           {"e": "Pair", "s": "rt.gauss", "arg": 2, "f": 16, "seed": 1, "code": 8},
           {"e": "Pair", "s": "dd.gauss", "arg": 1, "d": 2, "seed": 1, "code": 4},
           {"e": "Inv", "op": "multinom", "cum": [1, 1, 4], "r": [2, 0, 2], "tie": [False, False, False], "out": [2, 0, 2], "seed": 1},
           {"e": "RandC", "s": "dd.beta", "dom": True, "rt": True, "skip": False, "seed": 1}]
    cases.append(("law-good", "ScaleLawTrace", law, True))
    hs = [{"e": "Reset"}, {"e": "New", "o": 0, "k": "full", "ns": 3},
          {"e": "Sample", "o": 0, "n": 1, "seed": 7, "out": [2], "lo": [2], "hi": [2], "wpos": [True]},
          {"e": "Get", "o": 0, "which": "eq", "same": True},
          {"e": "Sample", "o": 0, "n": 3, "seed": 7, "out": [2, 0, 1], "lo": [2, 0, 1], "hi": [2, 0, 1], "wpos": [True, True, True]},
          {"e": "Mut", "o": 0, "what": "setP", "r": "ok", "twin": "ok"},
          {"e": "Sample", "o": 0, "n": 1, "seed": 7, "out": [0], "lo": [0], "hi": [0], "wpos": [True]}]
    cases.append(("hmm-good", "HmmSampleTrace", hs, True))
    bad = cp(hs)
    bad[2]["out"] = [0]                             # first state not the one the first uniform selects
    cases.append(("hmm-first-state-stale", "HmmSampleTrace", bad, False))
    bad = cp(hs)
    bad[4]["out"] = [1, 0, 1]
    bad[4]["lo"] = [1, 0, 1]
    bad[4]["hi"] = [1, 0, 1]                        # consistent in itself but sample(1) is not its prefix
    cases.append(("hmm-not-a-prefix", "HmmSampleTrace", bad, False))
    bad = cp(hs)
    bad[4]["wpos"] = [True, False, True]            # a zero-probability transition taken
    cases.append(("hmm-zero-transition", "HmmSampleTrace", bad, False))
    rs = [{"e": "Reset"}, {"e": "Restricted", "s": "dd.exp", "inDom": [False, False, True, False, True], "idx": 3, "dom": True, "seed": 1}]
    cases.append(("restricted-good", "ScaleLawTrace", rs, True))
    bad = cp(rs)
    bad[1]["idx"] = 0                               # in the interval, but not an element of the stream of the declared law
    cases.append(("restricted-retry-other-law", "ScaleLawTrace", bad, False))
    bad = cp(rs)
    bad[1]["idx"] = 1
    bad[1]["dom"] = False                           # the first raw draw returned although it is outside the interval
    cases.append(("restricted-not-in-domain", "ScaleLawTrace", bad, False))
    cpy = [{"e": "Reset"}, {"e": "New", "o": 0, "k": "auto", "ns": 2}, {"e": "New", "o": 1, "k": "auto", "ns": 2},
           {"e": "Sample", "o": 1, "n": 2, "seed": 7, "out": [0, 1], "lo": [0, 1], "hi": [0, 1], "wpos": [True, True]},
           {"e": "Mut", "o": 0, "what": "param", "r": "ok", "twin": "ok"},
           {"e": "CopyTo", "o": 0, "o2": 1, "how": "assign"},
           {"e": "Sample", "o": 1, "n": 2, "seed": 7, "out": [1, 1], "lo": [1, 1], "hi": [1, 1], "wpos": [True, True]}]
    cases.append(("hmm-assign-good", "HmmSampleTrace", cpy, True))
    dh = [{"e": "Reset"}, {"e": "New", "o": 0, "cls": "gauss", "r": "ok"},
          {"e": "SetPar", "o": 0, "how": "setParameterValue", "r": "ok"},
          {"e": "CopyTo", "o": 0, "o2": 1, "how": "clone"}, {"e": "Restrict", "o": 1, "r": "ok"},
          {"e": "Draw", "o": 0, "seed": 3, "sameC": True, "sameD": True, "domC": True, "domD": True}]
    cases.append(("dist-good", "DistHistoryTrace", dh, True))
    bad = cp(dh)
    bad[5]["sameC"] = False                         # the draws are not those of a fresh object with the current state
    cases.append(("dist-draw-not-current", "DistHistoryTrace", bad, False))
    bad = cp(cpy)
    del bad[5]                                      # without the assignment the two samples are in one epoch: not prefixes
    cases.append(("hmm-assign-dropped", "HmmSampleTrace", bad, False))
    bad = cp(law)
    bad[1]["code"] = 2                              # doubling the mean halves the draw: read as a rate
    cases.append(("law-mean-read-as-rate", "ScaleLawTrace", bad, False))
    bad = cp(law)
    bad[3]["code"] = 16                             # variance x 4 multiplies by 4: read as a standard deviation
    cases.append(("law-variance-read-as-sd", "ScaleLawTrace", bad, False))
    bad = cp(law)
    bad[5]["out"] = [2, 1, 2]                       # a zero-mass category / not the category containing the uniform
    cases.append(("law-pick-not-inverse-cdf", "ScaleLawTrace", bad, False))
    return cases


def run(tier, seed):
    ck = vc.Check("C18", tier, seed)
    quick = tier == "quick"
    wd = vc.workdir("c18")
    _clean()

    # 1. design models, 2. self-tests of the trace specifications (run concurrently) ----
    jobs = []       # (kind, name, callable)
    models = [("Rcont2/expected", 6, (2, 3))] if quick else [("Rcont2/expected", 10, (2, 3)), ("Rcont2/expected-4", 5, (2, 3, 4))]
    for name, mt, dims in models:
        cfg = os.path.join(wd, "rc-%d-%d.cfg" % (mt, len(dims)))
        _rc_cfg(cfg, mt, dims, "expected")
        const = "MaxTot=%d Dims={%s} StartRule=expected; all ordered margin pairs incl. zeros; liveness Termination under WF" % (mt, ",".join(map(str, dims)))
        jobs.append(("model", name, const, (lambda cfg=cfg: vc.model_check(SPEC, "Rcont2", cfg, workers=max(4, vc.NCPU // 2), coverage=True, timeout=3000, heap="12g"))))
    ccfg = os.path.join(wd, "rc-cast.cfg")
    _rc_cfg(ccfg, 3, (2, 3), "cast", live=False)
    jobs.append(("control", "cast", "", lambda: vc.tlc(SPEC, "Rcont2", ccfg, workers=2, timeout=900, extra=("-noGenerateSpecTE",))))
    for name, seeds, calls, mc, mr in (("Sampling/every-call", "1", "CallsAll", 1, 1),
                                       ("Sampling/runs", "1, 2" if quick else "1, 2, 3", "CallsFew", 2, 1)):
        cfg = os.path.join(wd, "sa-%s.cfg" % calls)
        _sa_cfg(cfg, seeds, calls, mc, mr)
        const = "Seeds={%s} CallSet=%s MaxCalls=%d runs=%d" % (seeds, calls, mc, mr + 1)
        jobs.append(("model", name, const, (lambda cfg=cfg: vc.model_check(SPEC, "SamplingMC", cfg, workers=3, coverage=True, timeout=3000, heap="8g"))))
    cfg = os.path.join(wd, "sl-decl.cfg")
    _sl_cfg(cfg, "decl")
    jobs.append(("model", "ScaleLaw/declared", "ZMag={1,3} ExpMax=2 Impl=decl (9 samplers, every argument, factors 1/4..4, shifts, inverse-cdf picks)",
                 (lambda cfg=cfg: vc.model_check(SPEC, "ScaleLaw", cfg, workers=3, coverage=True, timeout=1800, heap="4g"))))
    for impl in ("expAsRate", "gaussSd", "gammaScale", "retryOtherLaw"):
        cfg = os.path.join(wd, "sl-%s.cfg" % impl)
        _sl_cfg(cfg, impl)
        jobs.append(("control2", impl, "", (lambda cfg=cfg: vc.tlc(SPEC, "ScaleLaw", cfg, workers=1, timeout=900, extra=("-noGenerateSpecTE",)))))
    cfg = os.path.join(wd, "dh-ok.cfg")
    _dh_cfg(cfg, "ok")
    jobs.append(("model", "DistHistory/ok", "Objs={1,2} Pars={1,2} Doms={1,2} <=4 interval objects, Impl=ok",
                 (lambda cfg=cfg: vc.model_check(SPEC, "DistHistory", cfg, workers=3, coverage=True, timeout=1800, heap="4g"))))
    for impl in ("staleSampler", "sharedDomain"):
        cfg = os.path.join(wd, "dh-%s.cfg" % impl)
        _dh_cfg(cfg, impl)
        jobs.append(("control4", impl, "", (lambda cfg=cfg: vc.tlc(SPEC, "DistHistory", cfg, workers=1, timeout=900, extra=("-noGenerateSpecTE",)))))
    cfg = os.path.join(wd, "hs-refresh.cfg")
    _hs_cfg(cfg, "refresh", quick)
    jobs.append(("model", "HmmSample/refresh", "Objs={1,2} Cfgs=1..%d Seeds={1} Lens={1,2} kinds full/auto, copy/assign, Impl=refresh" % (2 if quick else 3),
                 (lambda cfg=cfg: vc.model_check(SPEC, "HmmSample", cfg, workers=3, coverage=True, timeout=1800, heap="4g"))))
    for impl in ("lazyFirst", "autoEqStale", "assignKeepsFlag"):
        cfg = os.path.join(wd, "hs-%s.cfg" % impl)
        _hs_cfg(cfg, impl)
        jobs.append(("control3", impl, "", (lambda cfg=cfg: vc.tlc(SPEC, "HmmSample", cfg, workers=1, timeout=900, extra=("-noGenerateSpecTE",)))))
    for name, module, lines, accepted in _selftest_cases():
        jobs.append(("self", name, "", (lambda name=name, module=module, lines=lines, accepted=accepted: _expect(wd, name, module, lines, accepted))))
    with ThreadPoolExecutor(max_workers=8) as ex:
        results = list(ex.map(lambda j: j[3](), jobs))
    _clean()
    vc.log("C18: design models + trace-spec self-tests done at %.0fs" % (time.time() - ck.t0))
    selfres = {}
    for (kind, name, const, _f), r in zip(jobs, results):
        if kind == "model":
            ck.add_model(name, r, const)
            if r.invariant:
                ck.violation("design model %s violates %s" % (name, r.invariant), [r.out[-6000:]], tag="model")
        elif kind == "control":
            # negative control: the mis-parenthesised start value must be caught by the same model
            if r.invariant != "IndexSafe":
                raise vc.MachineryError("negative control: Rcont2 with StartRule=cast should violate IndexSafe, got %s\n%s" % (r.invariant, r.out[-2000:]))
            ck.extra["negative_control"] = "Rcont2 with the mis-parenthesised start value (StartRule=cast, MaxTot=3): TLC reports IndexSafe violated, as expected"
        elif kind == "control4":
            if r.invariant not in ("DrawCurrent", "CopyIndependent"):
                raise vc.MachineryError("negative control: DistHistory with Impl=%s should violate DrawCurrent/CopyIndependent, got %s\n%s" % (name, r.invariant, r.out[-2000:]))
            ck.extra["negative_control_dist_" + name] = "DistHistory with Impl=%s: TLC reports %s violated, as expected" % (name, r.invariant)
        elif kind == "control3":
            if r.invariant != "UsesCurrent":
                raise vc.MachineryError("negative control: HmmSample with Impl=%s should violate UsesCurrent, got %s\n%s" % (name, r.invariant, r.out[-2000:]))
            ck.extra["negative_control_hmm_" + name] = "HmmSample with Impl=%s: TLC reports UsesCurrent violated, as expected" % name
        elif kind == "control2":
            if r.invariant != ("RestrictHolds" if name == "retryOtherLaw" else "LawHolds"):
                raise vc.MachineryError("negative control: ScaleLaw with Impl=%s should violate LawHolds, got %s\n%s" % (name, r.invariant, r.out[-2000:]))
            ck.extra["negative_control_" + name] = "ScaleLaw with the implementation reading '%s' of the arguments: TLC reports LawHolds violated, as expected" % name
        else:
            selfres[name] = r
    ck.extra["trace_spec_selftests"] = selfres

    # 3. implementation traces ---------------------------------------------------------
    exe = vc.build_driver("drv_random", link_lib=True)
    if quick:
        exh = [("exh-2to3", ["--maxtot", 6, "--mindim", 2, "--maxdim", 3, "--seeds", 16]),
               ("exh-2to5", ["--maxtot", 3, "--mindim", 2, "--maxdim", 5, "--seeds", 2])]
    else:
        exh = [("exh-2to3-t0to8", ["--maxtot", 8, "--mindim", 2, "--maxdim", 3, "--seeds", 16])]
        exh += [("exh-2to3-t%d" % t, ["--mintot", t, "--maxtot", t, "--mindim", 2, "--maxdim", 3, "--seeds", 16]) for t in (9, 10)]
        exh += [("exh-2to3-t%d" % t, ["--mintot", t, "--maxtot", t, "--mindim", 2, "--maxdim", 3, "--seeds", 4]) for t in (11, 12)]
        exh += [("exh-2to5", ["--maxtot", 4, "--mindim", 2, "--maxdim", 5, "--seeds", 2])]
    runs = [(n, ["--mode", "tables-exh"] + a, "Rcont2Trace") for n, a in exh]
    runs += [("tables-rand", ["--mode", "tables-rand", "--n", 400 if quick else 5000, "--maxtot", 200], "Rcont2Trace"),
             ("sampling-exh", ["--mode", "sampling-exh", "--seeds", 16], "SamplingTrace"),
             ("sampling-rand", ["--mode", "sampling-rand", "--n", 300 if quick else 4000], "SamplingTrace"),
             ("laws", ["--mode", "laws", "--seeds", 16], "ScaleLawTrace"),
             ("hmm", ["--mode", "hmm", "--n", 600 if quick else 6000], "HmmSampleTrace"),
             ("dist", ["--mode", "dist", "--n", 500 if quick else 5000], "DistHistoryTrace")]
    for name, args, module in runs:
        tr = os.path.join(wd, "trace-%s.ndjson" % name)
        s = vc.run_driver(exe, args, tr, timeout=3000)
        _validate(ck, tr, module, sample=2 if name in ("tables-rand", "sampling-rand", "laws", "hmm", "dist") else 0)
        vc.log("C18: %s: %s scenarios, %s events validated at %.0fs" % (name, s.get("scenarios"), s.get("events"), time.time() - ck.t0))
        ck.extra["scenarios_" + name] = s.get("scenarios", 0)
        os.remove(tr)
    ck.exhaustive = True
    ck.rule = ("tables: every ordered pair of margin vectors (zeros included) with 2..3 rows/columns and total <= %s, "
               "2..5 rows/columns and total <= %d x 2 seeds, random margins to total 200 with 2..5 rows/columns in multi-generator "
               "histories (refused constructions, copies, ContingencyTableTest with 0..4 permutations); sampling: getSample for source "
               "sizes 0..12 x sample sizes 0..14 x {plain, weighted} x {with, without replacement} x 16 seeds + pickOne variants, "
               "random runs of all call kinds re-played under the same seed; argument conventions: pairs of draws under one seed "
               "differing in one argument (factors 1/4, 1/2, 2, 4, shifts) for 4 RandomTools samplers and 5 distribution classes x 16 seeds, "
               "inverse-cdf picks with the rank of the uniform, randC domain + quantile round trip; hidden-state paths: random histories "
               "(mutations, getters, copy construction / assignment between two objects, sample(1..5) under 3 seeds per history) on "
               "Full/AutoCorrelation matrices with 1..4 states; restricted distributions (6 classes): accepted draw = first in-domain "
               "element of the unrestricted twin's stream under the same seed; distribution histories (5 classes): build / set a parameter "
               "through 3 entry points / restrict / clone / assign on two objects, every draw (randC and rand) compared with a reference "
               "object built afresh from the current parameters and restriction; non-trivial = scenario with at least one draw"
               % (("6 x 16 seeds", 3) if quick else ("10 x 16 seeds, 11..12 x 4 seeds", 4)))
    ck.distinct = ck.traces
    ck.assumptions = ["TLC 1.8.0; CommunityModules Json",
                      "hook h2 (BPP_CORE_VERIF) reports the bookkeeping values rcont2 actually used; the driver only encodes them",
                      "real-valued comparisons of AS 159 (x >= dummy, sumprb >= dummy) are nondeterministic in the model; a redraw "
                      "scales the threshold to at most the full accumulated mass, so the second pass accepts (termination)",
                      "a size_t index is inside fact_[0..ntot] iff its mathematical value is; wrapped values are logged as signed 64-bit",
                      "argument conventions are decided through exact transformation laws under one seed (power-of-two factors; codes recognised "
                      "at relative 1e-12, shifts at 1e-9); goodness of fit of the draws to the law is not decided by this technique"]
    return ck.finish()


def replay(path):
    module = _module_for(path)
    n_ev, rej, st = vc.validate_trace(SPEC, module, os.path.join(SPEC, module + ".cfg"), path, parallel=1)
    _clean()
    for rj in rej:
        vc.log("VIOLATION property=C18 replay=%s" % path)
        vc.log("  %s at event #%d: %s" % (rj.reason, rj.index, rj.event))
    return 1 if rej else 0
