"""C04 - matrix operations match their textbook definitions for every shape and storage layout;
non-conformable operands raise; the linear-assignment solver is optimal with a dual certificate.
Definitions: spec/Matrix/MatDefs.tla, Lap.tla (checked against each other by MatLemmas / LapLemmas);
design model: spec/Matrix/MatrixOps.tla; binding: harness/drv_matrix.cpp traces validated by MatrixOpsTrace.tla."""
import json
import os
from concurrent.futures import ThreadPoolExecutor

import vcommon as vc

SPEC = os.path.join(vc.VERIF, "spec", "Matrix")
INV = "OutcomeMatchesConformability ResultIsDefinition InputsUntouched ReturnedValuesMatch WellFormedHeap"
TRACE_CFG = os.path.join(SPEC, "MatrixOpsTrace.cfg")
STORE_CFG = os.path.join(SPEC, "MatrixStoreTrace.cfg")
STORE_ACTIONS = "New|Convert|Resize|ResizeFlat|Write|AddRowBounded|AddColBounded|Drop"
ASAN_ENV = {"ASAN_OPTIONS": "abort_on_error=1:detect_leaks=0:handle_abort=0", "UBSAN_OPTIONS": "abort_on_error=1:print_stacktrace=1"}


def _write(path, text):
    with open(path, "w") as f:
        f.write(text)
    return path


def _sig(rj):
    ev = rj.event or {}
    sig = {"action": ev.get("e"), "invariant": rj.invariant or "step", "outcome": ev.get("r", "")}
    if ev.get("e") == "Crash":
        sig["op"] = ev.get("op", "")
    p = ev.get("p") or {}
    if isinstance(p, dict) and "variant" in p:
        sig["variant"] = p["variant"]
    if ev.get("e") == "Taylor":
        sig["p"] = (ev.get("p") or {}).get("p")
    return sig


def action_coverage(tlc_out, module, pat=r"D[A-Z]\w*"):
    """Per-action <distinct>:<generated> counts of a -coverage run.  TLC names an action after the innermost
    definition it unfolds (often the shared Step), followed by the position of the disjunct: map that
    position back to the enclosing D<Action> definition of the module."""
    import re
    defs = []
    with open(os.path.join(SPEC, module + ".tla")) as f:
        for n, ln in enumerate(f, 1):
            m = re.match(r"^(" + pat + r")(\([^=]*\))?\s+==", ln)
            if m:
                defs.append((n, m.group(1)))
    cov = {}
    for m in re.finditer(r"^<(\w+) line (\d+), col \d+ to line \d+, col \d+ of module \w+(?: \((\d+) \d+ \d+ \d+\))?>: (\d+):(\d+)", tlc_out, re.M):
        name = m.group(1)
        if m.group(3):                      # position of the disjunct: attribute it to the enclosing action definition
            for n, d in defs:
                if n <= int(m.group(3)):
                    name = d
        if name not in [d for n, d in defs]:
            continue
        a, b = cov.get(name, (0, 0))
        cov[name] = (a + int(m.group(4)), b + int(m.group(5)))
    return cov, [d for n, d in defs]


def cleanup_tlc_droppings(prefixes):
    """TLC writes <Module>_TTrace_<time>.tla/.bin next to the specification whenever it reports an error
    (every rejected trace chunk): remove them so that the spec directory stays clean."""
    import glob
    for pre in prefixes:
        for f in glob.glob(os.path.join(SPEC, pre + "*_TTrace_*")):
            try:
                os.remove(f)
            except OSError:
                pass


def build_driver():
    # header-only subsystem + the exception classes; built with ASan/UBSan so that an out-of-range
    # read or write inside a routine ends the run with a Crash event instead of going unnoticed
    return vc.build_driver("drv_matrix", link_lib=False, sanitize=True)


def run_driver(exe, args, trace):
    s = vc.run_driver(exe, args, trace, env=ASAN_ENV)
    if "events" not in s:
        # the driver died without writing its summary (and without a Crash event): make that visible to TLC
        lines = []
        if os.path.exists(trace):
            with open(trace) as f:
                lines = f.read().split("\n")
        if lines and lines[-1] != "":
            lines[-1] = ""          # a partially written last line
        lines = [ln for ln in lines if ln]
        if not lines or ('"e":"Crash"' not in lines[-1] and '"e":"Hang"' not in lines[-1]):
            lines.append(json.dumps({"e": "Crash", "what": "driver ended abnormally rc=%s" % s.get("_rc"), "op": "?"}))
        with open(trace, "w") as f:
            f.write("\n".join(lines) + "\n")
    return s


def corruption_control(ck, trace, module, cfg, controls, wd):
    """Binding control, independent of the seed's luck: for each (label, pick, flip) the FIRST event of the trace
    that satisfies pick - chosen so that the altered field is one the specification asserts - is altered and the
    history up to it re-validated; the trace specification must reject it.  An accepted alteration means the
    specification does not constrain that field: machinery error."""
    lines = open(trace).read().splitlines()
    report = {}
    for label, pick, flip in controls:
        start = 0
        report[label] = "no suitable event"
        for i, ln in enumerate(lines):
            if ln.startswith('{"e":"Reset"'):
                start = i
                continue
            ev = json.loads(ln)
            if not pick(ev):
                continue
            flip(ev)
            p = os.path.join(wd, "corrupted.ndjson")
            with open(p, "w") as f:
                f.write("\n".join(lines[start:i] + [json.dumps(ev, separators=(",", ":"))]) + "\n")
            n_ev, rej, st = vc.validate_trace(SPEC, module, cfg, p, parallel=1)
            os.remove(p)
            report[label] = "altered %s event rejected: %s" % (ev["e"], bool(rej))
            if not rej:
                raise vc.MachineryError("corruption control (%s): an altered %s event was accepted by %s" % (label, ev["e"], module))
            break
    ck.extra["corruption_control"] = report


# routines whose output object is fully determined by the definition (ResultIsDefinition asserts every entry)
_ASSERTED_OUTPUT = ("Mul", "Transpose", "DSum", "Had", "Kron", "MulDiag", "HadVec")


def _pick_matrix_result(ev):
    if ev.get("e") not in _ASSERTED_OUTPUT or ev.get("r") != "ok":
        return False
    o = ev["out"][0]
    return any(w[0] == o and w[1]["r"] >= 1 and w[1]["c"] >= 1 for w in ev["w"])


def _flip_matrix_result(ev):
    o = ev["out"][0]
    for w in ev["w"]:
        if w[0] == o:
            w[1]["e"][-1][-1] += 1


def _pick_refused(ev):
    return ev.get("e") in ("Mul", "Had", "MulDiag") and ev.get("r") == "raise:DimensionException"


def _flip_refused(ev):
    ev["r"] = "ok"          # a non-conformable call reported as accepted


MATRIX_CONTROLS = [("result entry + 1", _pick_matrix_result, _flip_matrix_result),
                   ("refusal reported as ok", _pick_refused, _flip_refused)]


def _validate(ck, trace, module="MatrixOpsTrace", cfg=None):
    n_ev, rej, st = vc.validate_trace(SPEC, module, cfg or TRACE_CFG, trace)
    ck.events += n_ev
    ck.traces += vc.count_scenarios(trace)
    ck.handle_rejections(rej, _sig)
    return rej


def run(tier, seed):
    ck = vc.Check("C04", tier, seed)
    quick = tier == "quick"
    wd = vc.workdir("c04")

    # 1. oracle sanity (closed lemmas) and the design model, side by side
    lem = _write(os.path.join(wd, "lemmas.cfg"),
                 "SPECIFICATION Spec\nCONSTANTS\n  D = 2\n  VMax = 1\n  VS = {0, 1}\n  QCells = %d\n" % (2 if quick else 4))
    lap = _write(os.path.join(wd, "laplemmas.cfg"), "SPECIFICATION Spec\nCONSTANTS\n  N = 3\n  CMax = %d\n" % (1 if quick else 2))
    vals, bound = ("= {0, 1}", 1) if quick else ("<- SignedVals", 1)
    des = _write(os.path.join(wd, "design.cfg"),
                 "SPECIFICATION Spec\nCONSTANTS\n  Ids = {1, 2}\n  OutId = 3\n  DMax = 2\n  Vals %s\n  Bound = %d\n  Depth = 1\n"
                 "INVARIANTS %s RaiseKeepsEverything\nCHECK_DEADLOCK FALSE\n" % (vals, bound, INV))
    chain = _write(os.path.join(wd, "design_chain.cfg"),
                   "SPECIFICATION Spec\nCONSTANTS\n  Ids = {1, 2}\n  OutId = 3\n  DMax = %d\n  Vals = %s\n  Bound = %d\n  Depth = 2\n"
                   "INVARIANTS %s RaiseKeepsEverything\nCHECK_DEADLOCK FALSE\n" % ((1, "{1, 2}", 4, INV) if quick else (2, "{1}", 1, INV)))
    store = _write(os.path.join(wd, "store.cfg"),
                   "SPECIFICATION SSpec\nCONSTANTS\n  SIds = {1, 2}\n  SDim = 2\n  SVals = {0, 1}\nINVARIANTS Refines OutcomeKnown\n"
                   "PROPERTIES AddOutcomeIsDefinition OthersUntouched\nCHECK_DEADLOCK FALSE\n")
    jobs = [("MatLemmas", "MatLemmas", lem, 2, False), ("LapLemmas", "LapLemmas", lap, 2, False),
            ("MatrixStore", "MatrixStore", store, 4, True),
            ("MatrixOps/all-heaps", "MatrixOps", des, max(4, vc.NCPU - 6), False),
            ("MatrixOps/chains", "MatrixOps", chain, 4, True)]
    with ThreadPoolExecutor(max_workers=4) as ex:
        futs = [(j, ex.submit(vc.tlc, SPEC, j[1], j[2], workers=j[3], coverage=j[4], timeout=3000, heap="6g")) for j in jobs]
        results = [(j, f.result()) for j, f in futs]
    for (name, module, cfg, w, cov), r in results:
        consts = open(cfg).read().split("CONSTANTS")[1].split("INVARIANTS")[0].split()
        ck.add_model(name, r, " ".join(consts))
        if cov:
            ac, all_actions = action_coverage(r.out, module, STORE_ACTIONS if module == "MatrixStore" else r"D[A-Z]\w*")
            ck.extra.setdefault("design_action_coverage", {}).update({k: "%d:%d" % v for k, v in sorted(ac.items())})
            ck.untaken += [name + ":" + a for a in all_actions if ac.get(a, (0, 0))[1] == 0]
        if r.assumption_failed:
            ck.violation("oracle lemma of %s fails: the definitions disagree with each other\n%s" % (module, r.out[-1500:]), [r.out[-3000:]], tag="lemma")
        elif r.invariant:
            ck.violation("design model %s violates %s" % (name, r.invariant), [r.out[-6000:]], tag="model")
        elif not r.completed:
            raise vc.MachineryError("TLC did not complete on %s: %s\n%s" % (name, r.other_error, r.out[-2000:]))

    # 2. implementation traces
    exe = build_driver()
    runs = [("random", ["--mode", "random", "--n", 260 if quick else 5000, "--kroncells", 120 if quick else 400]),
            ("lapexh", ["--mode", "lapexh", "--dim", 3, "--stride", 9 if quick else 1]),
            ("laprand", ["--mode", "laprand", "--n", 500 if quick else 12000])]
    combos = {}
    runs.append(("store", ["--mode", "store", "--n", 150 if quick else 3000]))
    for name, args in runs:
        tr = os.path.join(wd, "trace-%s.ndjson" % name)
        s = run_driver(exe, args, tr)
        if name == "store":
            _validate(ck, tr, "MatrixStoreTrace", STORE_CFG)
            ck.extra["storage_class_member_calls"] = s.get("calls", 0)
            ck.samples += vc.sample_scenarios(tr, 1, maxlines=5)
            os.remove(tr)
            continue
        _validate(ck, tr)
        if name == "random":
            corruption_control(ck, tr, "MatrixOpsTrace", TRACE_CFG, MATRIX_CONTROLS, wd)
            ck.samples += vc.sample_scenarios(tr, 3, maxlines=6)
            combos = s.get("class_combos", {})
            ck.extra["calls_per_routine"] = s.get("calls", {})
            ck.extra["refusals_per_routine"] = s.get("raised", {})
            ck.extra["skipped_magnitude"] = s.get("skipped", 0)
        os.remove(tr)
    ck.extra["storage_class_combinations_per_routine"] = combos
    ck.exhaustive = True
    ck.rule = ("random histories (3-9 MatrixTools calls) on a heap of RowMatrix/ColMatrix/LinearMatrix<double> objects, shapes 0x0, "
               "1..7 x 1..7 and degenerate r x 0 / 0 x c, integer and dyadic entries, storage classes of every operand and output cycled through all combinations, "
               "outputs stale / wrongly sized / sentinel-filled, conformable and near-miss shapes; linear assignment on every cost "
               "matrix over {0,1,2} up to 3x3 (quick: every 9th 3x3) and random integer/dyadic costs up to 7x7; "
               "storage classes: histories of constructors / converting copies / operator= / clone / resize / resize(r,c,false) / "
               "writes / addRow / addCol / equals / destruction applied in lock-step to one object per class, shapes 0..4 x 0..4 "
               "incl. r x 0 and 0 x c, every live object re-read after every call; "
               "non-trivial = scenario with at least one routine call")
    ck.distinct = ck.traces
    ck.assumptions = ["TLC 1.8.0; CommunityModules Json", "harness/drv_matrix.cpp reads results only through Matrix::operator()/getNumberOfRows/Columns",
                      "entries are exact in double arithmetic (small integers / dyadic rationals); every value stays below 2^31",
                      "r x 0 / 0 x c operands are created only in a storage class that can report them; a degenerate result is compared "
                      "with what the output's class reports for it (AsHeld)"]
    cleanup_tlc_droppings(["MatrixOps", "MatLemmas", "Lap", "MatrixStore"])
    return ck.finish()


def replay(path):
    is_store = any('"e":"S' in ln or '"e": "S' in ln for ln in open(path))
    if is_store:
        n_ev, rej, st = vc.validate_trace(SPEC, "MatrixStoreTrace", STORE_CFG, path, parallel=1)
    else:
        n_ev, rej, st = vc.validate_trace(SPEC, "MatrixOpsTrace", TRACE_CFG, path, parallel=1)
    cleanup_tlc_droppings(["MatrixOps", "MatrixStore"])
    for rj in rej:
        vc.log("VIOLATION property=C04 replay=%s" % path)
        vc.log("  %s at event #%d: %s" % (rj.reason, rj.index, json.dumps(rj.event)[:800]))
    return 1 if rej else 0
