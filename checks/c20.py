"""C20 - range collections behave as sets of points.
Design model: spec/MultiRange/RangeColl.tla (+RangePrims, RangeLemmas);
binding: harness/drv_range.cpp traces validated by RangeCollTrace.tla."""
import os
import vcommon as vc

SPEC = os.path.join(vc.VERIF, "spec", "MultiRange")
INV = "TypeOK MrCanonical MrUnionIsPts MrMeasure RsKeepsEvery"


def _cfg(path, u, kinds, maxlen, objs="{1, 2}"):
    with open(path, "w") as f:
        f.write("SPECIFICATION Spec\nCONSTANTS\n  U = %d\n  Objs = %s\n  Kinds = {%s}\n  MaxLen = %d\n"
                "CONSTRAINT Bound\nINVARIANTS %s\nPROPERTY CopyDeep\nCHECK_DEADLOCK FALSE\n" % (u, objs, kinds, maxlen, INV))


def _sig(rj):
    ev = rj.event or {}
    return {"action": ev.get("e"), "type": ev.get("t", ""), "invariant": rj.invariant or "step"}


def _validate(ck, trace):
    n_ev, rej, st = vc.validate_trace(SPEC, "RangeCollTrace", os.path.join(SPEC, "RangeCollTrace.cfg"), trace)
    ck.events += n_ev
    ck.traces += vc.count_scenarios(trace)
    ck.handle_rejections(rej, _sig)
    return rej


def run(tier, seed):
    ck = vc.Check("C20", tier, seed)
    quick = tier == "quick"
    wd = vc.workdir("c20")
    # 1. closed lemmas: transcription of the primitives = interval arithmetic on all pairs
    lem = os.path.join(wd, "lemmas.cfg")
    open(lem, "w").write("SPECIFICATION Spec\nCONSTANT N = %d\n" % (8 if quick else 12))
    r = vc.tlc(SPEC, "RangeLemmas", lem, workers=2)
    if r.assumption_failed or not r.completed:
        ck.violation("RangePrims lemma fails: the primitives' comparisons do not agree with interval arithmetic\n" + r.out[-1500:], [r.out], tag="lemma")
    ck.add_model("RangeLemmas", r, "N=%d" % (8 if quick else 12))
    # 2. design models: every history inside the bound
    models = [("mr", 5 if quick else 6, '"mr"', 3, "{1, 2}"), ("rs", 3 if quick else 4, '"rs"', 2 if quick else 3, "{1, 2}")]
    if not quick:
        models.append(("mr-1obj", 10, '"mr"', 3, "{1}"))   # one object, larger universe (copies covered above)
    for name, u, kinds, ml, objs in models:
        cfg = os.path.join(wd, "design_%s.cfg" % name)
        _cfg(cfg, u, kinds, ml, objs)
        r = vc.model_check(SPEC, "RangeColl", cfg, coverage=True, timeout=3000, heap="12g")
        ck.add_model("RangeColl/" + name, r, "U=%d Objs=%s Kinds={%s} MaxLen=%d" % (u, objs, kinds, ml))
        if r.invariant:
            ck.violation("design model RangeColl/%s violates %s" % (name, r.invariant), [r.out[-6000:]], tag="model")
    # 3. implementation traces
    exe = vc.build_driver("drv_range", link_lib=False)
    runs = [("random", ["--mode", "random", "--n", 150 if quick else 3000]),
            ("bfs-int", ["--mode", "bfs", "--u", 5 if quick else 6, "--types", "int"]),
            ("bfs-other", ["--mode", "bfs", "--u", 3 if quick else 4, "--types", "unsigned,double,double4"]),
            ("prims", ["--mode", "prims", "--u", 5 if quick else 7])]
    for name, args in runs:
        tr = os.path.join(wd, "trace-%s.ndjson" % name)
        s = vc.run_driver(exe, args, tr)
        _validate(ck, tr)
        if name == "random":
            ck.samples += vc.sample_scenarios(tr, 3)
        if name == "bfs-int":
            ck.extra["bfs_int_states"] = s.get("scenarios", 0)
        os.remove(tr)
    ck.exhaustive = True
    ck.rule = ("random histories (<=12 ops, coordinates 0..24, 1-3 objects incl. copies/assignments/destruction) for "
               "int/unsigned/double/quarter-step double; every transition of the implementation's reachable state graph "
               "over 0..U from every reachable state (via copies); all Range primitive pairs over 0..U; "
               "non-trivial = scenario with at least one state-changing call")
    ck.distinct = ck.traces
    ck.assumptions = ["TLC 1.8.0; CommunityModules Json", "harness/drv_range.cpp projection uses only public const queries",
                      "coordinates are non-negative (comparator of Range is a strict weak order only there)"]
    return ck.finish()


def replay(path):
    n_ev, rej, st = vc.validate_trace(SPEC, "RangeCollTrace", os.path.join(SPEC, "RangeCollTrace.cfg"), path, parallel=1)
    for rj in rej:
        vc.log("VIOLATION property=C20 replay=%s" % path)
        vc.log("  %s at event #%d: %s" % (rj.reason, rj.index, rj.event))
    return 1 if rej else 0
