"""C10 - optimisers never end worse than they start, report what they hold, stay within
their evaluation budget, converge on convex quadratics, respect bounds under the automatic
constraint policy; bracketing returns a triple whose middle point is lowest.
Design model + monitor: spec/Optimizer/Optimizer.tla; binding: harness/drv_optim.cpp traces
validated by OptimizerTrace.tla (every invariant evaluated after every event)."""
import glob
import json
import os
import vcommon as vc

SPEC = os.path.join(vc.VERIF, "spec", "Optimizer")
TCFG = os.path.join(SPEC, "OptimizerTrace.cfg")
INV = "TypeOK MetaSchedule Descent ReportConsistent Budget FeasibleAlways Converged Bracketed Protocol HeldDescends"


_raw_load_findings = vc.load_findings


def _load_findings_latest():
    """known entries with the same id: the later one (findings.d fragment) replaces the earlier one
    (known_findings.json) - the coordinator's merge rule, applied here until the merge has happened."""
    res = _raw_load_findings()
    by_id, order = {}, []
    for k in res.get("known", []):
        i = k.get("id", id(k))
        if i not in by_id:
            order.append(i)
        by_id[i] = k
    res["known"] = [by_id[i] for i in order]
    return res


vc.load_findings = _load_findings_latest


def _design_cfg(path, budgets, boxes, objs, maxrank, maxinner, live=False, pols='"auto", "ignore", "keep"', metans="3"):
    with open(path, "w") as f:
        f.write("SPECIFICATION %s\nCONSTANTS\n  MetaNs = {%s}\n  Budgets = {%s}\n  Pols = {%s}\n  Objs <- %s\n  MaxRank = %d\n  MaxInner = %d\n"
                "  Boxes <- %s\n  KConv = 1000\n  KConvX = 10\n  KGap = 100\n" % ("Spec" if live else "SafetySpec", metans, budgets, pols, objs, maxrank, maxinner, boxes))
        if live:
            f.write("INVARIANTS TypeOK Budget\nPROPERTY Terminates\n")
        else:
            f.write("INVARIANTS %s\n" % INV)
        f.write("CHECK_DEADLOCK FALSE\n")


def _reset_of(rj):
    try:
        return json.loads(rj.prefix[0])
    except Exception:
        return {}


def _sig(rj):
    ev = rj.event or {}
    rs = _reset_of(rj)
    clause = rj.invariant
    if clause is None:
        clause = "Terminates" if ev.get("e") in ("Hang", "Crash") else "step"
    dsm = rs.get("opt") == "DownhillSimplex" or "DownhillSimplex" in (rs.get("cfg") or "")
    # classes the known finding is confined to: condition number of the quadratic and dimension
    kap, dim = rs.get("kap"), rs.get("dim")
    return {"opt": rs.get("opt", "?"), "clause": clause, "pol": rs.get("pol", "?"), "event": ev.get("e", "?"),
            "simplex": "yes" if dsm else "no",
            "cond": "?" if kap is None else ("ge50" if kap >= 50 else "lt50"),
            "dim": "?" if dim is None else ("ge5" if dim >= 5 else "lt5"),
            "kind": rs.get("kind", "?")}


def _drop_scenarios(trace, out, bad_indices):
    """Copy trace to out without the scenarios containing the given 0-based line indices."""
    lines = open(trace).read().splitlines()
    starts = [i for i, ln in enumerate(lines) if ln.startswith('{"e":"Reset"')] + [len(lines)]
    drop = set()
    for k in range(len(starts) - 1):
        if any(starts[k] <= b < starts[k + 1] for b in bad_indices):
            drop.add(k)
    with open(out, "w") as f:
        for k in range(len(starts) - 1):
            if k not in drop:
                f.write("\n".join(lines[starts[k]:starts[k + 1]]) + "\n")
    return len(starts) - 1 - len(drop)


def _validate(ck, trace, parallel=None, rounds=6):
    """Validate; a rejected scenario hides the rest of its chunk, so it is taken out and the
    remainder validated again (a few rounds) - every scenario gets judged."""
    total = vc.count_scenarios(trace)
    cur = trace
    all_rej = []
    for rnd in range(rounds):
        n_ev, rej, st = vc.validate_trace(SPEC, "OptimizerTrace", TCFG, cur, parallel=parallel, heap="2g")
        all_rej += rej
        if not rej:
            ck.events += n_ev
            break
        nxt = "%s.r%d" % (trace, rnd)
        left = _drop_scenarios(cur, nxt, [r.index for r in rej])
        if cur != trace:
            os.remove(cur)
        cur = nxt
        if left == 0:
            break
    else:
        # still rejections after all rounds: fine if they are (going to be) reported as violations - the verdict is
        # already negative; refusing to pass silently otherwise
        unexplained = [r for r in all_rej if not vc.match_known("C10", _sig(r))]
        if not unexplained:
            raise vc.MachineryError("C10: more than %d rounds of known-finding rejections in %s" % (rounds, trace))
        vc.log("  C10: rejections in every one of %d rounds; remaining scenarios of %s not validated" % (rounds, trace))
    if cur != trace and os.path.exists(cur):
        os.remove(cur)
    ck.traces += total
    ck.handle_rejections(all_rej, _sig, cap=12)
    for f in glob.glob(os.path.join(SPEC, "*_TTrace_*")):
        try:
            os.remove(f)
        except OSError:
            pass
    return all_rej


def _corruption_selftest(ck, trace, wd):
    """An accepted scenario with one logged field flipped must be rejected (guards against a
    trace specification that only counts lines)."""
    lines = open(trace).read().splitlines()
    starts = [i for i, ln in enumerate(lines) if ln.startswith('{"e":"Reset"')] + [len(lines)]
    for k in range(len(starts) - 1):
        sc = lines[starts[k]:starts[k + 1]]
        fin = [i for i, ln in enumerate(sc) if ln.startswith('{"e":"Finish"') and '"r":"ok"' in ln]
        if not fin:
            continue
        ev = json.loads(sc[fin[0]])
        ev["ret"] = ev["ret"] + 1                      # returned value no longer the value at the reported point
        bad = list(sc)
        bad[fin[0]] = json.dumps(ev, separators=(",", ":"))
        p = os.path.join(wd, "corrupt.ndjson")
        open(p, "w").write("\n".join(bad[:fin[0] + 1]) + "\n")
        n_ev, rej, st = vc.validate_trace(SPEC, "OptimizerTrace", TCFG, p, parallel=1, heap="1g")
        os.remove(p)
        if not rej or rej[0].invariant != "ReportConsistent":
            raise vc.MachineryError("C10: corrupted trace (ret flipped) was not rejected by ReportConsistent")
        ck.extra["corrupted_trace_rejected"] = True
        return
    raise vc.MachineryError("C10: no accepted scenario to corrupt")


def run(tier, seed):
    ck = vc.Check("C10", tier, seed)
    quick = tier == "quick"
    wd = vc.workdir("c10")
    # 1. design model: the optimize()/step() template with an abstract step - safety, then liveness
    cfg = os.path.join(wd, "design.cfg")
    if quick:
        consts = ('1, 3', "BoxesQ1", "ObjsOne", 1, 1)
    else:
        consts = ('0, 1, 2, 3', "BoxesQ", "ObjsAll", 1, 1)
    _design_cfg(cfg, *consts, metans="3" if quick else "0, 3")
    r = vc.model_check(SPEC, "Optimizer", cfg, coverage=True, timeout=2400, heap="3g", workers=min(vc.NCPU, 8))
    ck.add_model("Optimizer/safety", r, "Budgets={%s} Boxes=%s Objs=%s MaxRank=%d MaxInner=%d Pols=all MetaNs=%s" % (consts + ("{3}" if quick else "{0,3}",)))
    if r.invariant:
        ck.violation("design model Optimizer violates %s" % r.invariant, [r.out[-6000:]], tag="model")
    cfgl = os.path.join(wd, "live.cfg")
    lconsts = ('0, 3' if quick else '0, 2, 3', "BoxesL", "ObjsOne", 1, 1)
    _design_cfg(cfgl, *lconsts, live=True, pols='"keep"' if quick else '"auto", "keep"', metans="0")
    r = vc.model_check(SPEC, "Optimizer", cfgl, timeout=2400, heap="3g", workers=min(vc.NCPU, 8))
    ck.add_model("Optimizer/liveness", r, "Budgets={%s} Boxes=%s Objs=%s MaxRank=%d MaxInner=%d Pols=%s; WF on loop" % (lconsts + ("{keep}" if quick else "{auto,keep}",)))
    if r.invariant:
        ck.violation("design model Optimizer violates %s (every optimize() must end)" % r.invariant, [r.out[-6000:]], tag="live")
    # 2. implementation traces
    exe = vc.build_driver("drv_optim")
    nrun = 330 if quick else 5280
    per = 330 if quick else 660
    first = True
    stats = {}
    for sub in range(nrun // per):
        tr = os.path.join(wd, "trace-%d.ndjson" % sub)
        s = vc.run_driver(exe, ["--n", per, "--sub", sub, "--stats", 1], tr, timeout=3000,
                          env={"VERIF_CALL_BUDGET_MS": "20000" if quick else "60000"})
        ck.evaluations += s.get("evals", 0)
        for ln in s.get("_out", "").splitlines():
            w = ln.split()
            if len(w) >= 2 and w[1].startswith("runs="):
                d = stats.setdefault(w[0], {"runs": 0, "conv-checked": 0, "raises": 0})
                for kv in w[1:]:
                    k, v = kv.split("=")
                    if k in d:
                        d[k] += int(v)
        rej = _validate(ck, tr)
        if first:
            ck.samples += vc.sample_scenarios(tr, 3, maxlines=8)
            if not rej:
                _corruption_selftest(ck, tr, wd)
            first = False
        os.remove(tr)
    ck.extra["per_optimiser"] = stats
    ck.rule = ("seeded random scenarios: 11 optimisers round-robin x dim 1..6 (1-D optimisers in 1-D) x SPD quadratics (cond<=1e3) / two "
               "smooth convex non-quadratic families x random starts x interval constraints containing start and minimiser (none/wide/mixed/"
               "tight, open or closed ends) x 3 policies x tolerance 1e-4..1e-10 x budgets {1..200, 20000} x call histories (optimize before "
               "init, manual steps, clone, second optimize, re-init); plus outward/inward bracketing calls; non-trivial = scenario that reached Finish or Bracket")
    ck.distinct = ck.traces
    ck.assumptions = ["TLC 1.8.0; CommunityModules Json",
                      "harness/drv_optim.cpp: E1 codes/ranks computed by exact comparison of doubles; objective, derivatives and minimiser are the harness's own",
                      "Converged uses E4: distance <= K*sqrt(tol*max(1,|f*|))*max(1,|m|) with K=1000 (stop condition on the function value) or K=1 (on the abscissa: Brent, golden section); asserted only for quadratics whose run never came near a bound, stopped by tolerance, used <= 1/10 of the budget",
                      "budget clause is stated on the optimiser's own counter (getNumberOfEvaluations), as AbstractOptimizer::optimize() does"]
    return ck.finish()


def replay(path):
    n_ev, rej, st = vc.validate_trace(SPEC, "OptimizerTrace", TCFG, path, parallel=1)
    for rj in rej:
        vc.log("VIOLATION property=C10 replay=%s" % path)
        vc.log("  %s at event #%d: %s" % (rj.reason, rj.index, json.dumps(rj.event)[:400]))
    for f in glob.glob(os.path.join(SPEC, "*_TTrace_*")):
        os.remove(f)
    return 1 if rej else 0
