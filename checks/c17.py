"""C17 - writing then reading (formatting then parsing) gives back the same data.
Specs: spec/Text (NumberGrammar, TokenizerDefs/Tokenizer, Keyval, Glob, VarResolveDefs/VarResolve,
TableDefs/Table + *Lemmas/*MC + *Trace); binding: harness/drv_text.cpp, one mode per component."""
import json
import os
import random
from concurrent.futures import ThreadPoolExecutor

import vcommon as vc

SPEC = os.path.join(vc.VERIF, "spec", "Text")

# mode of the driver -> (trace module, what the mode binds)
MODES = {
    "numbers": "NumberTrace",
    "tok": "TokenizerTrace",
    "nested": "TokenizerTrace",
    "keyval": "KeyvalTrace",
    "dist": "KeyvalTrace",
    "params": "KeyvalTrace",
    "glob": "GlobTrace",
    "vars": "VarResolveTrace",
    "table": "TableTrace",
}
RESET_TO_MODE = {"numbers": "numbers", "tok": "tok", "nested": "nested", "keyval": "keyval", "keyval-chain": "keyval",
                 "dist": "dist", "params": "params", "glob": "glob", "vars": "vars", "table": "table", "table-shape": "table",
                 "table-history": "table", "table-read": "table"}


def _args(tier):
    q = tier == "quick"
    return {
        "numbers": ["--len", 5 if q else 6, "--rand", 400 if q else 5000, "--alt", 1],
        "tok": ["--len3", 5 if q else 7, "--len8", 3 if q else 4, "--rand", 300 if q else 4000],
        "nested": ["--len", 5 if q else 6, "--rand", 400 if q else 6000],
        "keyval": ["--len", 4 if q else 6, "--rand", 150 if q else 4000],
        "glob": ["--plen", 6 if q else 8, "--nlen", 6 if q else 8],
        "vars": ["--items", 2, "--nvars", 2 if q else 3, "--rand", 600 if q else 10000],
        "table": ["--dim", 4 if q else 6, "--rand", 200 if q else 3000],
        "dist": ["--rand", 40 if q else 600],
        "params": ["--rand", 150 if q else 3000],
    }


def _write(path, text):
    with open(path, "w") as f:
        f.write(text)
    return path


def _models(tier, wd):
    """(name, module, cfg path, constants text, is_lemma)"""
    q = tier == "quick"
    m = []
    m.append(("NumberLemmas", "NumberLemmas", _write(os.path.join(wd, "numl.cfg"),
              "SPECIFICATION Spec\nCONSTANTS\n  N = %d\n  R = %d\n" % (5 if q else 6, 3000 if q else 100000)),
              "N=%d (all strings over {0,1,-,+,dec,sci,other}), R=%d" % (5 if q else 6, 3000 if q else 100000)))
    m.append(("TokenizerLemmas", "TokenizerLemmas", _write(os.path.join(wd, "tokl.cfg"),
              "SPECIFICATION LSpec\nCONSTANTS\n  N = %d\n" % (6 if q else 7)), "N=%d" % (6 if q else 7)))
    m.append(("Tokenizer", "TokenizerMC", _write(os.path.join(wd, "tokm.cfg"),
              "SPECIFICATION Spec\nCONSTANTS\n  Alpha = {97, 44, 59}\n  MaxLen = %d\n  Delims <- McDelims\n"
              "INVARIANTS Rejoin RestIsTail CursorOK TokensClean NoEmptyUnlessAllowed\nPROPERTY ConsumeStep\nCHECK_DEADLOCK FALSE\n"
              % (4 if q else 5)), "Alpha={a , ;} MaxLen=%d Delims={',', ',;', ''} x solid x allowEmpty" % (4 if q else 5)))
    m.append(("GlobLemmas", "GlobLemmas", _write(os.path.join(wd, "globl.cfg"),
              "SPECIFICATION Spec\nCONSTANTS\n  NP = %d\n  NN = %d\n" % (5 if q else 6, 5 if q else 6)),
              "patterns over {a,b,*} <= %d, names over {a,b} <= %d" % (5 if q else 6, 5 if q else 6)))
    m.append(("Keyval", "KeyvalMC", _write(os.path.join(wd, "kvm.cfg"),
              "SPECIFICATION Spec\nCONSTANTS\n  Big = %s\n  Names <- McNames\n  ArgLists <- McArgLists\n  NewLists <- McNewLists\n"
              "INVARIANTS RoundTrip ParseResult InDomain\nPROPERTY SubstExact\nCHECK_DEADLOCK FALSE\n" % ("FALSE" if q else "TRUE")),
              "Big=%s (names, keys, nested values; argument lists <= 2, substitutions <= %d)" % (not q, 1 if q else 2)))
    m.append(("VarResolve", "VarResolveMC", _write(os.path.join(wd, "varm.cfg"),
              "SPECIFICATION Spec\nCONSTANTS\n  Big = %s\n  InitMaps <- McMaps\n"
              "INVARIANTS AtDone AtRaise KeysKept StackDistinct StackBounded\nPROPERTY Terminates\n" % ("FALSE" if q else "TRUE")),
              "all maps over {a,b,c} with %d candidate values each; liveness: Terminates" % (11 if q else 16)))
    m.append(("Table", "TableMC", _write(os.path.join(wd, "tabm.cfg"),
              "SPECIFICATION Spec\nCONSTANTS\n  MaxCol = 2\n  MaxRow = 2\n  CellVals <- McCells\n  NameVals <- McNames\n  Seps <- McSeps\n"
              "CONSTRAINT Bounded\nINVARIANTS Shape RoundTripInv ReadBackInv QueriesPure\nPROPERTY RaiseKeeps\nCHECK_DEADLOCK FALSE\n"),
              "every public member of DataTable as an action; tables up to 2x2, cells {a,'b c'}, names {x,y,z}, seps {',',tab}, read with header on/off and rowNames -1..2"))
    return m


def _sig(module):
    def f(rj):
        ev = rj.event or {}
        return {"module": module, "action": ev.get("e"), "outcome": ev.get("r", ""), "which": ev.get("which", ev.get("op", "")),
                "invariant": rj.invariant or "step"}
    return f


# one logged field is flipped in an accepted trace: TLC must reject the result
def _corrupt(lines, rnd):
    idx = [i for i, ln in enumerate(lines) if '"e":"Reset"' not in ln]
    rnd.shuffle(idx)
    for i in idx:
        ev = json.loads(lines[i])
        e = ev.get("e")
        changed = False
        if e in ("IsNum", "IsInt", "TokHasMore") and isinstance(ev.get("v"), bool) and e != "TokHasMore":
            # only where the grammar decides (not an "either" string): flip and let TLC tell; retry otherwise
            ev["v"] = not ev["v"]; changed = True
        elif e == "IntRT":
            ev["back"] += 1; changed = True
        elif e == "DblRT":
            ev["q"] += 1; changed = True
        elif e == "TokHasMore":
            ev["v"] = not ev["v"]; changed = True
        elif e == "TokNext" and ev.get("r") == "ok":
            ev["tok"] = ev["tok"] + [97]; changed = True
        elif e == "TokUnparse":
            ev["v"] = ev["v"] + [44]; changed = True
        elif e == "Glob":
            ev["v"] = ev["v"][1:] if ev["v"] else [0]; changed = True
        elif e == "KvParse" and ev.get("r") == "ok" and ev.get("args"):
            ev["args"][0][1] = ev["args"][0][1] + [122]; changed = True
        elif e == "VarResolve" and ev.get("r") == "ok" and ev.get("res"):
            ev["res"][0][1] = ev["res"][0][1] + [120]; changed = True
        elif e == "Tab" and ev.get("r") == "ok":
            ev["s"]["nrow"] += 1; changed = True
        elif e == "TabWriteRead" and ev.get("r") == "ok" and ev["back"]["cells"] and ev["back"]["cells"][0]:
            ev["back"]["cells"][0][0] = ev["back"]["cells"][0][0] + [122]; changed = True
        elif e == "ParamWrite" and ev.get("expect"):
            ev["expect"][0][0] = ev["expect"][0][0] + [122]; changed = True
        elif e == "DistRT" and ev.get("cats2"):
            ev["cats2"][0] += 1000; changed = True
        if changed:
            out = list(lines[:i + 1])
            out[i] = json.dumps(ev, separators=(",", ":"))
            return out, i
    return None, -1


def _selfcheck_corruption(ck, wd, mode, module, trace, rnd):
    lines = open(trace).read().splitlines()
    # the last scenarios of the trace (they start at a Reset line)
    start = max(0, len(lines) - 1500)
    while start < len(lines) - 1 and '"e":"Reset"' not in lines[start]:
        start += 1
    lines = lines[start:]
    for attempt in range(4):
        bad, at = _corrupt(lines, rnd)
        if bad is None:
            return None
        p = os.path.join(wd, "corrupt-%s.ndjson" % mode)
        _write(p, "\n".join(bad) + "\n")
        n_ev, rej, st = vc.validate_trace(SPEC, module, os.path.join(SPEC, module + ".cfg"), p, parallel=1)
        os.remove(p)
        if rej:
            return True
        # an "either" string was hit (the flipped verdict is also allowed): try another event
    return False


def _run_mode(ck, wd, exe, mode, args, rnd, corrupt_results):
    module = MODES[mode]
    tr = os.path.join(wd, "trace-%s.ndjson" % mode)
    s = vc.run_driver(exe, ["--mode", mode] + args, tr, timeout=3000)
    n_ev, rej, st = vc.validate_trace(SPEC, module, os.path.join(SPEC, module + ".cfg"), tr,
                                      parallel=6 if mode in ("tok", "numbers", "keyval", "glob", "nested", "vars") else 3, timeout=3000)
    res = {"mode": mode, "module": module, "events": n_ev, "scenarios": vc.count_scenarios(tr), "rej": rej,
           "driver": {k: v for k, v in s.items() if not k.startswith("_")}, "samples": []}
    res["samples"] = [sc[:8] for sc in vc.sample_scenarios(tr, 1, 8)]
    seen = set()
    with open(tr) as f:
        for ln in f:
            if '"e":"Reset"' not in ln:
                seen.add(hash(ln))
    res["distinct"] = len(seen)
    if not rej:
        corrupt_results[mode] = _selfcheck_corruption(ck, wd, mode, module, tr, rnd)
    try:
        os.remove(tr)
    except OSError:
        pass
    return res


def _cleanup_tlc_artefacts():
    # TLC writes <Module>_TTrace_* next to the specification when a trace is rejected on an invariant
    for fn in os.listdir(SPEC):
        if "_TTrace_" in fn:
            try:
                os.remove(os.path.join(SPEC, fn))
            except OSError:
                pass


def run(tier, seed):
    ck = vc.Check("C17", tier, seed)
    quick = tier == "quick"
    wd = vc.workdir("c17")
    os.environ["JAVA_TOOL_OPTIONS"] = "-Xss256m"   # deep recursive operators on long descriptions
    rnd = random.Random(seed)
    # 1. spec level: lemmas and design models, exhaustively
    models = _models(tier, wd)

    def one_model(m):
        name, module, cfg, consts = m
        return m, vc.tlc(SPEC, module, cfg, workers=4, coverage=not (name.endswith("Lemmas") or name == "Table"), timeout=3000, heap="5g")

    with ThreadPoolExecutor(max_workers=4) as ex:
        results = list(ex.map(one_model, models))
    for (name, module, cfg, consts), r in results:
        ck.add_model(name, r, consts)
        if r.assumption_failed:
            ck.violation("spec lemma of %s is false (the definitions of the specification disagree with each other)" % name, [r.out[-3000:]], tag="lemma")
        elif r.invariant:
            ck.violation("design model %s violates %s" % (name, r.invariant), [r.out[-6000:]], tag="model")
        elif not r.completed or r.other_error:
            raise vc.MachineryError("TLC did not complete on %s: %s\n%s" % (name, r.other_error, r.out[-2000:]))
    # 2. implementation traces, one driver mode per component
    exe = vc.build_driver("drv_text", link_lib=True)
    args = _args(tier)
    corrupt_results = {}
    order = ["tok", "keyval", "glob", "numbers", "nested", "vars", "table", "dist", "params"]
    with ThreadPoolExecutor(max_workers=3) as ex:
        mode_results = list(ex.map(lambda md: _run_mode(ck, wd, exe, md, args[md], rnd, corrupt_results), order))
    per_mode = {}
    distinct = 0
    for res in mode_results:
        ck.events += res["events"]
        ck.traces += res["scenarios"]
        ck.samples += res["samples"]
        per_mode[res["mode"]] = {"module": res["module"], "events": res["events"], "distinct_events": res["distinct"], "scenarios": res["scenarios"],
                                 "args": [str(a) for a in args[res["mode"]]]}
        distinct += res["distinct"]
        ck.handle_rejections(res["rej"], _sig(res["module"]), tag=res["mode"])
    # 3. the binding is not vacuous: a flipped field must be rejected
    failed = [m for m, ok in corrupt_results.items() if ok is False]
    if failed:
        raise vc.MachineryError("a corrupted trace was accepted for mode(s) %s: the trace specification does not constrain the logged results" % failed)
    ck.extra["per_mode"] = per_mode
    ck.extra["corrupted_traces_rejected"] = sorted(m for m, ok in corrupt_results.items() if ok)
    ck.exhaustive = True
    ck.distinct = distinct
    ck.rule = ("exhaustive small-alphabet enumeration by the driver (numbers: all strings <= %s over {0,1,-,+,dec,sci,x}, also with ',' / 'E'; "
               "tokenisers: all strings <= %s over {a , ;} x 4 delimiter arguments x solid x allowEmpty, all strings <= %s over {a b , ; blank ( ) =}; "
               "nested: all strings <= %s over {a , ( )}; key-value: all strings <= %s over {a b , = ( ) blank} + rendered maps with 0..6 entries; "
               "wildcards: all patterns over {a b *} <= %s x all names over {a b} <= %s x 3 matchers; variable maps: all maps over %s names with values of <= 2 atoms; "
               "tables: all shapes <= %sx%s x naming x separator x alignment + seeded editing histories; distribution families x 1..8 classes + nested compounds) "
               "plus seeded longer inputs; one event per call; an event is non-trivial by construction (every event is a call whose result the specification constrains), "
               "distinct = number of different event lines (call + arguments + observed result)") % (
        args["numbers"][1], args["tok"][1], args["tok"][3], args["nested"][1], args["keyval"][1], args["glob"][1], args["glob"][3],
        args["vars"][3], args["table"][1], args["table"][1])
    ck.assumptions = ["TLC 2.x; CommunityModules Json/IOUtils", "harness/drv_text.cpp encodes strings as ASCII codes and reads objects through public const queries only",
                      "number values are compared on a 10^-6 grid (exactly for dyadic doubles and ints)",
                      "distribution class values / probabilities are compared on the 10^-6 grid of the description language (slack 2 units)"]
    _cleanup_tlc_artefacts()
    return ck.finish()


def replay(path):
    mode = None
    meta = path + ".meta.json"
    module = None
    if os.path.exists(meta):
        try:
            module = json.load(open(meta)).get("meta", {}).get("signature", {}).get("module")
        except Exception:
            module = None
    if module is None:
        with open(path) as f:
            first = f.readline()
        try:
            mode = RESET_TO_MODE.get(json.loads(first).get("what", ""), None)
        except Exception:
            mode = None
        module = MODES.get(mode or "", None)
    if module is None:
        raise vc.MachineryError("cannot tell which trace module validates %s" % path)
    os.environ["JAVA_TOOL_OPTIONS"] = "-Xss256m"
    n_ev, rej, st = vc.validate_trace(SPEC, module, os.path.join(SPEC, module + ".cfg"), path, parallel=1)
    for rj in rej:
        vc.log("VIOLATION property=C17 replay=%s" % path)
        vc.log("  %s at event #%d: %s" % (rj.reason, rj.index, json.dumps(rj.event)[:400]))
    return 1 if rej else 0
