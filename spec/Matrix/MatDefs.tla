------------------------------- MODULE MatDefs -------------------------------
\* Textbook definitions of the matrix operations of bpp-core's MatrixTools
\* (src/Bpp/Numeric/Matrix/MatrixTools.h) on exact integer matrices.
\*
\* A matrix is a record [r |-> rows, c |-> cols, e |-> <<row_1, ..., row_r>>],
\* every row a tuple of c integers (0 x 0 is [r |-> 0, c |-> 0, e |-> <<>>]; the
\* degenerate shapes r x 0 and 0 x c are legal values: dimensions as reported).
\* Entries are integers: either the values themselves (encoding E2) or the
\* numerators of dyadic rationals at a scale the driver keeps track of
\* (encoding E3) - every operation below is homogeneous in its operands, so the
\* same definition serves both.  A complex matrix is a pair <<Re, Im>>.
\*
\* These operators are *definitions*, written entry-wise from the mathematical
\* statement of each operation, never from the loops of the code.  MatLemmas
\* checks them against each other (algebraic identities) exhaustively on small
\* matrices so that a slip in one definition cannot go unnoticed.
EXTENDS Integers, Sequences, FiniteSets, TLC

\* ---------------------------------------------------------------- helpers
RECURSIVE SumTo(_, _)
SumTo(f, n) == IF n = 0 THEN 0 ELSE f[n] + SumTo(f, n - 1)      \* f[1] + ... + f[n]
SumV(v) == SumTo(v, Len(v))

\* TLCEval forces the (otherwise lazy) function values, so that nested
\* operations do not re-evaluate their operands once per entry.
Mk(r, c, F(_, _)) ==
  [r |-> r, c |-> c, e |-> TLCEval([i \in 1..r |-> TLCEval([j \in 1..c |-> F(i, j)])])]

WF(A) == /\ A.r \in Nat /\ A.c \in Nat
         /\ DOMAIN A.e = 1..A.r
         /\ \A i \in 1..A.r : DOMAIN A.e[i] = 1..A.c            \* r x 0 is r empty rows, 0 x c is no row at all

SameDims(A, B) == A.r = B.r /\ A.c = B.c
IsSquare(A)    == A.r = A.c

Zero(r, c) == Mk(r, c, LAMBDA i, j : 0)
Id(n)      == Mk(n, n, LAMBDA i, j : IF i = j THEN 1 ELSE 0)
Diag(d)    == Mk(Len(d), Len(d), LAMBDA i, j : IF i = j THEN d[i] ELSE 0)
\* tridiagonal middle factor: diagonal d, super-diagonal u (T[i][i+1] = u[i]), sub-diagonal l (T[i+1][i] = l[i])
Tri(d, u, l) == Mk(Len(d), Len(d), LAMBDA i, j : IF i = j THEN d[i]
                                                 ELSE IF j = i + 1 THEN u[i]
                                                 ELSE IF i = j + 1 THEN l[j] ELSE 0)
ReplDiag(A, x) == Mk(A.r, A.c, LAMBDA i, j : IF i = j THEN x ELSE A.e[i][j])

\* ---------------------------------------------------------------- products
Mul(A, B) == Mk(A.r, B.c, LAMBDA i, j : SumTo([k \in 1..A.c |-> A.e[i][k] * B.e[k][j]], A.c))

\* complex scalars are pairs <<re, im>>
CMul(x, y) == <<x[1] * y[1] - x[2] * y[2], x[1] * y[2] + x[2] * y[1]>>
CAt(P, i, j) == <<P[1].e[i][j], P[2].e[i][j]>>

\* (A + i.iA)(B + i.iB), entry (i,j) = sum_k of the complex products
MulC(A, iA, B, iB) ==
  LET T(i, j, part) == SumTo([k \in 1..A.c |-> CMul(<<A.e[i][k], iA.e[i][k]>>, <<B.e[k][j], iB.e[k][j]>>)[part]], A.c)
  IN <<Mk(A.r, B.c, LAMBDA i, j : T(i, j, 1)), Mk(A.r, B.c, LAMBDA i, j : T(i, j, 2))>>

\* A . diag(d) . B
MulDiag(A, d, B) == Mk(A.r, B.c, LAMBDA i, j : SumTo([k \in 1..A.c |-> A.e[i][k] * d[k] * B.e[k][j]], A.c))

\* (A + i.iA) . diag(d + i.id) . (B + i.iB)
MulDiagC(A, iA, d, id, B, iB) ==
  LET T(i, j, part) == SumTo([k \in 1..A.c |->
                          CMul(CMul(<<A.e[i][k], iA.e[i][k]>>, <<d[k], id[k]>>), <<B.e[k][j], iB.e[k][j]>>)[part]], A.c)
  IN <<Mk(A.r, B.c, LAMBDA i, j : T(i, j, 1)), Mk(A.r, B.c, LAMBDA i, j : T(i, j, 2))>>

\* A . (U + D + L) . B
MulTri(A, d, u, l, B) == Mul(Mul(A, Tri(d, u, l)), B)

\* ---------------------------------------------------------------- sums, scaling, transpose
AddM(A, B)         == Mk(A.r, A.c, LAMBDA i, j : A.e[i][j] + B.e[i][j])          \* also the "sub-block" reading when A is smaller
AddScaled(A, x, B) == Mk(A.r, A.c, LAMBDA i, j : A.e[i][j] + x * B.e[i][j])
ScaleM(A, a, b)    == Mk(A.r, A.c, LAMBDA i, j : a * A.e[i][j] + b)
Transp(A)          == Mk(A.c, A.r, LAMBDA i, j : A.e[j][i])

\* ---------------------------------------------------------------- powers
RECURSIVE PowM(_, _)
PowM(A, p) == IF p = 0 THEN Id(A.r) ELSE Mul(A, PowM(A, p - 1))
Taylor(A, p) == [k \in 1..(p + 1) |-> PowM(A, k - 1)]                              \* <<A^0, ..., A^p>>

\* ---------------------------------------------------------------- Kronecker, Hadamard, direct sums
Kron(A, B) == Mk(A.r * B.r, A.c * B.c,
                 LAMBDA i, j : A.e[((i - 1) \div B.r) + 1][((j - 1) \div B.c) + 1] * B.e[((i - 1) % B.r) + 1][((j - 1) % B.c) + 1])
KronDiag(A, dim, v)     == Kron(A, ScaleM(Id(dim), v, 0))                          \* A (x) (v . I_dim)
KronRepl(A, B, dA, dB)  == Kron(ReplDiag(A, dA), ReplDiag(B, dB))                  \* diagonals replaced first

Had(A, B) == Mk(A.r, A.c, LAMBDA i, j : A.e[i][j] * B.e[i][j])
HadC(A, iA, B, iB) ==
  <<Mk(A.r, A.c, LAMBDA i, j : CMul(<<A.e[i][j], iA.e[i][j]>>, <<B.e[i][j], iB.e[i][j]>>)[1]),
    Mk(A.r, A.c, LAMBDA i, j : CMul(<<A.e[i][j], iA.e[i][j]>>, <<B.e[i][j], iB.e[i][j]>>)[2])>>
HadVec(A, v, byRow) == Mk(A.r, A.c, LAMBDA i, j : A.e[i][j] * (IF byRow THEN v[i] ELSE v[j]))

DSum(A, B) == Mk(A.r + B.r, A.c + B.c,
                 LAMBDA i, j : IF i <= A.r /\ j <= A.c THEN A.e[i][j]
                               ELSE IF i > A.r /\ j > A.c THEN B.e[i - A.r][j - A.c] ELSE 0)
RECURSIVE DSumN(_)
DSumN(s) == IF s = <<>> THEN Zero(0, 0) ELSE DSum(DSumN(SubSeq(s, 1, Len(s) - 1)), s[Len(s)])

\* ---------------------------------------------------------------- covariance, as n^2 . cov (integer)
\* rows = variables, columns = the n observations: cov = A.A^T / n - mu.mu^T
Covar2(A) == LET n == A.c
                 RowSum(i) == SumTo(A.e[i], n)
             IN Mk(A.r, A.r, LAMBDA i, j : n * SumTo([k \in 1..n |-> A.e[i][k] * A.e[j][k]], n) - RowSum(i) * RowSum(j))

\* ---------------------------------------------------------------- extrema, sums
Entries(A) == {A.e[i][j] : i \in 1..A.r, j \in 1..A.c}
MaxV(A)    == CHOOSE x \in Entries(A) : \A y \in Entries(A) : y <= x
MinV(A)    == CHOOSE x \in Entries(A) : \A y \in Entries(A) : x <= y
SumE(A)    == SumTo([i \in 1..A.r |-> SumTo(A.e[i], A.c)], A.r)

\* ---------------------------------------------------------------- conformability
ConfMul(A, B)                    == A.c = B.r
ConfMulC(A, iA, B, iB)           == A.c = B.r /\ SameDims(A, iA) /\ SameDims(B, iB)
ConfMulDiag(A, d, B)             == A.c = B.r /\ Len(d) = A.c
ConfMulDiagC(A, iA, d, id, B, iB) == ConfMulC(A, iA, B, iB) /\ Len(d) = A.c /\ Len(id) = A.c
ConfMulTri(A, d, u, l, B)        == A.c = B.r /\ Len(d) = A.c /\ Len(u) + 1 = A.c /\ Len(l) + 1 = A.c
ConfHadVec(A, v, byRow)          == Len(v) = (IF byRow THEN A.r ELSE A.c)
SmallerOrEqual(A, B)             == A.r <= B.r /\ A.c <= B.c
=============================================================================
