---- MODULE LuIntTrace_TTrace_1790493147 ----
EXTENDS LuIntTrace, Sequences, TLCExt, Toolbox, Naturals, TLC

_expression ==
    LET LuIntTrace_TEExpression == INSTANCE LuIntTrace_TEExpression
    IN LuIntTrace_TEExpression!expression
----

_trace ==
    LET LuIntTrace_TETrace == INSTANCE LuIntTrace_TETrace
    IN LuIntTrace_TETrace!trace
----

_inv ==
    ~(
        TLCGet("level") = Len(_TETrace)
        /\
        last = ([n |-> 2, op |-> "Solve", required |-> "ok", resok |-> FALSE])
        /\
        fac = (<<[r |-> 6, c |-> 6, e |-> <<<<0, -5, 7, -5, 8, 4>>, <<6, 0, -9, -2, 0, -7>>, <<-8, 9, 0, 2, 8, 4>>, <<-3, 0, 4, 0, 5, 6>>, <<3, 9, -3, 9, 0, 5>>, <<-4, 8, -4, 1, 0, 0>>>>]>>)
        /\
        l = (4)
        /\
        out = ("ok")
    )
----

_init ==
    /\ fac = _TETrace[1].fac
    /\ l = _TETrace[1].l
    /\ out = _TETrace[1].out
    /\ last = _TETrace[1].last
----

_next ==
    /\ \E i,j \in DOMAIN _TETrace:
        /\ \/ /\ j = i + 1
              /\ i = TLCGet("level")
        /\ fac  = _TETrace[i].fac
        /\ fac' = _TETrace[j].fac
        /\ l  = _TETrace[i].l
        /\ l' = _TETrace[j].l
        /\ out  = _TETrace[i].out
        /\ out' = _TETrace[j].out
        /\ last  = _TETrace[i].last
        /\ last' = _TETrace[j].last

\* Uncomment the ASSUME below to write the states of the error trace
\* to the given file in Json format. Note that you can pass any tuple
\* to `JsonSerialize`. For example, a sub-sequence of _TETrace.
    \* ASSUME
    \*     LET J == INSTANCE Json
    \*         IN J!JsonSerialize("LuIntTrace_TTrace_1790493147.json", _TETrace)

=============================================================================

 Note that you can extract this module `LuIntTrace_TEExpression`
  to a dedicated file to reuse `expression` (the module in the 
  dedicated `LuIntTrace_TEExpression.tla` file takes precedence 
  over the module `LuIntTrace_TEExpression` below).

---- MODULE LuIntTrace_TEExpression ----
EXTENDS LuIntTrace, Sequences, TLCExt, Toolbox, Naturals, TLC

expression == 
    [
        \* To hide variables of the `LuIntTrace` spec from the error trace,
        \* remove the variables below.  The trace will be written in the order
        \* of the fields of this record.
        fac |-> fac
        ,l |-> l
        ,out |-> out
        ,last |-> last
        
        \* Put additional constant-, state-, and action-level expressions here:
        \* ,_stateNumber |-> _TEPosition
        \* ,_facUnchanged |-> fac = fac'
        
        \* Format the `fac` variable as Json value.
        \* ,_facJson |->
        \*     LET J == INSTANCE Json
        \*     IN J!ToJson(fac)
        
        \* Lastly, you may build expressions over arbitrary sets of states by
        \* leveraging the _TETrace operator.  For example, this is how to
        \* count the number of times a spec variable changed up to the current
        \* state in the trace.
        \* ,_facModCount |->
        \*     LET F[s \in DOMAIN _TETrace] ==
        \*         IF s = 1 THEN 0
        \*         ELSE IF _TETrace[s].fac # _TETrace[s-1].fac
        \*             THEN 1 + F[s-1] ELSE F[s-1]
        \*     IN F[_TEPosition - 1]
    ]

=============================================================================



Parsing and semantic processing can take forever if the trace below is long.
 In this case, it is advised to uncomment the module below to deserialize the
 trace from a generated binary file.

\*
\*---- MODULE LuIntTrace_TETrace ----
\*EXTENDS LuIntTrace, IOUtils, TLC
\*
\*trace == IODeserialize("LuIntTrace_TTrace_1790493147.bin", TRUE)
\*
\*=============================================================================
\*

---- MODULE LuIntTrace_TETrace ----
EXTENDS LuIntTrace, TLC

trace == 
    <<
    ([last |-> [n |-> 0, op |-> "none", required |-> "any", resok |-> TRUE],fac |-> <<>>,l |-> 1,out |-> "ok"]),
    ([last |-> [n |-> 0, op |-> "none", required |-> "any", resok |-> TRUE],fac |-> <<>>,l |-> 2,out |-> "ok"]),
    ([last |-> [n |-> 1, op |-> "Factor", required |-> "ok", resok |-> TRUE],fac |-> <<[r |-> 6, c |-> 6, e |-> <<<<0, -5, 7, -5, 8, 4>>, <<6, 0, -9, -2, 0, -7>>, <<-8, 9, 0, 2, 8, 4>>, <<-3, 0, 4, 0, 5, 6>>, <<3, 9, -3, 9, 0, 5>>, <<-4, 8, -4, 1, 0, 0>>>>]>>,l |-> 3,out |-> "ok"]),
    ([last |-> [n |-> 2, op |-> "Solve", required |-> "ok", resok |-> FALSE],fac |-> <<[r |-> 6, c |-> 6, e |-> <<<<0, -5, 7, -5, 8, 4>>, <<6, 0, -9, -2, 0, -7>>, <<-8, 9, 0, 2, 8, 4>>, <<-3, 0, 4, 0, 5, 6>>, <<3, 9, -3, 9, 0, 5>>, <<-4, 8, -4, 1, 0, 0>>>>]>>,l |-> 4,out |-> "ok"])
    >>
----


=============================================================================

---- CONFIG LuIntTrace_TTrace_1790493147 ----
CONSTANTS
    Objs = { }
    NMax = 0
    EMax = 0
    MaxCalls = 1000000000

INVARIANT
    _inv

CHECK_DEADLOCK
    \* CHECK_DEADLOCK off because of PROPERTY or INVARIANT above.
    FALSE

INIT
    _init

NEXT
    _next

CONSTANT
    _TETrace <- _trace

ALIAS
    _expression
=============================================================================
\* Generated on Sun Sep 27 07:12:28 UTC 2026