SPECIFICATION TraceSpec
CONSTANTS
  Ids = {}
  OutId = 0
  DMax = 1000000
  Vals = {}
  Bound = 1000000000
  Depth = 1000000000
INVARIANTS OutcomeMatchesConformability ResultIsDefinition InputsUntouched ReturnedValuesMatch WellFormedHeap
POSTCONDITION TraceAccepted
CHECK_DEADLOCK FALSE
