SPECIFICATION TraceSpec
CONSTANTS
  Ids = {}
  OutId = 0
  DMax = 0
  Vals = {}
  Bound = 0
  Depth = 0
INVARIANTS OutcomeMatchesConformability ResultIsDefinition InputsUntouched ReturnedValuesMatch WellFormedHeap
POSTCONDITION TraceAccepted
CHECK_DEADLOCK FALSE
