SPECIFICATION Spec
CONSTANTS
  N = 3
  CMax = 1
