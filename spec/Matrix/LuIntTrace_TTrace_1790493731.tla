---- MODULE LuIntTrace_TTrace_1790493731 ----
EXTENDS LuIntTrace, Sequences, TLCExt, Toolbox, Naturals, TLC

_expression ==
    LET LuIntTrace_TEExpression == INSTANCE LuIntTrace_TEExpression
    IN LuIntTrace_TEExpression!expression
----

_trace ==
    LET LuIntTrace_TETrace == INSTANCE LuIntTrace_TETrace
    IN LuIntTrace_TETrace!trace
----

_inv ==
    ~(
        TLCGet("level") = Len(_TETrace)
        /\
        last = ([n |-> 10, op |-> "Inspect", required |-> "ok", resok |-> FALSE])
        /\
        fac = (<<[r |-> 2, c |-> 2, e |-> <<<<0, -2>>, <<1, 0>>>>]>>)
        /\
        l = (113)
        /\
        out = ("ok")
    )
----

_init ==
    /\ fac = _TETrace[1].fac
    /\ l = _TETrace[1].l
    /\ out = _TETrace[1].out
    /\ last = _TETrace[1].last
----

_next ==
    /\ \E i,j \in DOMAIN _TETrace:
        /\ \/ /\ j = i + 1
              /\ i = TLCGet("level")
        /\ fac  = _TETrace[i].fac
        /\ fac' = _TETrace[j].fac
        /\ l  = _TETrace[i].l
        /\ l' = _TETrace[j].l
        /\ out  = _TETrace[i].out
        /\ out' = _TETrace[j].out
        /\ last  = _TETrace[i].last
        /\ last' = _TETrace[j].last

\* Uncomment the ASSUME below to write the states of the error trace
\* to the given file in Json format. Note that you can pass any tuple
\* to `JsonSerialize`. For example, a sub-sequence of _TETrace.
    \* ASSUME
    \*     LET J == INSTANCE Json
    \*         IN J!JsonSerialize("LuIntTrace_TTrace_1790493731.json", _TETrace)

=============================================================================

 Note that you can extract this module `LuIntTrace_TEExpression`
  to a dedicated file to reuse `expression` (the module in the 
  dedicated `LuIntTrace_TEExpression.tla` file takes precedence 
  over the module `LuIntTrace_TEExpression` below).

---- MODULE LuIntTrace_TEExpression ----
EXTENDS LuIntTrace, Sequences, TLCExt, Toolbox, Naturals, TLC

expression == 
    [
        \* To hide variables of the `LuIntTrace` spec from the error trace,
        \* remove the variables below.  The trace will be written in the order
        \* of the fields of this record.
        fac |-> fac
        ,l |-> l
        ,out |-> out
        ,last |-> last
        
        \* Put additional constant-, state-, and action-level expressions here:
        \* ,_stateNumber |-> _TEPosition
        \* ,_facUnchanged |-> fac = fac'
        
        \* Format the `fac` variable as Json value.
        \* ,_facJson |->
        \*     LET J == INSTANCE Json
        \*     IN J!ToJson(fac)
        
        \* Lastly, you may build expressions over arbitrary sets of states by
        \* leveraging the _TETrace operator.  For example, this is how to
        \* count the number of times a spec variable changed up to the current
        \* state in the trace.
        \* ,_facModCount |->
        \*     LET F[s \in DOMAIN _TETrace] ==
        \*         IF s = 1 THEN 0
        \*         ELSE IF _TETrace[s].fac # _TETrace[s-1].fac
        \*             THEN 1 + F[s-1] ELSE F[s-1]
        \*     IN F[_TEPosition - 1]
    ]

=============================================================================



Parsing and semantic processing can take forever if the trace below is long.
 In this case, it is advised to uncomment the module below to deserialize the
 trace from a generated binary file.

\*
\*---- MODULE LuIntTrace_TETrace ----
\*EXTENDS LuIntTrace, IOUtils, TLC
\*
\*trace == IODeserialize("LuIntTrace_TTrace_1790493731.bin", TRUE)
\*
\*=============================================================================
\*

---- MODULE LuIntTrace_TETrace ----
EXTENDS LuIntTrace, TLC

trace == 
    <<
    ([last |-> [n |-> 0, op |-> "none", required |-> "any", resok |-> TRUE],fac |-> <<>>,l |-> 1,out |-> "ok"]),
    ([last |-> [n |-> 0, op |-> "none", required |-> "any", resok |-> TRUE],fac |-> <<>>,l |-> 2,out |-> "ok"]),
    ([last |-> [n |-> 1, op |-> "Factor", required |-> "ok", resok |-> TRUE],fac |-> <<[r |-> 2, c |-> 2, e |-> <<<<-2, -2>>, <<0, 0>>>>]>>,l |-> 3,out |-> "ok"]),
    ([last |-> [n |-> 2, op |-> "Inspect", required |-> "ok", resok |-> TRUE],fac |-> <<[r |-> 2, c |-> 2, e |-> <<<<-2, -2>>, <<0, 0>>>>]>>,l |-> 4,out |-> "ok"]),
    ([last |-> [n |-> 3, op |-> "Solve", required |-> "zero", resok |-> TRUE],fac |-> <<[r |-> 2, c |-> 2, e |-> <<<<-2, -2>>, <<0, 0>>>>]>>,l |-> 5,out |-> "raise:ZeroDivisionException"]),
    ([last |-> [n |-> 4, op |-> "Inv", required |-> "zero", resok |-> TRUE],fac |-> <<[r |-> 2, c |-> 2, e |-> <<<<-2, -2>>, <<0, 0>>>>]>>,l |-> 6,out |-> "raise:ZeroDivisionException"]),
    ([last |-> [n |-> 5, op |-> "Factor", required |-> "ok", resok |-> TRUE],fac |-> <<[r |-> 2, c |-> 2, e |-> <<<<-1, -2>>, <<0, 0>>>>]>>,l |-> 7,out |-> "ok"]),
    ([last |-> [n |-> 6, op |-> "Inspect", required |-> "ok", resok |-> TRUE],fac |-> <<[r |-> 2, c |-> 2, e |-> <<<<-1, -2>>, <<0, 0>>>>]>>,l |-> 8,out |-> "ok"]),
    ([last |-> [n |-> 7, op |-> "Solve", required |-> "zero", resok |-> TRUE],fac |-> <<[r |-> 2, c |-> 2, e |-> <<<<-1, -2>>, <<0, 0>>>>]>>,l |-> 9,out |-> "raise:ZeroDivisionException"]),
    ([last |-> [n |-> 8, op |-> "Inv", required |-> "zero", resok |-> TRUE],fac |-> <<[r |-> 2, c |-> 2, e |-> <<<<-1, -2>>, <<0, 0>>>>]>>,l |-> 10,out |-> "raise:ZeroDivisionException"]),
    ([last |-> [n |-> 9, op |-> "Factor", required |-> "ok", resok |-> TRUE],fac |-> <<[r |-> 2, c |-> 2, e |-> <<<<0, -2>>, <<0, 0>>>>]>>,l |-> 11,out |-> "ok"]),
    ([last |-> [n |-> 10, op |-> "Inspect", required |-> "ok", resok |-> TRUE],fac |-> <<[r |-> 2, c |-> 2, e |-> <<<<0, -2>>, <<0, 0>>>>]>>,l |-> 12,out |-> "ok"]),
    ([last |-> [n |-> 11, op |-> "Solve", required |-> "zero", resok |-> TRUE],fac |-> <<[r |-> 2, c |-> 2, e |-> <<<<0, -2>>, <<0, 0>>>>]>>,l |-> 13,out |-> "raise:ZeroDivisionException"]),
    ([last |-> [n |-> 12, op |-> "Inv", required |-> "zero", resok |-> TRUE],fac |-> <<[r |-> 2, c |-> 2, e |-> <<<<0, -2>>, <<0, 0>>>>]>>,l |-> 14,out |-> "raise:ZeroDivisionException"]),
    ([last |-> [n |-> 13, op |-> "Factor", required |-> "ok", resok |-> TRUE],fac |-> <<[r |-> 2, c |-> 2, e |-> <<<<1, -2>>, <<0, 0>>>>]>>,l |-> 15,out |-> "ok"]),
    ([last |-> [n |-> 14, op |-> "Inspect", required |-> "ok", resok |-> TRUE],fac |-> <<[r |-> 2, c |-> 2, e |-> <<<<1, -2>>, <<0, 0>>>>]>>,l |-> 16,out |-> "ok"]),
    ([last |-> [n |-> 15, op |-> "Solve", required |-> "zero", resok |-> TRUE],fac |-> <<[r |-> 2, c |-> 2, e |-> <<<<1, -2>>, <<0, 0>>>>]>>,l |-> 17,out |-> "raise:ZeroDivisionException"]),
    ([last |-> [n |-> 16, op |-> "Inv", required |-> "zero", resok |-> TRUE],fac |-> <<[r |-> 2, c |-> 2, e |-> <<<<1, -2>>, <<0, 0>>>>]>>,l |-> 18,out |-> "raise:ZeroDivisionException"]),
    ([last |-> [n |-> 17, op |-> "Factor", required |-> "ok", resok |-> TRUE],fac |-> <<[r |-> 2, c |-> 2, e |-> <<<<2, -2>>, <<0, 0>>>>]>>,l |-> 19,out |-> "ok"]),
    ([last |-> [n |-> 18, op |-> "Inspect", required |-> "ok", resok |-> TRUE],fac |-> <<[r |-> 2, c |-> 2, e |-> <<<<2, -2>>, <<0, 0>>>>]>>,l |-> 20,out |-> "ok"]),
    ([last |-> [n |-> 19, op |-> "Solve", required |-> "zero", resok |-> TRUE],fac |-> <<[r |-> 2, c |-> 2, e |-> <<<<2, -2>>, <<0, 0>>>>]>>,l |-> 21,out |-> "raise:ZeroDivisionException"]),
    ([last |-> [n |-> 20, op |-> "Inv", required |-> "zero", resok |-> TRUE],fac |-> <<[r |-> 2, c |-> 2, e |-> <<<<2, -2>>, <<0, 0>>>>]>>,l |-> 22,out |-> "raise:ZeroDivisionException"]),
    ([last |-> [n |-> 21, op |-> "Factor", required |-> "ok", resok |-> TRUE],fac |-> <<[r |-> 2, c |-> 2, e |-> <<<<-2, -1>>, <<0, 0>>>>]>>,l |-> 23,out |-> "ok"]),
    ([last |-> [n |-> 22, op |-> "Inspect", required |-> "ok", resok |-> TRUE],fac |-> <<[r |-> 2, c |-> 2, e |-> <<<<-2, -1>>, <<0, 0>>>>]>>,l |-> 24,out |-> "ok"]),
    ([last |-> [n |-> 23, op |-> "Solve", required |-> "zero", resok |-> TRUE],fac |-> <<[r |-> 2, c |-> 2, e |-> <<<<-2, -1>>, <<0, 0>>>>]>>,l |-> 25,out |-> "raise:ZeroDivisionException"]),
    ([last |-> [n |-> 24, op |-> "Inv", required |-> "zero", resok |-> TRUE],fac |-> <<[r |-> 2, c |-> 2, e |-> <<<<-2, -1>>, <<0, 0>>>>]>>,l |-> 26,out |-> "raise:ZeroDivisionException"]),
    ([last |-> [n |-> 25, op |-> "Factor", required |-> "ok", resok |-> TRUE],fac |-> <<[r |-> 2, c |-> 2, e |-> <<<<-1, -1>>, <<0, 0>>>>]>>,l |-> 27,out |-> "ok"]),
    ([last |-> [n |-> 26, op |-> "Inspect", required |-> "ok", resok |-> TRUE],fac |-> <<[r |-> 2, c |-> 2, e |-> <<<<-1, -1>>, <<0, 0>>>>]>>,l |-> 28,out |-> "ok"]),
    ([last |-> [n |-> 27, op |-> "Solve", required |-> "zero", resok |-> TRUE],fac |-> <<[r |-> 2, c |-> 2, e |-> <<<<-1, -1>>, <<0, 0>>>>]>>,l |-> 29,out |-> "raise:ZeroDivisionException"]),
    ([last |-> [n |-> 28, op |-> "Inv", required |-> "zero", resok |-> TRUE],fac |-> <<[r |-> 2, c |-> 2, e |-> <<<<-1, -1>>, <<0, 0>>>>]>>,l |-> 30,out |-> "raise:ZeroDivisionException"]),
    ([last |-> [n |-> 29, op |-> "Factor", required |-> "ok", resok |-> TRUE],fac |-> <<[r |-> 2, c |-> 2, e |-> <<<<0, -1>>, <<0, 0>>>>]>>,l |-> 31,out |-> "ok"]),
    ([last |-> [n |-> 30, op |-> "Inspect", required |-> "ok", resok |-> TRUE],fac |-> <<[r |-> 2, c |-> 2, e |-> <<<<0, -1>>, <<0, 0>>>>]>>,l |-> 32,out |-> "ok"]),
    ([last |-> [n |-> 31, op |-> "Solve", required |-> "zero", resok |-> TRUE],fac |-> <<[r |-> 2, c |-> 2, e |-> <<<<0, -1>>, <<0, 0>>>>]>>,l |-> 33,out |-> "raise:ZeroDivisionException"]),
    ([last |-> [n |-> 32, op |-> "Inv", required |-> "zero", resok |-> TRUE],fac |-> <<[r |-> 2, c |-> 2, e |-> <<<<0, -1>>, <<0, 0>>>>]>>,l |-> 34,out |-> "raise:ZeroDivisionException"]),
    ([last |-> [n |-> 33, op |-> "Factor", required |-> "ok", resok |-> TRUE],fac |-> <<[r |-> 2, c |-> 2, e |-> <<<<1, -1>>, <<0, 0>>>>]>>,l |-> 35,out |-> "ok"]),
    ([last |-> [n |-> 34, op |-> "Inspect", required |-> "ok", resok |-> TRUE],fac |-> <<[r |-> 2, c |-> 2, e |-> <<<<1, -1>>, <<0, 0>>>>]>>,l |-> 36,out |-> "ok"]),
    ([last |-> [n |-> 35, op |-> "Solve", required |-> "zero", resok |-> TRUE],fac |-> <<[r |-> 2, c |-> 2, e |-> <<<<1, -1>>, <<0, 0>>>>]>>,l |-> 37,out |-> "raise:ZeroDivisionException"]),
    ([last |-> [n |-> 36, op |-> "Inv", required |-> "zero", resok |-> TRUE],fac |-> <<[r |-> 2, c |-> 2, e |-> <<<<1, -1>>, <<0, 0>>>>]>>,l |-> 38,out |-> "raise:ZeroDivisionException"]),
    ([last |-> [n |-> 37, op |-> "Factor", required |-> "ok", resok |-> TRUE],fac |-> <<[r |-> 2, c |-> 2, e |-> <<<<2, -1>>, <<0, 0>>>>]>>,l |-> 39,out |-> "ok"]),
    ([last |-> [n |-> 38, op |-> "Inspect", required |-> "ok", resok |-> TRUE],fac |-> <<[r |-> 2, c |-> 2, e |-> <<<<2, -1>>, <<0, 0>>>>]>>,l |-> 40,out |-> "ok"]),
    ([last |-> [n |-> 39, op |-> "Solve", required |-> "zero", resok |-> TRUE],fac |-> <<[r |-> 2, c |-> 2, e |-> <<<<2, -1>>, <<0, 0>>>>]>>,l |-> 41,out |-> "raise:ZeroDivisionException"]),
    ([last |-> [n |-> 40, op |-> "Inv", required |-> "zero", resok |-> TRUE],fac |-> <<[r |-> 2, c |-> 2, e |-> <<<<2, -1>>, <<0, 0>>>>]>>,l |-> 42,out |-> "raise:ZeroDivisionException"]),
    ([last |-> [n |-> 41, op |-> "Factor", required |-> "ok", resok |-> TRUE],fac |-> <<[r |-> 2, c |-> 2, e |-> <<<<-2, 0>>, <<0, 0>>>>]>>,l |-> 43,out |-> "ok"]),
    ([last |-> [n |-> 42, op |-> "Inspect", required |-> "ok", resok |-> TRUE],fac |-> <<[r |-> 2, c |-> 2, e |-> <<<<-2, 0>>, <<0, 0>>>>]>>,l |-> 44,out |-> "ok"]),
    ([last |-> [n |-> 43, op |-> "Solve", required |-> "zero", resok |-> TRUE],fac |-> <<[r |-> 2, c |-> 2, e |-> <<<<-2, 0>>, <<0, 0>>>>]>>,l |-> 45,out |-> "raise:ZeroDivisionException"]),
    ([last |-> [n |-> 44, op |-> "Inv", required |-> "zero", resok |-> TRUE],fac |-> <<[r |-> 2, c |-> 2, e |-> <<<<-2, 0>>, <<0, 0>>>>]>>,l |-> 46,out |-> "raise:ZeroDivisionException"]),
    ([last |-> [n |-> 45, op |-> "Factor", required |-> "ok", resok |-> TRUE],fac |-> <<[r |-> 2, c |-> 2, e |-> <<<<-1, 0>>, <<0, 0>>>>]>>,l |-> 47,out |-> "ok"]),
    ([last |-> [n |-> 46, op |-> "Inspect", required |-> "ok", resok |-> TRUE],fac |-> <<[r |-> 2, c |-> 2, e |-> <<<<-1, 0>>, <<0, 0>>>>]>>,l |-> 48,out |-> "ok"]),
    ([last |-> [n |-> 47, op |-> "Solve", required |-> "zero", resok |-> TRUE],fac |-> <<[r |-> 2, c |-> 2, e |-> <<<<-1, 0>>, <<0, 0>>>>]>>,l |-> 49,out |-> "raise:ZeroDivisionException"]),
    ([last |-> [n |-> 48, op |-> "Inv", required |-> "zero", resok |-> TRUE],fac |-> <<[r |-> 2, c |-> 2, e |-> <<<<-1, 0>>, <<0, 0>>>>]>>,l |-> 50,out |-> "raise:ZeroDivisionException"]),
    ([last |-> [n |-> 49, op |-> "Factor", required |-> "ok", resok |-> TRUE],fac |-> <<[r |-> 2, c |-> 2, e |-> <<<<0, 0>>, <<0, 0>>>>]>>,l |-> 51,out |-> "ok"]),
    ([last |-> [n |-> 50, op |-> "Inspect", required |-> "ok", resok |-> TRUE],fac |-> <<[r |-> 2, c |-> 2, e |-> <<<<0, 0>>, <<0, 0>>>>]>>,l |-> 52,out |-> "ok"]),
    ([last |-> [n |-> 51, op |-> "Solve", required |-> "zero", resok |-> TRUE],fac |-> <<[r |-> 2, c |-> 2, e |-> <<<<0, 0>>, <<0, 0>>>>]>>,l |-> 53,out |-> "raise:ZeroDivisionException"]),
    ([last |-> [n |-> 52, op |-> "Inv", required |-> "zero", resok |-> TRUE],fac |-> <<[r |-> 2, c |-> 2, e |-> <<<<0, 0>>, <<0, 0>>>>]>>,l |-> 54,out |-> "raise:ZeroDivisionException"]),
    ([last |-> [n |-> 53, op |-> "Factor", required |-> "ok", resok |-> TRUE],fac |-> <<[r |-> 2, c |-> 2, e |-> <<<<1, 0>>, <<0, 0>>>>]>>,l |-> 55,out |-> "ok"]),
    ([last |-> [n |-> 54, op |-> "Inspect", required |-> "ok", resok |-> TRUE],fac |-> <<[r |-> 2, c |-> 2, e |-> <<<<1, 0>>, <<0, 0>>>>]>>,l |-> 56,out |-> "ok"]),
    ([last |-> [n |-> 55, op |-> "Solve", required |-> "zero", resok |-> TRUE],fac |-> <<[r |-> 2, c |-> 2, e |-> <<<<1, 0>>, <<0, 0>>>>]>>,l |-> 57,out |-> "raise:ZeroDivisionException"]),
    ([last |-> [n |-> 56, op |-> "Inv", required |-> "zero", resok |-> TRUE],fac |-> <<[r |-> 2, c |-> 2, e |-> <<<<1, 0>>, <<0, 0>>>>]>>,l |-> 58,out |-> "raise:ZeroDivisionException"]),
    ([last |-> [n |-> 57, op |-> "Factor", required |-> "ok", resok |-> TRUE],fac |-> <<[r |-> 2, c |-> 2, e |-> <<<<2, 0>>, <<0, 0>>>>]>>,l |-> 59,out |-> "ok"]),
    ([last |-> [n |-> 58, op |-> "Inspect", required |-> "ok", resok |-> TRUE],fac |-> <<[r |-> 2, c |-> 2, e |-> <<<<2, 0>>, <<0, 0>>>>]>>,l |-> 60,out |-> "ok"]),
    ([last |-> [n |-> 59, op |-> "Solve", required |-> "zero", resok |-> TRUE],fac |-> <<[r |-> 2, c |-> 2, e |-> <<<<2, 0>>, <<0, 0>>>>]>>,l |-> 61,out |-> "raise:ZeroDivisionException"]),
    ([last |-> [n |-> 60, op |-> "Inv", required |-> "zero", resok |-> TRUE],fac |-> <<[r |-> 2, c |-> 2, e |-> <<<<2, 0>>, <<0, 0>>>>]>>,l |-> 62,out |-> "raise:ZeroDivisionException"]),
    ([last |-> [n |-> 61, op |-> "Factor", required |-> "ok", resok |-> TRUE],fac |-> <<[r |-> 2, c |-> 2, e |-> <<<<-2, 1>>, <<0, 0>>>>]>>,l |-> 63,out |-> "ok"]),
    ([last |-> [n |-> 62, op |-> "Inspect", required |-> "ok", resok |-> TRUE],fac |-> <<[r |-> 2, c |-> 2, e |-> <<<<-2, 1>>, <<0, 0>>>>]>>,l |-> 64,out |-> "ok"]),
    ([last |-> [n |-> 63, op |-> "Solve", required |-> "zero", resok |-> TRUE],fac |-> <<[r |-> 2, c |-> 2, e |-> <<<<-2, 1>>, <<0, 0>>>>]>>,l |-> 65,out |-> "raise:ZeroDivisionException"]),
    ([last |-> [n |-> 64, op |-> "Inv", required |-> "zero", resok |-> TRUE],fac |-> <<[r |-> 2, c |-> 2, e |-> <<<<-2, 1>>, <<0, 0>>>>]>>,l |-> 66,out |-> "raise:ZeroDivisionException"]),
    ([last |-> [n |-> 65, op |-> "Factor", required |-> "ok", resok |-> TRUE],fac |-> <<[r |-> 2, c |-> 2, e |-> <<<<-1, 1>>, <<0, 0>>>>]>>,l |-> 67,out |-> "ok"]),
    ([last |-> [n |-> 66, op |-> "Inspect", required |-> "ok", resok |-> TRUE],fac |-> <<[r |-> 2, c |-> 2, e |-> <<<<-1, 1>>, <<0, 0>>>>]>>,l |-> 68,out |-> "ok"]),
    ([last |-> [n |-> 67, op |-> "Solve", required |-> "zero", resok |-> TRUE],fac |-> <<[r |-> 2, c |-> 2, e |-> <<<<-1, 1>>, <<0, 0>>>>]>>,l |-> 69,out |-> "raise:ZeroDivisionException"]),
    ([last |-> [n |-> 68, op |-> "Inv", required |-> "zero", resok |-> TRUE],fac |-> <<[r |-> 2, c |-> 2, e |-> <<<<-1, 1>>, <<0, 0>>>>]>>,l |-> 70,out |-> "raise:ZeroDivisionException"]),
    ([last |-> [n |-> 69, op |-> "Factor", required |-> "ok", resok |-> TRUE],fac |-> <<[r |-> 2, c |-> 2, e |-> <<<<0, 1>>, <<0, 0>>>>]>>,l |-> 71,out |-> "ok"]),
    ([last |-> [n |-> 70, op |-> "Inspect", required |-> "ok", resok |-> TRUE],fac |-> <<[r |-> 2, c |-> 2, e |-> <<<<0, 1>>, <<0, 0>>>>]>>,l |-> 72,out |-> "ok"]),
    ([last |-> [n |-> 71, op |-> "Solve", required |-> "zero", resok |-> TRUE],fac |-> <<[r |-> 2, c |-> 2, e |-> <<<<0, 1>>, <<0, 0>>>>]>>,l |-> 73,out |-> "raise:ZeroDivisionException"]),
    ([last |-> [n |-> 72, op |-> "Inv", required |-> "zero", resok |-> TRUE],fac |-> <<[r |-> 2, c |-> 2, e |-> <<<<0, 1>>, <<0, 0>>>>]>>,l |-> 74,out |-> "raise:ZeroDivisionException"]),
    ([last |-> [n |-> 73, op |-> "Factor", required |-> "ok", resok |-> TRUE],fac |-> <<[r |-> 2, c |-> 2, e |-> <<<<1, 1>>, <<0, 0>>>>]>>,l |-> 75,out |-> "ok"]),
    ([last |-> [n |-> 74, op |-> "Inspect", required |-> "ok", resok |-> TRUE],fac |-> <<[r |-> 2, c |-> 2, e |-> <<<<1, 1>>, <<0, 0>>>>]>>,l |-> 76,out |-> "ok"]),
    ([last |-> [n |-> 75, op |-> "Solve", required |-> "zero", resok |-> TRUE],fac |-> <<[r |-> 2, c |-> 2, e |-> <<<<1, 1>>, <<0, 0>>>>]>>,l |-> 77,out |-> "raise:ZeroDivisionException"]),
    ([last |-> [n |-> 76, op |-> "Inv", required |-> "zero", resok |-> TRUE],fac |-> <<[r |-> 2, c |-> 2, e |-> <<<<1, 1>>, <<0, 0>>>>]>>,l |-> 78,out |-> "raise:ZeroDivisionException"]),
    ([last |-> [n |-> 77, op |-> "Factor", required |-> "ok", resok |-> TRUE],fac |-> <<[r |-> 2, c |-> 2, e |-> <<<<2, 1>>, <<0, 0>>>>]>>,l |-> 79,out |-> "ok"]),
    ([last |-> [n |-> 78, op |-> "Inspect", required |-> "ok", resok |-> TRUE],fac |-> <<[r |-> 2, c |-> 2, e |-> <<<<2, 1>>, <<0, 0>>>>]>>,l |-> 80,out |-> "ok"]),
    ([last |-> [n |-> 79, op |-> "Solve", required |-> "zero", resok |-> TRUE],fac |-> <<[r |-> 2, c |-> 2, e |-> <<<<2, 1>>, <<0, 0>>>>]>>,l |-> 81,out |-> "raise:ZeroDivisionException"]),
    ([last |-> [n |-> 80, op |-> "Inv", required |-> "zero", resok |-> TRUE],fac |-> <<[r |-> 2, c |-> 2, e |-> <<<<2, 1>>, <<0, 0>>>>]>>,l |-> 82,out |-> "raise:ZeroDivisionException"]),
    ([last |-> [n |-> 81, op |-> "Factor", required |-> "ok", resok |-> TRUE],fac |-> <<[r |-> 2, c |-> 2, e |-> <<<<-2, 2>>, <<0, 0>>>>]>>,l |-> 83,out |-> "ok"]),
    ([last |-> [n |-> 82, op |-> "Inspect", required |-> "ok", resok |-> TRUE],fac |-> <<[r |-> 2, c |-> 2, e |-> <<<<-2, 2>>, <<0, 0>>>>]>>,l |-> 84,out |-> "ok"]),
    ([last |-> [n |-> 83, op |-> "Solve", required |-> "zero", resok |-> TRUE],fac |-> <<[r |-> 2, c |-> 2, e |-> <<<<-2, 2>>, <<0, 0>>>>]>>,l |-> 85,out |-> "raise:ZeroDivisionException"]),
    ([last |-> [n |-> 84, op |-> "Inv", required |-> "zero", resok |-> TRUE],fac |-> <<[r |-> 2, c |-> 2, e |-> <<<<-2, 2>>, <<0, 0>>>>]>>,l |-> 86,out |-> "raise:ZeroDivisionException"]),
    ([last |-> [n |-> 85, op |-> "Factor", required |-> "ok", resok |-> TRUE],fac |-> <<[r |-> 2, c |-> 2, e |-> <<<<-1, 2>>, <<0, 0>>>>]>>,l |-> 87,out |-> "ok"]),
    ([last |-> [n |-> 86, op |-> "Inspect", required |-> "ok", resok |-> TRUE],fac |-> <<[r |-> 2, c |-> 2, e |-> <<<<-1, 2>>, <<0, 0>>>>]>>,l |-> 88,out |-> "ok"]),
    ([last |-> [n |-> 87, op |-> "Solve", required |-> "zero", resok |-> TRUE],fac |-> <<[r |-> 2, c |-> 2, e |-> <<<<-1, 2>>, <<0, 0>>>>]>>,l |-> 89,out |-> "raise:ZeroDivisionException"]),
    ([last |-> [n |-> 88, op |-> "Inv", required |-> "zero", resok |-> TRUE],fac |-> <<[r |-> 2, c |-> 2, e |-> <<<<-1, 2>>, <<0, 0>>>>]>>,l |-> 90,out |-> "raise:ZeroDivisionException"]),
    ([last |-> [n |-> 89, op |-> "Factor", required |-> "ok", resok |-> TRUE],fac |-> <<[r |-> 2, c |-> 2, e |-> <<<<0, 2>>, <<0, 0>>>>]>>,l |-> 91,out |-> "ok"]),
    ([last |-> [n |-> 90, op |-> "Inspect", required |-> "ok", resok |-> TRUE],fac |-> <<[r |-> 2, c |-> 2, e |-> <<<<0, 2>>, <<0, 0>>>>]>>,l |-> 92,out |-> "ok"]),
    ([last |-> [n |-> 91, op |-> "Solve", required |-> "zero", resok |-> TRUE],fac |-> <<[r |-> 2, c |-> 2, e |-> <<<<0, 2>>, <<0, 0>>>>]>>,l |-> 93,out |-> "raise:ZeroDivisionException"]),
    ([last |-> [n |-> 92, op |-> "Inv", required |-> "zero", resok |-> TRUE],fac |-> <<[r |-> 2, c |-> 2, e |-> <<<<0, 2>>, <<0, 0>>>>]>>,l |-> 94,out |-> "raise:ZeroDivisionException"]),
    ([last |-> [n |-> 93, op |-> "Factor", required |-> "ok", resok |-> TRUE],fac |-> <<[r |-> 2, c |-> 2, e |-> <<<<1, 2>>, <<0, 0>>>>]>>,l |-> 95,out |-> "ok"]),
    ([last |-> [n |-> 94, op |-> "Inspect", required |-> "ok", resok |-> TRUE],fac |-> <<[r |-> 2, c |-> 2, e |-> <<<<1, 2>>, <<0, 0>>>>]>>,l |-> 96,out |-> "ok"]),
    ([last |-> [n |-> 95, op |-> "Solve", required |-> "zero", resok |-> TRUE],fac |-> <<[r |-> 2, c |-> 2, e |-> <<<<1, 2>>, <<0, 0>>>>]>>,l |-> 97,out |-> "raise:ZeroDivisionException"]),
    ([last |-> [n |-> 96, op |-> "Inv", required |-> "zero", resok |-> TRUE],fac |-> <<[r |-> 2, c |-> 2, e |-> <<<<1, 2>>, <<0, 0>>>>]>>,l |-> 98,out |-> "raise:ZeroDivisionException"]),
    ([last |-> [n |-> 97, op |-> "Factor", required |-> "ok", resok |-> TRUE],fac |-> <<[r |-> 2, c |-> 2, e |-> <<<<2, 2>>, <<0, 0>>>>]>>,l |-> 99,out |-> "ok"]),
    ([last |-> [n |-> 98, op |-> "Inspect", required |-> "ok", resok |-> TRUE],fac |-> <<[r |-> 2, c |-> 2, e |-> <<<<2, 2>>, <<0, 0>>>>]>>,l |-> 100,out |-> "ok"]),
    ([last |-> [n |-> 99, op |-> "Solve", required |-> "zero", resok |-> TRUE],fac |-> <<[r |-> 2, c |-> 2, e |-> <<<<2, 2>>, <<0, 0>>>>]>>,l |-> 101,out |-> "raise:ZeroDivisionException"]),
    ([last |-> [n |-> 100, op |-> "Inv", required |-> "zero", resok |-> TRUE],fac |-> <<[r |-> 2, c |-> 2, e |-> <<<<2, 2>>, <<0, 0>>>>]>>,l |-> 102,out |-> "raise:ZeroDivisionException"]),
    ([last |-> [n |-> 0, op |-> "none", required |-> "any", resok |-> TRUE],fac |-> <<>>,l |-> 103,out |-> "ok"]),
    ([last |-> [n |-> 1, op |-> "Factor", required |-> "ok", resok |-> TRUE],fac |-> <<[r |-> 2, c |-> 2, e |-> <<<<-2, -2>>, <<1, 0>>>>]>>,l |-> 104,out |-> "ok"]),
    ([last |-> [n |-> 2, op |-> "Inspect", required |-> "ok", resok |-> TRUE],fac |-> <<[r |-> 2, c |-> 2, e |-> <<<<-2, -2>>, <<1, 0>>>>]>>,l |-> 105,out |-> "ok"]),
    ([last |-> [n |-> 3, op |-> "Solve", required |-> "ok", resok |-> TRUE],fac |-> <<[r |-> 2, c |-> 2, e |-> <<<<-2, -2>>, <<1, 0>>>>]>>,l |-> 106,out |-> "ok"]),
    ([last |-> [n |-> 4, op |-> "Inv", required |-> "ok", resok |-> TRUE],fac |-> <<[r |-> 2, c |-> 2, e |-> <<<<-2, -2>>, <<1, 0>>>>]>>,l |-> 107,out |-> "ok"]),
    ([last |-> [n |-> 5, op |-> "Factor", required |-> "ok", resok |-> TRUE],fac |-> <<[r |-> 2, c |-> 2, e |-> <<<<-1, -2>>, <<1, 0>>>>]>>,l |-> 108,out |-> "ok"]),
    ([last |-> [n |-> 6, op |-> "Inspect", required |-> "ok", resok |-> TRUE],fac |-> <<[r |-> 2, c |-> 2, e |-> <<<<-1, -2>>, <<1, 0>>>>]>>,l |-> 109,out |-> "ok"]),
    ([last |-> [n |-> 7, op |-> "Solve", required |-> "ok", resok |-> TRUE],fac |-> <<[r |-> 2, c |-> 2, e |-> <<<<-1, -2>>, <<1, 0>>>>]>>,l |-> 110,out |-> "ok"]),
    ([last |-> [n |-> 8, op |-> "Inv", required |-> "ok", resok |-> TRUE],fac |-> <<[r |-> 2, c |-> 2, e |-> <<<<-1, -2>>, <<1, 0>>>>]>>,l |-> 111,out |-> "ok"]),
    ([last |-> [n |-> 9, op |-> "Factor", required |-> "ok", resok |-> TRUE],fac |-> <<[r |-> 2, c |-> 2, e |-> <<<<0, -2>>, <<1, 0>>>>]>>,l |-> 112,out |-> "ok"]),
    ([last |-> [n |-> 10, op |-> "Inspect", required |-> "ok", resok |-> FALSE],fac |-> <<[r |-> 2, c |-> 2, e |-> <<<<0, -2>>, <<1, 0>>>>]>>,l |-> 113,out |-> "ok"])
    >>
----


=============================================================================

---- CONFIG LuIntTrace_TTrace_1790493731 ----
CONSTANTS
    Objs = { }
    NMax = 0
    EMax = 0
    MaxCalls = 1000000000

INVARIANT
    _inv

CHECK_DEADLOCK
    \* CHECK_DEADLOCK off because of PROPERTY or INVARIANT above.
    FALSE

INIT
    _init

NEXT
    _next

CONSTANT
    _TETrace <- _trace

ALIAS
    _expression
=============================================================================
\* Generated on Sun Sep 27 07:22:13 UTC 2026