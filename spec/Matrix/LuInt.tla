--------------------------------- MODULE LuInt ---------------------------------
\* C05 - LU factorisation objects, solve, inverse and determinant on integer
\* matrices (src/Bpp/Numeric/Matrix/LUDecomposition.h, MatrixTools::inv / det).
\*
\* Definitions (exact integer arithmetic): Det by Laplace expansion with a
\* table over column subsets, DetPerm by permutation expansion, Parity of a
\* pivot vector, row permutation, the solve equation A . Xs = d . B with
\* Xs = d . X and d = Det(A) (so that everything stays an integer).
\*
\* Design model: state fac[o] = matrix factorised by object o; one action per
\* public call; the "algorithm" side is fraction-free Gaussian elimination with
\* partial pivoting (pivot vector, sign, determinant) and the adjugate for
\* solve; the ghost `last` holds what the definitions require of the call
\* (outcome class and equations) and the invariants compare.  The trace
\* specification LuIntTrace feeds the same ghost with the implementation's
\* answers.
EXTENDS MatDefs

CONSTANTS Objs,      \* factorisation objects of the design model
          NMax,      \* design model: matrices are n x n, n in 1..NMax
          EMax,      \* design model: entries in -EMax..EMax
          MaxCalls   \* design model: length of the explored histories

VARIABLES fac, out, last
vars == <<fac, out, last>>

\* ---------------------------------------------------------------- definitions
Sgn(x) == IF x > 0 THEN 1 ELSE IF x < 0 THEN -1 ELSE 0
Abs(x) == IF x < 0 THEN 0 - x ELSE x

\* Laplace expansion along the first remaining row; T[S] = determinant of rows k..n restricted to the columns S
RECURSIVE DetDP(_, _, _)
DetDP(A, k, nxt) ==
  IF k = 0 THEN nxt[1..A.r]
  ELSE DetDP(A, k - 1,
             TLCEval([S \in {T \in SUBSET (1..A.r) : Cardinality(T) = A.r - k + 1} |->
                        SumTo([j \in 1..A.r |->
                                 IF j \in S
                                 THEN (IF Cardinality({t \in S : t < j}) % 2 = 0 THEN 1 ELSE -1) * A.e[k][j] * nxt[S \ {j}]
                                 ELSE 0], A.r)]))
Det(A) == IF A.r = 0 THEN 1 ELSE DetDP(A, A.r, [S \in {{}} |-> 1])

\* the same by the Leibniz formula (lemmas only)
PermsOf(n) == {p \in [1..n -> 1..n] : \A i, j \in 1..n : i # j => p[i] # p[j]}
Inversions(p, n) == Cardinality({ij \in (1..n) \X (1..n) : ij[1] < ij[2] /\ p[ij[1]] > p[ij[2]]})
SignOf(p, n) == IF Inversions(p, n) % 2 = 0 THEN 1 ELSE -1
RECURSIVE ProdTo(_, _)
ProdTo(f, n) == IF n = 0 THEN 1 ELSE f[n] * ProdTo(f, n - 1)
DetPerm(A) == LET n == A.r
                  Term(p) == SignOf(p, n) * ProdTo([i \in 1..n |-> A.e[i][p[i]]], n)
                  RECURSIVE Acc(_)
                  Acc(S) == IF S = {} THEN 0 ELSE LET p == CHOOSE q \in S : TRUE IN Term(p) + Acc(S \ {p})
              IN Acc(PermsOf(n))

\* pivot vectors hold 0-based row indices, as getPivot() returns them
IsPerm0(s, n) == DOMAIN s = 1..n /\ {s[i] : i \in 1..n} = 0..(n - 1)
Parity(s) == SignOf(s, Len(s))
PermuteRows(A, s) == Mk(A.r, A.c, LAMBDA i, j : A.e[s[i] + 1][j])               \* A(piv,:)

Minor(A, r, c) == Mk(A.r - 1, A.c - 1, LAMBDA i, j : A.e[IF i < r THEN i ELSE i + 1][IF j < c THEN j ELSE j + 1])
Adj(A) == Mk(A.r, A.r, LAMBDA i, j : (IF (i + j) % 2 = 0 THEN 1 ELSE -1) * Det(Minor(A, j, i)))

\* X solves A.X = B  <=>  A . (d.X) = d . B
SolvedExactly(A, B, Xs, d) == Xs.r = A.c /\ Xs.c = B.c /\ Mul(A, Xs) = ScaleM(B, d, 0)

\* code -> what the property demands of solve / inverse
Required(A, B, smallPivot) ==
  IF B.r # A.r THEN "refuse"                                   \* wrong height: refused, whatever the class
  ELSE IF Det(A) = 0 \/ smallPivot THEN "zero"                 \* singular (or below the threshold): ZeroDivisionException
  ELSE "ok"

\* ---------------------------------------------------------------- ghost and invariants
NoLast == [op |-> "none", required |-> "any", resok |-> TRUE, n |-> 0]

LStep(op, required, outcome, resok) ==
  /\ last.n < MaxCalls
  /\ out' = outcome
  /\ last' = [op |-> op, required |-> required, resok |-> resok, n |-> last.n + 1]

OutcomeAsRequired ==
  /\ last.required = "ok" => out = "ok"
  /\ last.required = "zero" => out = "raise:ZeroDivisionException"
  /\ last.required = "refuse" => out # "ok"
ResultsMeetEquations == last.resok
FactoredSquare == \A o \in DOMAIN fac : WF(fac[o]) /\ IsSquare(fac[o]) /\ fac[o].r >= 1

\* ---------------------------------------------------------------- algorithm: fraction-free elimination with partial pivoting
\* state of the elimination before step k: M (rows already swapped), piv, sign, prev (previous pivot), rank deficiency seen
RECURSIVE Elim(_, _, _, _, _, _)
Elim(M, k, piv, sign, prev, zero) ==
  LET n == M.r IN
  IF k > n THEN [piv |-> piv, sign |-> sign, det |-> IF zero THEN 0 ELSE sign * prev, M |-> M]
  ELSE
    LET \* first row with the largest magnitude in column k (the code replaces p only on a strictly larger value)
        best == CHOOSE p \in k..n : /\ \A i \in k..n : Abs(M.e[i][k]) <= Abs(M.e[p][k])
                                    /\ \A i \in k..(p - 1) : Abs(M.e[i][k]) < Abs(M.e[p][k])
        Sw(i) == IF i = k THEN best ELSE IF i = best THEN k ELSE i
        M1   == Mk(n, n, LAMBDA i, j : M.e[Sw(i)][j])
        piv1 == [i \in 1..n |-> piv[Sw(i)]]
        sg1  == IF best = k THEN sign ELSE 0 - sign
        pv   == M1.e[k][k]
    IN IF pv = 0 THEN Elim(M1, k + 1, piv1, sg1, prev, TRUE)
       ELSE Elim(Mk(n, n, LAMBDA i, j : IF i > k /\ j > k THEN (pv * M1.e[i][j] - M1.e[i][k] * M1.e[k][j]) \div prev
                                       ELSE IF i > k /\ j = k THEN 0 ELSE M1.e[i][j]),
                 k + 1, piv1, sg1, pv, zero)
AlgoLU(A) == Elim(A, 1, [i \in 1..A.r |-> i - 1], 1, 1, FALSE)

\* ---------------------------------------------------------------- actions of the design model
Put(f, o, v) == [x \in DOMAIN f \cup {o} |-> IF x = o THEN v ELSE f[x]]
Squares == UNION {{[r |-> n, c |-> n, e |-> e] : e \in [1..n -> [1..n -> (0 - EMax)..EMax]]} : n \in 1..NMax}
Rhs(n) == {Id(n), Mk(n, 2, LAMBDA i, j : i + j - 2), Mk(n + 1, 1, LAMBDA i, j : 1), Mk(n, 1, LAMBDA i, j : IF i = 1 THEN 1 ELSE -2)}

DFactor(o) == o \notin DOMAIN fac /\ \E A \in Squares : fac' = Put(fac, o, A) /\ LStep("Factor", "ok", "ok", TRUE)

\* copy construction / assignment of a factorisation object: the target answers for the source's matrix from now on
DCopy(o) == o \in DOMAIN fac /\ \E o2 \in Objs \ {o} : fac' = Put(fac, o2, fac[o]) /\ LStep("Copy", "ok", "ok", TRUE)

DInspect(o) ==
  o \in DOMAIN fac /\
  LET A == fac[o] R == AlgoLU(A) IN
  /\ UNCHANGED fac
  /\ LStep("Inspect", "ok", "ok",
           /\ IsPerm0(R.piv, A.r) /\ R.sign = Parity(R.piv)
           /\ R.det = Det(A)
           /\ \A i \in 1..A.r, j \in 1..A.r : i > j => R.M.e[i][j] = 0)          \* what is left is upper triangular

DSolve(o) ==
  o \in DOMAIN fac /\
  LET A == fac[o] R == AlgoLU(A) IN
  \E B \in Rhs(A.r) :
    /\ UNCHANGED fac
    /\ IF B.r # A.r THEN LStep("Solve", Required(A, B, FALSE), "raise:BadIntegerException", TRUE)
       ELSE IF R.det = 0 THEN LStep("Solve", Required(A, B, FALSE), "raise:ZeroDivisionException", TRUE)
       ELSE LStep("Solve", Required(A, B, FALSE), "ok", SolvedExactly(A, B, Mul(Adj(A), B), R.det))

DDetLaws(o) ==
  o \in DOMAIN fac /\
  LET A == fac[o] IN
  /\ UNCHANGED fac
  /\ LStep("DetLaws", "ok", "ok",
           /\ AlgoLU(Transp(A)).det = AlgoLU(A).det
           /\ \A p \in DOMAIN fac : fac[p].r = A.r => AlgoLU(Mul(A, fac[p])).det = AlgoLU(A).det * AlgoLU(fac[p]).det)

Init == fac = <<>> /\ out = "ok" /\ last = NoLast
Next == \E o \in Objs : DFactor(o) \/ DCopy(o) \/ DInspect(o) \/ DSolve(o) \/ DDetLaws(o)
Spec == Init /\ [][Next]_vars
=============================================================================
